"""C01 — the emitted program reproduces the tracked position."""
import os, sys
sys.path.insert(0, os.path.dirname(os.path.abspath(__file__)))
from builder_check import *  # noqa

PID = "C01"


def oracle(dp, cmds, steps, upto):
    m = O.Machine()
    fails = []
    eps = Fraction(1, 2) / Fraction(10) ** dp
    slack = Fraction(1, 10 ** 9)
    for i, (c, s) in enumerate(zip(cmds, steps)):
        if upto is not None and i >= upto:
            break
        for raw in s["raw"]:
            toks = O.tokenize(raw)
            if toks is None:
                fails.append((i, "malformed line %r emitted by %r" % (raw, cmd_json(c)), "malformed"))
                return fails
            m.line(toks)
        sn = s["snap"]
        if (sn["dm"] == "relative") != m.rel:
            fails.append((i, "after %r the builder reports distance mode %s but the emitted program is in %s mode"
                          % (cmd_json(c), sn["dm"], "relative" if m.rel else "absolute"), "dmode"))
            return fails
        for k, a in enumerate("XYZ"):
            if m.pos[a] is None:
                continue
            p = sn["pos"][k]
            if p is None:
                continue   # the builder makes no claim about this axis
            if not isinstance(p, Fraction):
                fails.append((i, "builder reports non-finite %s=%r" % (a, p), "nonfinite"))
                return fails
            if abs(m.pos[a] - p) > (1 + m.rc[a]) * eps + slack * (1 + m.rc[a]):
                fails.append((i, "after %r the machine is at %s=%s (%d relative words since the last absolute one) but the "
                              "builder reports %s" % (cmd_json(c), a, float(m.pos[a]), m.rc[a], float(p)), "position"))
                return fails
    return fails


def gen_cases(run):
    n = 2500 if run.thorough else 260
    maxlen = 200 if run.thorough else 40
    cases = []
    for i in range(n):
        g = Gen(run.rng, W_MOTION, malformed=0.06, bounds=False)
        cases.append((run.rng.choice([0, 2, 5, 8]), g.history(run.rng.randint(6, maxlen))))
    return cases


def tracer_cases(run):
    r = run.rng
    n = 300 if run.thorough else 40
    out = []
    for i in range(n):
        dp = r.choice([2, 5, 8])
        cs = [("set_resolution", r.choice([Fraction(1, 2), Fraction(1, 4), Fraction(1)]))]
        if r.random() < 0.5:
            cs.append(("set_direction", r.choice(["cw", "ccw"])))
        cs.append(("move", "linear", {"x": Fraction(r.randint(-20, 20)), "y": Fraction(r.randint(-20, 20)), "z": Fraction(r.randint(-3, 3))}, []))
        for _ in range(r.randint(1, 4)):
            if r.random() < 0.4:
                cs.append(("set_distance", r.choice(["absolute", "relative"])))
            k = r.randrange(6)
            cx, cy = r.randint(-8, 8) or 3, r.randint(-8, 8)
            if k == 0:
                cs.append(("trace", "circle", [(cx, cy)], {}))
            elif k == 1:
                cs.append(("trace", "spiral", [(r.randint(-9, 9) or 2, r.randint(-9, 9), r.randint(-2, 2))], {"turns": r.randint(1, 2)}))
            elif k == 2:
                cs.append(("trace", "helix", [(r.randint(-9, 9) or 4, r.randint(-9, 9), r.randint(0, 3)), (cx, cy)], {"turns": r.randint(1, 2)}))
            elif k == 3:
                cs.append(("trace", "spline", [[(r.randint(-9, 9), r.randint(-9, 9) or 1), (r.randint(10, 15), r.randint(-9, 9), 1), (r.randint(-9, 9), 12)]], {}))
            elif k == 4:
                cs.append(("trace", "thread", [(r.randint(2, 9), r.randint(-9, 9), r.randint(1, 4))], {"pitch": 1}))
            else:
                cs.append(("trace", "arc_radius", [(r.randint(1, 6), r.randint(-6, 6))], {"radius": float(r.choice([10, -10, 25]))}))
            if r.random() < 0.3:
                cs.append(("set_axis", {"x": Fraction(r.randint(-5, 5))}, []))
            if r.random() < 0.3:
                cs.append(("move_abs", "rapid", {"z": Fraction(5)}, []))
        out.append((dp, cs))
    return out


CORPUS = [
    (5, [("enter_rel",), ("move", "linear", {"z": Fraction(-3, 2)}, []), ("move", "linear", {"z": Fraction(-3, 2)}, []),
         ("move", "linear", {"z": Fraction(-3, 2)}, []), ("exit_mode",), ("move", "linear", {"x": Fraction(1)}, [])]),
    (5, [("move", "linear", {"x": Fraction(12)}, []), ("enter_rel",), ("move_abs", "linear", {"y": Fraction(3)}, []),
         ("move", "linear", {"x": Fraction(1)}, []), ("exit_mode",), ("move", "linear", {"x": Fraction(20), "y": Fraction(20)}, [])]),
    (5, [("move", "linear", {"z": Fraction(1, 16384)}, []), ("move", "linear", {"z": Fraction(5, 65536)}, []), ("set_distance", "relative"),
         ("move", "linear", {"z": Fraction(1, 16384)}, []), ("move", "linear", {"x": Fraction(-1, 32768)}, [])]),
    (2, [("set_axis", {"x": Fraction(5)}, []), ("home", {"x": Fraction(0)}, []), ("move", "linear", {"y": Fraction(1)}, []),
         ("probe", "towards", {"z": Fraction(-5)}, []), ("set_distance", "relative"), ("move", "linear", {"z": Fraction(2)}, []),
         ("set_axis", {"z": Fraction(0)}, []), ("move", "rapid", {"z": Fraction(1, 4)}, [])]),
]

if __name__ == "__main__":
    run_builder_check(PID, gen_cases, oracle, fields=["pos", "spos", "dm", "sdm"], truncate_at_leak=True, after_leak_signature="after-C05-leak", corpus=CORPUS,
                      oracle_only_cases=tracer_cases,
                      rule="motion-heavy weighted grammar: moves/rapids (any subset of axes, dyadic coordinates k/2^j), "
                           "absolute-bypass moves, G92, homing, probing, distance-mode switches, nested "
                           "absolute_mode()/relative_mode() contexts, polylines; dp in {0,2,5,8}; plus oracle-only "
                           "histories with the real tracer shapes (circle, spiral, helix, spline, thread, arc_radius) in "
                           "both distance modes.",
                      theorem_names="C01_tracks (coq/props/C01.v)")
