"""Writes /verif/MANIFEST.json from the per-property table below (kept valid at all times)."""
import json, os
ROOT = os.path.dirname(os.path.dirname(os.path.abspath(__file__)))

ALL = ["C%02d" % i for i in range(1, 21)]

TB = ("Trusted: Coq 8.16.1 kernel + vm_compute (no native_compute); the hand-written Gallina model, tied to /repo "
      "on every run by the correspondence check (same generated cases run on the real Python objects and on the "
      "model evaluated inside Coq) and by tables regenerated from the live package (harness/gen_tables.py); the "
      "Python harness (generators, runner, projections, oracle). ")

CHECKS = {
    "C01": dict(
        text="C01_tracks: for every history over the builder API with no transform (moves, rapids, bypass moves, G92, "
             "homing, probing, mode switches, nested mode contexts left at any point, polylines of arbitrary "
             "vertices, interleaved with all other calls), every decimal_places and every prefix: the independent "
             "position machine fed the emitted lines is in the builder's distance mode and on every axis it knows, "
             "the builder reports a coordinate within n*10^-dp/2 of it, n = 1 + relative words since the last "
             "absolute set (induction over the history; per-axis rounding-error accounting from the proved bound "
             "|round(q)-q| <= 10^-dp/2; identity-transform algebra over Q). Correspondence on motion-heavy "
             "histories + oracle (incl. real tracer shapes in both modes).",
        note=TB + "Hypotheses: no call of the history is a C05 leak (clean_run; without axes bounds and with valid "
                  "F/S words there are none); parameter letters distinct, not G/M/T/X/Y/Z. Float rounding of "
                  "+,- not modelled (dyadic inputs make it exact in the correspondence). No axioms.",
        technique="Rocq invariant proof over all histories and prefixes + correspondence (vm_compute) + oracle",
        ref="§C01"),
    "C02": dict(
        text="C02_safe: for every history over the state-tracked API (any decimal_places, rejected calls and C05 leak "
             "sites included) the word-by-word scan of the emitted program never meets M3/M4 with the tool on, M7/M8 "
             "with coolant on, or M6 / a halt-wait word with either active (induction over the history with the "
             "invariant machine-on => builder-on). C02_raises_*: such a call raises ToolStateError/CoolantStateError "
             "from every state and changes nothing. C02_only_when: the converse, for every state and call. The "
             "instruction words come from the table regenerated from /repo. Correspondence: model vs GCodeBuilder on "
             "generated interlock-heavy histories (words, exception class, full public state after every call).",
        note=TB + "Hypothesis of C02_safe: free parameter letters of moves/halt are not 'M' (cmd_ok), raw write() "
                  "excluded. Modelled, not verified: CPython, typeguard, enum lookup. No axioms.",
        technique="Rocq invariant proof over all histories + model-vs-code correspondence (vm_compute) + oracle scan",
        ref="§C02"),
    "C03": dict(
        text="C03_words: for every history (bounds set or re-set at any point, both distance modes, hooks, rejected "
             "calls and C05 leak sites included) every bounded word of every emitted line -- F of motion/bare-F lines, "
             "S of motion/bare-S/tool-start lines, T of tool changes, S/R of bed/hotend/chamber commands -- is the "
             "dp-rounding of a value inside the range in force when the call started (induction over the history, "
             "case analysis over all 36 call kinds). C03_target_*: the target of a move/rapid, bypass move and probe, "
             "in builder coordinates, is inside the axes box, from every state. C03_rounded: hence within half a unit "
             "of the last place of the range (from the proved rounding-error bound). C03_nan: no non-finite value "
             "passes a bound. Correspondence + oracle on histories under random bound configurations with boundary "
             "values, hooks and tracer paths.",
        note=TB + "Hypotheses: parameter letters distinct and not G/M/T/X/Y/Z; halt() carries at most one of S/R; "
                  "bounds are finite numbers. Float rounding of +,- not modelled. No axioms.",
        technique="Rocq proof over all histories (36-way case analysis) + correspondence (vm_compute) + oracle",
        ref="§C03"),
    "C05": dict(
        text="The full statement is false of the faithful model and of the code (C05_refuted_* witnesses, replayed on "
             "the implementation, listed in known_findings.json). Proved instead, for every state and argument: "
             "C05_atomic -- every call kind outside an explicit list of eleven is atomic (state identical, nothing "
             "emitted, later behaviour identical); C05_frame_* -- for each of the eleven, exactly which fields may "
             "differ and that nothing (or only the G90/G91 pair) is emitted, plus conditions under which they are "
             "atomic. The check classifies every observed leak by site; listed sites print KNOWN-FINDING, any other "
             "leak is a VIOLATION.",
        note=TB + "Known findings: 13 leak sites (see known_findings.json), all rooted in commit-before-validate "
                  "ordering in gcode_core/gcode_builder/gcode_state. No axioms.",
        technique="Rocq proof of atomicity/frame per call kind + refutation witnesses + correspondence + snapshot oracle",
        ref="§C05"),
    "C06": dict(
        text="C06_tool_off/power_off/coolant_off/emergency_halt: from EVERY model state (not only reachable ones, "
             "hence under every bounds table) the four shutdown calls return normally, emit exactly M5 / M9 / "
             "M5,M9,comment,M0|M30 in that order and leave the flags off -- proved by computation on the model "
             "with the regenerated table. Correspondence + oracle on reachable states x bounds configurations "
             "including tool-power ranges that exclude zero.",
        note=TB + "Modelled, not verified: CPython, typeguard. No axioms.",
        technique="Rocq proof for all states + model-vs-code correspondence (vm_compute) + oracle",
        ref="§C06"),
    "C07": dict(
        text="C07_mirror: for every history over the whole builder API and every prefix, the modal reading of the "
             "emitted lines (tool start code and S power, coolant mode, T, F, G90/91, M82/83, G93-95, G20/21, "
             "G17-19, bed/hotend/chamber targets) is mirrored by the builder state: each field is either never "
             "mentioned and at its documented default (defaults regenerated from /repo) or equal to the dp-rounding "
             "of the state value (induction over the history, 36-way case analysis with explicit line-shape lemmas). "
             "Correspondence compares every public state property and get_parameter after every call; the oracle "
             "re-derives the modal state from the raw output independently.",
        note=TB + "Hypotheses: no C05 leak in the history (clean_run); parameter letters distinct and not "
                  "G/M/T/X/Y/Z; halt() with at most one of S/R. The remembered move parameters (get_parameter) are "
                  "covered by correspondence and oracle only, not by the theorem (partial there). No axioms.",
        technique="Rocq invariant proof over all histories and prefixes + correspondence (vm_compute) + oracle",
        ref="§C07"),
    "C08": dict(
        text="C08_number: for every finite non-zero binary floating-point value (any mantissa/exponent: subnormals, "
             "powers of two, beyond 1e15) and every decimal_places, the declarative model of numpy's Dragon4 call "
             "produces digits with at most dp fractional places whose value lies in the float's own rounding interval "
             "or -- only at the cut-off -- within half a unit of the dp-th place (case analysis on the low/high "
             "acceptance tests, generation loop proved total). C08_plain_decimal: the printed text is '-'? digits "
             "('.' digits)? and nothing else. C08_zero / C08_reject. The model is compared text-exactly with "
             "DefaultFormatter.number on thousands of structured doubles/float32/float16/ints per run; raw lines of "
             "every builder command x config go through an independent block grammar; parameters()/command() are "
             "exercised with numpy scalar types on axis and non-axis words.",
        note=TB + "numpy's Dragon4 itself is modelled (declaratively), not verified: the tie is the text-exact "
                  "correspondence. The line-level clauses are proved on the text model in props/C09.v and checked "
                  "on raw bytes by the harness grammar. No axioms.",
        technique="Rocq proof about a declarative Dragon4 model + text-exact correspondence (vm_compute) + value oracle",
        ref="§C08"),
    "C09": dict(
        text="C09_inert: for every byte string, every supported comment style (prefix symbols of 1-2 bytes; all "
             "bracketed styles of the table regenerated from /repo, incl. the two-byte '/*' '*/') and every entry "
             "point's statement shape, what an independent comment-stripping lexer leaves is the formatted words "
             "only -- independent of the text (proved via: Python str.replace leaves no occurrence of the pattern, "
             "blanks cannot splice one, the first closer after the opener is the real one). C09_lines: no CR/LF "
             "comes out of the comment. Correspondence: fmt_comment = DefaultFormatter.comment byte for byte; "
             "oracle: 12 entry points x 10 styles x adversarial texts compared with the innocuous text through the "
             "lexer, plus style switches on a live builder.",
        note=TB + "Hypothesis: the formatted words do not contain the first byte of the comment opener (letters, "
                  "digits, '.', '-' and blanks never do for the supported styles). The '{' style raises before "
                  "anything is emitted and is outside. No axioms.",
        technique="Rocq proof over all byte strings + byte-exact correspondence (vm_compute) + lexer oracle",
        ref="§C09"),
    "C14": dict(
        text="C14_delivery: for every history of add_writer/remove_writer/emitting calls/flush/teardown over any number "
             "and mix of writers, each writer's received sequence is exactly (bytes, order, once) the lines emitted while "
             "it was registered -- refinement of the writer-list model to a specification that tracks registration only "
             "(induction over the history, duplicate-free list invariant). C14_file_after_flush / C14_teardown: visible "
             "file content = concatenation of the lines of the current connection; teardown empties the list and "
             "disconnects every registered writer once. Correspondence on real temp files, BytesIO, StringIO, UTF-8 and "
             "latin-1 text file objects and recording writers; contents read back from disk.",
        note=TB + "Modelled, not verified: Python file objects and OS file semantics (flush/close visibility), "
                  "os.linesep. Writers that raise are outside the quantifier. A path file re-opened after teardown is "
                  "truncated ('wb+'): asserted by the project's own test, so content is per connection. No axioms.",
        technique="Rocq refinement proof over all histories + correspondence with real files/streams (vm_compute) + oracle",
        ref="§C14"),
    "C17": dict(
        text="Theorems C17_conservation, C17_lines_are_cut and its corollary C17_fragmentation_independent (two fragmentations of one stream give the same lines) (coq/props/C17.v) hold for every byte stream, every "
             "fragmentation into chunks of any size, every placement of read timeouts, after every number of "
             "readline() calls, by induction over the call sequence and the read loop; the model "
             "(coq/model/LineBuf.v) is compared with the real Device.readline() on generated scripts on every "
             "run, and an independent oracle states the property on the observed results.",
        note=TB + "Modelled, not verified: CPython bytes/list semantics, the socket file object and selector "
                  "(replaced by scripted fakes of the external modules). Theorems are closed under the global "
                  "context (no axioms).",
        technique="Rocq proof by induction over reads/calls + model-vs-code correspondence (vm_compute) + oracle",
        ref="§C17"),
    "C18": dict(
        text="C18_scan: for every report built from KEY:v1,v2,.. fields and inert text (any number, order, values) the "
             "hand scanner that models the regular expression returns exactly the fields, in order (print/scan "
             "round-trip by induction over the field list). C18_readings: after any report, the reading of every "
             "letter is the first value reported for it -- directly, via FS (Grbl) or via MPos/WPos/PRB fan-out -- "
             "and the old reading otherwise (first-occurrence invariant over the elementary updates). Correspondence: "
             "model vs the real PrintrunWriter receive callback on generated Marlin/Grbl/probe/noise sequences, "
             "get_parameter compared for 12 letters after every line; oracle from the generator's own field structure.",
        note=TB + "Modelled, not verified: Python's re engine (hand scanner; tied by correspondence incl. a malformed "
                  "stream) and float() (decimal parser). Lower/mixed-case duplicate keys and '+' signs are outside the "
                  "families. No axioms.",
        technique="Rocq print/scan round-trip + first-occurrence invariant + correspondence (vm_compute) + oracle",
        ref="§C18"),
    "C13": dict(
        text="C13_lifo (restore after save and any well-bracketed activity returns the saved transform and stack), "
             "C13_named_immutable (restoring a name yields the saved value whatever happened in between, except "
             "re-saving/deleting that name), C13_current/named_transform_restores (exit puts back the entry transform and "
             "stack for every body incl. bodies that pop outer stack entries and nested contexts), C13_reverse "
             "(reverse(apply p) = p in every reachable state: all reachable transforms invertible, by multiplicativity "
             "of det over translate/scale!=0/rotate(c^2+s^2=1)/reflect(n!=0); inverse by adjugate proved with field), "
             "C13_pivot_fixed. Correspondence: op sequences with nested contexts and raising bodies, probe points through "
             "apply/reverse; oracle: independent immutable-snapshot 4x4 float model.",
        note=TB + "Exact rational arithmetic in the model; rotations enter as (cos, sin) rounded to 32 fractional bits in "
                  "the correspondence (tolerance 1e-7). Modelled, not verified: scipy.linalg.inv, Rotation.from_rotvec, "
                  "copy.deepcopy (aliasing is judged by correspondence + oracle). delete_state does not strip names "
                  "(names are generated without blanks). No axioms.",
        technique="Rocq proofs (induction over bracketed op lists, field/ring algebra) + correspondence (vm_compute) + oracle",
        ref="§C13"),
    "C04": dict(
        text="C04_words: for every affine transform, tracked position, request (any subset of axes) and distance mode, "
             "each mentioned axis carries the image of the target (absolute) or the image of the target minus the image "
             "of the current position (relative; C04_relative_is_linear: the linear image of the displacement), and each "
             "axis not mentioned was not requested and has equal images -- every axis that has to change is mentioned. "
             "C04_machine: a machine at transform(tracked) is at transform(new tracked) after the emitted move; C04_history: hence after every move of every sequence of requests under a fixed transform. "
             "Correspondence: the implementation's own matrix (read through apply_transform) is handed to the model, "
             "words compared within one unit of the last place; oracle: machine == transform(position) after every move "
             "for random compositions (pivots, contexts entered/left mid-history), partial-axis moves, rapids, probes, "
             "polylines in both modes.",
        note=TB + "Per-move theorems over exact rationals (the rounding clause is C01's error accounting); float "
                  "arithmetic of matrix @ vector is not modelled (tolerance one unit of dp). Which of two numerically "
                  "equal images differ by float noise (so whether an unchanged axis is mentioned) is not compared. "
                  "Composition of transforms is C13's model. No axioms.",
        technique="Rocq proof for all affine maps + tolerant correspondence (vm_compute) + end-to-end oracle",
        ref="§C04"),
    "C20": dict(
        text="C20_called_once: every linear move (move, move_absolute, each interpolated segment -- all go through "
             "do_move) calls each registered hook exactly once, in registration order, with the resolved position before "
             "the move and the absolute target of the move; rapids call none. C20_true_target: with no transform that "
             "target is the tracked position after the move in either distance mode. C20_params_remembered. "
             "C20_extrusion / C20_length: the bundled hook commands (nozzle*layer/cross-section) x XY length (square root "
             "correct to 2^-60), per move in relative extrusion mode, added to the remembered E in absolute mode. "
             "Correspondence: hook arguments compared exactly, E words within one unit of dp; oracle recomputes call "
             "counts/order/arguments and E amounts from the output.",
        note=TB + "Quantifier has no transforms (under a transform the hook receives the transformed move vector as "
                  "target: read in the code, outside the statement). math.hypot/pi as floats are modelled (exact Q with "
                  "a 2^-60 square root; pi enters through the float cross-section). No axioms.",
        technique="Rocq proofs about do_move/run_hooks + correspondence (vm_compute) + oracle",
        ref="§C20"),
    "C11": dict(
        text="C11_same_target (a request as absolute coordinates in absolute mode and as offsets in relative mode "
             "normalise to the same absolute target on every axis, for every tracked position and partial request), "
             "C11_same_origin (origin and relative centre identical: any shape function sees identical absolute arguments "
             "-- shape-agnostic), C11_vertex_reached (each absolute vertex converted to the current mode and moved to is "
             "reached in either mode); with C01_tracks the machine traces agree up to word rounding. The check runs each "
             "logical toolpath (moves, rapids, bypass moves, nested mode blocks, all nine tracer shapes incl. parametric "
             "user curves) twice on the implementation and compares the machine vertices one by one.",
        note=TB + "Exact rational arithmetic (float rounding of p + (t - p) not modelled; tolerance in the comparison). "
                  "No axioms.",
        technique="Rocq proofs (mode independence of normalisation and emission) + two-run differential oracle on the code",
        ref="§C11"),
    "C12": dict(
        text="PARTIAL. Proved for every list of sample distances (hence every shape) in the exact-rational model of "
             "parametric()/_filter_segments: C12_filter (no emitted segment travels more than 0.9 res + largest sample spacing; "
             "every emitted segment but the first and last travels more than 0.9 res; lengths add up to the sampled path), "
             "C12_filter_robust (the same bounds with delta of slack for every run whose comparisons are only correct up to an accumulated error delta: covers binary64 rounding in the filter), C12_keeps_last, C12_count (count between T/(0.9res+dmax) and T/(0.9res)+1), C12_sampling (sample step between "
             "res/10 and res/9 of length when L >= res), C12_const_speed (no segment longer than 91/90 res for samples at most "
             "L/n apart), C12_halving (halving never yields fewer segments whenever the finer sampled polyline satisfies "
             "T1(0.45res+dmax2) < 0.9res T2); over R: C12_chord (an arc of length s <= 2r has chord in [s(1 - s^2/24r^2), s]) and "
             "C12_sagitta (chord error <= s^2/8r). Tie: filter and sample count exercised through the public trace.parametric on dyadic "
             "curves and compared with the model evaluated in Coq; the property's bounds checked on real arcs / arc_radius / "
             "circles / constant-radius helices / threads over four decades of L/res, both unit systems, with halving chains for "
             "every shape.",
        note=TB + "Partial: binary64 rounding in the filter is not modelled (exact on the correspondence inputs, 1e-7 margins "
                  "in the shape oracle); 'length' is travelled length along the samples, related to chord length by the oracle's "
                  "geometry for helices (C12_chord / C12_sagitta are for circles); the hypothesis of C12_halving is not proved for "
                  "splines/spirals (oracle search only). Axioms: none for the filter theorems; C12_chord / C12_sagitta depend on "
                  "the standard library's real-number axioms (ClassicalDedekindReals.sig_not_dec, sig_forall_dec, "
                  "FunctionalExtensionality.functional_extensionality_dep, Classical_Prop.classic).",
        technique="Rocq proofs over Q (induction on the sample list, lra/nra) + correspondence (vm_compute) + geometric oracle on the code",
        ref="§C12"),
    "C10": dict(
        text="PARTIAL. Proved over the reals for the closed-form shapes of geometry/tracer.py at every parameter: C10_arc_start, "
             "C10_arc_end (end point misses the target by exactly the difference of the radii) / C10_arc_end_exact, "
             "C10_arc_const_radius, C10_arc_sweep (monotone in the selected direction, sweep in (0, 2pi], congruent to the angle "
             "start->target), C10_arc_z_linear, C10_circle_full_turn, C10_arcR_equidistant and C10_arcR_minor_major (sign of the "
             "radius selects minor/major arc in either direction), C10_helix_ends / _radius (linear) / _turns / _monotone, "
             "C10_spiral_radius, C10_thread_radius (constant), C10_vertex_exact (polyline vertices, exact rationals), "
             "C10_spline_controls (the interpolant is built on origin + the given points in order, only immediate repetitions merged). Tie: for every "
             "generated closed-form request, emitted vertices of the real tracer are placed on the curve of model/TracerR.v by "
             "kernel-checked interval arithmetic (1e-9 relative); independent binary64 oracle for start/contiguity/on-curve/"
             "monotone/sweep/turns/z/end; spline: oracle only (within one resolution of every control point, in order).",
        note=TB + "Partial: scipy CubicSpline not modelled (oracle search only); binary64 evaluation of cos/sin/arctan2/hypot tied "
                  "by certified samples, not proved. Axioms (standard library reals, reported by Print Assumptions): "
                  "ClassicalDedekindReals.sig_not_dec, ClassicalDedekindReals.sig_forall_dec, "
                  "FunctionalExtensionality.functional_extensionality_dep, Classical_Prop.classic. The Interval tactic is used only "
                  "in the per-run correspondence files, its results are kernel-checked.",
        technique="Rocq proofs over R (atan2 from atan, polar lemma, periodicity) + interval-certified correspondence samples + geometric oracle on the code",
        ref="§C10"),
    "C19": dict(
        text="PARTIAL. Proved for gscrib's own logic: C19_filter (sample_path's filter starts at the first sample, ends at the last, "
             "in-order selection), C19_drop_rule (a sample is dropped exactly when its height differs from the previously kept one by "
             "less than the tolerance), C19_sparse_line (linspace samples: exact ends, on the segment at i/n, own height), "
             "C19_raster_line (Bresenham model of skimage.draw.line: max(|dr|,|dc|)+1 pixels, exact ends, one major-axis step per "
             "pixel, within half a pixel of the ideal line), C19_raster_outside / _pixel_centre (range test, (y,x) order, scale; "
             "pixel-centre exactness under the hypothesis that the spline reproduces the grid), C19_sparse_range / _vertex "
             "(barycentric interpolation on a given triangulation: [min,max] inside, 0 outside, stored height at a vertex), "
             "C19_sparse_point / _affine / _vertex_b / _vertex_c (the weights are the barycentric coordinates of the query point, so the "
             "value is the height there of the plane through the triangle's stored vertices; plane-shaped data is reproduced exactly; "
             "all three vertices return their stored height), C19_sparse_unique (barycentric coordinates are unique, so the value is independent "
             "of vertex order), C19_sparse_scaled_range ([scale*min, scale*max] or 0 for every positive scale), "
             "C19_raster_path / C19_sparse_path (sample_path as a whole: ends, in-order selection, own height everywhere). Tie: "
             "draw_line == skimage.draw.line and py_round == round exactly, raster_depth / sparse_depth (scipy's simplices) / linspace "
             "within 1e-9, filter_points == sample_path output exactly; oracle on real maps for every clause of the statement, plus plane-shaped point sets that must be reproduced inside the hull by any triangulation.",
        note=TB + "Partial: scipy RectBivariateSpline and Delaunay/LinearNDInterpolator are hypotheses/inputs of the theorems "
                  "(checked on the code by the oracle at every pixel centre / data point / hull query), float32 height storage "
                  "(1e-6 relative at pixel centres); from_path (OpenCV / loadtxt) not exercised. No axioms.",
        technique="Rocq proofs (induction on sample lists, Bresenham loop invariant over Z, lra/nia) + correspondence (vm_compute) + oracle on the code",
        ref="§C19"),
    "C15": dict(
        text="PARTIAL. model/Sender.v = printcore's stop-and-wait sender x Marlin-style firmware x FIFO channels; runs = all "
             "interleavings of print thread, firmware and read thread, with an arbitrary good/corrupted flag on every transmission. "
             "Proved: C15_safety and C15_safety_racy (the latter with clear/resendfrom overwritten arbitrarily at any moment: all races on the unlocked shared variables) (accepted log always a contiguous in-order duplicate-free slice of the job's commands, a prefix when the "
             "reset got through), C15_numbering (line numbers = commands sent, stored lines and good frames carry (k, command k)), "
             "C15_resend (a resend request restarts transmission at the requested stored line), C15_window (wire + replies + clear flag <= 1 + rejections), C15_complete_unless_late_resend (reset through, ANY "
             "corruption pattern and interleaving: at quiescence the whole job is accepted unless a Resend was read after the print thread "
             "stopped -- the only way to lose lines), C15_complete_clean (clean link, any "
             "latency: at quiescence the whole job is accepted), C15_xor_detects_single, C15_frame_roundtrip (the firmware reads back "
             "(k, command, checksum ok) from frame_bytes k command, for every k and command text). Completeness under corruption is REFUTED for "
             "the faithful model: C15_refuted_tail, C15_refuted_m110 = the two recorded findings. Tie: the real printcore streams "
             "jobs to a fake serial firmware; every observed wire trace must be a run of the model (check_trace in Coq) with the same "
             "accepted log; frame_bytes == wire bytes; oracle: frames well-formed, job accepted exactly once in order.",
        note=TB + "Partial: one _sendnext call / one _listen line are atomic steps (races on the unlocked clear/resendfrom not "
                  "modelled); pyserial, scheduling and timeouts not modelled; the firmware is the harness's fake (same rules as "
                  "fw_react); unconditional completeness is false (two refuted witnesses = the known findings). Known findings (known_findings.json): lost first line when the "
                  "M110 reset is corrupted on a firmware expecting N1; lost tail after a surplus ok. No axioms.",
        technique="Rocq proofs (inductive invariants of a transition system, all interleavings and corruption patterns) + trace-acceptance correspondence (vm_compute) against the real threads + oracle",
        ref="§C15"),
    "C16": dict(
        text="PARTIAL. model/Direct.v = write() (clear ack, enqueue, wait, re-raise) x printcore queue/sender thread x FIFO device x "
             "reader callback; runs = all interleavings. Proved: C16_order (device receive log ++ queue == statements written, call "
             "order, exactly once, for every device behaviour), C16_sync + C16_return_after_own_ack + C16_readings_available (from a quiescent start, any latency, unsolicited error lines handled between statements, "
             "any unsolicited status lines, error replies anywhere: write() completes only after the terminator of its own statement was "
             "handled; whenever no write is in progress everything is sent and acknowledged = what disconnect(wait) waits for), "
             "C16_error_surfaces / C16_raises_only_on_error (an error/alarm/!! line makes the next completing write raise; no raise "
             "without one). Synchrony without quiescence is REFUTED (C16_refuted_stale_ok = recorded finding) and quantified: C16_sync_stale (k acknowledgements "
             "outstanding at the start: at most k statements early). Tie: real PrintrunWriter + "
             "printcore threads over a fake FIFO serial device; each loss-free trace must be a run of the model (check_trace in Coq); "
             "oracle with tagged acknowledgements for order / return-after-own-ack / errors / readings / connection loss.",
        note=TB + "Partial: atomic steps (threading.Event/Queue, scheduler, timeouts not modelled); synchrony needs a quiescent "
                  "start and no unsolicited error line handled during a wait (C16_refuted_alarm_during_wait); statements abstract (strip/encode tied by correspondence); "
                  "socket mode shares the writer code and is not run separately. Known finding (known_findings.json): stale ok "
                  "of the trailing M110 (the non-ASCII hang was repaired: fix 5f6969b). No axioms.",
        technique="Rocq proofs (inductive invariants over all interleavings of a 4-party transition system) + trace-acceptance correspondence (vm_compute) against the real threads + oracle",
        ref="§C16"),
}

PENDING_REASON = "check not built yet in this session (work in progress; see DESIGN.md §10 for the order)"


# theorems added after the first complete version: appended to the texts above
ADDED = {
    "C07": " C07_params / C07_params_step / C07_params_frame: for every letter other than G/M/T/X/Y/Z and every history and prefix, "
           "get_parameter(letter) -- rounded as a line carries it -- is the word of that letter on the last emitted G0/G1/G38.x/G92/G28 line "
           "that has one (values set or removed by move hooks included); every other call kind leaves the remembered parameters alone even "
           "when rejected half-way. The Coq reference interpreters and the Python oracle must read the emitted programs alike.",
    "C01": " The Coq position interpreter and the Python oracle must read the programs the implementation emitted alike (per run).",
    "C02": " The Coq interlock scan and the Python oracle must read the programs the implementation emitted alike (per run).",
    "C08": " C08_block / C08_number_is_plain: model of DefaultFormatter.command / parameters (instruction, then label+number words "
           "separated by single spaces; a rejected value writes nothing); an independent reader gets back exactly the instruction and the "
           "words, each word splits exactly into label and plain-decimal number text; compared byte for byte with formatter.command on "
           "mixed scalar types; the words of builder-level histories are compared with the builder model.",
    "C11": " C11_path_follows / C11_modes_agree / C11_machines_agree: for EVERY logical toolpath (absolute waypoints with any subset of "
           "axes, shapes as vertex lists) phrased for absolute or for relative mode, after every item the builder is at the path's logical "
           "position, the two executions agree after every prefix, and each emitted program read by the C01 interpreter leaves the machine "
           "where its builder is. C11_vertex_lists_agree: to_absolute_list (polyline / spline arguments) is mode-independent; tied to the "
           "real method. A quarter of the generated toolpaths run under a rotation / mirror / scale.",
    "C12": " C12_filter_float: under the standard model of floating-point rounding (relative error u after every subtraction and on the "
           "threshold), distances <= res and windows of at most K subtractions, the implementation's run is a robust run with "
           "delta = (2K+1) u res; C12_window_length bounds K for the exact filter.",
    "C14": " C14_utf8_roundtrip / C14_utf8_decode_strict / C14_text_stream_identity: model of str.encode('utf-8') and the strict "
           "bytes.decode('utf-8'); whatever the decoder accepts is the encoding of what it returns, so a caller-owned text stream keeps the "
           "bytes or the write raises; the codec model is compared with CPython's on boundary code points, random strings, mutated byte "
           "strings and the non-ASCII lines emitted in the same run.",
    "C15": " C15_job_no_semicolon / C15_job_plain_line / C15_job_command_trimmed (model of what _sendnext transmits for a job line: host "
           "commands, gcode_strip_comment_exp as the leftmost scan re.sub performs, strip), C15_resend_formats (the resend-request parser "
           "of _listen reads exactly k for seven firmware phrasings, every k), C15_accepted_trace_sender_run (soundness of the sender half "
           "of the trace checker). Both text models are compared with the real regular expression / the real read loop per run.",
    "C16": " C16_accepted_trace_is_run: every observed trace accepted by check_trace whose replies are answerable by a FIFO device IS a run "
           "of the transition system with that observable projection (checker soundness + simulation), so the theorems about runs apply "
           "to what was observed.",
    "C20": " C20_running_total / C20_e_reset: with the bundled hook as the only hook in absolute extrusion mode, after ANY history "
           "without explicit E reset, extrusion-mode or hook-list change the remembered E is the starting E plus area/cross x the XY "
           "length of every accepted linear move; C20_hook_sees_program_move: for every accepted linear move() of every history each "
           "hook is called once with the positions the independent interpreter derives from the lines emitted before / up to that "
           "move. The hook language of the model includes a hook that returns a new mapping without a word.",
}
NOTE_FIX = {
    "C07": ("The remembered move parameters (get_parameter) are covered by correspondence and oracle only, not by the theorem (partial there). ",
            "The remembered move parameters are covered by C07_params. "),
}

def main():
    checks = []
    for pid in ALL:
        if pid not in CHECKS:
            continue
        c = dict(CHECKS[pid])
        c["text"] = c["text"] + ADDED.get(pid, "")
        if pid in NOTE_FIX:
            c["note"] = c["note"].replace(NOTE_FIX[pid][0], NOTE_FIX[pid][1])
        checks.append(dict(
            property_id=pid,
            quick_cmd="bin/check %s --tier quick" % pid,
            thorough_cmd="bin/check %s --tier thorough" % pid,
            evidence_file="evidence/%s.json" % pid,
            replay_cmd_template="bin/check %s --replay {path}" % pid,
            engine="rocq-model-correspondence",
            level_claimed=dict(category="proof", text=c["text"], design_ref=c["ref"]),
            level_note=c["note"],
            technique=c["technique"]))
    na = [dict(property_id=p, reason=PENDING_REASON) for p in ALL if p not in CHECKS]
    m = dict(
        version=1,
        setup_cmd="bin/setup",
        hooks=dict(guard="GSCRIB_VERIF", enable="no source hooks: every observation goes through gscrib's public API or "
                   "through fakes of external modules (serial, socket, selectors) installed by the harness process",
                   baseline_off_cmd="cd /repo && /venv/bin/python -m pytest -q -p no:cacheprovider --timeout=900",
                   source_commits=[], add_only=True),
        engines=[dict(name="rocq-model-correspondence", path="coq/ + harness/",
                      serves_properties=sorted(CHECKS),
                      kind_free_text="Gallina models + theorems (Coq 8.16.1), tied to /repo by per-run "
                                     "correspondence (vm_compute inside Coq vs real Python objects), generated tables, "
                                     "and independent Python oracles for replay search")],
        checks=checks,
        notes="See DESIGN.md. known_findings.json lists recorded defects and the repaired ones (fixed:).",
        not_applicable=na)
    with open(os.path.join(ROOT, "MANIFEST.json"), "w") as f:
        json.dump(m, f, indent=1)
    print("MANIFEST.json written: %d checks, %d not claimed" % (len(checks), len(na)))


if __name__ == "__main__":
    main()
