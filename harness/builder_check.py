"""Generic driver for the builder-family checks: correspondence model<->code on generated
histories + independent oracle + verdict. Property-specific parts are passed in."""
import json
import os
import sys
from fractions import Fraction

sys.path.insert(0, os.path.dirname(os.path.abspath(__file__)))
from builder_lib import *  # noqa
import oracle as O

STATE_KEYS = ["pos", "spos", "dm", "sdm", "feed", "power", "tool_on", "cool_on", "spin", "powerm", "cool", "swap",
              "halt", "toolnum", "em", "fm", "lu", "tu", "ku", "pl", "t_hotend", "t_bed", "t_chamber", "params",
              "sparams", "bounds"]


def leak_of(before, step):
    """A rejected call that changed something: returns (changed fields, emitted line count) or None."""
    if step["exc"] is None:
        return None
    changed = [k for k in STATE_KEYS if before[k] != step["snap"][k]]
    if not changed and not step["raw"]:
        return None
    return changed, len(step["raw"])


def leak_signature(cmd, step, changed, nlines):
    """Site of a rejected-but-not-atomic call: call kind | exception | which group of fields leaked.
    Sites the unchanged code is known to have are listed in known_findings.json; any other
    combination keeps its raw field list and is reported as a violation."""
    op, exc, ch = cmd[0], step["exc"], set(changed)
    mode_lines = (op == "move_abs" and nlines == 2 and all(("G90" in r or "G91" in r) for r in step["raw"]))
    if exc == "ValueErr" and (nlines == 0 or mode_lines):
        tail = "+G90/G91-emitted" if mode_lines else ""
        if mode_lines:
            ch = ch - {"halt"}        # writing any line (here the G90/G91 pair) resets a pending halt mode: part of the same site
        if op in ("move", "move_abs"):
            if ch and ch <= {"feed", "power"}:
                return "move|ValueErr|F/S-words-committed-before-rejection" + tail
            if ch and ch <= {"pos", "params", "sparams", "feed", "power"}:
                return "move|ValueErr|position/parameters-committed-before-axes-bounds-rejection" + tail
            if not ch and mode_lines:
                return "move_abs|ValueErr|G90/G91-emitted-around-rejected-move"
        if op in ("set_axis", "home") and ch and ch <= {"pos", "params", "sparams"}:
            return "%s|ValueErr|position/parameters-committed-before-axes-bounds-rejection" % op
        if op == "probe" and ch and ch <= {"pos", "spos", "params", "sparams", "feed", "power"}:
            return "probe|ValueErr|position-masked-before-F/S-rejection"
        if op == "tool_on" and ch and ch <= {"power", "spin", "tool_on"}:
            return "tool_on|ValueErr|state-committed-before-non-finite-speed-rejected"
        if op == "power_on" and ch and ch <= {"power", "powerm", "tool_on"}:
            return "power_on|ValueErr|state-committed-before-non-finite-power-rejected"
        if op == "set_feed" and ch == {"feed"}:
            return "set_feed|ValueErr|feed-committed-before-non-finite-value-rejected"
        if op == "set_power" and ch == {"power"}:
            return "set_power|ValueErr|power-committed-before-non-finite-value-rejected"
        if op == "halt" and ch and ch <= {"halt", "t_bed", "t_hotend", "t_chamber"}:
            return "halt|ValueErr|halt-mode/temperature-committed-before-rejection"
    if op in ("move", "move_abs"):
        op = op + ":" + cmd[1]
    return "%s|%s|%s|lines=%d" % (op, exc, "+".join(sorted(changed)), nlines)


INIT_SNAP = None


def initial_snapshot():
    global INIT_SNAP
    if INIT_SNAP is None:
        INIT_SNAP = ImplRun(5).run([("set_time_units", "seconds")])[0]["snap"]
    return INIT_SNAP


def annotate_leaks(cmds, steps):
    """adds step['leak'] = signature or None; returns index of first leak or None"""
    before = initial_snapshot()
    first = None
    for i, (c, s) in enumerate(zip(cmds, steps)):
        lk = leak_of(before, s)
        s["leak"] = leak_signature(c, s, *lk) if lk else None
        if lk and first is None:
            first = i
        before = s["snap"]
    return first


def feed_machine(steps, upto=None):
    """yield (index, machine after the step, machine state copy before the step's lines) for each step"""
    m = O.Machine()
    for i, s in enumerate(steps):
        toks = []
        for raw in s["raw"]:
            t = O.tokenize(raw)
            toks.append(t)
        yield i, m, toks


def shrink(pid, dp, cmds, fails, max_rounds=3):
    """greedy one-at-a-time removal keeping [fails(cmds)] true (fails runs the implementation only)"""
    cur = list(cmds)
    if os.environ.get("VERIF_NOSHRINK") == "1":      # sweeps over seeded changes only need the verdict
        return cur
    for _ in range(max_rounds):
        changed = False
        i = 0
        while i < len(cur) and len(cur) > 1:
            cand = cur[:i] + cur[i + 1:]
            try:
                if fails(dp, cand):
                    cur = cand
                    changed = True
                    continue
            except Exception:
                pass
            i += 1
        if not changed:
            break
    return cur


def run_builder_check(pid, gen_cases, oracle_fn, fields=None, truncate_at_leak=True, rule="",
                      corpus=(), extra_evidence=None, theorem_names="", compare_model=True,
                      classify=None, oracle_only_cases=None, after_leak_signature=None):
    """gen_cases(run) -> list of (dp, cmds); oracle_fn(dp, cmds, steps, upto) -> list of (step index, msg, signature)
    """
    run = Run(pid)
    st = standard_proof_phase(run, pid)
    replay_oracle_only = None
    if run.replay:
        doc = json.load(open(run.replay))
        cases = [(doc["dp"], [cmd_unjson(c) for c in doc["history"]])]
        if any(c[0] in ("trace", "set_resolution", "set_direction") for c in cases[0][1]):
            # a history with real tracer calls: these are outside the model, the oracle alone judges them
            replay_oracle_only, cases = cases, []
    else:
        cases = list(corpus) + gen_cases(run)
    run.log("running %d histories on the implementation" % len(cases))
    impl = []
    for i, (dp, cmds) in enumerate(cases):
        impl.append(ImplRun(dp, style=i % 4).run(cmds))
    opcount, exccount, lens = {}, {}, {}
    after_leak_seen = [0]
    truncated = 0
    found_input = False

    def impl_fails(dp, cmds):
        steps = ImplRun(dp).run(cmds)
        upto = annotate_leaks(cmds, steps) if truncate_at_leak else None
        return bool([f for f in oracle_fn(dp, cmds, steps, upto) if not run.match_known(f[2])])

    for ci, ((dp, cmds), steps) in enumerate(zip(cases, impl)):
        first_leak = annotate_leaks(cmds, steps)
        upto = first_leak if truncate_at_leak else None
        if upto is not None:
            truncated += 1
        kinds = set()
        for c, s in zip(cmds, steps):
            opcount[c[0]] = opcount.get(c[0], 0) + 1
            exccount[str(s["exc"])] = exccount.get(str(s["exc"]), 0) + 1
            kinds.add(c[0])
        b = min(len(cmds) // 10 * 10, 100)
        lens[str(b)] = lens.get(str(b), 0) + 1
        nontrivial = len(kinds) >= 3 and any(s["raw"] for s in steps)
        run.count((dp, repr(cmds)), nontrivial)
        fails = oracle_fn(dp, cmds, steps, upto)
        if upto is not None and after_leak_signature is not None:
            # the history goes on after a rejected call that was not atomic (C05).  If that leak is one of the recorded C05
            # sites and THIS property breaks from there on, that is the same recorded defect seen through this property.
            later = [f for f in oracle_fn(dp, cmds, steps, None) if f[0] >= upto]
            if later:
                idx, msg, _ = later[0]
                known_c05 = {k.get("signature") for k in load_known() if k.get("property") == "C05" and k.get("status") == "known"}
                sites = []
                for j in range(upto, idx + 1):
                    site = steps[j].get("leak")
                    if not site:
                        continue
                    if cmds[j][0] == "polyline" and steps[j]["exc"] == "ValueErr":
                        # a polyline is a sequence of moves: the vertices before the rejected one were emitted and tracked
                        # (no leak), the rejected vertex leaks exactly like a single move does
                        lk = leak_of(steps[j - 1]["snap"] if j else initial_snapshot(), steps[j])
                        if lk and set(lk[0]) <= {"pos", "spos", "params", "sparams", "feed", "power", "halt"}:
                            site = "move|ValueErr|position/parameters-committed-before-axes-bounds-rejection"
                    sites.append(site)
                c05_known = bool(sites) and all(x in known_c05 for x in sites)
                after_leak_seen[0] += 1
                fails = list(fails) + [(idx, "after the rejected, non-atomic call(s) at C05 site(s) %s: %s" % (sorted(set(sites)), msg),
                                        after_leak_signature if c05_known else None)]
        seen = set()
        for (idx, msg, sig) in fails:
            if sig in seen:
                continue
            seen.add(sig)
            if sig is not None and run.match_known(sig):
                run.violation(msg, {}, signature=sig)
                continue
            found_input = True
            hist = cmds[:idx + 1]
            if len([v for v in run.violations if v]) < 3:
                try:
                    hist = shrink(pid, dp, hist, impl_fails)
                except Exception as e:  # shrinking is best effort
                    run.log("shrink failed: %r" % e)
            run.violation(msg, dict(dp=dp, history=[cmd_json(c) for c in hist], failing_step=idx,
                                    observed=steps[idx]["raw"], exception=steps[idx]["exc"]), signature=sig)
        if ci in (1, 3, 10):
            run.sample(dict(dp=dp, history=[cmd_json(c) for c in cmds[:8]],
                            emitted=[s["raw"] for s in steps[:8]], exceptions=[s["exc"] for s in steps[:8]]))
    # histories with commands outside the model (real tracer shapes): oracle only ----------
    n_oracle_only = 0
    if (oracle_only_cases is not None and not run.replay) or replay_oracle_only:
        for ci, (dp, cmds) in enumerate(replay_oracle_only or oracle_only_cases(run)):
            steps = ImplRun(dp, style=0).run(cmds)
            upto = annotate_leaks(cmds, steps) if truncate_at_leak else None
            n_oracle_only += 1
            run.count((dp, repr(cmds)), any(s["raw"] for s in steps))
            for c in cmds:
                opcount[c[0] + (":" + c[1] if c[0] == "trace" else "")] = opcount.get(c[0] + (":" + c[1] if c[0] == "trace" else ""), 0) + 1
            for (idx, msg, sig) in oracle_fn(dp, cmds, steps, upto)[:1]:
                if sig is not None and run.match_known(sig):
                    run.violation(msg, {}, signature=sig)
                    continue
                found_input = True
                run.violation(msg, dict(dp=dp, history=[cmd_json(c) for c in cmds[:idx + 1]], failing_step=idx,
                                        observed=steps[idx]["raw"][:6], exception=steps[idx]["exc"]), signature=sig)
    # correspondence -----------------------------------------------------------------
    validated = 0
    if compare_model:
        model, log = eval_model(pid, cases)
        if model is None:
            run.log("model evaluation failed:\n" + log)
            run.violation("the model (coq/model/Builder.v) could not be evaluated on the generated histories",
                          dict(log=log[-2000:], theorem=theorem_names), no_input=not found_input)
        else:
            for ci, ((dp, cmds), steps) in enumerate(zip(cases, impl)):
                for si, (m, im) in enumerate(zip(model[ci], steps)):
                    d = compare_step(m, im, fields)
                    if d:
                        # is this disagreement explained by an oracle failure already reported?
                        ofails = oracle_fn(dp, cmds[:si + 1], steps[:si + 1],
                                           annotate_leaks(cmds[:si + 1], steps[:si + 1]) if truncate_at_leak else None)
                        if ofails and all(run.match_known(f[2]) is None for f in ofails):
                            break  # reported above with a failing input
                        # search the neighbourhood: the same prefix followed by each probing command
                        nb = neighbourhood(dp, cmds[:si + 1], oracle_fn, truncate_at_leak, run)
                        if nb is not None:
                            found_input = True
                            run.violation("(found while searching around a model/implementation disagreement) " + nb[1],
                                          dict(dp=dp, history=[cmd_json(c) for c in nb[0]], disagreement=d))
                        else:
                            run.violation("model and implementation disagree (%s) at step %d %r; the oracle finds no "
                                          "failing input on this history or its neighbourhood" % (d, si, cmd_json(cmds[si])),
                                          dict(dp=dp, history=[cmd_json(c) for c in cmds[:si + 1]], disagreement=d,
                                               theorem=theorem_names + " (correspondence: run_enc dp history = observed "
                                               "words/exceptions/state of GCodeBuilder)"), no_input=True)
                        break
                else:
                    validated += 1
    # the specification-side interpreter (Coq) against the judging oracle (Python), on the programs the implementation emitted
    interp_n = 0
    if pid in ("C01", "C02", "C07") and not run.replay:
        programs = []
        for (dp, cmds), steps in list(zip(cases, impl))[: (400 if run.thorough else 80)]:
            prog = [l for s in steps for l in s["lines"]]
            if prog and all(l is not None for l in prog):
                programs.append(prog)
        interp_n, diff = interp_crosscheck(pid, programs)
        if diff:
            run.violation(diff, dict(theorem=theorem_names, correspondence="model/Interp.v vs harness/oracle.py"), no_input=True)
    proof_broken_violation(run, st, found_input)
    run.cov["rule"] = rule + " non-trivial = history with >= 3 distinct call kinds and >= 1 emitted line; distinct = distinct (dp, history)."
    ev = dict(oracle_only_histories=n_oracle_only, programs_read_by_both_interpreters=interp_n, input_distribution=dict(op_kinds=opcount, exceptions=exccount, history_length_buckets=lens,
                                      histories_truncated_at_a_C05_leak=truncated,
                                      histories_where_the_property_breaks_after_a_recorded_C05_leak=after_leak_seen[0]),
              traces_validated_against_impl=validated)
    if extra_evidence:
        ev.update(extra_evidence)
    run.finish(proof=st, extra=ev)


PROBES = [("move", "linear", {"x": Fraction(1)}, []), ("move", "linear", {"y": Fraction(-2), "z": Fraction(3)}, []),
          ("set_distance", "relative"), ("move", "rapid", {"x": Fraction(1, 2)}, [("F", Fraction(300))]),
          ("tool_off",), ("coolant_off",), ("tool_on", "clockwise", Fraction(100)), ("coolant_on", "mist"),
          ("pause", False), ("tool_change", "manual", 2), ("set_feed", Fraction(100)), ("set_power", Fraction(10))]


def neighbourhood(dp, prefix, oracle_fn, truncate_at_leak, run):
    for n in (1, 2):
        for i in range(len(PROBES)):
            tail = [PROBES[(i + j) % len(PROBES)] for j in range(n)]
            cmds = list(prefix) + tail
            steps = ImplRun(dp).run(cmds)
            upto = annotate_leaks(cmds, steps) if truncate_at_leak else None
            fails = [f for f in oracle_fn(dp, cmds, steps, upto) if run.match_known(f[2]) is None]
            if fails:
                return cmds[:fails[0][0] + 1], fails[0][1]
    return None
