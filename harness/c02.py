"""C02 — interlocks: no unsafe tool/coolant/halt sequence is ever emitted."""
import os, sys
sys.path.insert(0, os.path.dirname(os.path.abspath(__file__)))
from builder_check import *  # noqa

PID = "C02"


def oracle(dp, cmds, steps, upto):
    m = O.Machine()
    fails = []
    for i, (c, s) in enumerate(zip(cmds, steps)):
        if upto is not None and i >= upto:
            break
        tool_before, cool_before = m.tool, m.cool
        for raw in s["raw"]:
            toks = O.tokenize(raw)
            if toks is None:
                fails.append((i, "malformed line %r" % raw, "malformed"))
            else:
                m.line(toks)
        if m.bad:
            fails.append((i, "unsafe sequence emitted by %r: %s; lines %r" % (cmd_json(c), m.bad, s["raw"]), "unsafe"))
            m.bad = []
        if s["exc"] == "ToolStateErr" and not tool_before:
            fails.append((i, "%r raised ToolStateError although the emitted program has no tool running" % (cmd_json(c),), "spurious-tool"))
        if s["exc"] == "CoolantStateErr" and not (cool_before or tool_before):
            fails.append((i, "%r raised CoolantStateError although coolant is off in the emitted program" % (cmd_json(c),), "spurious-coolant"))
        if s["exc"] is not None and s["exc"].startswith("Other"):
            fails.append((i, "%r raised an unexpected exception class %s" % (cmd_json(c), s["exc"]), "other-exc"))
        sn = s["snap"]
        if sn["tool_on"] != m.tool or sn["cool_on"] != m.cool:
            fails.append((i, "after %r the builder reports tool=%s coolant=%s but the emitted program has tool=%s coolant=%s"
                          % (cmd_json(c), sn["tool_on"], sn["cool_on"], m.tool, m.cool), "flags"))
    return fails


def gen_cases(run):
    n = 2500 if run.thorough else 260
    maxlen = 120 if run.thorough else 40
    cases = []
    for i in range(n):
        g = Gen(run.rng, W_INTERLOCK, malformed=0.12, bounds=(i % 4 == 0))
        cases.append((run.rng.choice([0, 2, 5, 8]), g.history(run.rng.randint(6, maxlen))))
    return cases


CORPUS = [
    (5, [("power_on", "constant", Fraction(50)), ("move", "linear", {"x": Fraction(1)}, []), ("tool_on", "clockwise", Fraction(100)),
         ("power_off",), ("tool_on", "counter", Fraction(10)), ("pause", False), ("tool_off",), ("pause", False)]),
    (5, [("tool_change", "manual", 3), ("tool_on", "clockwise", Fraction(100)), ("tool_change", "manual", 3),
         ("tool_off",), ("coolant_on", "mist"), ("tool_change", "manual", 3), ("coolant_on", "flood"), ("coolant_off",), ("wait",)]),
    (5, [("coolant_on", "flood"), ("halt", "wait-for-bed", [("S", Fraction(60))]), ("stop", True), ("coolant_off",), ("stop", True)]),
]

if __name__ == "__main__":
    run_builder_check(PID, gen_cases, oracle, fields=None, truncate_at_leak=True, after_leak_signature="after-C05-leak", corpus=CORPUS,
                      rule="weighted grammar over tool/power/coolant/tool_change/halt family interleaved with moves, "
                           "modes, temperatures (shadow interlock state keeps ~80% of the calls valid; 12% malformed "
                           "stream: OFF/unknown modes, negative/non-finite values); every 4th history under bounds.",
                      theorem_names="C02_safe, C02_raises, C02_only_when (coq/props/C02.v)")
