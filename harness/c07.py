"""C07 — reported machine state mirrors the emitted program."""
import os, sys
sys.path.insert(0, os.path.dirname(os.path.abspath(__file__)))
from builder_check import *  # noqa

PID = "C07"
START = {"clockwise": 3, "counter": 4, "constant": 3, "dynamic": 4}


def oracle(dp, cmds, steps, upto):
    m = O.Machine()
    fails = []
    eps = Fraction(1, 2) / Fraction(10) ** dp

    def close(b, v):
        return isinstance(b, Fraction) and abs(b - v) <= eps

    for i, (c, s) in enumerate(zip(cmds, steps)):
        if upto is not None and i >= upto:
            break
        for raw in s["raw"]:
            toks = O.tokenize(raw)
            if toks is None:
                return fails + [(i, "malformed line %r" % raw, "malformed")]
            m.line(toks)
        sn = s["snap"]
        bad = None
        if sn["tool_on"] != m.tool:
            bad = "tool active: state %s, program %s" % (sn["tool_on"], m.tool)
        elif m.tool:
            codes = [START[x] for x in (sn["spin"], sn["powerm"]) if x != "off"]
            if codes != [m.start]:
                bad = "tool start code: state reports spin_mode=%s power_mode=%s, program started the tool with M%s" % (sn["spin"], sn["powerm"], m.start)
            elif m.S is None or not close(sn["power"], m.S):
                bad = "tool power: state %s, last S word %s" % (sn["power"], m.S)
        if bad is None:
            cm = {None: "off", 7: "mist", 8: "flood"}[m.coolmode]
            if sn["cool"] != cm or sn["cool_on"] != m.cool:
                bad = "coolant: state %s/%s, program %s" % (sn["cool"], sn["cool_on"], cm)
        if bad is None and sn["toolnum"] != (m.T or 0):
            bad = "tool number: state %s, last T word %s" % (sn["toolnum"], m.T)
        if bad is None and not close(sn["feed"], m.feed if m.feed is not None else Fraction(0)):
            bad = "feed rate: state %s, last F word %s" % (sn["feed"], m.feed)
        for key, mv, default in (("dm", "relative" if m.rel else "absolute", None), ("em", m.emode, "absolute"),
                                 ("fm", m.fmode, "units/min"), ("lu", m.units, "millimeters"), ("pl", m.plane, "xy")):
            if bad is None and sn[key] != (mv if mv is not None else default):
                bad = "%s: state %s, program %s" % (key, sn[key], mv)
        for key, which in (("t_bed", "bed"), ("t_hotend", "hotend"), ("t_chamber", "chamber")):
            if bad is None:
                mv = m.temps[which]
                if mv is None:
                    if sn[key] != NINF:
                        bad = "%s: state %s, program never set it" % (key, sn[key])
                elif not close(sn[key], mv):
                    bad = "%s: state %s, program %s" % (key, sn[key], mv)
        if bad is None:
            for k, bv, sv in zip(SNAP_LETTERS, sn["params"], sn["sparams"]):
                mv = m.params.get(k)
                if bv != sv:
                    bad = "get_parameter(%s): builder %s, state %s" % (k, bv, sv)
                elif (mv is None) != (bv is None) or (mv is not None and not close(bv, mv)):
                    bad = "get_parameter(%s): %s, last %s word of a move %s" % (k, bv, k, mv)
                if bad:
                    break
        if bad:
            fails.append((i, "after %r: %s" % (cmd_json(c), bad), "mirror"))
            return fails
    return fails


def gen_cases(run):
    n = 2500 if run.thorough else 260
    maxlen = 200 if run.thorough else 40
    cases = []
    for i in range(n):
        # every third history registers move hooks, some of which set F / S: the line then carries the hook's value and
        # the state must mirror THAT value
        g = Gen(run.rng, dict(W_FULL, hook=(3 if i % 3 == 1 else 0)), malformed=0.08, bounds=(i % 5 == 0))
        cases.append((run.rng.choice([0, 2, 5, 8]), g.history(run.rng.randint(6, maxlen))))
    return cases


CORPUS = [
    (5, [("add_hook", ("set", 1, "F", Fraction(1000))), ("move", "linear", {"x": Fraction(10)}, [("F", Fraction(2500))]),
         ("move", "linear", {"x": Fraction(20)}, []), ("add_hook", ("set", 2, "S", Fraction(40))), ("move", "linear", {"y": Fraction(5)}, [("S", Fraction(90))])]),
    (5, [("tool_on", "clockwise", Fraction(1000)), ("power_off",), ("power_on", "dynamic", Fraction(50)),
         ("move", "linear", {"x": Fraction(1)}, [("S", Fraction(80))]), ("tool_off",), ("tool_on", "counter", Fraction(10))]),
    (5, [("move", "linear", {"x": Fraction(10)}, [("F", Fraction(1000))]), ("set_feed", Fraction(500)), ("move", "linear", {"x": Fraction(20)}, []),
         ("probe", "towards", {"z": Fraction(-1)}, [("F", Fraction(50))]), ("move", "rapid", {"z": Fraction(5)}, [])]),
    (5, [("tool_on", "clockwise", Fraction(1000)), ("tool_on", "counter", Fraction(2500)), ("set_power", Fraction(30)), ("tool_off",)]),
    (5, [("halt", "wait-for-bed", [("S", Fraction(60))]), ("halt", "wait-for-hotend", [("R", Fraction(200))]), ("set_bed", Fraction(70)),
         ("set_units", "inches"), ("set_units", "inches"), ("set_plane", "yz"), ("tool_change", "manual", 7)]),
]

if __name__ == "__main__":
    run_builder_check(PID, gen_cases, oracle, fields=None, truncate_at_leak=True, after_leak_signature="after-C05-leak", corpus=CORPUS,
                      rule="weighted grammar over the full builder API (moves with F/S/E/A words, probes, feed/power/fan/"
                           "temperature setters, tool/power/coolant/tool-change/halt family, all modal switches), numeric "
                           "arguments from a finite grid {0, 1/2, 50, 100, 255, 1000, ...} plus random dyadics; equality "
                           "checked after every call; every 5th history under bounds.",
                      theorem_names="C07_mirror, C07_step, C07_params, C07_params_step, C07_params_frame (coq/props/C07.v)")
