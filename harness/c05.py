"""C05 — a rejected command has no effect."""
import os, sys
sys.path.insert(0, os.path.dirname(os.path.abspath(__file__)))
from builder_check import *  # noqa

PID = "C05"


def oracle(dp, cmds, steps, upto):
    fails = []
    for i, (c, s) in enumerate(zip(cmds, steps)):
        if c[0] == "polyline":
            continue   # a composite of several moves; each segment is a move() of its own
        if s.get("leak"):
            changed = s["leak"].split("|")[2]
            fails.append((i, "%r raised %s but %s (emitted %r) [signature %s]" % (
                cmd_json(c), s["exc"], "changed " + changed if changed else "changed nothing in the state",
                s["raw"], s["leak"]), s["leak"]))
    return fails


def gen_cases(run):
    n = 2500 if run.thorough else 300
    maxlen = 80 if run.thorough else 30
    cases = []
    for i in range(n):
        w = dict(W_FULL, set_bounds=2, probe=5, polyline=3)
        g = Gen(run.rng, w, malformed=0.45, bounds=(i % 2 == 0))
        cases.append((run.rng.choice([2, 5]), g.history(run.rng.randint(5, maxlen))))
    return cases


CORPUS = [
    (5, [("tool_on", "clockwise", Fraction(100)), ("halt", "wait-for-bed", [("S", Fraction(230))]), ("power_on", "constant", Fraction(5)),
         ("tool_on", "counter", Fraction(2500)), ("coolant_on", "mist"), ("coolant_on", "flood"), ("tool_change", "manual", 2)]),
    (5, [("power_on", "constant", Fraction(5)), ("tool_on", "clockwise", Fraction(9)), ("tool_off",), ("tool_on", "clockwise", Fraction(9)),
         ("power_on", "dynamic", Fraction(1)), ("set_distance", "bogus"), ("sleep", Fraction(-1)), ("set_fan", Fraction(300), 0)]),
]

if __name__ == "__main__":
    run_builder_check(PID, gen_cases, oracle, fields=None, truncate_at_leak=False, corpus=CORPUS,
                      rule="full-API grammar with a 45% malformed stream (NaN/+-inf, negative, out-of-bounds, OFF/unknown "
                           "modes, wrong-state calls) from reachable states, every 2nd history under bounds; snapshot of all "
                           "public state + emitted lines before/after every raising call; leaks classified by signature "
                           "(call kind | exception | changed fields | emitted lines) against known_findings.json.",
                      theorem_names="C05_atomic, C05_leak_exact (coq/props/C05.v)")
