"""C11 — a toolpath is the same in relative and absolute distance mode."""
import math
import os
import sys
from fractions import Fraction

sys.path.insert(0, os.path.dirname(os.path.abspath(__file__)))
from builder_lib import *  # noqa
import oracle as O

PID = "C11"
# A logical toolpath: a list of elements with ABSOLUTE waypoints; it is executed once with the builder in absolute
# mode and once in relative mode (targets re-expressed as offsets from the logical position).


def gen_path(rng, thorough):
    els = []
    pos = [Fraction(rng.randint(-20, 20)), Fraction(rng.randint(-20, 20)), Fraction(rng.randint(-3, 3))]
    if rng.random() < 0.25:
        # the whole toolpath under a coordinate transform (set before the start position is reached, so that machine and
        # builder agree): rotations couple the axes, so a one-axis request moves several machine axes
        ops = []
        for _ in range(rng.randint(1, 2)):
            ops.append(rng.choice([("rotate", float(rng.choice([30, 45, 90, -60])), rng.choice("xyz")), ("translate", float(rng.randint(-9, 9)), float(rng.randint(-9, 9)), 2.0),
                                   ("scale", 2.0), ("mirror", rng.choice(["xy", "yz", "zx"]))]))
        els.append(("transform", ops))
    transformed = bool(els)
    els.append(("start", tuple(pos)))
    for _ in range(rng.randint(2, 10 if thorough else 6)):
        k = rng.randrange(14)
        if transformed and k == 3:
            k = 0        # absolute-bypass moves are documented to bypass the transform: machine != transform(tracked) afterwards
        if k < 3:
            axes = [a for a in range(3) if rng.random() < 0.6] or [0]
            tgt = {a: Fraction(rng.randint(-160, 160), 8) for a in axes}
            els.append((rng.choice(["move", "rapid"]), tgt))
            for a, v in tgt.items():
                pos[a] = v
        elif k == 3:
            # absolute-bypass moves, often several in a row with the caller re-asserting the mode it is in between them
            for rep in range(rng.choice([1, 1, 2, 3])):
                if rep and rng.random() < 0.7:
                    els.append(("reassert",))
                tgt = {a: Fraction(rng.randint(-160, 160), 8) for a in range(3) if rng.random() < 0.6}
                els.append(("move_absolute", tgt))
                for a, v in tgt.items():
                    pos[a] = v
        elif k == 4:
            els.append(("ctx", rng.choice(["absolute", "relative"])))
        elif k == 5:
            els.append(("endctx",))
        elif k == 6:
            r = rng.randint(2, 12)
            ang = math.radians(rng.randint(0, 359))
            c = (round(r * math.cos(ang), 3), round(r * math.sin(ang), 3))
            els.append(("circle", c))
        elif k == 7:
            # arc about a centre: target at the same radius
            r = rng.randint(2, 15)
            a0 = math.radians(rng.randint(0, 359)); a1 = math.radians(rng.randint(0, 359))
            cx, cy = float(pos[0]) - r * math.cos(a0), float(pos[1]) - r * math.sin(a0)
            tx, ty = cx + r * math.cos(a1), cy + r * math.sin(a1)
            z = None if rng.random() < 0.5 else float(pos[2]) + rng.randint(-2, 2)
            els.append(("arc", (tx, ty) if z is None else (tx, ty, z), (cx - float(pos[0]), cy - float(pos[1]))))
            pos[0], pos[1] = Fraction(tx), Fraction(ty)
            if z is not None:
                pos[2] = Fraction(z)
        elif k == 8:
            tx, ty = float(pos[0]) + rng.randint(1, 8), float(pos[1]) + rng.randint(-8, 8)
            els.append(("arc_radius", (tx, ty), float(rng.choice([10, -10, 25, -25]))))
            pos[0], pos[1] = Fraction(tx), Fraction(ty)
        elif k == 9:
            pts = []
            for _ in range(rng.randint(2, 4)):
                pts.append((float(rng.randint(-20, 20)), float(rng.randint(-20, 20)), float(rng.randint(-2, 2))))
            if rng.random() < 0.3:
                pts.insert(rng.randrange(len(pts) + 1), (0.0, 0.0, 0.0))     # a vertex on the work origin
            els.append((rng.choice(["spline", "polyline"]), pts))
            pos = [Fraction(v) for v in pts[-1]]
        elif k == 10:
            t = (float(rng.randint(-15, 15)), float(rng.randint(-15, 15)), float(pos[2]) + rng.randint(0, 4))
            c = (float(rng.randint(-6, 6) or 3), float(rng.randint(-6, 6)))
            # not on the knife-edge of Direction.enforce: a target at exactly the start angle is "zero sweep" or "a full
            # turn" depending on one ulp of the accumulated position (binary64, not the distance mode)
            dox, doy = -c[0], -c[1]
            dtx, dty = t[0] - (float(pos[0]) + c[0]), t[1] - (float(pos[1]) + c[1])
            if dox * dty - doy * dtx == 0 and dox * dtx + doy * dty >= 0:
                t = (t[0] + 0.5, t[1] + 1.5, t[2])
            els.append(("helix", t, c, rng.randint(1, 2)))
            pos = [Fraction(v) for v in t]
        elif k == 11:
            t = (float(pos[0]) + rng.randint(2, 9), float(pos[1]) + rng.randint(-9, 9), float(pos[2]) + rng.randint(1, 4))
            # pitches that never divide the (integer) height: turns = int(|dz| / pitch) truncates, and on an exact
            # multiple one ulp of accumulated position error flips the turn count (a knife-edge of binary64, not of the mode)
            els.append(("thread", t, float(rng.choice([0.7, 1.3, 2.3]))))
            pos = [Fraction(v) for v in t]
        elif k == 12:
            t = (float(pos[0]) + rng.randint(-9, 9) or 1.0, float(pos[1]) + rng.randint(-9, 9), float(pos[2]) + rng.randint(0, 2))
            if t[1] == float(pos[1]) and t[0] >= float(pos[0]):
                t = (t[0], t[1] + 0.5, t[2])       # same knife-edge: a target exactly along +x from the start
            els.append(("spiral", t, rng.randint(1, 2)))
            pos = [Fraction(v) for v in t]
        else:
            # a user curve in absolute coordinates that does not start at the current position
            cx, cy, r = float(rng.randint(-10, 10)), float(rng.randint(-10, 10)), float(rng.randint(2, 8))
            els.append(("parametric", (cx, cy, r, float(pos[2]))))
            pos = [Fraction(cx + r), Fraction(cy), pos[2]]
    return els


def execute(els, relative, dp=5):
    import numpy as np
    from gscrib import GCodeBuilder
    from builder_lib import Recorder
    rec = Recorder()
    g = GCodeBuilder(decimal_places=dp, line_endings="\n")
    g.add_writer(rec.writer)
    g.set_resolution(0.5)
    ctx = []
    logical = [0.0, 0.0, 0.0]
    mode_rel = [relative]       # the builder's distance mode, as the caller knows it
    marks = []
    for el in els:
        k = el[0]
        rel = mode_rel[-1]
        if k == "transform":
            for op in el[1]:
                if op[0] == "rotate":
                    g.transform.rotate(op[1], op[2])
                elif op[0] == "translate":
                    g.transform.translate(op[1], op[2], op[3])
                elif op[0] == "scale":
                    g.transform.scale(op[1])
                else:
                    g.transform.mirror(op[1])
        elif k == "start":
            g.set_distance_mode("absolute")
            g.move(x=float(el[1][0]), y=float(el[1][1]), z=float(el[1][2]))
            logical = [float(v) for v in el[1]]
            g.set_distance_mode("relative" if relative else "absolute")
        elif k in ("move", "rapid"):
            kw = {}
            for a, v in el[1].items():
                kw["xyz"[a]] = (float(v) - logical[a]) if rel else float(v)
                logical[a] = float(v)
            (g.move if k == "move" else g.rapid)(**kw)
        elif k == "move_absolute":
            kw = {"xyz"[a]: float(v) for a, v in el[1].items()}
            for a, v in el[1].items():
                logical[a] = float(v)
            g.move_absolute(**kw)
        elif k == "reassert":
            g.set_distance_mode("relative" if rel else "absolute")
        elif k == "ctx":
            cm = g.absolute_mode() if el[1] == "absolute" else g.relative_mode()
            cm.__enter__()
            ctx.append(cm)
            mode_rel.append(el[1] == "relative")
        elif k == "endctx":
            if ctx:
                ctx.pop().__exit__(None, None, None)
                mode_rel.pop()
        else:
            def T(t):
                t = list(t)
                out = [(t[i] - logical[i]) if rel else t[i] for i in range(len(t))]
                for i in range(len(t)):
                    logical[i] = t[i]
                return tuple(out)
            if k == "circle":
                g.trace.circle(el[1])
            elif k == "arc":
                g.trace.arc(T(el[1]), el[2])
            elif k == "arc_radius":
                g.trace.arc_radius(T(el[1]), el[2])
            elif k in ("spline", "polyline"):
                pts = [T(p) for p in el[1]]
                getattr(g.trace, k)(pts)
            elif k == "helix":
                g.trace.helix(T(el[1]), el[2], el[3])
            elif k == "thread":
                g.trace.thread(T(el[1]), el[2])
            elif k == "spiral":
                g.trace.spiral(T(el[1]), el[2])
            elif k == "parametric":
                cx, cy, r, z = el[1]

                def fn(thetas, cx=cx, cy=cy, r=r, z=z):
                    return np.column_stack((cx + r * np.cos(2 * np.pi * thetas), cy + r * np.sin(2 * np.pi * thetas), np.full(thetas.shape, z)))
                g.trace.parametric(fn, 2 * math.pi * r)
                logical[0], logical[1] = cx + r, cy
        marks.append(len(rec.chunks))
    while ctx:
        ctx.pop().__exit__(None, None, None)
    return rec.chunks, marks


def machine_vertices(chunks):
    m = O.Machine()
    out = []
    for raw in chunks:
        t = O.tokenize(raw)
        if t is None:
            return None
        m.line(t)
        if t and t[0][0] == "G" and t[0][1] in (0, 1):
            out.append(tuple(m.pos[a] for a in "XYZ") + (max(m.rc.values()),))
    return out


def abs_list_correspondence(run):
    """GCodeCore.to_absolute_list against model/Builder.v's, on dyadic points in both distance modes"""
    from gscrib import GCodeBuilder
    rng = run.rng
    cases = []
    for _ in range(300 if run.thorough else 50):
        cur = [Fraction(rng.randint(-80, 80), 4) for _ in range(3)]
        known = [rng.random() < 0.85 for _ in range(3)]
        rel = rng.random() < 0.5
        pts = []
        for _ in range(rng.randint(0, 5)):
            k = rng.choice([2, 3, 3])
            pts.append([Fraction(rng.randint(-80, 80), 4) if rng.random() < 0.85 else None for _ in range(k)])
        cases.append((cur, known, rel, pts))
    body = ("Definition qp (q : Q) : Z * Z := (Qnum (Qred q), Zpos (Qden (Qred q))).\n"
            "Definition oq (o : option Q) := match o with Some q => [qp q] | None => [] end.\n"
            "Definition pp (p : point) := (oq (px p), oq (py p), oq (pz p)).\n")
    impl = []
    for cur, known, rel, pts in cases:
        g = GCodeBuilder()
        kw = {a: float(v) for a, v, k in zip("xyz", cur, known) if k}
        if kw:
            g.set_axis(**kw)
        if rel:
            g.set_distance_mode("relative")
        res = g.to_absolute_list([tuple(None if v is None else float(v) for v in p) for p in pts])
        impl.append([[None if c is None else Fraction(c) for c in (q.x, q.y, q.z)] for q in res])

        def gq(v):
            return "None" if v is None else "(Some (Qmake (%d) %d))" % (v.numerator, v.denominator)
        gp = lambda p: "(mkpt %s %s %s)" % tuple(gq(v) for v in (list(p) + [None])[:3])
        body += "Eval vm_compute in map pp (to_absolute_list (set_dm (set_pos init %s) %s) %s).\n" % (
            gp([v if k else None for v, k in zip(cur, known)]), "Relative" if rel else "Absolute", g_list([gp(p) for p in pts]))
    vals = []
    for rc, out in coq_eval_many(PID, [("abslist", body)], "From GS Require Import model.Num model.Builder.\n", timeout=900):
        if rc != 0:
            run.log("model evaluation failed:\n" + out[-1500:])
            run.violation("the model (coq/model/Builder.v, to_absolute_list) could not be evaluated", dict(theorem="C11_vertex_lists_agree"), no_input=True)
            return 0
        vals.extend(parse_evals(out))
    if len(vals) != len(cases):
        run.violation("the model (coq/model/Builder.v, to_absolute_list) could not be evaluated", dict(theorem="C11_vertex_lists_agree"), no_input=True)
        return 0
    n = 0
    for (cur, known, rel, pts), val, im in zip(cases, vals, impl):
        got = [[(Fraction(int(c[0][0]), int(c[0][1])) if c else None) for c in pt] for pt in parse_term(val)]
        if got != im:
            run.violation("model and implementation disagree on to_absolute_list(%r) from %r in %s mode: model %r, implementation %r" % (
                [[None if v is None else float(v) for v in p] for p in pts], [float(v) if k else None for v, k in zip(cur, known)],
                "relative" if rel else "absolute", [[None if v is None else float(v) for v in p] for p in got], [[None if v is None else float(v) for v in p] for p in im]),
                dict(theorem="C11_vertex_lists_agree (coq/props/C11.v); correspondence: Builder.to_absolute_list"), no_input=True)
            return n
        n += 1
    return n


def main():
    run = Run(PID)
    st = standard_proof_phase(run, PID)
    n = 1200 if run.thorough else 150
    paths = [[("start", (Fraction(5), Fraction(5), Fraction(0))), ("move_absolute", {2: Fraction(10)}), ("reassert",), ("move_absolute", {0: Fraction(40), 1: Fraction(20)}),
              ("move", {2: Fraction(0)}), ("move", {0: Fraction(45)}), ("circle", (-5.0, 0.0))],
             [("start", (Fraction(0), Fraction(0), Fraction(0))), ("circle", (-7.0, 3.0)), ("move", {0: Fraction(4), 1: Fraction(1)}), ("arc", (0.0, 0.0), (-2.0, -0.5))],
             [("start", (Fraction(6), Fraction(2), Fraction(1))), ("polyline", [(3.0, 3.0, 1.0), (0.0, 0.0, 0.0), (5.0, 0.0, 0.0)]), ("spline", [(2.0, 4.0, 0.0), (0.0, 0.0, 0.0), (-3.0, 1.0, 0.0)])],
             [("start", (Fraction(10), Fraction(0), Fraction(0))), ("circle", (-10.0, 0.0))],
             [("start", (Fraction(12), Fraction(0), Fraction(0))), ("ctx", "relative"), ("move_absolute", {1: Fraction(3)}), ("move", {0: Fraction(13)}),
              ("endctx",), ("move", {0: Fraction(20), 1: Fraction(20)})],
             [("start", (Fraction(5), Fraction(5), Fraction(1))), ("parametric", (0.0, 0.0, 6.0, 1.0)), ("move", {0: Fraction(1)})]]
    paths.append([("transform", [("rotate", 30.0, "z")]), ("start", (Fraction(4), Fraction(2), Fraction(1))), ("move", {0: Fraction(9)}), ("rapid", {2: Fraction(3)}),
                  ("move", {1: Fraction(-2)}), ("move", {0: Fraction(5), 2: Fraction(0)})])
    paths.append([("transform", [("rotate", 90.0, "x"), ("translate", 3.0, -1.0, 2.0)]), ("start", (Fraction(1), Fraction(1), Fraction(1))), ("move", {1: Fraction(6)}),
                  ("circle", (-3.0, 0.0)), ("move", {2: Fraction(4)})])
    paths += [gen_path(run.rng, run.thorough) for _ in range(n)]
    found = False
    dist = {}
    skipped = 0
    for els in paths:
        for e in els:
            dist[e[0]] = dist.get(e[0], 0) + 1
        res = []
        err = None
        for rel in (False, True):
            try:
                res.append(execute(els, rel))
            except Exception as e:
                res.append(None)
                err = (rel, "%s: %s" % (type(e).__name__, str(e)[:120]))
        run.count(repr(els), len({e[0] for e in els}) >= 3)
        if res[0] is None or res[1] is None:
            if (res[0] is None) != (res[1] is None):
                found = True
                run.violation("the toolpath %r runs in %s mode but raises in %s mode (%s)" % (
                    els, "relative" if err[0] is False else "absolute", "relative" if err[0] else "absolute", err[1]),
                    dict(path=[list(map(str, e)) for e in els]))
            else:
                skipped += 1      # geometrically invalid request in both modes
            continue
        va, vr = machine_vertices(res[0][0]), machine_vertices(res[1][0])
        prob = None
        if va is None or vr is None:
            prob = "malformed output"
        elif len(va) != len(vr):
            prob = "%d vertices in absolute mode, %d in relative mode" % (len(va), len(vr))
        else:
            for i, (a, r) in enumerate(zip(va, vr)):
                for k in range(3):
                    if a[k] is None or r[k] is None:
                        if a[k] is not r[k]:
                            prob = "vertex %d axis %s known in one mode only" % (i, "XYZ"[k])
                        continue
                    tol = (2 + a[3] + r[3]) * 0.5e-5 * 1.001 + 1e-6
                    if abs(float(a[k]) - float(r[k])) > tol:
                        prob = "vertex %d: %s=%s in absolute mode, %s in relative mode" % (i, "XYZ"[k], float(a[k]), float(r[k]))
                        break
                if prob:
                    break
        if prob:
            found = True
            run.violation("the same toolpath gives different machine positions: %s; path %r" % (prob, els),
                          dict(path=[list(map(str, e)) for e in els]))
        if len(run.cov["samples"]) < 3:
            run.sample(dict(path=[list(map(str, e)) for e in els][:6], vertices=len(va) if va else None))
    nabs = abs_list_correspondence(run)
    proof_broken_violation(run, st, found)
    run.cov["rule"] = ("logical toolpaths (absolute waypoints) of moves, rapids, absolute-bypass moves, nested absolute_mode()/"
                       "relative_mode() blocks and every tracer shape (arc incl. helical z, arc_radius, circle, spline, polyline, "
                       "helix, thread, spiral, parametric with a user curve in absolute coordinates) from random start "
                       "positions, executed once in absolute and once in relative mode (targets as offsets); machine vertices "
                       "reconstructed by the independent interpreter and compared one by one. non-trivial = >= 3 element kinds.")
    run.finish(proof=st, extra=dict(input_distribution=dict(element_kinds=dist, invalid_in_both_modes=skipped), to_absolute_list_cases_compared=nabs))


if __name__ == "__main__":
    main()
