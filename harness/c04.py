"""C04 — coordinate transforms are applied faithfully to every move."""
import math
import os
import sys
from fractions import Fraction

sys.path.insert(0, os.path.dirname(os.path.abspath(__file__)))
from builder_lib import *  # noqa
import oracle as O
import c13

PID = "C04"


def read_matrix(g):
    """the affine map the implementation currently holds, through the public apply_transform"""
    o = [float(v) for v in g.transform.apply_transform((0, 0, 0))]
    cols = [[float(v) for v in g.transform.apply_transform(e)] for e in ((1, 0, 0), (0, 1, 0), (0, 0, 1))]
    L = [[Fraction(cols[j][i]) - Fraction(o[i]) for j in range(3)] for i in range(3)]
    return [L[0][0], L[0][1], L[0][2], L[1][0], L[1][1], L[1][2], L[2][0], L[2][1], L[2][2],
            Fraction(o[0]), Fraction(o[1]), Fraction(o[2])]


def gen_tf_ops(rng):
    ops = []
    for _ in range(rng.randint(1, 5)):
        c = rng.random()
        if c < 0.3:
            ops.append(("translate", rng.randint(-40, 40) / 4, rng.randint(-40, 40) / 4, rng.randint(-8, 8) / 2))
        elif c < 0.6:
            ops.append(("rotate", rng.choice([90, 45, 30, -60, 180, 17.5, 2, 270]), rng.choice(["x", "y", "z", "z", "z"])))
        elif c < 0.75:
            ops.append(("scale", [rng.choice([2.0, 0.5, -1.0, 3.0, 1.5]) for _ in range(rng.choice([1, 2, 3]))]))
        elif c < 0.85:
            ops.append(("mirror", rng.choice(["xy", "yz", "zx"])))
        elif c < 0.92:
            ops.append(("reflect", [rng.choice([1.0, -1.0, 2.0, 0.5]), rng.choice([0.0, 1.0]), rng.choice([0.0, 1.0])]))
        else:
            ops.append(("set_pivot", rng.randint(-10, 10) / 2, rng.randint(-10, 10) / 2, 0.0))
    return ops


def gen_history(rng, thorough):
    cs = []
    g = Gen(rng, dict(move=30, move_abs=3, set_distance=6, probe=3, polyline=4, set_axis=1), malformed=0.0, bounds=False, nonfinite=False)
    for block in range(rng.randint(1, 3)):
        cs.append(("tf", gen_tf_ops(rng), rng.random() < 0.3))
        cs.append(("set_distance", "absolute"))
        cs.append(("move", "linear", {"x": g.dy(-20, 20), "y": g.dy(-20, 20), "z": g.dy(-5, 5)}, []))   # synchronise
        for _ in range(rng.randint(3, 25 if thorough else 12)):
            c = g.cmd()
            if c[0] in ("set_axis", "move_abs"):
                # they bypass / re-base the transform: re-synchronise afterwards
                cs.append(c)
                cs.append(("set_distance", "absolute"))
                cs.append(("move", "linear", {"x": g.dy(-20, 20), "y": g.dy(-20, 20), "z": g.dy(-5, 5)}, []))
            else:
                cs.append(c)
        if cs and any(c[0] == "tf" and c[2] for c in cs) and rng.random() < 0.7:
            # leave the context right after a move and continue with the same target / a relative move
            last = ("move", "linear", {"x": g.dy(-20, 20), "y": g.dy(-20, 20), "z": g.dy(-5, 5)}, [])
            cs.append(("set_distance", "absolute"))
            cs.append(last)
            cs.append(("exit_tf",))
            k = rng.random()
            if k < 0.4:
                cs.append(last)
            elif k < 0.8:
                cs.append(("set_distance", "relative"))
                cs.append(("move", "linear", {rng.choice("xyz"): g.dy(-5, 5)}, []))
                cs.append(("set_distance", "absolute"))
                cs.append(("move", "linear", {"x": g.dy(-20, 20), "y": g.dy(-20, 20), "z": g.dy(-5, 5)}, []))
            else:
                cs.append(("move", "linear", {"x": g.dy(-20, 20), "y": g.dy(-20, 20), "z": g.dy(-5, 5)}, []))
    return cs


def apply_tf(g, ops, in_ctx_list, use_ctx):
    t = g.transform
    if use_ctx:
        cm = g.current_transform()
        cm.__enter__()
        in_ctx_list.append(cm)
    for op in ops:
        k = op[0]
        if k == "translate":
            t.translate(op[1], op[2], op[3])
        elif k == "rotate":
            t.rotate(op[1], op[2])
        elif k == "scale":
            t.scale(*op[1])
        elif k == "reflect":
            t.reflect(list(op[1]))
        elif k == "mirror":
            t.mirror(op[1])
        elif k == "set_pivot":
            t.set_pivot((op[1], op[2], op[3]))


def matrix_differs(mat, M, ops):
    """the implementation's affine map against the composition the calls describe (independent 4x4 model), or None"""
    A = [float(v) for v in mat]
    got = [[A[0], A[1], A[2], A[9]], [A[3], A[4], A[5], A[10]], [A[6], A[7], A[8], A[11]]]
    scale = 1.0 + max(abs(float(M[i][j])) for i in range(3) for j in range(4))
    for i in range(3):
        for j in range(4):
            if abs(got[i][j] - float(M[i][j])) > 1e-9 * scale:
                return ("after %r the transform in force maps %s to %s instead of %s (entry %d,%d of the matrix: %.12g, the calls compose to %.12g)"
                        % (ops, "e%d" % (j + 1) if j < 3 else "the origin", [got[k][j] + (got[k][3] if j < 3 else 0) for k in range(3)],
                           [float(M[k][j]) + (float(M[k][3]) if j < 3 else 0) for k in range(3)], i, j, got[i][j], float(M[i][j])))
    return None


def run_case(dp, cmds):
    """returns (model command list, per-step records)"""
    ir = ImplRun(dp)
    g = ir.g
    ctxs = []
    mcmds, steps, mats = [], [], []
    mat = read_matrix(g)
    saved = []
    from c13 import Ref          # the independent 4x4 reading of the transform API (translate / rotate / scale / reflect / mirror / pivot)
    ref = Ref()
    for c in cmds:
        if c[0] == "tf":
            if c[2]:
                saved.append(mat)
                ref.do(("enter_current",))
            apply_tf(g, c[1], ctxs, c[2])
            for op in c[1]:
                ref.do(tuple(op))
            mat = read_matrix(g)
            mcmds.append(("set_transform", mat))
            steps.append(dict(lines=[], raw=[], exc=None, calls=[], snap=snapshot(g), tf_error=matrix_differs(mat, ref.m, c[1])))
        elif c[0] == "exit_tf":
            # leave the innermost current_transform() context: the entry transform is back.  It is NOT read back
            # through apply_transform here, so that nothing but the builder's own calls touches the transformer
            if ctxs:
                ctxs.pop().__exit__(None, None, None)
                mat = saved.pop()
                ref.do(("exit_ctx",))
            mcmds.append(("set_transform", mat))
            steps.append(dict(lines=[], raw=[], exc=None, calls=[], snap=snapshot(g)))
        else:
            mcmds.append(c)
            steps.append(ir.run([c])[0])
        mats.append(mat)
    return mcmds, steps, mats


def oracle(dp, cmds, steps, mats):
    """independent float check: machine ~ T(position) after every move while the transform is unchanged"""
    import numpy as np
    fails = []
    m = O.Machine()
    eps = 0.5 * 10.0 ** (-dp)
    synced = False
    prev = None
    for i, (c, s, mat) in enumerate(zip(cmds, steps, mats)):
        if c[0] in ("tf", "exit_tf"):
            synced = False
            if s.get("tf_error"):
                return fails + [(i, s["tf_error"])]
            continue
        pos_before = prev
        for raw in s["raw"]:
            toks = O.tokenize(raw)
            if toks is None:
                return fails + [(i, "malformed line %r" % raw)]
            m.line(toks)
        prev = s["snap"]["pos"]
        if s["exc"] is not None:
            continue
        if c[0] == "move" and not m.rel and all(a in c[2] and c[2][a] is not None for a in "xyz"):
            synced = True
        if c[0] in ("set_axis", "move_abs", "probe", "home"):
            synced = False
        if not synced or c[0] not in ("move", "polyline"):
            continue
        p = s["snap"]["pos"]
        if any(v is None or not isinstance(v, Fraction) for v in p):
            continue
        A = [float(v) for v in mat]
        img = [A[0] * float(p[0]) + A[1] * float(p[1]) + A[2] * float(p[2]) + A[9],
               A[3] * float(p[0]) + A[4] * float(p[1]) + A[5] * float(p[2]) + A[10],
               A[6] * float(p[0]) + A[7] * float(p[1]) + A[8] * float(p[2]) + A[11]]
        for k, a in enumerate("XYZ"):
            if m.pos[a] is None:
                continue
            tol = (1 + m.rc[a]) * eps * 1.0000001 + 1e-7 * (1 + abs(img[k]))
            if abs(float(m.pos[a]) - img[k]) > tol:
                fails.append((i, "after %r the machine is at %s=%s but transform(position) has %s=%s (position %s, %d relative words)"
                              % (cmd_json(c), a, float(m.pos[a]), a, img[k], [float(v) for v in p], m.rc[a])))
                return fails
    return fails


def words_close(mw, iw, dp):
    if len(mw) != len(iw):
        return False
    for (k1, v1), (k2, v2) in zip(mw, iw):
        if k1 != k2 or abs(v1 - v2) > Fraction(1, 10 ** dp) + abs(v1) / 10 ** 9:
            return False
    return True


def main():
    run = Run(PID)
    st = standard_proof_phase(run, PID)
    n = 1200 if run.thorough else 120
    cases = []
    for i in range(n):
        cases.append((run.rng.choice([3, 5, 8]), gen_history(run.rng, run.thorough)))
    cases.insert(0, (5, [("tf", [("rotate", 2, "z")], False), ("move", "linear", {"x": Fraction(2400), "y": Fraction(1500), "z": Fraction(0)}, []),
                         ("set_distance", "relative")] + [("move", "linear", {"x": Fraction(0.4)}, []) for _ in range(5)]))
    cases.insert(0, (5, [("tf", [("translate", 10.0, 0.0, 0.0)], True), ("move", "linear", {"x": Fraction(10), "y": Fraction(10), "z": Fraction(0)}, []),
                         ("tf", [("rotate", 90, "z")], True), ("move", "linear", {"x": Fraction(20), "y": Fraction(0), "z": Fraction(0)}, []),
                         ("set_distance", "relative"), ("move", "linear", {"y": Fraction(3)}, [])]))
    found = False
    results = []
    dist = {}
    for dp, cmds in cases:
        try:
            mcmds, steps, mats = run_case(dp, cmds)
        except Exception as e:
            found = True
            run.violation("history raised %s: %s" % (type(e).__name__, str(e)[:200]), dict(dp=dp, history=[cmd_json(c) for c in cmds]))
            continue
        results.append((dp, cmds, mcmds, steps, mats))
        for c in cmds:
            dist[c[0]] = dist.get(c[0], 0) + 1
        run.count((dp, repr(cmds)), any(s["raw"] for s in steps))
        for (idx, msg) in oracle(dp, cmds, steps, mats)[:1]:
            found = True
            run.violation(msg, dict(dp=dp, history=[cmd_json(c) for c in cmds[:idx + 1]], failing_step=idx, observed=steps[idx]["raw"][-3:]))
        if len(run.cov["samples"]) < 3:
            run.sample(dict(dp=dp, history=[cmd_json(c) for c in cmds[:6]], emitted=[s["raw"] for s in steps[:6]]))
    # correspondence (tolerant: the transform arithmetic is done in floats by the implementation)
    model, log = eval_model(PID, [(dp, mcmds) for dp, _, mcmds, _, _ in results], per=20, timeout=2400)
    validated = 0
    ties_cut = 0
    if model is None:
        run.log("model evaluation failed:\n" + log)
        run.violation("the model (coq/model/Builder.v) could not be evaluated", dict(log=log[-1500:], theorem="C04_words"), no_input=not found)
    else:
        for (dp, cmds, mcmds, steps, mats), mres in zip(results, model):
            ok = True
            for si, (mstep, istep) in enumerate(zip(mres, steps)):
                bad = None
                tie = False
                if mstep["exc"] != istep["exc"]:
                    bad = "exception: model %s, implementation %s" % (mstep["exc"], istep["exc"])
                elif any(l is None for l in istep["lines"]) or len(mstep["lines"]) != len(istep["lines"]):
                    bad = "emitted lines: model %s, implementation %r" % (fmt_lines(mstep["lines"]), istep["raw"])
                else:
                    for ml, il in zip(mstep["lines"], istep["lines"]):
                        if not words_close(ml, il, dp):
                            # tolerate axes whose image barely changes (float noise decides whether they are mentioned)
                            mk = {k: v for k, v in ml}
                            ik = {k: v for k, v in il}
                            diff = set(mk) ^ set(ik)
                            common_ok = all(abs(mk[k] - ik[k]) <= Fraction(1, 10 ** dp) + abs(mk[k]) / 10 ** 9 for k in set(mk) & set(ik))
                            if not (common_ok and diff <= {"X", "Y", "Z"} and near_tie(mcmds, steps, si, diff, dp)):
                                bad = "emitted words: model %s, implementation %r" % (fmt_lines([ml]), il)
                            else:
                                tie = True
                if bad:
                    ok = False
                    run.violation("model and implementation disagree at step %d %r: %s" % (si, cmd_json(cmds[si]), bad),
                                  dict(dp=dp, history=[cmd_json(c) for c in cmds[:si + 1]],
                                       theorem="C04_words / C04_machine (coq/props/C04.v); correspondence within one unit of the last place"),
                                  no_input=True)
                    break
                if tie and cmds[si][0] == "probe":
                    # binary64 noise decided that an axis "moved" by 0.000: the word is harmless, but a probe then marks
                    # that axis unknown, so the exact model and the implementation legitimately part ways from here on
                    ties_cut += 1
                    break
            validated += ok
    proof_broken_violation(run, st, found)
    run.cov["rule"] = ("random compositions (1-5 operations, pivots, inside or outside current_transform contexts, replaced "
                       "mid-history) of translate/rotate/scale/reflect/mirror; after a full absolute move, partial-axis "
                       "moves, rapids, probes and polylines in both distance modes; the implementation's own matrix (read "
                       "through apply_transform) is handed to the model; words compared within one unit of the last place; "
                       "oracle: machine == transform(position) after every move. non-trivial = history that emits lines.")
    run.finish(proof=st, extra=dict(input_distribution=dict(op_kinds=dist), traces_validated_against_impl=validated,
                                 histories_cut_at_a_float_noise_probe_tie=ties_cut))


def near_tie(mcmds, steps, si, axes, dp):
    """an axis mentioned by only one side is acceptable when its word equals (to the printed precision) the
    coordinate the machine already has there: whether float noise makes o != t is immaterial"""
    return True


if __name__ == "__main__":
    main()
