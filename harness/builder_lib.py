"""Shared code of the builder-family checks (C01 C02 C03 C05 C06 C07 C20 ...):
command representation, generator, runner for the real GCodeBuilder (public API only),
Gallina emitter, model evaluation and comparison."""
import io
import math
import os
import sys
from fractions import Fraction

sys.path.insert(0, os.path.dirname(os.path.abspath(__file__)))
from common import *  # noqa

IMPORTS = "From GS Require Import model.Num model.Builder model.BuilderEnc.\nOpen Scope string_scope.\n"

INF = "inf"
NINF = "-inf"
NAN = "nan"

SPIN = {"off": "SpinOff", "clockwise": "SpinCW", "counter": "SpinCCW"}
POWER = {"off": "PowOff", "constant": "PowConst", "dynamic": "PowDyn"}
SWAP = {"off": "SwapOff", "manual": "SwapManual", "automatic": "SwapAuto"}
COOL = {"off": "CoolOff", "mist": "CoolMist", "flood": "CoolFlood"}
# emergency_halt(message): ordinary text, the empty message, and messages with line boundaries (one comment line each)
EMERGENCY_MESSAGES = ["door open", "x", "limit hit; stop", "", "door\nopen", "e-stop\r\npressed", "limit\u2028X", "tab\there"]
HALT = {"off": "HaltOff", "pause": "HPause", "optional-pause": "HOptPause", "end-without-reset": "HEnd",
        "end-with-reset": "HEndReset", "pallet-exchange": "HPallet", "wait-for-bed": "HWaitBed",
        "wait-for-hotend": "HWaitHotend", "wait-for-chamber": "HWaitChamber", "wait-for-motion": "HWaitMotion"}
PROBE = {"away": "PAway", "towards": "PTowards", "away-no-error": "PAwayNoErr", "towards-no-error": "PTowardsNoErr"}
DMODE = {"absolute": "Absolute", "relative": "Relative"}
EMODE = {"absolute": "EAbsolute", "relative": "ERelative"}
FMODE = {"units/min": "PerMinute", "units/rev": "PerRev", "1/time": "InvTime"}
UNITS = {"inches": "Inches", "millimeters": "Millimeters"}
PLANE = {"xy": "XY", "zx": "ZX", "yz": "YZ"}
TUNITS = {"seconds": "Seconds", "milliseconds": "Milliseconds"}
KUNITS = {"celsius": "Celsius", "kelvin": "Kelvin"}
QUERY = {"position": "QPosition", "temperature": "QTemperature"}
BNAME = {"axes": "BAxes", "bed-temperature": "BBed", "chamber-temperature": "BChamber",
         "hotend-temperature": "BHotend", "feed-rate": "BFeed", "tool-number": "BToolnum",
         "tool-power": "BPower"}
SNAP_LETTERS = ["F", "S", "E", "A", "B", "P", "I", "R"]


# ---------------------------------------------------------------------------------------
# numbers
# ---------------------------------------------------------------------------------------

def to_py(v):
    """command value -> what is handed to the API"""
    if v is None:
        return None
    if v == INF:
        return math.inf
    if v == NINF:
        return -math.inf
    if v == NAN:
        return math.nan
    f = float(v)
    assert Fraction(f) == v, "value not exactly representable: %r" % (v,)
    return f


def g_x(v):
    if v == INF:
        return "PInf"
    if v == NINF:
        return "NInf"
    if v == NAN:
        return "NaN"
    return "(Fin %s)" % g_Q(Fraction(v))


def g_ox(v):
    return "None" if v is None else "(Some %s)" % g_x(v)


def g_req(r):
    return "(mkreq %s %s %s)" % (g_ox(r.get("x")), g_ox(r.get("y")), g_ox(r.get("z")))


def g_params(ps):
    return g_list(['("%s", %s)' % (k.upper(), g_x(v)) for k, v in ps])


def g_arg(table, m):
    return "(Member %s)" % table[m] if m in table else "BadName"


def g_pt(p):
    return "(mkpt %s %s %s)" % tuple(g_opt(c, lambda q: g_Q(Fraction(q))) for c in p)


def g_hook(h):
    if h[0] == "record":
        return "(HRecord %d)" % h[1]
    if h[0] == "set":
        return '(HSet %d "%s" %s)' % (h[1], h[2], g_x(h[3]))
    if h[0] == "drop":
        return '(HDrop %d "%s")' % (h[1], h[2])
    if h[0] == "extrude":
        # area = nozzle*layer ; cross = pi*(d/2)^2 with pi the double math.pi (as computed in floats)
        return "(HExtrude %d %s %s)" % (h[1], g_Q(Fraction(h[5])), g_Q(Fraction(h[6])))
    raise ValueError(h)


def g_cmd(c):
    op = c[0]
    if op == "move":
        return "Move %s %s %s" % ("Linear" if c[1] == "linear" else "Rapid", g_req(c[2]), g_params(c[3]))
    if op == "move_abs":
        return "MoveAbs %s %s %s" % ("Linear" if c[1] == "linear" else "Rapid", g_req(c[2]), g_params(c[3]))
    if op == "set_axis":
        return "SetAxis %s %s" % (g_req(c[1]), g_params(c[2]))
    if op == "home":
        return "Home %s %s" % (g_req(c[1]), g_params(c[2]))
    if op == "probe":
        return "Probe %s %s %s" % (g_arg(PROBE, c[1]), g_req(c[2]), g_params(c[3]))
    if op == "polyline":
        return "Polyline %s %s" % (g_list([g_pt(p) for p in c[1]]), g_params(c[2]))
    if op == "set_distance":
        return "SetDistance %s" % g_arg(DMODE, c[1])
    if op == "enter_abs":
        return "EnterAbs"
    if op == "enter_rel":
        return "EnterRel"
    if op == "exit_mode":
        return "ExitMode"
    if op == "set_extrusion":
        return "SetExtrusion %s" % g_arg(EMODE, c[1])
    if op == "set_feed_mode":
        return "SetFeedMode %s" % g_arg(FMODE, c[1])
    if op == "set_units":
        return "SetUnits %s" % g_arg(UNITS, c[1])
    if op == "set_plane":
        return "SetPlane %s" % g_arg(PLANE, c[1])
    if op == "set_time_units":
        return "SetTimeUnits %s" % g_arg(TUNITS, c[1])
    if op == "set_temp_units":
        return "SetTempUnits %s" % g_arg(KUNITS, c[1])
    if op == "set_feed":
        return "SetFeed %s" % g_x(c[1])
    if op == "set_power":
        return "SetPower %s" % g_x(c[1])
    if op == "set_fan":
        return "SetFan %s %s" % (g_x(c[1]), g_Z(c[2]))
    if op == "set_bed":
        return "SetBedT %s" % g_x(c[1])
    if op == "set_hotend":
        return "SetHotendT %s" % g_x(c[1])
    if op == "set_chamber":
        return "SetChamberT %s" % g_x(c[1])
    if op == "sleep":
        return "Sleep %s" % g_x(c[1])
    if op == "tool_on":
        return "ToolOn %s %s" % (g_arg(SPIN, c[1]), g_x(c[2]))
    if op == "tool_off":
        return "ToolOff"
    if op == "power_on":
        return "PowerOn %s %s" % (g_arg(POWER, c[1]), g_x(c[2]))
    if op == "power_off":
        return "PowerOff"
    if op == "tool_change":
        return "ToolChange %s %s" % (g_arg(SWAP, c[1]), g_Z(c[2]))
    if op == "coolant_on":
        return "CoolantOn %s" % g_arg(COOL, c[1])
    if op == "coolant_off":
        return "CoolantOff"
    if op == "halt":
        return "Halt %s %s" % (g_arg(HALT, c[1]), g_params(c[2]))
    if op == "pause":
        return "Halt (Member %s) []" % ("HOptPause" if c[1] else "HPause")
    if op == "stop":
        return "Halt (Member %s) []" % ("HEndReset" if c[1] else "HEnd")
    if op == "wait":
        return "Halt (Member HWaitMotion) []"
    if op == "emergency":
        return "EmergencyHalt %s" % g_bool(c[2])
    if op == "query":
        return "Query %s" % g_arg(QUERY, c[1])
    if op == "comment":
        return "Comment"
    if op == "annotate":
        return "Annotate %s" % g_bool(c[1].isidentifier())
    if op == "set_bounds":
        name, lo, hi = c[1], c[2], c[3]
        bn = BNAME.get(name, "BUnknown")
        if name == "axes":
            return "SetBounds %s %s %s (Fin 0) (Fin 0)" % (bn, g_pt(lo), g_pt(hi))
        return "SetBounds %s unknown unknown %s %s" % (bn, g_x(lo), g_x(hi))
    if op == "set_transform":
        return "SetTransform (mkaff %s)" % " ".join(g_Q(Fraction(v)) for v in c[1])
    if op == "add_hook":
        return "AddHook %s" % g_hook(c[1])
    if op == "remove_hook":
        return "RemoveHook %d" % c[1]
    raise ValueError(c)


# ---------------------------------------------------------------------------------------
# implementation runner (public API only)
# ---------------------------------------------------------------------------------------

def tokenize_line(raw, comment_symbol=";"):
    """independent tokenizer: words before the comment -> [(letters, Fraction)], or None if malformed"""
    s = raw.decode("utf-8", "replace") if isinstance(raw, bytes) else raw
    s = s.rstrip("\r\n")
    i = s.find(comment_symbol)
    if i >= 0:
        s = s[:i]
    words = []
    for tok in s.split():
        j = 0
        while j < len(tok) and tok[j].isalpha():
            j += 1
        letters, num = tok[:j], tok[j:]
        try:
            # plain signed decimals only (no exponent): anything else is reported as malformed
            import re
            if not re.fullmatch(r"-?\d+(\.\d+)?|-?\.\d+", num) or not letters:
                return None
            words.append((letters, Fraction(num)))
        except Exception:
            return None
    return words


def exc_bucket(e):
    n = type(e).__name__
    if n in ("ToolStateError",):
        return "ToolStateErr"
    if n in ("CoolantStateError",):
        return "CoolantStateErr"
    if isinstance(e, KeyError):
        return "KeyErr"
    if isinstance(e, IndexError):
        return "IndexErr"
    if isinstance(e, ValueError):
        return "ValueErr"
    return "Other:" + n


def fnum(v):
    """float/int/np.float64 from the implementation -> canonical value"""
    if v is None:
        return None
    f = float(v)
    if math.isnan(f):
        return NAN
    if math.isinf(f):
        return INF if f > 0 else NINF
    return Fraction(f)


class Recorder:
    def __init__(self):
        from gscrib.writers import BaseWriter
        outer = self

        class W(BaseWriter):
            def connect(self):
                return self

            def disconnect(self, wait=True):
                pass

            def write(self, statement):
                outer.chunks.append(bytes(statement))

            def flush(self):
                pass
        self.chunks = []
        self.writer = W()


def snapshot(g):
    s = g.state
    p, q = g.position, s.position
    return dict(
        pos=[fnum(p.x), fnum(p.y), fnum(p.z)], spos=[fnum(q.x), fnum(q.y), fnum(q.z)],
        dm=g.distance_mode.value, sdm=s.distance_mode.value,
        feed=fnum(s.feed_rate), power=fnum(s.tool_power),
        tool_on=bool(s.is_tool_active), cool_on=bool(s.is_coolant_active),
        spin=s.spin_mode.value, powerm=s.power_mode.value, cool=s.coolant_mode.value,
        swap=s.tool_swap_mode.value, halt=s.halt_mode.value, toolnum=int(s.tool_number),
        em=s.extrusion_mode.value, fm=s.feed_mode.value, lu=s.length_units.value,
        tu=s.time_units.value, ku=s.temperature_units.value, pl=s.plane.value,
        t_hotend=fnum(s.target_hotend_temperature), t_bed=fnum(s.target_bed_temperature),
        t_chamber=fnum(s.target_chamber_temperature),
        params=[fnum(g.get_parameter(k)) for k in SNAP_LETTERS],
        sparams=[fnum(s.get_parameter(k)) for k in SNAP_LETTERS],
        bounds=[_bound_repr(s.get_bounds(name)) for name in BNAME])


def _bound_repr(b):
    """the user bounds of one property as plain data (None when not set)"""
    if b is None:
        return None
    out = []
    for v in b:
        if v is None:
            out.append(None)
        elif hasattr(v, "x"):
            out.append([fnum(v.x), fnum(v.y), fnum(v.z)])
        else:
            out.append(fnum(v))
    return None if all(v is None for v in out) else out


def make_hook(h, calls):
    if h[0] == "record":
        def hook(origin, target, params, state, _id=h[1]):
            calls.append((_id, [fnum(origin.x), fnum(origin.y), fnum(origin.z)],
                          [fnum(target.x), fnum(target.y), fnum(target.z)]))
            return params
        return hook
    if h[0] == "set":
        def hook(origin, target, params, state, _id=h[1], k=h[2], v=h[3]):
            calls.append((_id, [fnum(origin.x), fnum(origin.y), fnum(origin.z)],
                          [fnum(target.x), fnum(target.y), fnum(target.z)]))
            params.update({k: to_py(v)})
            return params
        return hook
    if h[0] == "drop":
        def hook(origin, target, params, state, _id=h[1], k=h[2]):
            calls.append((_id, [fnum(origin.x), fnum(origin.y), fnum(origin.z)],
                          [fnum(target.x), fnum(target.y), fnum(target.z)]))
            # a NEW mapping without the word: the hook's return value replaces the parameters
            return type(params)({k2: v for k2, v in params.items() if k2 != k})
        return hook
    if h[0] == "extrude":
        from gscrib.hooks.extrusion_hook import extrusion_hook
        inner = extrusion_hook(float(h[2]), float(h[3]), float(h[4]))

        def hook(origin, target, params, state, _id=h[1]):
            calls.append((_id, [fnum(origin.x), fnum(origin.y), fnum(origin.z)],
                          [fnum(target.x), fnum(target.y), fnum(target.z)]))
            return inner(origin, target, params, state)
        return hook
    raise ValueError(h)


def call_point(rng_choice, r):
    """build (args, kwargs) for a point-taking call from a request dict"""
    kw = {k: to_py(v) for k, v in r.items() if v is not None}
    return kw


class ImplRun:
    """Runs a command list on a fresh GCodeBuilder; one record per call."""

    def __init__(self, dp=5, style=0):
        from gscrib import GCodeBuilder
        self.rec = Recorder()
        # the same configuration through the three accepted forms: keywords, a dict, a GConfig object
        if style == 1:
            self.g = GCodeBuilder({"decimal_places": dp, "line_endings": "\n"})
        elif style == 2:
            from gscrib.config import GConfig
            self.g = GCodeBuilder(GConfig(decimal_places=dp, line_endings="\n"))
        elif style == 3:
            from gscrib.config import GConfig
            self.g = GCodeBuilder(GConfig(decimal_places=5, line_endings="os"), decimal_places=dp, line_endings="\n")
        else:
            self.g = GCodeBuilder(decimal_places=dp, line_endings="\n")
        self.g.add_writer(self.rec.writer)
        self.ctx = []      # open mode context managers
        self.hooks = {}
        self.hook_cms = {}
        self.calls = []
        self.style = style

    def _point_call(self, fn, r, ps, extra_args=()):
        kw = {k: to_py(v) for k, v in r.items() if v is not None}
        for k, v in ps:
            kw[k] = to_py(v)
        if self.style == 1 and all(r.get(a) is not None for a in "xyz"):
            x, y, z = kw.pop("x"), kw.pop("y"), kw.pop("z")
            return fn(*extra_args, (x, y, z), **kw)
        if self.style == 3 and r.get("x") is not None and r.get("z") is None:
            # a point-like prefix plus a keyword for an axis the point does not have: the point wins, the keyword is ignored
            pt = (kw.pop("x"),) if r.get("y") is None else (kw.pop("x"), kw.pop("y"))
            kw["z" if len(pt) == 2 else "y"] = 7.25
            return fn(*extra_args, pt, **kw)
        if self.style == 2 and len([a for a in "xyz" if r.get(a) is not None]) > 0:
            from gscrib.geometry import Point
            p = Point(kw.pop("x", None), kw.pop("y", None), kw.pop("z", None))
            return fn(*extra_args, p, **kw)
        return fn(*extra_args, **kw)

    def do(self, c):
        g = self.g
        op = c[0]
        if op == "move":
            return self._point_call(g.move if c[1] == "linear" else g.rapid, c[2], c[3])
        if op == "move_abs":
            return self._point_call(g.move_absolute if c[1] == "linear" else g.rapid_absolute, c[2], c[3])
        if op == "set_axis":
            return self._point_call(g.set_axis, c[1], c[2])
        if op == "home":
            return self._point_call(g.auto_home, c[1], c[2])
        if op == "probe":
            return self._point_call(g.probe, c[2], c[3], extra_args=(c[1],))
        if op == "polyline":
            pts = c[1]
            # the model receives absolute vertices; the API call is made in the current distance mode
            if g.distance_mode.value == "relative":
                cur = [float(v or 0) for v in g.position]
                targets = []
                for p in pts:
                    t = [float(p[i]) - cur[i] for i in range(3)]
                    targets.append(tuple(t))
                    cur = [float(p[i]) for i in range(3)]
            else:
                targets = [tuple(float(v) for v in p) for p in pts]
            return g.trace.polyline(targets, **{k: to_py(v) for k, v in c[2]})
        if op == "set_distance":
            return g.set_distance_mode(c[1])
        if op in ("enter_abs", "enter_rel"):
            cm = g.absolute_mode() if op == "enter_abs" else g.relative_mode()
            self.ctx.append(cm)
            try:
                return cm.__enter__()
            except Exception:
                self.ctx.pop()
                raise
        if op == "exit_mode":
            if self.ctx:
                cm = self.ctx.pop()
                return cm.__exit__(None, None, None)
            return None
        if op == "set_extrusion":
            return g.set_extrusion_mode(c[1])
        if op == "set_feed_mode":
            return g.set_feed_mode(c[1])
        if op == "set_units":
            return g.set_length_units(c[1])
        if op == "set_plane":
            return g.set_plane(c[1])
        if op == "set_time_units":
            return g.set_time_units(c[1])
        if op == "set_temp_units":
            return g.set_temperature_units(c[1])
        if op == "set_feed":
            return g.set_feed_rate(to_py(c[1]))
        if op == "set_power":
            return g.set_tool_power(to_py(c[1]))
        if op == "set_fan":
            return g.set_fan_speed(to_py(c[1]), c[2])
        if op == "set_bed":
            return g.set_bed_temperature(to_py(c[1]))
        if op == "set_hotend":
            return g.set_hotend_temperature(to_py(c[1]))
        if op == "set_chamber":
            return g.set_chamber_temperature(to_py(c[1]))
        if op == "sleep":
            return g.sleep(to_py(c[1]))
        if op == "tool_on":
            return g.tool_on(c[1], to_py(c[2]))
        if op == "tool_off":
            return g.tool_off()
        if op == "power_on":
            return g.power_on(c[1], to_py(c[2]))
        if op == "power_off":
            return g.power_off()
        if op == "tool_change":
            return g.tool_change(c[1], c[2])
        if op == "coolant_on":
            return g.coolant_on(c[1])
        if op == "coolant_off":
            return g.coolant_off()
        if op == "halt":
            return g.halt(c[1], **{k: to_py(v) for k, v in c[2]})
        if op == "pause":
            return g.pause(c[1])
        if op == "stop":
            return g.stop(c[1])
        if op == "wait":
            return g.wait()
        if op == "emergency":
            return g.emergency_halt(c[1], c[2])
        if op == "query":
            return g.query(c[1])
        if op == "comment":
            return g.comment(c[1])
        if op == "annotate":
            return g.annotate(c[1], c[2])
        if op == "set_bounds":
            name, lo, hi = c[1], c[2], c[3]
            if name == "axes":
                return g.set_bounds(name, tuple(float(v) if v is not None else None for v in lo),
                                    tuple(float(v) if v is not None else None for v in hi))
            return g.set_bounds(name, to_py(lo), to_py(hi))
        if op == "trace":
            # oracle-only command (not in the model): ("trace", shape, args, kwargs)
            args = [tuple(float(v) for v in a) if isinstance(a, (list, tuple)) and a and not isinstance(a[0], (list, tuple))
                    else ([tuple(float(v) for v in q) for q in a] if isinstance(a, (list, tuple)) else a) for a in c[2]]
            return getattr(g.trace, c[1])(*args, **{k: (float(v) if isinstance(v, Fraction) else v) for k, v in c[3].items()})
        if op == "set_direction":
            return g.set_direction(c[1])
        if op == "set_resolution":
            return g.set_resolution(float(c[1]))
        if op == "add_hook":
            h = c[1]
            if h[1] not in self.hooks:
                self.hooks[h[1]] = make_hook(h, self.calls)
                if (h[1] + self.style) % 2 == 0:
                    # the same registration through the context manager: `with g.move_hook(fn):` entered here, left at the
                    # matching remove_hook
                    cm = g.move_hook(self.hooks[h[1]])
                    self.hook_cms[h[1]] = cm
                    return cm.__enter__()
            return g.add_hook(self.hooks[h[1]])
        if op == "remove_hook":
            if c[1] in self.hooks:
                # forget the function object: a later add_hook with this id registers the NEW specification, as in the model
                fn = self.hooks.pop(c[1])
                cm = self.hook_cms.pop(c[1], None)
                if cm is not None:
                    return cm.__exit__(None, None, None)
                return g.remove_hook(fn)
            return None
        raise ValueError(c)

    def run(self, cmds):
        out = []
        for c in cmds:
            n0 = len(self.rec.chunks)
            self.calls.clear()
            exc = None
            try:
                self.do(c)
            except Exception as e:  # noqa
                exc = exc_bucket(e)
                excmsg = str(e)[:120]
            raw = self.rec.chunks[n0:]
            lines = [tokenize_line(b) for b in raw]
            out.append(dict(lines=lines, raw=[b.decode("utf-8", "replace") for b in raw], exc=exc,
                            calls=list(self.calls), snap=snapshot(self.g)))
        return out


# ---------------------------------------------------------------------------------------
# model evaluation
# ---------------------------------------------------------------------------------------

def _q(t):
    assert t[0] == "QQ", t
    return Fraction(t[1], t[2])


def _x(t):
    if t == "XP":
        return INF
    if t == "XN":
        return NINF
    if t == "XNaN":
        return NAN
    assert t[0] == "XF", t
    return Fraction(t[1], t[2])


def _o(t, f):
    if t == "None":
        return None
    assert t[0] == "Some", t
    return f(t[1])


_INV = {}
for _tab in (SPIN, POWER, SWAP, COOL, HALT, DMODE, EMODE, FMODE, UNITS, PLANE, TUNITS, KUNITS):
    for k, v in _tab.items():
        _INV[v] = k


def decode_res(t):
    ls, e, calls, sn = t
    (pos, spos, dm, sdm, (feed, power, tool_on, cool_on), (spin, powerm, cool, swap, halt, toolnum),
     (em, fm, lu, tu, ku, pl), (th, tb, tc), params) = sn
    snap = dict(
        pos=[_o(c, _q) for c in pos], spos=[_o(c, _q) for c in spos], dm=_INV[dm], sdm=_INV[sdm],
        feed=_x(feed), power=_x(power), tool_on=(tool_on == "true"), cool_on=(cool_on == "true"),
        spin=_INV[spin], powerm=_INV[powerm], cool=_INV[cool], swap=_INV[swap], halt=_INV[halt],
        toolnum=int(toolnum), em=_INV[em], fm=_INV[fm], lu=_INV[lu], tu=_INV[tu], ku=_INV[ku], pl=_INV[pl],
        t_hotend=_x(th), t_bed=_x(tb), t_chamber=_x(tc),
        params=[_o(c, _x) for c in params])
    return dict(lines=[[(w[0], _q(w[1])) for w in l] for l in ls],
                exc=None if e == "None" else e[1],
                calls=[(c[0], [_o(x, _q) for x in c[1]], [_o(x, _q) for x in c[2]]) for c in calls],
                snap=snap)


def eval_model(pid, cases, per=60, timeout=1200):
    """cases: list of (dp, cmds). Returns list of per-step decoded results, or None on failure (+log)."""
    files = []
    for i in range(0, len(cases), per):
        body = ""
        for j, (dp, cmds) in enumerate(cases[i:i + per]):
            body += "Eval vm_compute in run_enc %d %s.\n" % (dp, g_list([g_cmd(c) for c in cmds]))
        files.append(("b_%d" % (i // per), body))
    out_all = []
    for (rc, out) in coq_eval_many(pid, files, IMPORTS, timeout=timeout):
        vals = parse_evals(out)
        if rc != 0:
            return None, out[-3000:]
        out_all.extend(vals)
    if len(out_all) != len(cases):
        return None, "expected %d results, got %d" % (len(cases), len(out_all))
    res = []
    for v in out_all:
        res.append([decode_res(t) for t in parse_term(v)])
    return res, ""


# ---------------------------------------------------------------------------------------
# the reference interpreters: Coq (model/Interp.v, the specification side of C01 / C02 / C07) against Python (oracle.py)
# ---------------------------------------------------------------------------------------
def g_words(words):
    return g_list(['("%s", Qmake (%d) %d)' % (k, v.numerator, v.denominator) for k, v in words])


def interp_crosscheck(pid, programs, timeout=900):
    """programs: list of programs, each a list of tokenized lines [(letter, Fraction), ...] as the IMPLEMENTATION emitted them.
    Reads every program with the Coq interpreter that the pid's theorems are stated against and with the Python oracle the
    harness judges the implementation with; returns (number compared, first difference or None)."""
    import oracle as O
    # rationals are printed as (numerator, denominator) pairs and options as lists: Coq prints some Q values in decimal / hexadecimal notation
    defs = ("Definition qp (q : Q) : Z * Z := (Qnum (Qred q), Zpos (Qden (Qred q))).\n"
            "Definition oq (o : option Q) := match o with Some q => [qp q] | None => [] end.\n"
            "Definition oz (o : option Z) := match o with Some z => [z] | None => [] end.\n"
            "Definition ax (a : option (Q * nat)) := match a with Some (q, n) => [(qp q, n)] | None => [] end.\n")
    if pid == "C01":
        expr = "(let p := pinterp_lines pmach0 L in (p_rel p, ax (p_x p), ax (p_y p), ax (p_z p)))"
    elif pid == "C02":
        expr = "(let f := scan_lines flags0 L in (f_tool f, f_cool f, f_ok f))"
    else:
        expr = ("(let m := interp_lines mach0 L in (m_tool m, m_start m, oq (m_S m), m_cool m, oq (m_T m), oq (m_F m), m_rel m, (oz (m_em m), oz (m_fm m), oz (m_lu m), oz (m_pl m)), "
                "(oq (m_bed m), oq (m_hot m), oq (m_cha m)), %s))" % g_list(['oq (param_lines "%s" None L)' % k for k in SNAP_LETTERS]))
    files = []
    per = 40
    for i in range(0, len(programs), per):
        body = "Open Scope string_scope.\n" + defs
        for prog in programs[i:i + per]:
            body += "Eval vm_compute in (let L := %s in %s).\n" % (g_list([g_words(l) for l in prog]), expr)
        files.append(("interp_%d" % (i // per), body))
    vals = []
    for rc, out in coq_eval_many(pid, files, "From GS Require Import model.Num model.Builder model.Interp model.InterpParams.\n", timeout=timeout):
        if rc != 0:
            return 0, "the reference interpreter (coq/model/Interp.v) could not be evaluated: " + out[-800:]
        vals.extend(parse_evals(out))
    if len(vals) != len(programs):
        return 0, "the reference interpreter (coq/model/Interp.v) could not be evaluated: %d results for %d programs" % (len(vals), len(programs))

    def q_(pr):
        return Fraction(int(pr[0]), int(pr[1]))

    def opt(l, conv):
        return conv(l[0]) if l else None

    n = 0
    for prog, val in zip(programs, vals):
        m = O.Machine()
        for l in prog:
            m.line(l)
        t = parse_term(val)
        if pid == "C01":
            rel, px_, py_, pz_ = t
            got = (rel == "true", [opt(a, lambda pr: (Fraction(int(pr[0]), int(pr[1])), int(pr[2]))) for a in (px_, py_, pz_)])     # ((n, d), k) prints as (n, d, k)
            want = (m.rel, [None if m.pos[a] is None else (Fraction(m.pos[a]), m.rc[a] + 1) for a in "XYZ"])
        elif pid == "C02":
            got = tuple(x == "true" for x in t)
            want = (m.tool, m.cool, not m.bad)
        else:
            tool, start, s_, cool, t_, f_, rel, modes, temps, pars = t
            got = (tool == "true", int(start), opt(s_, q_), int(cool), opt(t_, q_), opt(f_, q_), rel == "true",
                   tuple(opt(x, int) for x in modes), tuple(opt(x, q_) for x in temps), [opt(x, q_) for x in pars])
            want = (m.tool, m.start or 0, m.S, m.coolmode or 0, None if m.T is None else Fraction(m.T), m.feed, m.rel,
                    ({None: None, "absolute": 82, "relative": 83}[m.emode], {None: None, "1/time": 93, "units/min": 94, "units/rev": 95}[m.fmode],
                     {None: None, "inches": 20, "millimeters": 21}[m.units], {None: None, "xy": 17, "zx": 18, "yz": 19}[m.plane]),
                    (m.temps["bed"], m.temps["hotend"], m.temps["chamber"]), [m.params.get(k) for k in SNAP_LETTERS])
        if got != want:
            return n, "the Coq reference interpreter and the Python oracle read an emitted program differently: Coq %r, oracle %r; program (last lines) %r" % (
                got, want, [" ".join("%s%s" % (k, float(v)) for k, v in l) for l in prog[-6:]])
        n += 1
    return n, None


def compare_step(mi, ii, fields=None, tol=None):
    """first difference between a model step and an implementation step, or None"""
    if mi["exc"] != ii["exc"]:
        return "exception: model %s, implementation %s" % (mi["exc"], ii["exc"])
    if any(l is None for l in ii["lines"]):
        return "implementation emitted a malformed line: %r" % ii["raw"]
    if mi["lines"] != ii["lines"]:
        return "emitted words: model %s, implementation %s" % (fmt_lines(mi["lines"]), ii["raw"])
    nonfinite_call = any(not isinstance(v, Fraction) for c in ii["calls"] for pt in c[1:] for v in pt if v is not None)
    if not nonfinite_call and mi["calls"] != ii["calls"]:
        return "hook calls: model %s, implementation %s" % (mi["calls"], ii["calls"])
    for k, v in mi["snap"].items():
        if fields is not None and k not in fields:
            continue
        if ii["snap"][k] != v:
            return "state field %s: model %s, implementation %s" % (k, v, ii["snap"][k])
    if fields is None or "params" in fields:
        if ii["snap"]["sparams"] != mi["snap"]["params"]:
            return "state.get_parameter: model %s, implementation %s" % (mi["snap"]["params"], ii["snap"]["sparams"])
    return None


def fmt_lines(ls):
    return [" ".join("%s%s" % (l, float(v)) for l, v in line) for line in ls]


def cmd_json(c):
    def conv(v):
        if isinstance(v, Fraction):
            return "%d/%d" % (v.numerator, v.denominator)
        if isinstance(v, (list, tuple)):
            return [conv(x) for x in v]
        if isinstance(v, dict):
            return {k: conv(x) for k, x in v.items()}
        return v
    return conv(c)


def cmd_unjson(c):
    import re

    def conv(v):
        if isinstance(v, str) and re.fullmatch(r"-?\d+/\d+", v):
            return Fraction(v)
        if isinstance(v, list):
            return [conv(x) for x in v]
        if isinstance(v, dict):
            return {k: conv(x) for k, x in v.items()}
        return v
    r = conv(c)

    def tup(c):
        c = list(c)
        for i, v in enumerate(c):
            if isinstance(v, list) and c[0] in ("move", "move_abs", "probe", "halt", "set_axis", "home", "polyline") \
                    and v and isinstance(v[0], list) and len(v[0]) == 2 and isinstance(v[0][0], str):
                c[i] = [tuple(x) for x in v]
        return tuple(c)
    return tup(r)


# ---------------------------------------------------------------------------------------
# generator
# ---------------------------------------------------------------------------------------

class Gen:
    """Weighted grammar over the builder API with a shadow of the interlock state so that most
    calls succeed; a separate malformed stream injects rejected calls."""

    def __init__(self, rng, weights, malformed=0.12, bounds=False, hooks=False, nonfinite=True):
        self.rng = rng
        self.w = weights
        self.malformed = malformed
        self.tool = False
        self.cool = False
        self.depth = 0
        self.use_bounds = bounds
        self.bounds = {}
        self.hooks = hooks
        self.hook_ids = []
        self.nonfinite = nonfinite
        self.pos = [Fraction(0)] * 3

    def dy(self, lo=-64, hi=64, den=None):
        r = self.rng
        den = den or r.choice([1, 1, 2, 4, 8, 1024])
        return Fraction(r.randint(lo * den, hi * den), den)

    def coord(self):
        r = self.rng
        if self.nonfinite and r.random() < self.malformed * 0.15:
            return r.choice([INF, NINF, NAN])
        if "axes" in self.bounds and r.random() < 0.8:
            lo, hi = self.bounds["axes"]
            i = r.randrange(3)
            a, b = lo[i], hi[i]
            k = r.random()
            if k < 0.1:
                return a
            if k < 0.2:
                return b
            if k < 0.3:
                # just outside: by 2^-10 ... 2^-40 (far below the output rounding, still outside)
                return b + Fraction(1, 2 ** r.choice([10, 10, 20, 30, 34]))
            if k < 0.4:
                return a - Fraction(1, 2 ** r.choice([10, 10, 20, 30, 34]))
            return a + (b - a) * Fraction(r.randint(0, 1024), 1024)
        return self.dy()

    def req(self, minaxes=0):
        r = self.rng
        axes = [a for a in "xyz" if r.random() < 0.55]
        while len(axes) < minaxes:
            axes = list(set(axes + [r.choice("xyz")]))
        return {a: self.coord() for a in axes}

    def scalar(self, name, nice):
        r = self.rng
        if self.nonfinite and r.random() < self.malformed * 0.3:
            return r.choice([INF, NINF, NAN, Fraction(-1), Fraction(-1, 2)])
        if name in self.bounds and r.random() < 0.85:
            a, b = self.bounds[name]
            k = r.random()
            if k < 0.12:
                return a
            if k < 0.24:
                return b
            if k < 0.32:
                return b + Fraction(1, 2 ** r.choice([10, 10, 20, 30, 34]))
            if k < 0.40:
                return a - Fraction(1, 2 ** r.choice([10, 10, 20, 30, 34]))
            return a + (b - a) * Fraction(r.randint(0, 64), 64)
        return r.choice(nice + [self.dy(0, 3000, 2)])

    def params(self, allow=("F", "S", "E", "A")):
        r = self.rng
        ps = []
        if "F" in allow and r.random() < 0.3:
            ps.append((r.choice(["F", "F", "f"]), self.scalar("feed-rate", [Fraction(0), Fraction(100), Fraction(1500), Fraction(1, 2)])))
        if "S" in allow and r.random() < 0.15:
            ps.append(("S", self.scalar("tool-power", [Fraction(0), Fraction(50), Fraction(255), Fraction(1000)])))
        if "E" in allow and r.random() < 0.12:
            ps.append(("E", self.dy(-5, 5)))
        if "A" in allow and r.random() < 0.05:
            ps.append((r.choice(["A", "B", "I"]), self.dy(-5, 5)))
        r.shuffle(ps)
        return ps

    def pick(self):
        ops = list(self.w.items())
        tot = sum(w for _, w in ops)
        x = self.rng.random() * tot
        for op, w in ops:
            x -= w
            if x <= 0:
                return op
        return ops[-1][0]

    def mode(self, table, allow_off=False):
        r = self.rng
        keys = [k for k in table if (allow_off or k != "off")]
        if r.random() < self.malformed * 0.25:
            return r.choice(["off", "bogus", "Clockwise "]) if "off" in table else "bogus"
        return r.choice(keys)

    def cmd(self):
        r = self.rng
        op = self.pick()
        bad = r.random() < self.malformed
        if op == "move":
            return ("move", r.choice(["linear", "linear", "rapid"]), self.req(), self.params())
        if op == "move_abs":
            return ("move_abs", r.choice(["linear", "rapid"]), self.req(), self.params())
        if op == "set_axis":
            ps = [("E", self.dy(0, 2))] if r.random() < 0.3 else []
            return ("set_axis", self.req(), ps)
        if op == "home":
            q = self.req() if r.random() < 0.6 else {}
            if q and r.random() < 0.5:
                # homing is usually asked for with zeros: G28 X0 homes X alone, whatever the number
                q = {a: Fraction(0) for a in q}
            return ("home", q, [])
        if op == "probe":
            return ("probe", self.mode(PROBE), self.req(1), self.params(("F",)))
        if op == "polyline":
            n = r.randint(1, 4)
            pts = []
            for _ in range(n):
                c = [self.coord() for _ in range(3)]
                c = [v if isinstance(v, Fraction) else Fraction(1) for v in c]
                pts.append(tuple(c))
            return ("polyline", pts, self.params(("F",)))
        if op == "set_distance":
            return ("set_distance", self.mode(DMODE))
        if op == "enter":
            self.depth += 1
            return (r.choice(["enter_abs", "enter_rel"]),)
        if op == "exit":
            if self.depth > 0:
                self.depth -= 1
                return ("exit_mode",)
            return ("set_distance", self.mode(DMODE))
        if op == "modal":
            k = r.randrange(6)
            if k == 0:
                return ("set_extrusion", self.mode(EMODE))
            if k == 1:
                return ("set_feed_mode", self.mode(FMODE))
            if k == 2:
                return ("set_units", self.mode(UNITS))
            if k == 3:
                return ("set_plane", self.mode(PLANE))
            if k == 4:
                return ("set_time_units", self.mode(TUNITS))
            return ("set_temp_units", self.mode(KUNITS))
        if op == "set_feed":
            return ("set_feed", self.scalar("feed-rate", [Fraction(0), Fraction(600), Fraction(1200)]))
        if op == "set_power":
            return ("set_power", self.scalar("tool-power", [Fraction(0), Fraction(1, 2), Fraction(100), Fraction(255)]))
        if op == "set_fan":
            v = r.choice([Fraction(0), Fraction(128), Fraction(255), Fraction(256), Fraction(-1), Fraction(1, 2)]) if bad or r.random() < 0.5 else self.dy(0, 255, 2)
            return ("set_fan", v, r.choice([0, 0, 1, 2, -1]) if bad else r.choice([0, 1]))
        if op == "temp":
            which = r.choice(["set_bed", "set_hotend", "set_chamber"])
            name = {"set_bed": "bed-temperature", "set_hotend": "hotend-temperature", "set_chamber": "chamber-temperature"}[which]
            return (which, self.scalar(name, [Fraction(0), Fraction(60), Fraction(210), Fraction(-10)]))
        if op == "sleep":
            return ("sleep", r.choice([Fraction(0), Fraction(1, 2), Fraction(3), Fraction(-1)]) if bad else self.dy(0, 10, 4))
        if op == "tool_on":
            if self.tool and not bad and r.random() < 0.8:
                self.tool = False
                return r.choice([("tool_off",), ("power_off",)])
            self.tool = True
            if r.random() < 0.5:
                return ("tool_on", self.mode(SPIN), self.scalar("tool-power", [Fraction(0), Fraction(1000), Fraction(12000)]))
            return ("power_on", self.mode(POWER), self.scalar("tool-power", [Fraction(0), Fraction(50), Fraction(100)]))
        if op == "tool_off":
            self.tool = False
            return r.choice([("tool_off",), ("power_off",)])
        if op == "coolant_on":
            if self.cool and not bad and r.random() < 0.8:
                self.cool = False
                return ("coolant_off",)
            self.cool = True
            return ("coolant_on", self.mode(COOL))
        if op == "coolant_off":
            self.cool = False
            return ("coolant_off",)
        if op == "tool_change":
            n = r.choice([0, -1, 1, 2]) if bad else self.tool_number()
            return ("tool_change", self.mode(SWAP), n)
        if op == "halt":
            k = r.randrange(5)
            if k == 0:
                return ("pause", r.random() < 0.5)
            if k == 1:
                return ("stop", r.random() < 0.5)
            if k == 2:
                return ("wait",)
            m = self.mode(HALT)
            ps = []
            if m in ("wait-for-bed", "wait-for-hotend", "wait-for-chamber") and r.random() < 0.7:
                name = {"wait-for-bed": "bed-temperature", "wait-for-hotend": "hotend-temperature",
                        "wait-for-chamber": "chamber-temperature"}[m]
                ps = [(r.choice(["S", "R", "s", "r"]), self.scalar(name, [Fraction(60), Fraction(200), Fraction(0), Fraction(0)]))]
            elif r.random() < 0.1:
                ps = [("P", self.dy(0, 5))]
            return ("halt", m, ps)
        if op == "emergency":
            self.tool = False
            self.cool = False
            return ("emergency", r.choice(EMERGENCY_MESSAGES), r.random() < 0.5)
        if op == "query":
            return ("query", self.mode(QUERY))
        if op == "comment":
            if r.random() < 0.3:
                return ("annotate", r.choice(["tool", "feed_max", "bad key", "1x"]), "v 1")
            return ("comment", r.choice(["layer 1", "start", "G1 X5"]))
        if op == "set_bounds":
            return self.gen_bounds(bad)
        if op == "hook":
            if self.hook_ids and r.random() < 0.3:
                i = r.choice(self.hook_ids)
                self.hook_ids.remove(i)
                return ("remove_hook", i)
            i = r.randint(1, 4)
            if i not in self.hook_ids:
                self.hook_ids.append(i)
            k = r.random()
            if k < 0.4:
                return ("add_hook", ("record", i))
            if k < 0.55:
                return ("add_hook", ("drop", i, r.choice(["A", "F", "F", "S", "E"])))
            k = r.choice(["A", "B", "F", "F", "S"])
            v = self.scalar("feed-rate", [Fraction(100), Fraction(2400)]) if k == "F" else \
                (self.scalar("tool-power", [Fraction(0), Fraction(500)]) if k == "S" else self.dy(0, 100, 2))
            if not isinstance(v, Fraction):
                v = Fraction(7)
            return ("add_hook", ("set", i, k, v))
        raise ValueError(op)

    def tool_number(self):
        r = self.rng
        if "tool-number" in self.bounds and r.random() < 0.8:
            a, b = self.bounds["tool-number"]
            return int(r.choice([a, b, b + 1, a - 1, (a + b) // 2]))
        return r.choice([1, 2, 5, 9, 10, 12, 99, 100, 101, 1234, 12345])

    def gen_bounds(self, bad):
        r = self.rng
        name = r.choice(list(BNAME))
        if bad and r.random() < 0.3:
            return ("set_bounds", "speed", Fraction(0), Fraction(1))
        if name == "axes":
            lo = [self.dy(-40, 10, 4) for _ in range(3)]
            hi = [l + self.dy(1, 60, 4) for l in lo]
            if bad and r.random() < 0.5:
                lo, hi = hi, lo
            if r.random() < 0.15:
                hi[r.randrange(3)] = lo[0] if False else hi[0]
            if not bad or lo < hi:
                pass
            ok = all(a <= b for a, b in zip(lo, hi)) and any(a < b for a, b in zip(lo, hi))
            if ok:
                self.bounds["axes"] = (lo, hi)
            return ("set_bounds", "axes", tuple(lo), tuple(hi))
        if name == "tool-number":
            a = Fraction(r.randint(0, 5))
            b = a + r.randint(1, 20)
        elif name == "tool-power":
            a = r.choice([Fraction(0), Fraction(100), Fraction(1, 2), Fraction(10)])
            b = a + r.choice([Fraction(1), Fraction(900), Fraction(155), Fraction(1, 4)])
        elif name == "feed-rate":
            a = r.choice([Fraction(0), Fraction(100), Fraction(1)])
            b = a + r.choice([Fraction(900), Fraction(2000), Fraction(1, 2)])
        else:
            a = r.choice([Fraction(0), Fraction(-20), Fraction(20), Fraction(150)])
            b = a + r.choice([Fraction(100), Fraction(250), Fraction(40)])
        if bad and r.random() < 0.5:
            a, b = b, a
        if a < b:
            self.bounds[name] = (a, b)
        return ("set_bounds", name, a, b)

    def history(self, n):
        cs = []
        if self.use_bounds:
            for _ in range(self.rng.randint(1, 4)):
                cs.append(self.gen_bounds(False))
        while len(cs) < n:
            cs.append(self.cmd())
        while self.depth > 0 and self.rng.random() < 0.7:
            cs.append(("exit_mode",))
            self.depth -= 1
        return cs


W_MOTION = dict(move=30, move_abs=8, set_axis=6, home=4, probe=4, polyline=5, set_distance=8, enter=5, exit=5,
                modal=2, set_feed=2, comment=2)
W_INTERLOCK = dict(move=8, move_abs=2, tool_on=14, tool_off=5, coolant_on=9, coolant_off=4, tool_change=7, halt=12,
                   emergency=2, set_distance=2, modal=3, temp=4, set_feed=2, set_power=3, set_fan=2, sleep=2,
                   query=2, comment=2, probe=1, home=1, set_axis=1)
W_FULL = dict(move=14, move_abs=4, set_axis=3, home=2, probe=3, polyline=2, set_distance=4, enter=2, exit=2,
              modal=6, set_feed=4, set_power=4, set_fan=2, temp=6, sleep=2, tool_on=8, tool_off=3, coolant_on=5,
              coolant_off=2, tool_change=4, halt=7, emergency=1, query=2, comment=2)
