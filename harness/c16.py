"""C16 — direct-write statements are delivered synchronously and errors surface."""
import os
import queue
import sys
import threading
import time

sys.path.insert(0, os.path.dirname(os.path.abspath(__file__)))
from common import *  # noqa

PID = "C16"
IMPORTS = "From GS Require Import model.Direct."
ERR_PREFIXES = ("error", "alarm", "!!")


def classify_line(text):
    t = text.strip().lower()
    if t.startswith("ok"):
        return "LOk"
    if t.startswith(ERR_PREFIXES):
        return "LErr"
    return "LStatus"


class FifoDevice:
    """serial.Serial replacement: a FIFO device thread.  script(text) -> list of (delay, line) ending with the terminator,
    or None for connection chatter (answered 'ok' after cfg['chatter_latency'](text))."""
    cfg = dict(script=lambda text: None, chatter_latency=lambda text: 0.002, lose_after=None)
    inst = None

    def __init__(self, *a, **kw):
        self.is_open = False
        self.port = kw.get("port")
        self.timeout = 0.05
        self.dtr = None
        self.lock = threading.Lock()
        self.inq = queue.Queue()
        self.rx = queue.Queue()
        self.events = []
        self.logging = False
        self.busy = 0
        self.buf = b""
        self.lost = False
        self.nrecv = 0
        self.chunk_rng = __import__("random").Random(12345)
        self.sockfile = None
        self.alive = True
        self.t0 = time.monotonic()
        FifoDevice.inst = self
        threading.Thread(target=self._dev, daemon=True).start()

    def log(self, *ev):
        with self.lock:
            if self.logging:
                self.events.append((time.monotonic() - self.t0,) + ev)

    def _dev(self):
        while self.alive:
            try:
                kind, text = self.inq.get(timeout=0.05)
            except queue.Empty:
                continue
            if kind == "unsolicited":
                self.rx.put(((text + "\n").encode(), None))
            else:
                text, tag = text
                sc = FifoDevice.cfg["script"](text) if tag is not None else None
                if sc is None:
                    time.sleep(FifoDevice.cfg["chatter_latency"](text))
                    self.rx.put((b"ok\n", None))
                else:
                    for k, (delay, line) in enumerate(sc):
                        time.sleep(delay)
                        if line is None:         # the connection drops here
                            self.lost = True
                            break
                        self.rx.put(((line + "\n").encode(), tag if k == len(sc) - 1 else None))
            with self.lock:
                self.busy -= 1

    def unsolicited(self, text):
        with self.lock:
            self.busy += 1
        self.inq.put(("unsolicited", text))

    def open(self):
        self.is_open = True

    def close(self):
        self.is_open = False
        self.alive = False

    def write(self, data):
        self.buf += data
        while b"\n" in self.buf:
            line, self.buf = self.buf.split(b"\n", 1)
            text = line.decode("utf-8")
            with self.lock:
                self.busy += 1
                tag = None
                if self.logging:
                    tag = self.nrecv
                    self.nrecv += 1
            self.log("recv", text)
            self.inq.put(("stmt", (text, tag)))
        return len(data)

    def readline(self):
        if self.lost:
            import serial
            raise serial.SerialException("device disconnected")
        try:
            b, tag = self.rx.get(timeout=self.timeout)
        except queue.Empty:
            return b""
        self.log("rx", b.decode().strip(), tag)
        return b

    def idle(self):
        with self.lock:
            sf = self.sockfile
            return self.busy == 0 and self.rx.empty() and self.inq.empty() and (sf is None or not sf.pending)


class FakeSockFile:
    """socket.makefile('rwb', buffering=0) of the fake: non-blocking reads in chunks cut at arbitrary places"""
    def __init__(self, dev):
        self.dev = dev
        self.pending = b""
        self.tags = []            # (end offset in the stream, text, tag) of lines not yet completely handed over
        self.handed = 0
        self.streamed = 0

    def _pull(self):
        while True:
            try:
                b, tag = self.dev.rx.get_nowait()
            except queue.Empty:
                return
            self.pending += b
            self.streamed += len(b)
            self.tags.append((self.streamed, b.decode().strip(), tag))

    def read(self, n):
        if self.dev.lost:
            return b""            # EOF
        self._pull()
        if not self.pending:
            return None
        k = min(n, len(self.pending), self.dev.chunk_rng.choice([1, 3, 7, 16, 256]))
        out, self.pending = self.pending[:k], self.pending[k:]
        self.handed += k
        while self.tags and self.tags[0][0] <= self.handed:
            _, text, tag = self.tags.pop(0)
            self.dev.log("rx", text, tag)
        return out

    def write(self, data):
        return self.dev.write(data)

    def flush(self):
        pass

    def close(self):
        pass


class FakeSocket:
    """socket.socket replacement backed by a FifoDevice"""
    def __init__(self, *a, **k):
        self.dev = FifoDevice()
        self.file = FakeSockFile(self.dev)
        self.dev.sockfile = self.file

    def setsockopt(self, *a):
        pass

    def settimeout(self, t):
        pass

    def connect(self, addr):
        self.dev.is_open = True

    def makefile(self, *a, **k):
        return self.file

    def close(self):
        self.dev.close()

    def fileno(self):
        return 0


class FakeSelector:
    def __init__(self):
        self.sock = None

    def register(self, sock, ev):
        self.sock = sock

    def unregister(self, sock):
        pass

    def close(self):
        pass

    def select(self, timeout=None):
        t0 = time.time()
        while time.time() - t0 < (timeout or 0):
            f = self.sock.file
            if f.pending or not f.dev.rx.empty() or f.dev.lost:
                return [object()]
            time.sleep(0.002)
        return []


def install_fake():
    import signal
    threading.excepthook = lambda args: None     # the send thread's UnicodeEncodeError (recorded finding) is reported by the oracle
    import gscrib.printrun.device as dev
    dev.serial.Serial = FifoDevice
    dev.Device._disable_ttyhup = lambda self: None
    dev.socket.socket = FakeSocket
    dev.selectors.DefaultSelector = FakeSelector
    signal.signal = lambda *a, **k: None       # the writer installs handlers; the harness may call it off the main thread


def wait_idle(dev, quiet=0.15, limit=10.0):
    t0 = time.time()
    since = None
    while time.time() - t0 < limit:
        if dev.idle():
            since = since or time.time()
            if time.time() - since >= quiet:
                return True
        else:
            since = None
        time.sleep(0.01)
    return False


def run_scenario(sc):
    """sc: dict(stmts=[dict(text, pre=[(delay, line)], term=(delay, line or None), reading=(key, value) or None, between=[lines])],
    quiescent=bool, m110_latency=float).  Returns dict(events, results, recv, hang)"""
    import logging
    logging.disable(logging.CRITICAL)
    from gscrib.writers import PrintrunWriter
    from gscrib.excepts import DeviceError
    scripts = {}
    for i, s in enumerate(sc["stmts"]):
        scripts.setdefault(s["text"].strip(), []).append(list(s["pre"]) + [s["term"]])

    def script(text):
        l = scripts.get(text)
        return l.pop(0) if l else [(0.0, "ok")]
    m110 = [0]

    def chatter(text):
        if "M110" in text:
            m110[0] += 1
            if m110[0] == 2:
                return sc.get("m110_latency", 0.002)
        return 0.002
    FifoDevice.cfg = dict(script=script, chatter_latency=chatter)
    if sc.get("mode", "serial") == "socket":
        w = PrintrunWriter("socket", "localhost", "8888", 0)
    else:
        w = PrintrunWriter("serial", "localhost", "/dev/fake", 115200)
    w.connect()
    if sc.get("timeout"):
        w.set_timeout(sc["timeout"])       # the connection timeout; a slow acknowledgement must still be waited for
    dev = FifoDevice.inst
    if sc.get("quiescent", True):
        wait_idle(dev, quiet=0.3)
    with dev.lock:
        dev.logging = True
        dev.t0 = time.monotonic()
    results = []
    hang = False
    for i, s in enumerate(sc["stmts"]):
        for line in s.get("between", []):
            dev.unsolicited(line)
            wait_idle(dev, quiet=0.15)
        box = {}

        def call(i=i, s=s):
            dev.log("call", i)
            try:
                w.write((s["raw"] if "raw" in s else s["text"] + "\n").encode("utf-8"))
                box["out"] = ("returned", None)
            except DeviceError as e:
                box["out"] = ("raised", "%s: %s" % (type(e).__name__, str(e)[:80]))
            except Exception as e:
                box["out"] = ("raised-other", "%s: %s" % (type(e).__name__, str(e)[:80]))
            dev.log("return", i, box["out"][0])
            if s.get("reading"):
                box["reading"] = w.get_parameter(s["reading"][0])
        t = threading.Thread(target=call, daemon=True)
        t.start()
        t.join(sc.get("hang_limit", 8.0))
        if t.is_alive():
            hang = True
            results.append(("hang", None, None))
            break
        results.append(box["out"] + (box.get("reading"),))
    t_disc = None
    if not hang and not dev.lost:
        try:
            w.disconnect(True)
            t_disc = time.monotonic() - dev.t0
        except Exception:
            t_disc = None
    with dev.lock:
        dev.logging = False
        events = list(dev.events)
    dev.alive = False
    try:
        if w._device is not None:
            w.disconnect(False)
    except Exception:
        pass
    return dict(events=events, results=results, hang=hang, t_disconnect=t_disc)


# ---------------------------------------------------------------------------------------
STATUS_LINES = ["<Idle|MPos:1.000,2.000,3.000|FS:100,0>", "T:200.5 /210.0 B:59.8 /60.0", "echo:busy: processing", "<Run|WPos:5.000,6.000,7.000|FS:1200,8000>",
                "X:10.00 Y:20.00 Z:0.30 E:0.00", "[MSG:Pgm End]"]
ERROR_LINES = ["error: 20", "Error:Printer halted. kill() called!", "ALARM:1", "!! Fatal", "error:Bad number format",
               "!! Move out of range", "ALARM", "error 5", "Error"]


def gen_scenario(rng, thorough):
    n = rng.randint(1, 7 if thorough else 5)
    stmts = []
    for i in range(n):
        k = rng.random()
        if k < 0.5:
            text = "G1 X%d Y%d F%d" % (rng.randint(0, 200), rng.randint(0, 200), rng.choice([600, 1200, 3000]))
        elif k < 0.7:
            text = "M105"
        elif k < 0.85:
            text = rng.choice(["M114", "G4 P10", "M400", "G28 X", "M3 S%d" % rng.randint(100, 1000)])
        elif k < 0.93:
            text = "  G1 Z%d  " % rng.randint(0, 20)      # surrounding blanks are stripped
        else:
            # statements as the builder writes them: with a comment, or nothing but a comment -- delivered as they are
            text = rng.choice(["G1 X%d ; first pass" % rng.randint(0, 50), "; tool change follows", "M117 Pass (1) done", "G0 Z5 (lift) ; clear", "(setup)"])
        pre = []
        for _ in range(rng.choice([0, 0, 1, 2])):
            pre.append((rng.choice([0.0, 0.01, 0.04]), rng.choice(STATUS_LINES)))
        lat = rng.choice([0.0, 0.005, 0.03, 0.12])
        reading = None
        if rng.random() < 0.2:
            term = (lat, rng.choice(ERROR_LINES))
        elif text == "M105":
            tv = round(rng.uniform(20, 260), 1)
            term = (lat, "ok T:%.1f /210.0 B:60.0 /60.0" % tv)
            reading = ("T", tv)
        else:
            term = (lat, "ok")
            if text == "M114" and rng.random() < 0.7:
                zv = round(rng.uniform(0, 50), 2)
                pre.append((0.0, "X:1.00 Y:2.00 Z:%.2f E:0.00" % zv))
                reading = ("Z", zv)
        between = []
        if rng.random() < 0.25:
            between.append(rng.choice(STATUS_LINES))
        if rng.random() < 0.12:
            between.append(rng.choice(ERROR_LINES))
        stmts.append(dict(text=text, pre=pre, term=term, reading=reading, between=between))
    sc = dict(stmts=stmts, quiescent=True, mode=rng.choice(["serial", "serial", "socket"]))
    if rng.random() < 0.12:
        # the connection drops instead of the acknowledgement of one statement
        k = rng.randrange(n)
        stmts[k]["term"] = (0.02, None)
        stmts[k]["reading"] = None
        sc["stmts"] = stmts[:k + 1]
        sc["loss_at"] = k
    return sc


def analyse(sc, res):
    """oracle over the observed events; returns list of (text, signature or None)"""
    probs = []
    evs = res["events"]
    stmts = sc["stmts"]
    recv = [e[2] for e in evs if e[1] == "recv" and "M110" not in e[2]]
    want = [s["text"].strip() for s in stmts]
    done = len([r for r in res["results"] if r[0] != "hang"])
    if res["hang"]:
        k = len(res["results"]) - 1
        nonascii = any(ord(ch) > 127 for ch in stmts[k].get("raw", stmts[k]["text"]))
        probs.append(("write(%r) never returned (no acknowledgement, no exception within %.0f s); the device received %r"
                      % (stmts[k].get("raw", stmts[k]["text"]), sc.get("hang_limit", 8.0), recv[k:k + 1]),
                      "non-ascii-statement-kills-send-thread" if nonascii and len(recv) == k else None))
        return probs
    if recv != want[:len(recv)] or len(recv) < done:
        probs.append(("the device received %r, the statements written are %r" % (recv, want[:done]), None))
    # per write: own terminator handed over before the return; outcome; reading
    rx = [(e[0], e[2]) for e in evs if e[1] == "rx"]
    rets = {e[2]: (e[0], e[3]) for e in evs if e[1] == "return"}
    calls = {e[2]: e[0] for e in evs if e[1] == "call"}
    # terminators in order: the k-th terminator line (ok / error reply) after logging started answers statement k,
    # unsolicited error lines (between writes) are known by content and time: they were emitted while idle
    unsolicited_err_times = []
    term_times = []
    expect_terms = [s["term"][1] for s in stmts]
    ti = 0
    for t, line in rx:
        c = classify_line(line)
        if c == "LStatus":
            continue
        if ti < len(expect_terms) and expect_terms[ti] is not None and line == expect_terms[ti] and (ti in calls and t >= calls[ti]):
            term_times.append((t, c))
            ti += 1
        elif c == "LErr":
            unsolicited_err_times.append(t)
        else:
            term_times.append((t, c))      # an acknowledgement nobody asked for in this phase (stale)
    for i, r in enumerate(res["results"]):
        if i not in rets:
            continue
        t_ret, out = rets[i]
        s = stmts[i]
        lost = s["term"][1] is None
        own = None
        for e in evs:
            if e[1] == "rx" and e[3] == i:
                own = e[0]
                break
        if lost:
            if out == "returned":
                probs.append(("write(%r) returned normally although the connection dropped before the device acknowledged it" % s["text"], None))
            continue
        if own is None or t_ret < own:
            stale = sc.get("m110_latency", 0) > 0.1 and not sc.get("quiescent", True)
            probs.append(("write(%r) returned %.0f ms BEFORE the device acknowledged that statement (ack handed over at %s, return at %.3f)"
                          % (s["text"], 1000 * ((own or 9e9) - t_ret) if own else -1, "%.3f" % own if own else "never", t_ret),
                          "stale-ok-after-trailing-m110" if stale else None))
            continue
        err_reply = classify_line(s["term"][1]) == "LErr"
        prev_ret = rets[i - 1][0] if i > 0 and (i - 1) in rets else -1.0
        unsol = any(prev_ret <= t <= t_ret for t in unsolicited_err_times)
        if (err_reply or unsol) and out != "raised":
            probs.append(("write(%r): the device sent %s but write() %s (%s)" % (
                s["text"], "the error reply %r" % s["term"][1] if err_reply else "an unsolicited error line before it", out, r[1]), None))
        if not (err_reply or unsol) and out != "returned":
            probs.append(("write(%r) raised %s although the device only acknowledged (%r)" % (s["text"], r[1], s["term"][1]), None))
        if s.get("reading") and out == "returned":
            if r[2] is None or abs(r[2] - s["reading"][1]) > 1e-9:
                probs.append(("after write(%r) returned, get_parameter(%r) = %r; the device had reported %r before acknowledging"
                              % (s["text"], s["reading"][0], r[2], s["reading"][1]), None))
    if res["t_disconnect"] is not None and term_times and not res["hang"]:
        if any(s["term"][1] is not None and not any(line == s["term"][1] for _, line in rx) for s in stmts[:done]):
            probs.append(("disconnect(wait=True) returned before every statement was acknowledged", None))
    return probs


def g_events(sc, res, ids):
    out = []
    for e in res["events"]:
        if e[1] == "call":
            out.append("ECall")
        elif e[1] == "recv":
            if "M110" in e[2]:
                continue
            out.append("ERecv %d" % ids[e[2]])
        elif e[1] == "rx":
            k = classify_line(e[2])
            if k == "LErr" and e[3] is None:
                k = "LAlarm"          # an error line that answers no statement (emitted by the device on its own)
            out.append("ERx %s" % k)
        elif e[1] == "return":
            out.append("EReturn %s" % ("Returned" if e[3] == "returned" else "Raised"))
    return g_list(out)


def main():
    run = Run(PID)
    st = standard_proof_phase(run, PID)
    install_fake()
    n = 120 if run.thorough else 24
    scen = []
    # corpus: both recorded findings, an error reply, unsolicited status while waiting, unsolicited alarm while idle
    scen.append(("corpus-stale-m110", dict(quiescent=False, m110_latency=0.5, stmts=[
        dict(text="G1 X%d" % i, pre=[], term=(0.25, "ok"), reading=None, between=[]) for i in (1, 2, 3)])))
    scen.append(("corpus-non-ascii", dict(quiescent=True, hang_limit=2.5, stmts=[
        dict(text="G1 X1", pre=[], term=(0.0, "ok"), reading=None, between=[]),
        dict(text="G1 X2 ; Größe", pre=[], term=(0.0, "ok"), reading=None, between=[])])))
    scen.append(("corpus-status-while-waiting", dict(quiescent=True, stmts=[
        dict(text="M114", pre=[(0.0, "<Idle|MPos:1.000,2.000,3.000|FS:100,0>"), (0.05, "X:1.00 Y:2.00 Z:7.25 E:0.00")], term=(0.1, "ok"), reading=("Z", 7.25), between=[]),
        dict(text="G1 X5", pre=[(0.0, "<Run|WPos:5.000,6.000,7.000|FS:1200,8000>")], term=(0.15, "ok"), reading=None, between=[])])))
    scen.append(("corpus-alarm-while-idle", dict(quiescent=True, stmts=[
        dict(text="G1 X1", pre=[], term=(0.01, "ok"), reading=None, between=[]),
        dict(text="G1 X2", pre=[], term=(0.01, "ok"), reading=None, between=["ALARM:1"]),
        dict(text="G1 X3", pre=[], term=(0.01, "ok"), reading=None, between=[])])))
    scen.append(("corpus-error-reply", dict(quiescent=True, stmts=[
        dict(text="M105", pre=[], term=(0.02, "ok T:210.0 /210.0 B:60.0 /60.0"), reading=("T", 210.0), between=[]),
        dict(text="G1 X9999", pre=[], term=(0.02, "error: 20"), reading=None, between=[]),
        dict(text="G1 X1", pre=[], term=(0.0, "ok"), reading=None, between=[])])))
    scen.append(("corpus-slow-ack-beyond-timeout", dict(quiescent=True, timeout=0.3, stmts=[
        dict(text="G1 X100 F60", pre=[], term=(0.8, "ok"), reading=None, between=[]),
        dict(text="M114", pre=[(0.0, "X:100.00 Y:0.00 Z:4.50 E:0.00")], term=(0.02, "ok"), reading=("Z", 4.5), between=[])])))
    scen.append(("corpus-socket", dict(quiescent=True, mode="socket", stmts=[
        dict(text="M105", pre=[(0.0, "<Idle|MPos:1.000,2.000,3.000|FS:100,0>")], term=(0.05, "ok T:199.5 /210.0 B:60.0 /60.0"), reading=("T", 199.5), between=[]),
        dict(text="G1 X5 Y5 F600", pre=[], term=(0.08, "ok"), reading=None, between=["ALARM:1"]),
        dict(text="G1 X1", pre=[], term=(0.01, "error: 20"), reading=None, between=[])])))
    for _ in range(n):
        scen.append(("random", gen_scenario(run.rng, run.thorough)))
    found = False
    coq, meta = [], []
    stats = dict(scenarios=0, statements=0, error_replies=0, unsolicited_lines=0, connection_losses=0, kinds={}, modes={})
    for kind, sc in scen:
        res = run_scenario(sc)
        stats["scenarios"] += 1
        stats["kinds"][kind] = stats["kinds"].get(kind, 0) + 1
        stats["statements"] += len(sc["stmts"])
        stats["error_replies"] += sum(1 for s in sc["stmts"] if s["term"][1] and classify_line(s["term"][1]) == "LErr")
        stats["unsolicited_lines"] += sum(len(s.get("between", [])) for s in sc["stmts"])
        stats["connection_losses"] += 1 if "loss_at" in sc else 0
        stats["modes"][sc.get("mode", "serial")] = stats["modes"].get(sc.get("mode", "serial"), 0) + 1
        rep = dict(scenario={k: v for k, v in sc.items()}, events=[list(e) for e in res["events"]], results=[list(r) for r in res["results"]])
        run.count((kind, repr(sc["stmts"])), len(sc["stmts"]) >= 2)
        probs = analyse(sc, res)
        for text, sig in probs[:2]:
            run.violation("%s: %s" % (kind, text), rep, signature=sig)
            if sig is None:
                found = True
        if probs or res["hang"] or "loss_at" in sc or not sc.get("quiescent", True):
            continue        # the correspondence below is about quiescent, loss-free runs
        ids = {}
        for s in sc["stmts"]:
            ids.setdefault(s["text"].strip(), len(ids) + 1)
        # accepted by the checker AND producible by a FIFO device: by C16_accepted_trace_is_run the trace then IS a run of the model
        evs_term = g_events(sc, res, ids)
        coq.append("Eval vm_compute in (check_trace %s %s && answerable %s 0 0)%%bool." % (g_list(["%d%%nat" % ids[s["text"].strip()] for s in sc["stmts"]]), evs_term, evs_term))
        meta.append(rep)
        if len(run.cov["samples"]) < 3:
            run.sample(dict(statements=[s["text"] for s in sc["stmts"]], events=[list(e[1:]) for e in res["events"]][:12]))
    files = []
    per = 40
    for i in range(0, len(coq), per):
        files.append(("t_%d" % (i // per), "\n".join(coq[i:i + per]) + "\n"))
    outs = coq_eval_many(PID, files, IMPORTS, timeout=600)
    vals, ok = [], True
    for rc, out in outs:
        if rc != 0:
            ok = False
            run.log("model evaluation failed:\n" + out[-1500:])
            break
        vals += [v.strip() for v in parse_evals(out)]
    mism = []
    if ok and len(vals) != len(meta):
        ok = False
    if ok:
        for v, rep in zip(vals, meta):
            if v != "true":
                mism.append(rep)
    if not ok and not found:
        run.violation("the model Direct.v could not be evaluated against the implementation (see log)",
                      dict(correspondence="C16 trace correspondence (harness/c16.py)"), no_input=True)
    elif mism and not found:
        run.violation("correspondence broken: %d of %d observed traces are not runs of model/Direct.v; the oracle found no statement that was "
                      "lost, reordered, returned early or whose error was dropped" % (len(mism), len(meta)),
                      dict(correspondence="check_trace (model/Direct.v) vs PrintrunWriter + printcore over the fake device", first=mism[0],
                           theorems=["C16_order", "C16_sync", "C16_return_after_own_ack", "C16_error_surfaces"]), no_input=True)
    proof_broken_violation(run, st, found)
    run.cov["rule"] = ("the real PrintrunWriter + printcore (sender and reader threads) in serial mode over a fake serial.Serial and in socket mode over a fake "
                       "socket / selector whose reads are cut into chunks of 1-256 bytes, both with a FIFO device thread: 1-7 "
                       "statements (moves, M105/M114 with readings, blanks to strip), per statement 0-2 status lines before the terminator with "
                       "0-40 ms gaps, acknowledgement latency 0-120 ms, error replies (error:/Error:/ALARM:/!!) at any position, unsolicited "
                       "status and error lines while idle, connection loss instead of an acknowledgement; quiescent start enforced (the fake "
                       "is drained after connect). Oracle: device receive log == statements (order, once, stripped); write() returns only "
                       "after the line acknowledging that statement was handed to the reader; error lines raise DeviceError from the write "
                       "they answer / the next write; readings available on return; no normal return after connection loss. "
                       "Correspondence: each loss-free trace is a run of model/Direct.v (check_trace && answerable in Coq; C16_accepted_trace_is_run).")
    extra = dict(input_distribution=stats, traces_checked=len(meta), correspondence_mismatches=len(mism),
                 modelled_not_verified=["threading.Event / queue.Queue semantics, scheduler, timeouts", 
                                        "the fake device (harness code)"])
    run.finish(proof=st, extra=extra)


if __name__ == "__main__":
    main()
