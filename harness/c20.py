"""C20 — move hooks see the true move and extrusion matches path length."""
import math
import os
import sys
from fractions import Fraction

sys.path.insert(0, os.path.dirname(os.path.abspath(__file__)))
from builder_lib import *  # noqa
import oracle as O

PID = "C20"


def mk_extrude(i, layer, nozzle, fil):
    radius = float(fil) / 2.0
    cross = math.pi * radius * radius
    area = float(nozzle) * float(layer)
    return ("extrude", i, layer, nozzle, fil, Fraction(area), Fraction(cross))


def gen_history(rng, thorough):
    g = Gen(rng, dict(move=34, move_abs=6, set_distance=8, polyline=6, set_axis=2, enter=3, exit=3, modal=1), malformed=0.0,
            bounds=False, nonfinite=False)
    cs = []
    layer, nozzle, fil = rng.choice([Fraction(1, 4), Fraction(1, 8), Fraction(3, 16)]), rng.choice([Fraction(1, 2), Fraction(3, 8)]), rng.choice([Fraction(7, 4), Fraction(3)])
    cs.append(("add_hook", ("record", 1)))
    cs.append(("add_hook", mk_extrude(2, layer, nozzle, fil)))
    if rng.random() < 0.5:
        cs.append(("add_hook", ("record", 3)))
    if rng.random() < 0.35:
        # a hook that returns a new mapping without the F word, or one that sets a word of its own
        cs.append(("add_hook", rng.choice([("drop", 4, "F"), ("drop", 4, "F"), ("set", 4, "A", Fraction(3, 2)), ("set", 4, "F", Fraction(900))])))
    cs.append(("set_extrusion", rng.choice(["absolute", "relative"])))
    for _ in range(rng.randint(5, 40 if thorough else 22)):
        k = rng.random()
        if k < 0.08:
            cs.append(("set_extrusion", rng.choice(["absolute", "relative"])))
        elif k < 0.16:
            cs.append(("set_axis", {}, [("E", rng.choice([Fraction(0), Fraction(0), Fraction(5, 2)]))]))
        elif k < 0.24:
            # the hook list changes while other hooks stay registered (some of them through a move_hook() block that is still
            # open): additions and removals nest in every order
            cs.append(rng.choice([("remove_hook", 3), ("add_hook", ("record", 3)), ("add_hook", ("record", 1)), ("remove_hook", 1),
                                  ("add_hook", ("record", 5)), ("remove_hook", 5), ("add_hook", ("set", 6, "A", Fraction(7, 2))), ("remove_hook", 6),
                                  ("remove_hook", 4), ("add_hook", ("drop", 4, "F"))]))
        elif k < 0.28:
            cs.append(("move", "rapid", g.req(1), [("E", g.dy(-2, 0))] if rng.random() < 0.3 else []))
        else:
            c = g.cmd()
            if c[0] in ("move", "move_abs", "polyline"):
                # E is the hook's business; F words are fine
                ps = [kv for kv in c[-1] if kv[0].upper() == "F"]
                c = c[:-1] + (ps,)
            cs.append(c)
    return cs


def oracle(dp, cmds, steps):
    fails = []
    before = None
    hooks = []          # registered hook ids in order
    kind = {}
    emode = "absolute"
    e_total = Fraction(0)
    eps = Fraction(1, 10 ** dp)
    from builder_check import initial_snapshot
    before = initial_snapshot()
    for i, (c, s) in enumerate(zip(cmds, steps)):
        if c[0] == "add_hook" and c[1][1] not in hooks:
            hooks.append(c[1][1]); kind[c[1][1]] = c[1]
        if c[0] == "remove_hook" and c[1] in hooks:
            hooks.remove(c[1])
        # every linear move line of this call: one call per registered hook, in registration order
        g1 = []
        for raw in s["raw"]:
            t = O.tokenize(raw)
            if t and t[0] == ("G", 1):
                g1.append(dict(t))
        calls = s["calls"]
        if s["exc"] is None and c[0] in ("move", "move_abs", "polyline"):
            exp_n = len(g1) * len(hooks) if not (c[0] in ("move", "move_abs") and c[1] == "rapid") else 0
            if len(calls) != exp_n:
                fails.append((i, "%r emitted %d linear moves with %d hooks registered but %d hook calls were made" % (cmd_json(c), len(g1), len(hooks), len(calls))))
                return fails
            if exp_n:
                ids = [cl[0] for cl in calls]
                if ids != hooks * len(g1):
                    fails.append((i, "hook call order %r, registered order %r" % (ids, hooks)))
                    return fails
                # true origin / target: the tracked position before and after (single moves)
                if c[0] in ("move", "move_abs"):
                    org = [v if v is not None else Fraction(0) for v in before["pos"]]
                    tgt = s["snap"]["pos"]
                    for cl in calls:
                        if cl[1] != org or [v for v in cl[2]] != [v if v is not None else Fraction(0) for v in tgt] and None not in tgt:
                            fails.append((i, "hook %d of %r received origin %s target %s; the move went from %s to %s"
                                          % (cl[0], cmd_json(c), [float(x) for x in cl[1]], [float(x) for x in cl[2]], [float(x) for x in org], tgt)))
                            return fails
                # "the parameters it returns are exactly the ones emitted": thread the caller's words through the hooks
                given = c[3] if c[0] in ("move", "move_abs") else c[2]
                words = {str(k).upper(): v for k, v in given}
                for h in hooks:
                    hk = kind[h]
                    if hk[0] == "set":
                        words[hk[2]] = hk[3]
                    elif hk[0] == "drop":
                        words.pop(hk[2], None)
                    elif hk[0] == "extrude":
                        words["E"] = None          # value checked below
                for line in g1:
                    got = {k: v for k, v in line.items() if k not in ("G", "X", "Y", "Z")}
                    if set(got) != set(words):
                        fails.append((i, "%r with hooks %r emitted the words %s on a linear move; the hooks returned %s"
                                      % (cmd_json(c), [kind[h][:3] for h in hooks], sorted(got), sorted(words))))
                        return fails
                    for k, v in words.items():
                        if isinstance(v, Fraction) and abs(got[k] - v) > eps:
                            fails.append((i, "%r: word %s%s emitted, the hooks returned %s" % (cmd_json(c), k, float(got[k]), float(v))))
                            return fails
                # extrusion amount of each G1 against the hook's own origin/target
                ext = [h for h in hooks if kind[h][0] == "extrude"]
                if ext:
                    h = kind[ext[0]]
                    k = float(h[5]) / float(h[6])
                    per = [cl for cl in calls if cl[0] == ext[0]]
                    for line, cl in zip(g1, per):
                        ln = math.hypot(float(cl[2][0] - cl[1][0]), float(cl[2][1] - cl[1][1]))
                        if "E" not in line:
                            fails.append((i, "linear move %r carries no E word although the extrusion hook is registered" % (line,)))
                            return fails
                        want = k * ln + (float(e_total) if emode == "absolute" else 0.0)
                        if abs(float(line["E"]) - want) > float(eps) + 1e-9 * (1 + abs(want)):
                            fails.append((i, "E word %s of %r, expected %s (%s extrusion, XY length %s, running total %s)"
                                          % (float(line["E"]), cmd_json(c), want, emode, ln, float(e_total))))
                            return fails
                        if emode == "absolute":
                            e_total = Fraction(want)
                        else:
                            e_total = Fraction(float(line["E"]))
        if s["exc"] is None:
            if c[0] == "set_extrusion" and c[1] in ("absolute", "relative"):
                emode = c[1]
            # any explicit E word (G92 E.., rapid with E) re-bases the running total
            for raw in s["raw"]:
                t = O.tokenize(raw)
                if t and t[0][0] == "G" and t[0][1] != 1:
                    d = dict(t)
                    if "E" in d:
                        e_total = d["E"]
            # get_parameter('E') = the last emitted E
            ge = s["snap"]["params"][SNAP_LETTERS.index("E")]
        before = s["snap"]
    return fails


def tracer_cases(run):
    r = run.rng
    out = []
    for _ in range(150 if run.thorough else 20):
        cs = [("add_hook", ("record", 1)), ("add_hook", mk_extrude(2, Fraction(1, 4), Fraction(1, 2), Fraction(7, 4))),
              ("set_extrusion", r.choice(["absolute", "relative"])), ("set_resolution", Fraction(1, 2)),
              ("move", "linear", {"x": Fraction(r.randint(-9, 9)), "y": Fraction(r.randint(-9, 9)), "z": Fraction(0)}, [])]
        if r.random() < 0.5:
            cs.append(("set_distance", "relative"))
        cs.append(("trace", "circle", [(r.randint(2, 9), r.randint(-9, 9))], {}))
        cs.append(("set_axis", {}, [("E", Fraction(0))]))
        cs.append(("trace", "arc_radius", [(r.randint(1, 6), r.randint(-6, 6))], {"radius": 12.0}))
        out.append((5, cs))
    return out


def main():
    run = Run(PID)
    st = standard_proof_phase(run, PID)
    n = 1500 if run.thorough else 160
    cases = [(run.rng.choice([3, 5, 5, 8]), gen_history(run.rng, run.thorough)) for _ in range(n)]
    cases.insert(0, (5, [("add_hook", ("record", 1)), ("add_hook", mk_extrude(2, Fraction(1, 4), Fraction(1, 2), Fraction(7, 4))),
                         ("set_extrusion", "absolute"), ("move", "linear", {"x": Fraction(10), "y": Fraction(0)}, []),
                         ("move", "linear", {"x": Fraction(20), "y": Fraction(10)}, []), ("set_axis", {}, [("E", Fraction(0))]),
                         ("move", "linear", {"x": Fraction(10), "y": Fraction(10)}, []), ("set_distance", "relative"),
                         ("move_abs", "linear", {"x": Fraction(30), "y": Fraction(20)}, []), ("move", "linear", {"x": Fraction(-30), "y": Fraction(-20)}, [])]))
    found = False
    dist = {}
    impl = []
    for i, (dp, cmds) in enumerate(cases):
        steps = ImplRun(dp, style=i % 3).run(cmds)
        impl.append(steps)
        for c in cmds:
            dist[c[0]] = dist.get(c[0], 0) + 1
        run.count((dp, repr(cmds)), any(s["calls"] for s in steps))
        for (idx, msg) in oracle(dp, cmds, steps)[:1]:
            found = True
            run.violation(msg, dict(dp=dp, history=[cmd_json(c) for c in cmds[:idx + 1]], failing_step=idx, observed=steps[idx]["raw"][-3:]))
        if len(run.cov["samples"]) < 3:
            run.sample(dict(dp=dp, history=[cmd_json(c) for c in cmds[:8]], emitted=[s["raw"] for s in steps[:8]]))
    for dp, cmds in tracer_cases(run):
        steps = ImplRun(dp).run(cmds)
        run.count((dp, repr(cmds)), True)
        for c in cmds:
            dist[c[0]] = dist.get(c[0], 0) + 1
        for (idx, msg) in oracle(dp, cmds, steps)[:1]:
            found = True
            run.violation(msg, dict(dp=dp, history=[cmd_json(c) for c in cmds[:idx + 1]], failing_step=idx))
    model, log = eval_model(PID, cases, per=20, timeout=2400)
    validated = 0
    if model is None:
        run.log("model evaluation failed:\n" + log)
        run.violation("the model (coq/model/Builder.v) could not be evaluated", dict(log=log[-1500:], theorem="C20_*"), no_input=not found)
    else:
        for (dp, cmds), steps, mres in zip(cases, impl, model):
            ok = True
            for si, (m, im) in enumerate(zip(mres, steps)):
                bad = None
                if m["exc"] != im["exc"]:
                    bad = "exception: model %s, implementation %s" % (m["exc"], im["exc"])
                elif m["calls"] != im["calls"]:
                    bad = "hook calls: model %s, implementation %s" % (m["calls"][:2], im["calls"][:2])
                elif len(m["lines"]) != len(im["lines"]) or any(l is None for l in im["lines"]):
                    bad = "lines: model %s, implementation %r" % (fmt_lines(m["lines"]), im["raw"])
                else:
                    for ml, il in zip(m["lines"], im["lines"]):
                        if [k for k, _ in ml] != [k for k, _ in il] or any(
                                abs(a - b) > (Fraction(1, 10 ** dp) + abs(a) / 10 ** 9 if k == "E" else 0) for (k, a), (_, b) in zip(ml, il)):
                            bad = "words: model %s, implementation %r" % (fmt_lines([ml]), il)
                if bad:
                    ok = False
                    run.violation("model and implementation disagree at step %d %r: %s" % (si, cmd_json(cmds[si]), bad),
                                  dict(dp=dp, history=[cmd_json(c) for c in cmds[:si + 1]], theorem="C20_called_once / C20_extrusion (coq/props/C20.v)"),
                                  no_input=True)
                    break
            validated += ok
    proof_broken_violation(run, st, found)
    run.cov["rule"] = ("histories with a recording hook, the bundled extrusion hook (random layer/nozzle/filament) and an optional "
                       "second recorder (added/removed mid-history): moves, rapids (with and without E), absolute-bypass moves "
                       "in both distance modes, nested mode contexts, polylines, extrusion-mode switches, G92 E resets; plus "
                       "oracle-only tracer circles/arcs. Hook arguments compared exactly (dyadic coordinates), E words within one "
                       "unit of the last place. non-trivial = at least one hook call.")
    run.finish(proof=st, extra=dict(input_distribution=dict(op_kinds=dist), traces_validated_against_impl=validated))


if __name__ == "__main__":
    main()
