"""C15 — streamed print jobs arrive complete, in order and checksummed."""
import os
import queue
import re
import sys
import threading
import time
from functools import reduce

sys.path.insert(0, os.path.dirname(os.path.abspath(__file__)))
from common import *  # noqa

PID = "C15"
IMPORTS = "From GS Require Import model.Sender."
FRAME = re.compile(r"^N(-?\d+) (.*)\*(\d+)$")
# the ways firmwares phrase a resend request (Marlin, Repetier, Sprinter, Teacup, ...)
RESEND_FORMATS = ["Resend: %d", "Resend: %d", "Resend:%d", "rs %d", "rs N%d Expected checksum 67", "Resend: N:%d"]


def is_resend_line(t):
    return t.startswith("Resend") or t.startswith("rs ")


def resend_no(t):
    """the line number a resend request of the fake firmware asks for (its first number)"""
    return int(re.search(r"-?\d+", t).group(0))


def xor(s):
    return reduce(lambda a, b: a ^ b, map(ord, s), 0)


# ---------------------------------------------------------------------------------------
# a fake serial.Serial with a Marlin-style firmware behind it (external module fake only)
# ---------------------------------------------------------------------------------------
class FakeMarlin:
    """serial.Serial replacement.  cfg: boot (first expected line number), corrupt (set of transmission indices counted
    from the reset of the print = 0), react (latency per received line), gap (between 'Resend' and its 'ok')"""
    cfg = dict(boot=0, corrupt=set(), react=lambda i: 0.001, gap=0.0)
    inst = None

    def __init__(self, *a, **kw):
        self.is_open = False
        self.port = kw.get("port")
        self.timeout = 0.05
        self.dtr = None
        self.lock = threading.Lock()
        self.inq = queue.Queue()
        self.rx = queue.Queue()
        self.events = []          # ("tx", original text, good) | ("rx", text)
        self.logging = False
        self.ntx = 0
        self.expected = FakeMarlin.cfg["boot"]
        self.accepted = []
        self.busy = 0
        self.buf = b""
        self.seen_first = set()
        FakeMarlin.inst = self
        self.alive = True
        threading.Thread(target=self._fw, daemon=True).start()

    # firmware thread -------------------------------------------------------------------
    def _fw(self):
        i = 0
        while self.alive:
            try:
                text = self.inq.get(timeout=0.05)
            except queue.Empty:
                continue
            time.sleep(FakeMarlin.cfg["react"](i))
            i += 1
            m = FRAME.match(text)
            if not m:
                if text.startswith("N"):
                    self._reply(FakeMarlin.cfg.get("resend_fmt", "Resend: %d") % self.expected, "ok")
                else:
                    self._reply("ok")            # unnumbered command (connection chatter)
            else:
                n, body, cs = int(m.group(1)), m.group(2), int(m.group(3))
                if xor("N%d %s" % (n, body)) != cs:
                    self._reply(FakeMarlin.cfg.get("resend_fmt", "Resend: %d") % self.expected, "ok")
                elif body.startswith("M110"):
                    self.expected = int(re.search(r"N(-?\d+)", body).group(1)) + 1
                    self._reply("ok")
                elif n != self.expected:
                    self._reply(FakeMarlin.cfg.get("resend_fmt", "Resend: %d") % self.expected, "ok")
                else:
                    self.accepted.append(body)
                    self.expected = n + 1
                    self._reply("ok")
            with self.lock:
                self.busy -= 1

    def _reply(self, *lines):
        if FakeMarlin.cfg.get("error_lines") and len(lines) == 2 and self.logging:
            # real Marlin announces the fault before asking for the line again
            lines = ("Error:checksum mismatch, Last Line: %d" % (self.expected - 1),) + tuple(lines)
            self.rx.put((lines[0] + "\n").encode())
            lines = lines[1:]
        for k, l in enumerate(lines):
            if k:
                time.sleep(FakeMarlin.cfg["gap"])
            self.rx.put((l + "\n").encode())

    # serial API ------------------------------------------------------------------------
    def open(self):
        self.is_open = True

    def close(self):
        self.is_open = False
        self.alive = False

    def write(self, data):
        self.buf += data
        while b"\n" in self.buf:
            line, self.buf = self.buf.split(b"\n", 1)
            text = line.decode("ascii")
            good = True
            sent = text
            with self.lock:
                if self.logging:
                    idx = self.ntx
                    self.ntx += 1
                    mm = FRAME.match(text)
                    first_of = FakeMarlin.cfg.get("corrupt_first_of", set())
                    hit = False
                    if mm and "M110" not in text and int(mm.group(1)) in first_of and int(mm.group(1)) not in self.seen_first:
                        self.seen_first.add(int(mm.group(1)))
                        hit = True
                    if idx in FakeMarlin.cfg["corrupt"] or hit:
                        good = False
                        j = text.index(" ") + 1 if " " in text else 0
                        sent = text[:j] + chr(ord(text[j]) ^ 1) + text[j + 1:]
                    self.events.append(("tx", text, good))
                self.busy += 1
            self.inq.put(sent)
        return len(data)

    def readline(self):
        try:
            b = self.rx.get(timeout=self.timeout)
        except queue.Empty:
            return b""
        with self.lock:
            if self.logging:
                self.events.append(("rx", b.decode().strip()))
        return b

    def idle(self):
        with self.lock:
            return self.busy == 0 and self.rx.empty() and self.inq.empty()


def install_fake():
    import gscrib.printrun.device as dev
    dev.serial.Serial = FakeMarlin
    dev.Device._disable_ttyhup = lambda self: None


def wait_idle(fw, quiet=0.12, limit=6.0):
    t0 = time.time()
    since = None
    while time.time() - t0 < limit:
        if fw.idle():
            since = since or time.time()
            if time.time() - since >= quiet:
                return True
        else:
            since = None
        time.sleep(0.01)
    return False


def run_job(lines, cfg, limit=25.0):
    """stream a job with the real printcore; returns dict(events, accepted, finished)"""
    import logging
    logging.disable(logging.CRITICAL)
    from gscrib.printrun.printcore import printcore
    from gscrib.printrun import gcoder
    FakeMarlin.cfg = cfg
    p = printcore()
    p.connect("/dev/fake", 115200)
    fw = FakeMarlin.inst
    t0 = time.time()
    while not p.online and time.time() - t0 < 5:
        time.sleep(0.01)
    if not p.online:
        p.disconnect()
        return dict(events=[], accepted=[], finished=False, error="never online")
    wait_idle(fw)
    with fw.lock:
        fw.logging = True
        fw.accepted = []
        fw.expected = cfg["boot"]
    p.startprint(gcoder.GCode(list(lines)))
    # a print is "stalled" only when nothing has moved on the wire for 6 s while it is still printing; a long resend
    # storm that is still making progress is waited for (up to 150 s, then the scenario is inconclusive)
    t0 = time.time()
    last_n, last_t = -1, time.time()
    stalled = False
    while p.printing and time.time() - t0 < 150.0:
        time.sleep(0.02)
        n_ev = len(fw.events)
        if n_ev != last_n:
            last_n, last_t = n_ev, time.time()
        elif time.time() - last_t > 6.0:
            stalled = True
            break
    finished = not p.printing
    if not finished and not stalled:
        finished = None           # still progressing at the time limit: inconclusive
    drained = wait_idle(fw, quiet=0.25, limit=25.0)
    resendfrom = p.resendfrom
    with fw.lock:
        fw.logging = False
        events = list(fw.events)
        accepted = list(fw.accepted)
    try:
        p.disconnect()
    except Exception:
        pass
    fw.alive = False
    return dict(events=events, accepted=accepted, finished=finished, drained=drained, resendfrom=resendfrom)


# ---------------------------------------------------------------------------------------
def own_commands(lines):
    """independent reading of a job: what is to be transmitted for each line (None = nothing): host commands (;@...) are for
    the host, (...) groups and everything from the first ';' on are comments (the lines contain no line breaks)"""
    out = []
    for l in lines:
        s = l.strip()
        if s.startswith(";@"):
            out.append(None)
            continue
        res = []
        i = 0
        while i < len(s):
            ch = s[i]
            if ch == "(":
                j = i + 1
                while j < len(s) and s[j] not in "()":
                    j += 1
                if j < len(s) and s[j] == ")":
                    i = j + 1
                    continue
            if ch == ";":
                break
            res.append(ch)
            i += 1
        c = "".join(res).strip()
        out.append(c if c else None)
    return out


def real_resend_request(line):
    """what printcore._listen does with one received line: the value resendfrom takes (None = unchanged).  The real read loop
    is run on a one-line stream."""
    from gscrib.printrun.printcore import printcore
    p = printcore()
    feed = [line, None]
    p._listen_until_online = lambda: None
    p._listen_can_continue = lambda: True
    p._readline = lambda: feed.pop(0)
    p.resendfrom = -1
    p._listen()
    return None if p.resendfrom == -1 else p.resendfrom


def resend_correspondence(run):
    """model/ResendLine.v against the real read loop, on the firmware formats and on hostile variations"""
    rng = run.rng
    lines = ["Resend: 12", "Resend:7", "rs 3", "rs N2 Expected checksum 67", "Resend: N:41", "resend 9", "RESEND: 5", "ok", "ok T:210 /210",
             "Resend: abc 4", "Resend: +6", "Resend: -3 8", "ok Resend: 5", "rsx 5", "Resend:: 007", "Resend: 5.0 6", "Resend: 1e3 2", "rs", "Resend:",
             "Resend: - 4", "Resend: +-5 6", "Resend: N N:N 13 14", "echo:Resend: 5", "rs\t21", "Resend: 99999999999999999999", "Error:Line Number is not Last Line Number+1, Last Line: 7"]
    pieces = ["Resend", "resend", "rs", ":", " ", "N", "N:", "12", "0", "-4", "+3", "x", "ok", "7.5", "\t", "Expected", "checksum"]
    for _ in range(200 if run.thorough else 60):
        lines.append("".join(rng.choice(pieces) for _ in range(rng.randint(1, 7))))
    lines = [l for l in lines if "-1" not in l.replace("N", " ").replace(":", " ").split()]
    body = "Open Scope N_scope.\n"
    for l in lines:
        body += "Eval vm_compute in (match resend_request %s with Some z => (1%%Z, z) | None => (0%%Z, 0%%Z) end).\n" % g_codepoints(l)
    vals = []
    for rc, out in coq_eval_many(PID, [("resend", body)], "From GS Require Import model.Sender model.JobLines model.ResendLine.\n", timeout=900):
        if rc != 0:
            run.log("model evaluation failed:\n" + out[-1500:])
            run.violation("the model (coq/model/ResendLine.v) could not be evaluated", dict(theorem="C15_resend_formats"), no_input=True)
            return 0
        vals.extend(parse_evals(out))
    if len(vals) != len(lines):
        run.violation("the model (coq/model/ResendLine.v) could not be evaluated", dict(theorem="C15_resend_formats"), no_input=True)
        return 0
    n = 0
    for l, val in zip(lines, vals):
        ok_, z = parse_term(val)
        got = z if ok_ == 1 else None
        want = real_resend_request(l)
        if got != want:
            run.violation("model and implementation disagree on the resend request read from %r: model %r, printcore._listen %r" % (l, got, want),
                          dict(line=l, theorem="C15_resend_formats (coq/props/C15.v); correspondence: ResendLine.resend_request"), no_input=True)
            return n
        n += 1
    return n


def g_codepoints(s):
    return g_list(["%d%%N" % ord(ch) for ch in s])


def job_lines_correspondence(run, jobs, wire):
    """model/JobLines.v against (a) the real regular expression + strip + host-command test on hostile strings, (b) the
    harness's own reading of every generated job, (c) the commands printcore really transmitted in the corruption-free runs"""
    from gscrib.printrun import gcoder
    rng = run.rng
    alphabet = ["(", ")", ";", "/", "*", "\n", " ", "\t", "@", "G1", "X1", "M117 a", "\x0b", "\x1c", "\xa0", "\u2003", "\r", "é", "(a)", "((", "))", ";@"]
    hostile = ["", ";@pause", "  ;@x", "(a(b)c)", "G1 (x) Y2 ; z (w)", "a/b\nc", "*x\n*y", "(;)", ";()", "( \n )", "/ no newline", "x ; (", "G1\x1cX1\x1d", "\xa0G1\u3000"]
    for _ in range(300 if run.thorough else 80):
        hostile.append("".join(rng.choice(alphabet) for _ in range(rng.randint(1, 9))))
    body = "Open Scope N_scope.\n"
    for s in hostile:
        body += "Eval vm_compute in (match job_command %s with Some t => (1, t) | None => (0, []) end).\n" % g_codepoints(s)
    for lines in jobs:
        body += "Eval vm_compute in job_commands %s.\n" % g_list([g_codepoints(l.strip()) for l in lines if l.strip()])
    vals = []
    for rc, out in coq_eval_many(PID, [("joblines", body)], "From GS Require Import model.JobLines.\n", timeout=900):
        if rc != 0:
            run.log("model evaluation failed:\n" + out[-1500:])
            run.violation("the model (coq/model/JobLines.v) could not be evaluated", dict(theorem="C15_job_*"), no_input=True)
            return 0
        vals.extend(parse_evals(out))
    if len(vals) != len(hostile) + len(jobs):
        run.violation("the model (coq/model/JobLines.v) could not be evaluated", dict(theorem="C15_job_*"), no_input=True)
        return 0
    for s, val in zip(hostile, vals):
        ok_, l = parse_term(val)
        got = "".join(map(chr, l)) if ok_ == 1 else None
        want = None if s.lstrip().startswith(";@") else (gcoder.gcode_strip_comment_exp.sub("", s).strip() or None)
        if got != want:
            run.violation("model and implementation disagree on what is transmitted for the job line %r: model %r, "
                          "gcode_strip_comment_exp + strip %r" % (s, got, want),
                          dict(line=s, theorem="C15_job_no_semicolon / C15_job_plain_line (coq/props/C15.v); correspondence: JobLines.job_command"), no_input=True)
            return 0
    n = 0
    for lines, val, w in zip(jobs, vals[len(hostile):], wire):
        got = ["".join(map(chr, l)) for l in parse_term(val)]
        want = [c for c in own_commands(lines) if c]
        if got != want:
            run.violation("model and the independent reading disagree on the commands of a job: model %r, reading %r" % (got[:6], want[:6]),
                          dict(job=lines, theorem="C15_job_* (coq/props/C15.v)"), no_input=True)
            return n
        if w is not None and w != got:
            run.violation("model and implementation disagree on the commands transmitted for a job (corruption-free run): model %r, wire %r" % (got[:8], w[:8]),
                          dict(job=lines, theorem="C15_job_* (coq/props/C15.v); correspondence: JobLines.job_commands = first transmissions"), no_input=True)
            return n
        n += 1
    return n


def gen_job(rng, thorough):
    """print-like jobs: extruding layers, Z changes, non-extruding tails and Z-hops, comments, blank lines"""
    lines = []
    z = 0.2
    e = 0.0
    n_layers = rng.randint(0, 3)
    if rng.random() < 0.3:
        lines.append("; generated job")
    lines.append("G21")
    lines.append("G90 ; absolute")
    if rng.random() < 0.5:
        lines.append("M82")
    for layer in range(n_layers):
        lines.append("G1 Z%.2f F600" % z)
        for k in range(rng.randint(1, 4)):
            e += rng.uniform(0.1, 2.0)
            lines.append("G1 X%d Y%d E%.4f%s" % (rng.randint(0, 90), rng.randint(0, 90), e, " ; perimeter" if rng.random() < 0.3 else ""))
            if rng.random() < 0.2:
                lines.append("; a comment-only line")
            if rng.random() < 0.1:
                lines.append("")
        if rng.random() < 0.4:      # Z-hop and back to the layer height
            lines.append("G1 Z%.2f F600" % (z + 0.4))
            lines.append("G0 X%d Y%d" % (rng.randint(0, 90), rng.randint(0, 90)))
            lines.append("G1 Z%.2f F600" % z)
            e += 0.5
            lines.append("G1 X%d Y%d E%.4f" % (rng.randint(0, 90), rng.randint(0, 90), e))
        z += 0.2
    if rng.random() < 0.7:          # a non-extruding tail after a Z change
        lines.append("G1 Z%.2f F600" % (z + 10))
        lines.append("G0 X0 Y200")
        lines.append("M104 S0 ; heater off")
        lines.append("M84")
    for _ in range(rng.randint(0, 4)):
        lines.append(rng.choice(["G4 P10", "M106 S128", "G1 X1 F3000", "G1 X1 F3000", "M107", "G92 E0"]))
    # the other comment forms the sender removes, host commands, surrounding blanks
    for _ in range(rng.randint(0, 3)):
        at = rng.randint(0, len(lines))
        lines.insert(at, rng.choice(["(layer marker)", "G1 X7 (inline note) Y3", "  G1 X2 Y2\t", ";@note for the host", "G1 Z1 (a) (b) ; c (d)",
                                     "M117 fan/2", "G4 P1 (", "G1 X3 ) F100", "(;) G1 X4"]))
    return lines


def classify(cmds, accepted, cfg, events):
    """None when the firmware accepted every command exactly once, in order; else (text, signature or None)"""
    if accepted == cmds:
        return None
    if 0 in cfg["corrupt"] and cfg["boot"] >= 1 and accepted == cmds[cfg["boot"]:]:
        return ("the reset transmission (M110) was corrupted while the firmware expects N%d: the first %d job line(s) %r never accepted"
                % (cfg["boot"], cfg["boot"], cmds[:cfg["boot"]]), "m110-reset-corrupted-first-lines-lost")
    if len(accepted) < len(cmds) and accepted == cmds[:len(accepted)]:
        # the tail is missing: was the firmware's request for the first missing line handed over only after the print
        # thread's last job transmission (it had reached the end of its queue on a surplus ok)?  Confirmed against the
        # model afterwards: the whole trace must be a run of model/Sender.v, whose completeness is refuted the same way.
        last_tx = max((i for i, ev in enumerate(events) if ev[0] == "tx" and "M110" not in ev[1]), default=-1)
        late = [ev for ev in events[last_tx + 1:] if ev[0] == "rx" and is_resend_line(ev[1]) and resend_no(ev[1]) == len(accepted)]
        # ... and the print thread really had reached the end of its queue: it then transmits the trailing M110 N-1
        ended = any(ev[0] == "tx" and "M110" in ev[1] for ev in events[last_tx + 1:])
        if late and ended:
            return ("the print thread reached the end of its queue on a surplus ok (every rejected transmission is answered by "
                    "'Resend' AND 'ok') before the firmware's 'Resend: %d' was read: the tail %r is never accepted"
                    % (len(accepted), cmds[len(accepted):]), "tail-resend-after-end-of-queue?")
    return ("accepted %d of %d commands; first difference at %d: accepted %r, job %r" % (
        len(accepted), len(cmds), next((i for i, (a, b) in enumerate(zip(accepted + [None] * len(cmds), cmds)) if a != b), len(cmds)),
        accepted[:12], cmds[:12]), None)


def wire_format_problem(events):
    seen_max = -1
    for ev in events:
        if ev[0] != "tx":
            continue
        m = FRAME.match(ev[1])
        if not m:
            return "transmission %r is not of the form N<k> <command>*<checksum>" % ev[1]
        n, body, cs = int(m.group(1)), m.group(2), int(m.group(3))
        if xor("N%d %s" % (n, body)) != cs:
            return "transmission %r carries checksum %d, the xor of its prefix is %d" % (ev[1], cs, xor("N%d %s" % (n, body)))
        if "M110" in body:
            seen_max = -1
            continue
        if n > seen_max + 1:
            return "line number %d transmitted before %d was ever sent (numbers must be consecutive)" % (n, seen_max + 1)
        seen_max = max(seen_max, n)
    return None


def g_events(events, ids):
    out = []
    for ev in events:
        if ev[0] == "tx":
            m = FRAME.match(ev[1])
            n, body = int(m.group(1)), m.group(2)
            pay = "PReset" if body.startswith("M110") else "(PJob %s %d%%nat)" % (g_Z(n), ids[body])
            out.append("ETx %s %s" % (pay, g_bool(ev[2])))
        else:
            t = ev[1]
            if t == "ok":
                out.append("ERx ROk")
            elif is_resend_line(t):
                out.append("ERx (RResend %s)" % g_Z(resend_no(t)))
            # anything else ("Error:..." announcements) is only logged by the listener: not an event of the model
    return g_list(out)


def main():
    run = Run(PID)
    st = standard_proof_phase(run, PID)
    install_fake()
    n = 150 if run.thorough else 26
    scen = []
    # corpus: the two recorded findings, and clean / single / repeated corruption
    base9 = ["G1 X%d ; c%d" % (i, i) for i in range(8)] + ["; only comment", "G1 Y1"]
    scen.append(("corpus-m110", base9, dict(boot=1, corrupt={0}, react=lambda i: 0.002, gap=0.0)))
    scen.append(("corpus-tail", base9, dict(boot=0, corrupt={4}, corrupt_first_of={8}, react=lambda i: 0.002, gap=0.25)))
    # the last line alone is corrupted (no earlier rejection, so no surplus ok): the request is served and the job completes
    scen.append(("corpus-last-line", base9, dict(boot=0, corrupt=set(), corrupt_first_of={8}, react=lambda i: 0.002, gap=0.0)))
    scen.append(("corpus-last-line-slow", base9, dict(boot=1, corrupt=set(), corrupt_first_of={8}, react=lambda i: 0.006, gap=0.02, resend_fmt="rs N%d Expected checksum 67")))
    scen.append(("corpus-clean", base9, dict(boot=1, corrupt=set(), react=lambda i: 0.004, gap=0.0)))
    scen.append(("corpus-repeat", base9 + ["G1 X%d" % i for i in range(20, 28)], dict(boot=0, corrupt={5, 6}, react=lambda i: 0.002, gap=0.0)))
    scen.append(("corpus-marlin-error-line", base9 + ["G1 X%d" % i for i in range(30, 36)], dict(boot=0, corrupt={6}, react=lambda i: 0.002, gap=0.0, error_lines=True)))
    scen.append(("corpus-repeat3", base9 + ["G1 X%d" % i for i in range(20, 28)], dict(boot=1, corrupt={7, 8, 9}, react=lambda i: 0.003, gap=0.0)))
    for _ in range(n):
        lines = gen_job(run.rng, run.thorough)
        ncmd = len([c for c in own_commands(lines) if c])
        k = run.rng.random()
        if k < 0.25:
            corrupt = set()
        elif k < 0.5:
            corrupt = {run.rng.randint(1, max(1, ncmd - 3))}
        elif k < 0.75:
            a = run.rng.randint(1, max(1, ncmd - 4))
            corrupt = {a, a + 1} | ({a + 2} if run.rng.random() < 0.4 else set())
        else:
            corrupt = {run.rng.randint(0, ncmd + 2) for _ in range(run.rng.randint(1, 4))}
        lat = run.rng.choice([0.0, 0.001, 0.004, 0.012])
        jitter = run.rng.random() < 0.5
        seed = run.rng.randrange(1 << 30)

        def react(i, lat=lat, jitter=jitter, seed=seed):
            import random as _r
            return lat * (1 + (_r.Random(seed + i).random() * 2 if jitter else 0))
        scen.append(("random", lines, dict(boot=run.rng.choice([0, 0, 1]), corrupt=corrupt, react=react,
                                           gap=(run.rng.choice([0.0, 0.0, 0.003, 0.02]) if len(corrupt) <= 1 else run.rng.choice([0.0, 0.0, 0.003])),
                                           error_lines=run.rng.random() < 0.4, resend_fmt=run.rng.choice(RESEND_FORMATS))))
    found = False
    coq = []
    meta = []
    jl_jobs, jl_wire = [], []
    stats = dict(scenarios=0, corrupted_transmissions=0, resends=0, transmissions=0, kinds={})
    for kind, lines, cfg in scen:
        cmds_opt = own_commands(lines)
        cmds = [c for c in cmds_opt if c]
        res = run_job(lines, cfg)
        stats["scenarios"] += 1
        stats["kinds"][kind] = stats["kinds"].get(kind, 0) + 1
        evs = res["events"]
        jl_jobs.append(lines)
        clean_link = not cfg.get("corrupt") and not cfg.get("corrupt_first_of") and res["finished"]
        jl_wire.append([FRAME.match(e[1]).group(2) for e in evs if e[0] == "tx" and FRAME.match(e[1]) and "M110" not in e[1]] if clean_link else None)
        stats["transmissions"] += sum(1 for e in evs if e[0] == "tx")
        stats["corrupted_transmissions"] += sum(1 for e in evs if e[0] == "tx" and not e[2])
        stats["resends"] += sum(1 for e in evs if e[0] == "rx" and is_resend_line(e[1]))
        rep = dict(job=lines, boot=cfg["boot"], corrupt=sorted(cfg["corrupt"]), corrupt_first_of=sorted(cfg.get("corrupt_first_of", [])), gap=cfg["gap"],
                   wire=[list(e) for e in evs][:3000], accepted=res["accepted"])
        run.count((kind, tuple(lines), tuple(sorted(cfg["corrupt"])), cfg["boot"]), len(cmds) >= 3)
        if res["finished"] is None or (res["finished"] and not res.get("drained", True)):
            stats["not_drained"] = stats.get("not_drained", 0) + 1     # the fake firmware still had a backlog: inconclusive
            continue
        if not res["finished"]:
            found = True
            run.violation("the print did not finish within the time limit (job of %d commands, corrupt %r, boot %d): %s" % (
                len(cmds), sorted(cfg["corrupt"]), cfg["boot"], res.get("error", "sender stalled")), rep)
            continue
        wf = wire_format_problem(evs)
        if wf:
            found = True
            run.violation("wire format: %s" % wf, rep)
            continue
        cl = classify(cmds, res["accepted"], cfg, evs)
        # the hypotheses of the two completeness theorems: the reset got through, or the firmware boots expecting N0
        reset_ok = (0 not in cfg["corrupt"]) or cfg["boot"] == 0
        if cl and reset_ok and res.get("resendfrom", 0) == -1:
            # C15_complete_unless_late_resend: with the reset through, an incomplete job at quiescence leaves resendfrom set
            found = True
            run.violation("job of %d commands, corrupted transmissions %r: the firmware accepted %d commands although no Resend request is "
                          "left unserved (printcore.resendfrom == -1): the model's completeness theorem says this cannot happen -- %s" % (
                              len(cmds), sorted(cfg["corrupt"]), len(res["accepted"]), cl[0]), rep)
            continue
        if cl:
            text, sig = cl
            text = "job of %d commands, corrupted transmissions %r, firmware boots expecting N%d: %s" % (
                len(cmds), sorted(cfg["corrupt"]), cfg["boot"], text)
            cl = (text, sig)
            if sig is None or not sig.endswith("?"):
                run.violation(text, rep, signature=sig)
                if not sig:
                    found = True
        # model: is the observed trace a run of the transition system, and does the model firmware accept the same?
        ids = {}
        for c in cmds:
            ids.setdefault(c, len(ids))
        unknown = False
        for e in evs:
            if e[0] == "tx":
                m = FRAME.match(e[1])
                if m and not m.group(2).startswith("M110") and m.group(2) not in ids:
                    unknown = True
        if unknown:
            if not cl:
                found = True
                run.violation("a transmitted command is not a command of the job", rep)
            continue
        job_term = g_list(["(Some %d%%nat)" % ids[c] if c else "None" for c in cmds_opt])
        coq.append("Eval vm_compute in check_trace %s %s %s." % (job_term, g_Z(cfg["boot"]), g_events(evs, ids)))
        meta.append(("trace", rep, [ids[c] for c in res["accepted"]], cl))
        # byte level: one frame of this job
        txs = [e for e in evs if e[0] == "tx" and "M110" not in e[1]]
        if txs:
            t = run.rng.choice(txs)[1]
            m = FRAME.match(t)
            coq.append("Eval vm_compute in frame_bytes %s %s." % (g_Z(int(m.group(1))), g_list(["%d%%N" % ord(ch) for ch in m.group(2)])))
            meta.append(("bytes", rep, [ord(ch) for ch in t], None))
        if len(run.cov["samples"]) < 3:
            run.sample(dict(job=lines[:8], corrupt=sorted(cfg["corrupt"]), boot=cfg["boot"], wire=[e[1] for e in evs][:10], accepted=len(res["accepted"])))
    files = []
    per = 40
    for i in range(0, len(coq), per):
        files.append(("t_%d" % (i // per), "\n".join(coq[i:i + per]) + "\n"))
    outs = coq_eval_many(PID, files, IMPORTS, timeout=900)
    vals = []
    ok = True
    for rc, out in outs:
        if rc != 0:
            ok = False
            run.log("model evaluation failed:\n" + out[-1500:])
            break
        vals += [parse_term(v) for v in parse_evals(out)]
    mism = []
    if ok and len(vals) != len(meta):
        ok = False
        run.log("model evaluation returned %d values for %d cases" % (len(vals), len(meta)))
    if ok:
        for v, (k, rep, want, cl) in zip(vals, meta):
            if k == "trace":
                isrun, acc = v[0] == "true", list(v[1])
                if cl and cl[1] and cl[1].endswith("?"):
                    # a lost tail: the recorded finding only if the real sender behaved exactly like the model
                    if isrun and acc == want:
                        run.violation(cl[0], rep, signature=cl[1][:-1])
                    else:
                        found = True
                        run.violation(cl[0] + " -- and the wire trace is NOT a run of the model (not the recorded finding)", rep)
                    continue
                if not isrun:
                    mism.append(("the observed wire trace is not a run of model/Sender.v (job %r, corrupt %r)" % (rep["job"][:6], rep["corrupt"]), rep))
                elif acc != want:
                    mism.append(("model firmware accepts %r, the fake firmware accepted %r" % (acc, want), rep))
            else:
                if list(v) != want:
                    mism.append(("frame bytes differ: model %r, wire %r" % (list(v), want), rep))
    if not ok and not found:
        run.violation("the model Sender.v could not be evaluated against the implementation (see log)",
                      dict(correspondence="C15 trace correspondence (harness/c15.py)"), no_input=True)
    elif mism and not found:
        what, rep = mism[0]
        run.violation("correspondence broken on %d of %d traces (first: %s); the firmware accepted the whole job in every scenario" % (len(mism), len(meta), what),
                      dict(correspondence="check_trace (model/Sender.v) vs printcore over the fake firmware", first=rep,
                           theorems=["C15_safety", "C15_numbering", "C15_resend", "C15_complete_clean"]), no_input=True)
    stats["job_line_readings_compared"] = job_lines_correspondence(run, jl_jobs, jl_wire)
    stats["resend_lines_compared"] = resend_correspondence(run)
    proof_broken_violation(run, st, found)
    run.cov["rule"] = ("the real printcore (connect, startprint over gcoder.GCode, print/read threads) streams print-like jobs (extruding layers, Z "
                       "changes, Z-hops, non-extruding tails, comment-only and blank lines) to a fake serial.Serial with a Marlin-style "
                       "firmware thread: corruption of random subsets of transmissions (the reset, adjacent pairs/triples = a resent line "
                       "corrupted again, the tail), firmware latency 0-36 ms with jitter, 0-50 ms between 'Resend' and 'ok', boot state "
                       "expecting N0 or N1. Oracle: every transmission is N<k> <cmd>*<xor> with consecutive numbers; the firmware's accepted "
                       "log equals the job's non-comment lines exactly once, in order. Correspondence: each observed wire trace must be a "
                       "run of model/Sender.v (check_trace evaluated in Coq, any admissible delay of the reader) with the same accepted log; "
                       "frame_bytes == wire bytes.")
    extra = dict(input_distribution=stats, traces_checked=len([m for m in meta if m[0] == "trace"]), correspondence_mismatches=len(mism),
                 modelled_not_verified=["atomicity of _sendnext / of one _listen line (unlocked shared variables clear, resendfrom)",
                                        "pyserial, OS scheduling, timeouts; the firmware is the harness's fake (same rules as fw_react)",
                                        "priority queue commands during a print, pause/resume, tcp streaming mode"])
    run.finish(proof=st, extra=extra)


if __name__ == "__main__":
    main()
