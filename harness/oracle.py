"""Independent reference G-code interpreter and property oracles for the builder family.
No gscrib code and no model code is used here: own tokenizer, own modal semantics."""
import re
from fractions import Fraction as Fr

HALTS = {0, 1, 2, 30, 60, 109, 190, 191, 400}
WORD = re.compile(r"^([A-Za-z]+)(-?(?:\d+\.?\d*|\.\d+))$")


def strip_comment(text, style=";"):
    """remove the comment of a line under a ';'-to-EOL or bracketed style"""
    pairs = {"(": ")", "[": "]", "<": ">", '"': '"', "'": "'", "/*": "*/"}
    if style in pairs:
        i = text.find(style)
        if i < 0:
            return text
        j = text.find(pairs[style], i + len(style))
        if j < 0:
            return text[:i]
        return text[:i] + " " + strip_comment(text[j + len(pairs[style]):], style)
    i = text.find(style)
    return text if i < 0 else text[:i]


def tokenize(raw, style=";"):
    """-> list of (letters, Fraction) or None when a token is not LETTERS+plain decimal"""
    text = raw.decode("utf-8", "replace") if isinstance(raw, (bytes, bytearray)) else raw
    body = strip_comment(text.rstrip("\r\n"), style)
    out = []
    for tok in body.split():
        m = WORD.match(tok)
        if not m:
            return None
        out.append((m.group(1).upper(), Fr(m.group(2))))
    return out


class Machine:
    """Modal interpreter: G0/G1/G90/G91/G92/G28/G38.x position semantics plus the modal words
    the builder's state object mirrors."""

    def __init__(self):
        self.pos = {a: None for a in "XYZ"}
        self.rc = {a: 0 for a in "XYZ"}      # relative words since the last absolute set
        self.rel = False
        self.tool = False
        self.cool = False
        self.start = None        # 3 or 4 while the tool runs
        self.coolmode = None     # 7 or 8
        self.S = None            # last S of a tool-power-bearing line
        self.feed = None
        self.T = None
        self.emode = None
        self.fmode = None
        self.units = None
        self.plane = None
        self.temps = {"bed": None, "hotend": None, "chamber": None}
        self.halted = False
        self.params = {}
        self.bad = []            # interlock violations seen while scanning

    def line(self, words):
        if not words:
            return
        self.halted = False
        g = [v for k, v in words if k == "G"]
        m = [v for k, v in words if k == "M"]
        ax = {k: v for k, v in words if k in ("X", "Y", "Z")}
        others = [(k, v) for k, v in words if k not in ("G", "M", "X", "Y", "Z")]
        motion = [v for v in g if v in (0, 1) or int(v) == 38]
        for v in m:
            if v.denominator != 1:
                continue
            v = int(v)
            if v in (3, 4):
                if self.tool:
                    self.bad.append("tool start M%d while the tool is running" % v)
                self.tool, self.start = True, v
            elif v == 5:
                self.tool, self.start = False, None
            elif v in (7, 8):
                if self.cool:
                    self.bad.append("coolant start M%d while coolant is on" % v)
                self.cool, self.coolmode = True, v
            elif v == 9:
                self.cool, self.coolmode = False, None
            if v == 6 or v in HALTS:
                if self.tool or self.cool:
                    self.bad.append("M%d while %s active" % (v, "tool" if self.tool else "coolant"))
            if v in HALTS:
                self.halted = True
            if v == 82:
                self.emode = "absolute"
            if v == 83:
                self.emode = "relative"
            if v in (140, 190):
                self._temp("bed", others)
            if v in (104, 109):
                self._temp("hotend", others)
            if v in (141, 191):
                self._temp("chamber", others)
        power_line = (not g and not m) or bool(motion) or any(v in (3, 4) for v in m)
        for k, v in others:
            if k == "F" and ((not g and not m) or motion):
                self.feed = v
            if k == "S" and power_line:
                self.S = v
            if k == "T":
                self.T = int(v)
        for v in g:
            if v == 90:
                self.rel = False
            elif v == 91:
                self.rel = True
            elif v == 20:
                self.units = "inches"
            elif v == 21:
                self.units = "millimeters"
            elif v == 17:
                self.plane = "xy"
            elif v == 18:
                self.plane = "zx"
            elif v == 19:
                self.plane = "yz"
            elif v == 93:
                self.fmode = "1/time"
            elif v == 94:
                self.fmode = "units/min"
            elif v == 95:
                self.fmode = "units/rev"
            elif v in (0, 1):
                for a, val in ax.items():
                    if self.rel:
                        if self.pos[a] is not None:
                            self.pos[a] += val
                            self.rc[a] += 1
                    else:
                        self.pos[a] = val
                        self.rc[a] = 0
            elif v == 92:
                for a, val in ax.items():
                    self.pos[a] = val
                    self.rc[a] = 0
            elif v == 28:
                for a in (list(ax) or "XYZ"):
                    self.pos[a] = None
            elif int(v) == 38:
                for a in ax:
                    self.pos[a] = None
        if motion or any(v in (92, 28) for v in g):
            for k, v in others:
                self.params[k] = v

    def _temp(self, which, others):
        d = dict(others)
        if "S" in d:
            self.temps[which] = d["S"]
        elif "R" in d:
            self.temps[which] = d["R"]
