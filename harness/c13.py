"""C13 — transform states are saved, restored and inverted exactly."""
import copy
import math
import os
import sys
from fractions import Fraction

sys.path.insert(0, os.path.dirname(os.path.abspath(__file__)))
from common import *  # noqa

PID = "C13"
IMPORTS_T = "From GS Require Import model.Num model.Builder model.Transformer.\n"
PROBES = [(1.0, 2.0, 3.0), (-4.5, 0.25, 7.0), (0.0, 0.0, 0.0)]


def gen_ops(rng, thorough):
    ops = []
    depth = 0
    names = []
    for _ in range(rng.randint(3, 40 if thorough else 22)):
        c = rng.random()
        if c < 0.14:
            ops.append(("translate", rng.randint(-40, 40) / 4, rng.randint(-40, 40) / 4, rng.randint(-8, 8) / 2))
        elif c < 0.26:
            ops.append(("rotate", rng.choice([90, 45, 30, -60, 180, 17.5, 270, 1]), rng.choice(["x", "y", "z", "z"])))
        elif c < 0.36:
            k = rng.choice([1, 2, 3])
            fs = [rng.choice([2.0, 0.5, -1.0, 3.0, 1.5, 0.25]) for _ in range(k)]
            if rng.random() < 0.08:
                fs[0] = 0.0
            ops.append(("scale", fs))
        elif c < 0.43:
            n = [rng.choice([0.0, 1.0, -1.0, 2.0, 0.5]) for _ in range(3)]
            ops.append(("reflect", n))
        elif c < 0.48:
            ops.append(("mirror", rng.choice(["xy", "yz", "zx"])))
        elif c < 0.56:
            pv = [rng.randint(-10, 10) / 2, rng.randint(-10, 10) / 2, rng.randint(-4, 4) / 2]
            if rng.random() < 0.4:
                # pivots on an axis or in a coordinate plane: one or two coordinates exactly zero
                for j in rng.sample(range(3), rng.choice([1, 2])):
                    pv[j] = 0.0
            ops.append(("set_pivot", pv[0], pv[1], pv[2]))
        elif c < 0.66:
            if rng.random() < 0.5:
                n = rng.randint(1, 4)
                names.append(n)
                ops.append(("save", n))
            else:
                ops.append(("save", None))
        elif c < 0.78:
            if rng.random() < 0.5 and (names or rng.random() < 0.2):
                ops.append(("restore", rng.choice(names) if names and rng.random() < 0.9 else 9))
            else:
                ops.append(("restore", None))
        elif c < 0.81:
            ops.append(("delete", rng.choice(names) if names and rng.random() < 0.8 else 9))
        elif c < 0.89:
            if rng.random() < 0.6 or not names:
                ops.append(("enter_current",))
                depth += 1
            else:
                ops.append(("enter_named", rng.choice(names + [9])))
                depth += 1
        elif depth > 0:
            ops.append(("exit_ctx", rng.random() < 0.4))
            depth -= 1
        else:
            ops.append(("translate", 1.0, 0.0, 0.0))
    while depth > 0:
        ops.append(("exit_ctx", rng.random() < 0.4))
        depth -= 1
    return ops


def run_impl(ops):
    from gscrib import GCodeBuilder
    g = GCodeBuilder()
    t = g.transform
    ctx = []
    out = []
    for op in ops:
        exc = None
        try:
            k = op[0]
            if k == "translate":
                t.translate(op[1], op[2], op[3])
            elif k == "rotate":
                t.rotate(op[1], op[2])
            elif k == "scale":
                t.scale(*op[1])
            elif k == "reflect":
                t.reflect(list(op[1]))
            elif k == "mirror":
                t.mirror(op[1])
            elif k == "set_pivot":
                t.set_pivot((op[1], op[2], op[3]))
            elif k == "save":
                t.save_state(None if op[1] is None else "s%d" % op[1])
            elif k == "restore":
                t.restore_state(None if op[1] is None else "s%d" % op[1])
            elif k == "delete":
                t.delete_state("s%d" % op[1])
            elif k == "enter_current":
                cm = g.current_transform()
                cm.__enter__()
                ctx.append(cm)
            elif k == "enter_named":
                cm = g.named_transform("s%d" % op[1])
                cm.__enter__()
                ctx.append(cm)
            elif k == "exit_ctx":
                if ctx:
                    cm = ctx.pop()
                    if op[1]:
                        try:
                            try:
                                raise RuntimeError("body failed")
                            except RuntimeError as e:
                                if not cm.__exit__(RuntimeError, e, e.__traceback__):
                                    raise
                        except RuntimeError:
                            pass
                    else:
                        cm.__exit__(None, None, None)
        except (ValueError, IndexError, KeyError) as e:
            exc = type(e).__name__
        except Exception as e:
            exc = "Other:" + type(e).__name__
        # the probe order alternates, so that the first point mapped after an operation is the last one mapped before it
        # (a mapping must depend on the current transform only, never on what was mapped before)
        order = list(range(len(PROBES)))
        if len(out) % 2 == 1:
            order.reverse()
        got = {}
        for j in order:
            a = t.apply_transform(PROBES[j])
            r = t.reverse_transform(PROBES[j])
            got[j] = ([float(v) for v in a], [float(v) for v in r])
        out.append(dict(exc=exc, pts=[got[j] for j in range(len(PROBES))]))
    return out


class Ref:
    """independent 4x4 model: immutable snapshots, a stack, a dict"""

    def __init__(self):
        import numpy as np
        self.np = np
        self.m = np.eye(4)
        self.p = np.zeros(3)
        self.stack = []
        self.named = {}
        self.ctx = []

    def chain(self, M):
        np = self.np
        T = np.eye(4); T[:3, 3] = self.p
        Ti = np.eye(4); Ti[:3, 3] = -self.p
        self.m = T @ M @ Ti @ self.m

    def do(self, op):
        np = self.np
        k = op[0]
        if k == "translate":
            M = np.eye(4); M[:3, 3] = op[1:4]; self.chain(M)
        elif k == "rotate":
            a = math.radians(op[1]); c, s = math.cos(a), math.sin(a)
            M = np.eye(4)
            if op[2] == "x":
                M[1, 1], M[1, 2], M[2, 1], M[2, 2] = c, -s, s, c
            elif op[2] == "y":
                M[0, 0], M[0, 2], M[2, 0], M[2, 2] = c, s, -s, c
            else:
                M[0, 0], M[0, 1], M[1, 0], M[1, 1] = c, -s, s, c
            self.chain(M)
        elif k == "scale":
            fs = op[1]
            if any(f == 0 for f in fs):
                return "ValueError"
            v = [fs[0]] * 3 if len(fs) == 1 else list(fs) + [1.0] * (3 - len(fs))
            self.chain(np.diag(v + [1.0]))
        elif k in ("reflect", "mirror"):
            n = np.array(op[1] if k == "reflect" else {"xy": [0, 0, 1.0], "yz": [1.0, 0, 0], "zx": [0, 1.0, 0]}[op[1]], dtype=float)
            if not n.any():
                return "ValueError"
            n = n / np.linalg.norm(n)
            M = np.eye(4); M[:3, :3] -= 2 * np.outer(n, n); self.chain(M)
        elif k == "set_pivot":
            self.p = np.array(op[1:4], dtype=float)
        elif k == "save":
            if op[1] is None:
                self.stack.append((self.m.copy(), self.p.copy()))
            else:
                self.named[op[1]] = (self.m.copy(), self.p.copy())
        elif k == "restore":
            if op[1] is None:
                if not self.stack:
                    return "IndexError"
                self.m, self.p = self.stack.pop()
                self.m, self.p = self.m.copy(), self.p.copy()
            else:
                if op[1] not in self.named:
                    return "KeyError"
                self.m, self.p = (x.copy() for x in self.named[op[1]])
        elif k == "delete":
            if op[1] not in self.named:
                return "KeyError"
            del self.named[op[1]]
        elif k == "enter_current":
            self.ctx.append((self.m.copy(), self.p.copy(), [(a.copy(), b.copy()) for a, b in self.stack]))
        elif k == "enter_named":
            if op[1] not in self.named:
                return "KeyError"
            self.ctx.append((self.m.copy(), self.p.copy(), [(a.copy(), b.copy()) for a, b in self.stack]))
            self.m, self.p = (x.copy() for x in self.named[op[1]])
        elif k == "exit_ctx":
            if self.ctx:
                self.m, self.p, self.stack = self.ctx.pop()
        return None


def plane_normal(name):
    from gscrib.enums import Plane
    return [float(v) for v in Plane(name).normal()]


def g_v3(p):
    return "(mkv %s %s %s)" % tuple(g_Q(Fraction(float(v))) for v in p)


def g_top(op):
    k = op[0]
    if k == "translate":
        return "Translate %s %s %s" % tuple(g_Q(Fraction(v)) for v in op[1:4])
    if k == "rotate":
        a = math.radians(op[1])
        # cos/sin to 32 fractional bits: keeps the exact arithmetic of the model cheap; the deviation (2^-33) is far
        # below the comparison tolerance
        cq = Fraction(round(math.cos(a) * 2 ** 32), 2 ** 32)
        sq = Fraction(round(math.sin(a) * 2 ** 32), 2 ** 32)
        return "Rotate %s %s %s" % ({"x": "AX", "y": "AY", "z": "AZ"}[op[2]], g_Q(cq), g_Q(sq))
    if k == "scale":
        return "Scale %s" % g_list([g_Q(Fraction(v)) for v in op[1]])
    if k == "reflect":
        return "Reflect %s" % g_v3(op[1])
    if k == "mirror":
        return "Reflect %s" % g_v3(plane_normal(op[1]))
    if k == "set_pivot":
        return "SetPivot %s" % g_v3(op[1:4])
    if k == "save":
        return "Save %s" % ("None" if op[1] is None else "(Some %d%%nat)" % op[1])
    if k == "restore":
        return "Restore %s" % ("None" if op[1] is None else "(Some %d%%nat)" % op[1])
    if k == "delete":
        return "Delete %d%%nat" % op[1]
    if k == "enter_current":
        return "EnterCurrent"
    if k == "enter_named":
        return "EnterNamed %d%%nat" % op[1]
    if k == "exit_ctx":
        return "ExitCtx"
    raise ValueError(op)


def close(a, b, tol=1e-7):
    return all(abs(x - y) <= tol * (1 + abs(x) + abs(y)) for x, y in zip(a, b))


def main():
    run = Run(PID)
    st = standard_proof_phase(run, PID)
    import numpy as np
    n = 1500 if run.thorough else 200
    cases = [[("translate", 10.0, 0.0, 0.0), ("save", 1), ("restore", 1), ("translate", 5.0, 0.0, 0.0), ("restore", 1)],
             [("save", None), ("translate", 1.0, 2.0, 0.0), ("save", None), ("enter_current",), ("restore", None), ("restore", None),
              ("rotate", 90, "z"), ("exit_ctx", True), ("restore", None), ("restore", None)],
             [("translate", 3.0, 1.0, 0.0), ("save", 2), ("enter_named", 2), ("scale", [2.0]), ("exit_ctx", False), ("enter_named", 2),
              ("rotate", 45, "x"), ("exit_ctx", True), ("restore", 2)],
             [("set_pivot", 5.0, 5.0, 0.0), ("rotate", 90, "z"), ("scale", [2.0, 3.0]), ("reflect", [1.0, 1.0, 0.0])],
             [("set_pivot", 0.0, 0.0, 5.0), ("rotate", 90, "x"), ("scale", [2.0]), ("set_pivot", 0.0, 3.0, 0.0), ("rotate", 90, "z"), ("mirror", "xy")],
             [("set_pivot", 4.0, 0.0, 0.0), ("rotate", 30, "y"), ("scale", [1.0, 1.0, 3.0]), ("reflect", [0.0, 0.0, 1.0])]]
    cases += [gen_ops(run.rng, run.thorough) for _ in range(n)]
    found = False
    dist = {}
    impl_all = []
    for ops in cases:
        res = run_impl(ops)
        impl_all.append(res)
        ref = Ref()
        kinds = set()
        for i, (op, r) in enumerate(zip(ops, res)):
            kinds.add(op[0])
            dist[op[0]] = dist.get(op[0], 0) + 1
            e = ref.do(op)
            prob = None
            if e != r["exc"]:
                prob = "%r raised %s, expected %s" % (op, r["exc"], e)
            else:
                inv = None
                try:
                    inv = np.linalg.inv(ref.m)
                except np.linalg.LinAlgError:
                    pass
                for p, (a, rv) in zip(PROBES, r["pts"]):
                    ea = (ref.m @ np.array(list(p) + [1.0]))[:3]
                    if not close(a, ea):
                        prob = "after %r apply_transform(%r) = %r, an immutable-snapshot 4x4 model gives %r" % (op, p, a, list(ea))
                        break
                    if inv is not None:
                        er = (inv @ np.array(list(p) + [1.0]))[:3]
                        if not close(rv, er, 1e-6):
                            prob = "after %r reverse_transform(%r) = %r, expected %r" % (op, p, rv, list(er))
                            break
            if prob:
                found = True
                run.violation(prob + " (step %d)" % i, dict(ops=[list(map(str, o)) for o in ops[:i + 1]]))
                break
        run.count(repr(ops), len(kinds) >= 3 and any(k in kinds for k in ("save", "restore", "enter_current", "enter_named")))
        if len(run.cov["samples"]) < 3:
            run.sample(dict(ops=[list(map(str, o)) for o in ops[:10]]))
    # model correspondence
    files = []
    per = 40
    probes = g_list([g_v3(p) for p in PROBES])
    for i in range(0, len(cases), per):
        body = "Definition probes := %s.\n" % probes
        body += ("Definition enc (q : Q) := (Qnum (Qred q), Zpos (Qden (Qred q))).\n"
                 "Definition encv (p : v3) := [enc (vx p); enc (vy p); enc (vz p)].\n"
                 "Definition obs (s : tstate) := map (fun p => (encv (t_apply s p), @nil (Z * Z))) probes.\n"
                 "Definition obs_rev (s : tstate) := if Qeq_bool (det (t_m (cur s))) 0 then [] else map (fun p => encv (t_reverse s p)) probes.\n"
                 "Definition trace (ops : list top) := let r := fold_left (fun acc o => let '(s, e) := tstep (fst acc) o in (s, snd acc ++ [(e, obs s)])) ops (ts0, []) in (snd r, obs_rev (fst r)).\n")
        for ops in cases[i:i + per]:
            body += "Eval vm_compute in trace %s.\n" % g_list([g_top(o) for o in ops])
        files.append(("t_%d" % (i // per), body))
    results = []
    mok = True
    for rc, out in coq_eval_many(PID, files, IMPORTS_T, timeout=1800):
        if rc != 0:
            mok = False
            run.log("model evaluation failed:\n" + out[-1500:])
            break
        results.extend(parse_evals(out))
    validated = 0
    if not mok or len(results) != len(cases):
        run.violation("the model (coq/model/Transformer.v) could not be evaluated", dict(theorem="C13_*"), no_input=not found)
    else:
        EXC = {"None": None}
        for ops, res, val in zip(cases, impl_all, results):
            t, final_rev = parse_term(val)
            ok = True
            if final_rev and res:
                for mr, (a, rv) in zip(final_rev, res[-1]["pts"]):
                    fr = [float(Fraction(x[0], x[1])) for x in mr]
                    if not close(rv, fr, 1e-6):
                        ok = False
                        run.violation("model and implementation disagree on reverse_transform after %r: model %r, implementation %r"
                                      % (ops[-1], fr, rv), dict(ops=[list(map(str, o)) for o in ops], theorem="C13_reverse"), no_input=True)
                        break
            for i, (item, r) in enumerate(zip(t, res)):
                e, obs = item
                me = None if e == "None" else {"TValueErr": "ValueError", "TIndexErr": "IndexError", "TKeyErr": "KeyError"}[e[1]]
                bad = None
                if me != r["exc"]:
                    bad = "exception: model %s, implementation %s" % (me, r["exc"])
                else:
                    for (ma, mr), (a, rv) in zip(obs, r["pts"]):
                        fa = [float(Fraction(x[0], x[1])) for x in ma]
                        if not close(a, fa):
                            bad = "apply_transform: model %r, implementation %r" % (fa, a)
                        elif mr:
                            fr = [float(Fraction(x[0], x[1])) for x in mr]
                            if not close(rv, fr, 1e-6):
                                bad = "reverse_transform: model %r, implementation %r" % (fr, rv)
                if bad:
                    ok = False
                    run.violation("model and implementation disagree at step %d %r: %s" % (i, ops[i], bad),
                                  dict(ops=[list(map(str, o)) for o in ops[:i + 1]], theorem="coq/props/C13.v; correspondence tstep = CoordinateTransformer"),
                                  no_input=True)
                    break
            validated += ok
    proof_broken_violation(run, st, found)
    run.cov["rule"] = ("sequences (<= 40) of translate/rotate/scale/reflect/mirror/set_pivot/save_state/restore_state/"
                       "delete_state (stack and named), nested current_transform()/named_transform() contexts left normally or "
                       "by a raising body; 3 probe points through apply_transform/reverse_transform after every operation "
                       "(tolerance 1e-7 relative). non-trivial = >= 3 operation kinds incl. a save/restore/context.")
    run.finish(proof=st, extra=dict(input_distribution=dict(op_kinds=dist), traces_validated_against_impl=validated))


if __name__ == "__main__":
    main()
