"""C18 — device reports are parsed into the readings the caller asks for."""
import os, sys
from fractions import Fraction

sys.path.insert(0, os.path.dirname(os.path.abspath(__file__)))
from common import *  # noqa

PID = "C18"
LETTERS = ["X", "Y", "Z", "A", "B", "C", "E", "F", "S", "T", "P", "W"]


def dec(rng):
    """a signed decimal literal as firmware prints them"""
    k = rng.randrange(8)
    n = rng.randint(0, 99999)
    if k == 0:
        s = "%d" % n
    elif k == 1:
        s = "%d.%02d" % (n % 1000, rng.randint(0, 99))
    elif k == 2:
        s = "%d.%03d" % (n % 300, rng.randint(0, 999))
    elif k == 3:
        s = "0.%04d" % rng.randint(0, 9999)
    elif k == 4:
        s = "%d." % (n % 100)
    elif k == 5:
        s = ".%d" % rng.randint(0, 999)
    elif k == 6:
        s = "0.00"
    else:
        s = "%d.%d" % (n, rng.randint(0, 10 ** 9))
    return ("-" if rng.random() < 0.35 else "") + s


def marlin_position(rng):
    fields = [("X", [dec(rng)]), ("Y", [dec(rng)]), ("Z", [dec(rng)]), ("E", [dec(rng)])]
    txt = " ".join("%s:%s" % (k, v[0]) for k, v in fields)
    cnt = [("X", ["%d" % rng.randint(-9999, 9999)]), ("Y", ["%d" % rng.randint(-9999, 9999)]), ("Z", ["%d" % rng.randint(-9999, 9999)])]
    sep = rng.choice([" Count ", " Count: ", "  Count "])
    txt += sep + " ".join("%s:%s" % (k, v[0]) for k, v in cnt)
    if "Count:" in sep:
        pass
    return txt, fields + cnt


def marlin_temp(rng):
    fields = [("T", [dec(rng).lstrip("-")]), ("B", [dec(rng).lstrip("-")])]
    txt = "T:%s /%s B:%s /%s" % (fields[0][1][0], dec(rng).lstrip("-"), fields[1][1][0], dec(rng).lstrip("-"))
    if rng.random() < 0.6:
        a, b = "%d" % rng.randint(0, 127), "%d" % rng.randint(0, 127)
        txt += " @:%s B@:%s" % (a, b)
    if rng.random() < 0.3:
        t0 = dec(rng).lstrip("-")
        txt += " T0:%s /0.0" % t0
    if rng.random() < 0.5:
        txt = "ok " + txt
    return txt, fields


def grbl_status(rng):
    parts = []
    fields = []
    st = rng.choice(["Idle", "Run", "Hold:0", "Alarm", "Jog"])
    segs = []
    pos_key = rng.choice(["MPos", "WPos"])
    n = rng.choice([3, 3, 4, 6])
    vals = [dec(rng) for _ in range(n)]
    segs.append(("%s:%s" % (pos_key, ",".join(vals)), (pos_key, vals)))
    if rng.random() < 0.8:
        fs = [dec(rng).lstrip("-"), dec(rng).lstrip("-")]
        segs.append(("FS:%s" % ",".join(fs), ("FS", fs)))
    if rng.random() < 0.4:
        segs.append(("WCO:%s" % ",".join(dec(rng) for _ in range(3)), None))
    if rng.random() < 0.3:
        segs.append(("Bf:15,128", None))
    if rng.random() < 0.3:
        segs.append(("Pn:XYZ", None))
    if rng.random() < 0.2:
        segs.append(("Ov:100,100,100", None))
    rng.shuffle(segs)
    txt = "<" + "|".join([st] + [s for s, _ in segs]) + ">"
    return txt, [f for _, f in segs if f is not None]


def probe_report(rng):
    vals = [dec(rng) for _ in range(rng.choice([3, 3, 4]))]
    return "[PRB:%s:%d]" % (",".join(vals), rng.randint(0, 1)), [("PRB", vals)]


def noise(rng):
    return rng.choice(["ok", "ok N12 P15 B3", "echo:busy: processing", "start", "wait", "Error:checksum mismatch", "error:9",
                       "ALARM:1", "!! printer halted", "[MSG:Caution: Unlocked]", "Grbl 1.1h ['$' for help]", "", "  ",
                       "X:1.2.3 Y:- Z:. E:--1", "x:5 X:6", "T:abc", "FS:1,2", "<Idle|FS:1>", "echo: M92 X80.00 Y80.00",
                       "MPos:1,2,3", "ok T:", "A:1:2", "Q:1,2", "Z:5Y:6"]), None


def expected_from_fields(fields, starts_lt):
    """first value of each letter in this report, for well-formed family reports"""
    out = {}
    for key, vals in fields:
        if len(key) == 1:
            if len(vals) == 1:
                out.setdefault(key.upper(), Fraction(vals[0]) if vals[0] not in ("-", ".") else None)
        elif key == "FS" and starts_lt and len(vals) == 2:
            out.setdefault("F", Fraction(vals[0]))
            out.setdefault("S", Fraction(vals[1]))
        elif key in ("MPos", "WPos", "PRB"):
            for a, v in zip("XYZABC", vals):
                out.setdefault(a, Fraction(v))
    return out


def main():
    run = Run(PID)
    st = standard_proof_phase(run, PID)
    import signal, logging
    logging.disable(logging.CRITICAL)
    signal.signal = lambda *a, **k: None
    from gscrib.writers.printrun_writer import PrintrunWriter
    n = 1500 if run.thorough else 200
    seqs = []
    for _ in range(n):
        msgs = []
        for _ in range(run.rng.randint(1, 12)):
            k = run.rng.random()
            gen = marlin_position if k < 0.25 else marlin_temp if k < 0.5 else grbl_status if k < 0.75 else probe_report if k < 0.85 else noise
            txt, fields = gen(run.rng)
            if run.rng.random() < 0.2:
                txt = " " + txt + "\r\n"
            # polling firmwares repeat themselves: a quarter of the reports is an earlier report of this sequence, verbatim
            if msgs and run.rng.random() < 0.25:
                txt, fields = run.rng.choice(msgs)
            msgs.append((txt, fields))
        seqs.append(msgs)
    seqs.insert(0, [("T:200.0 /210.0 B:55.0 /60.0", [("T", ["200.0"]), ("B", ["55.0"])]), ("ok T:205.0 /210.0 B:57.0 /60.0", [("T", ["205.0"]), ("B", ["57.0"])]),
                    ("T:200.0 /210.0 B:55.0 /60.0", [("T", ["200.0"]), ("B", ["55.0"])])])
    seqs.insert(0, [("ok T:210.5 /210.0 B:60.1 /60.0", [("T", ["210.5"]), ("B", ["60.1"])]), ("X:0.00 Y:1.0 Z:2 E:0 Count X:-37 Y:80 Z:160", [("X", ["0.00"]), ("Y", ["1.0"]), ("Z", ["2"]), ("E", ["0"])]),
                    ("<Idle|MPos:0.000,-4.000,1.5|FS:0,0|WPos:-4.000,0,0>", [("MPos", ["0.000", "-4.000", "1.5"]), ("FS", ["0", "0"])]),
                    ("<Run|MPos:5.000,5.000,5.000|FS:500,8000>", [("MPos", ["5.000", "5.000", "5.000"]), ("FS", ["500", "8000"])])])
    found = False
    dist = {}
    impl_all = []
    for msgs in seqs:
        w = PrintrunWriter("serial", "h", "p", 1)
        cur = {}
        snaps = []
        for txt, fields in msgs:
            try:
                w._on_device_message(txt)
            except Exception as e:
                found = True
                run.violation("message %r raised %s" % (txt, type(e).__name__), dict(messages=[m for m, _ in msgs]))
                break
            snap = [w.get_parameter(l) for l in LETTERS]
            snaps.append(snap)
            fam = "noise" if fields is None else "family"
            dist[fam] = dist.get(fam, 0) + 1
            if fields is not None:
                exp = expected_from_fields(fields, txt.strip().startswith("<"))
                for k, v in exp.items():
                    if v is not None:
                        cur[k] = float(v)
                for l, got in zip(LETTERS, snap):
                    want = cur.get(l)
                    if (want is None) != (got is None) or (want is not None and float(got) != want):
                        found = True
                        run.violation("after report %r get_parameter(%r) = %r, expected %r (first value of the letter in the "
                                      "last report mentioning it)" % (txt, l, got, want), dict(messages=[m for m, _ in msgs]))
                        break
            else:
                # noise may or may not carry readings: resynchronise the oracle from the implementation
                cur = {l: g for l, g in zip(LETTERS, snap) if g is not None}
        impl_all.append(snaps)
        run.count(repr([m for m, _ in msgs]), len(msgs) >= 2 and any(f for _, f in msgs))
        if len(run.cov["samples"]) < 3:
            run.sample(dict(messages=[m for m, _ in msgs][:5], readings=dict(zip(LETTERS, snaps[-1])) if snaps else {}))
    # model
    files = []
    per = 100
    keys = g_list([g_bytes(l.encode()) for l in LETTERS])
    for i in range(0, len(seqs), per):
        body = "Open Scope N_scope.\nDefinition keys := %s.\n" % keys
        body += "Definition snaps (msgs : list (list N)) := snd (fold_left (fun acc m => let s := fst (on_message (fst acc) m) in (s, snd acc ++ [map (fun k => rget k (readings s)) keys])) msgs (mkr [] [], [])).\n"
        body += "Definition enc (o : option Q) := match o with Some q => Some (Qnum q, Zpos (Qden q)) | None => None end.\n"
        for msgs in seqs[i:i + per]:
            body += "Eval vm_compute in map (map enc) (snaps %s).\n" % g_list([g_bytes(m.encode("ascii")) for m, _ in msgs])
        files.append(("r_%d" % (i // per), body))
    results = []
    mok = True
    for rc, out in coq_eval_many(PID, files, "From GS Require Import model.Report.\n"):
        if rc != 0:
            mok = False
            run.log("model evaluation failed:\n" + out[-1500:])
            break
        results.extend(parse_evals(out))
    validated = 0
    if not mok or len(results) != len(seqs):
        run.violation("the model (coq/model/Report.v) could not be evaluated", dict(theorem="C18_readings"), no_input=not found)
    else:
        for msgs, snaps, val in zip(seqs, impl_all, results):
            t = parse_term(val)
            ok = True
            for mi, (ms, isnap) in enumerate(zip(t, snaps)):
                for l, mo, io_ in zip(LETTERS, ms, isnap):
                    mv = None if mo == "None" else float(Fraction(mo[1][0], mo[1][1]))
                    if (mv is None) != (io_ is None) or (mv is not None and mv != float(io_)):
                        ok = False
                        run.violation("model and implementation disagree after message %r on %s: model %r, implementation %r"
                                      % (msgs[mi][0], l, mv, io_), dict(messages=[m for m, _ in msgs[:mi + 1]],
                                      theorem="C18_readings (coq/props/C18.v); correspondence on_message = _on_device_message"),
                                      no_input=True)
                        break
                if not ok:
                    break
            validated += ok
    proof_broken_violation(run, st, found)
    run.cov["rule"] = ("sequences of 1-12 device lines: Marlin position (X Y Z E Count X Y Z), Marlin temperature (with/without "
                       "leading ok, @ and T0 fields), Grbl status (MPos|WPos with 3-6 axes, FS, WCO, Bf, Pn, Ov in any order), "
                       "[PRB:...], plus a noise stream (malformed numbers, lower-case keys, errors, banners); signed decimals "
                       "in 8 formats; delivered through the public receive callback; get_parameter compared for 12 letters "
                       "after every line. non-trivial = >= 2 lines with at least one family report.")
    run.finish(proof=st, extra=dict(input_distribution=dist, traces_validated_against_impl=validated))


if __name__ == "__main__":
    main()
