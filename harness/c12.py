"""C12 — interpolation honours the configured resolution."""
import math
import os
import sys
from fractions import Fraction

sys.path.insert(0, os.path.dirname(os.path.abspath(__file__)))
from common import *  # noqa

PID = "C12"
IMPORTS = "From GS Require Import model.TracerQ."


def new_builder(units=None, res=None, order="units-first", relative=False, dp=5):
    from gscrib import GCodeBuilder
    from builder_lib import Recorder
    rec = Recorder()
    g = GCodeBuilder(decimal_places=dp, line_endings="\n")
    g.add_writer(rec.writer)
    segs = []

    def hook(origin, target, params, state):
        segs.append(((origin.x, origin.y, origin.z), (target.x, target.y, target.z)))
        return params
    g.add_hook(hook)
    if order == "units-first":
        if units:
            g.set_length_units(units)
        if res is not None:
            g.set_resolution(res)
    else:
        if res is not None:
            g.set_resolution(res)
        if units:
            g.set_length_units(units)
    if relative:
        g.set_distance_mode("relative")
    return g, segs


# ---------------------------------------------------------------------------------------
# (B) correspondence of the filter and the sampling count with model/TracerQ.v, through the public
#     trace.parametric(fn, length) with a harness curve made of dyadic points (binary64 is exact there)
# ---------------------------------------------------------------------------------------

def gen_filter_case(rng, thorough):
    j = rng.choice([0, 1, 2, 3, 4, 5, 7, 8, 10])          # res = 10 m / 2^j  -> res/10 = m / 2^j exactly
    m = rng.choice([1, 1, 1, 3, 5])
    res = Fraction(10 * m, 2 ** j)
    grid = Fraction(m, 2 ** (j + rng.choice([2, 3, 4])))   # positions are multiples of this
    nwant = rng.choice([2, 3, 5, 12, 40, 150] + ([600, 2500] if thorough else [400]))
    # length such that max(2, int(10 L / res)) == nwant (or the floor of 2)
    if rng.random() < 0.15:
        length = res * Fraction(rng.randint(1, 19), 100 * 1)   # 10 L / res < 2: the floor of two samples
        length = Fraction(math.floor(length * 2 ** 20), 2 ** 20) or Fraction(1, 2 ** 20)
    else:
        length = res * Fraction(nwant, 10) + res * Fraction(rng.randint(0, 9), 160)
    n = max(2, (10 * length / res).__floor__())
    style = rng.choice(["even", "jitter", "stall", "bursty", "big"])
    unit = (res / 10 / grid).__floor__() or 1                # about res/10 in grid steps
    pts = []
    cur = [Fraction(rng.randint(-40, 40)), Fraction(rng.randint(-40, 40)), Fraction(0)]
    signs = [rng.choice([1, -1]) for _ in range(3)]      # monotone along each axis: distinct samples stay distinct
    for i in range(n):
        if style == "even":
            k = unit
        elif style == "jitter":
            k = rng.randint(max(0, unit - 2), unit + 2)
        elif style == "stall":
            k = 0 if rng.random() < 0.4 else unit
        elif style == "bursty":
            k = rng.choice([0, 1, unit, unit, 3 * unit])
        else:
            k = rng.choice([unit, 5 * unit, 12 * unit, 25 * unit])
        ax = rng.choice([0, 0, 0, 1, 2]) if style != "even" else 0
        cur = list(cur)
        cur[ax] += signs[ax] * k * grid
        pts.append(tuple(cur))
    return dict(res=res, length=length, pts=pts, style=style)


def run_filter_impl(case):
    import numpy as np
    g, segs = new_builder(res=float(case["res"]))
    pts = case["pts"]
    seen = {}

    def fn(thetas):
        seen["n"] = len(thetas)
        arr = np.zeros((len(thetas), 3))
        for i in range(min(len(thetas), len(pts))):
            arr[i] = [float(v) for v in pts[i]]
        for i in range(len(pts), len(thetas)):
            arr[i] = arr[len(pts) - 1]
        return arr
    g.trace.parametric(fn, float(case["length"]))
    return seen.get("n"), [t for (_, t) in segs]


def dist(p, q):
    # the harness curves move along one axis at a time: the Euclidean distance is exact
    d = [abs(a - b) for a, b in zip(p, q)]
    assert sum(1 for v in d if v) <= 1
    return sum(d)


def filter_phase(run):
    n = 1500 if run.thorough else 260
    cases = [gen_filter_case(run.rng, run.thorough) for _ in range(n)]
    # fixed corpus: resolutions below 0.1 with even spacing (relative slack), and the two-sample floor
    for j, cnt in ((7, 45), (8, 45), (10, 60), (10, 200), (5, 31)):
        res = Fraction(10, 2 ** j)
        g = res / 40
        pts = [(g * 4 * (i + 1), Fraction(0), Fraction(0)) for i in range(cnt)]
        cases.append(dict(res=res, length=res * Fraction(cnt, 10), pts=pts, style="corpus-even"))
    body = []
    for c in cases:
        ds = [dist(c["pts"][i + 1], c["pts"][i]) for i in range(len(c["pts"]) - 1)]
        c["ds"] = ds
        body.append("Eval vm_compute in (nsegments %s %s, keep_mask %s %s)." % (
            g_Q(c["length"]), g_Q(c["res"]), g_Q(c["res"]), g_list([g_Q(d) for d in ds])))
    files = []
    per = 100
    for i in range(0, len(body), per):
        files.append(("filter_%d" % (i // per), "\n".join(body[i:i + per]) + "\n"))
    outs = coq_eval_many(PID, files, IMPORTS, timeout=600)
    vals = []
    for rc, out in outs:
        if rc != 0:
            run.log("model evaluation failed:\n" + out[-1500:])
            return None, cases
        vals += [parse_term(v) for v in parse_evals(out)]
    if len(vals) != len(cases):
        run.log("model evaluation returned %d values for %d cases" % (len(vals), len(cases)))
        return None, cases
    mism = []
    styles = {}
    for c, v in zip(cases, vals):
        styles[c["style"]] = styles.get(c["style"], 0) + 1
        nseg_model, mask_model = v[0], [b == "true" for b in v[1]]
        nimpl, targets = run_filter_impl(c)
        res, pts, ds = c["res"], c["pts"], c["ds"]
        run.count(("filter", str(res), str(c["length"]), len(pts), c["style"], hash(tuple(pts))), len(pts) >= 5)
        rep = dict(kind="filter", res=str(res), length=str(c["length"]), points=[[str(x) for x in p] for p in pts][:4000])
        if nimpl != nseg_model or nimpl != len(pts):
            # the generator computed n with exact rationals; the implementation and the model must agree with it
            mism.append(("sample count: implementation asked for %s samples, model says %s (length %s, res %s)" % (
                nimpl, nseg_model, c["length"], res), rep))
            continue
        kept_model = [pts[0]] + [pts[i + 1] for i, b in enumerate(mask_model) if b]
        kept_impl = [tuple(Fraction(x) for x in t) for t in targets]
        # ---- oracle (model-free): the theorem's statement on the implementation's output --------------
        idx = []
        pos = 0
        ok_sub = True
        for kv in kept_impl:
            while pos < len(pts) and pts[pos] != kv:
                pos += 1
            if pos == len(pts):
                ok_sub = False
                break
            idx.append(pos)
            pos += 1
        bad = None
        if not ok_sub or not idx or idx[0] != 0:
            bad = "emitted vertices are not a subsequence of the samples starting at the first one"
        else:
            if kept_impl[-1] != pts[-1]:
                bad = "the end of the curve %s is not emitted (last vertex %s)" % (pts[-1], kept_impl[-1])
            dmax = max(ds) if ds else 0
            trav = []
            for a, b in zip(idx, idx[1:]):
                trav.append(sum(ds[a:b]))
            # ambiguity through repeated points only shifts zero-length stalls between neighbours
            for k, T in enumerate(trav):
                if T > Fraction(9, 10) * res + dmax:
                    bad = "segment %d travels %s > 0.9 res + dmax (res %s, dmax %s)" % (k + 1, float(T), float(res), float(dmax))
                if k < len(trav) - 1 and not T > Fraction(9, 10) * res:
                    bad = "inner segment %d travels %s <= 0.9 res (res %s)" % (k + 1, float(T), float(res))
        if bad:
            run.violation("trace.parametric at resolution %s over %d harness samples (%s): %s" % (
                float(res), len(pts), c["style"], bad), rep)
            c["oracle_failed"] = True
            continue
        if kept_impl != kept_model:
            mism.append(("kept vertices differ: implementation keeps %d, model keeps %d (res %s, %d samples, %s)" % (
                len(kept_impl), len(kept_model), float(res), len(pts), c["style"]), rep))
    return dict(mismatches=mism, styles=styles, cases=len(cases)), cases


# ---------------------------------------------------------------------------------------
# (C) oracle on the real shapes
# ---------------------------------------------------------------------------------------

def loguniform(rng, lo, hi):
    return math.exp(rng.uniform(math.log(lo), math.log(hi)))


def gen_shape(rng, thorough, decade=None):
    kind = rng.choice(["arc", "arc", "arc_helical", "arc_radius", "arc_radius", "circle", "helix_const", "thread"])
    R = loguniform(rng, 0.05, 2000.0)
    a0 = rng.uniform(-math.pi, math.pi)
    ccw = rng.random() < 0.5
    start = (rng.uniform(-50, 50), rng.uniform(-50, 50), rng.uniform(-5, 5))
    c = (start[0] - R * math.cos(a0), start[1] - R * math.sin(a0))
    sweep = rng.uniform(0.05, 2 * math.pi - 0.05)
    h = 0.0
    turns = 1
    if kind == "circle":
        sweep = 2 * math.pi
    if kind in ("arc_helical", "helix_const", "thread"):
        h = rng.choice([-1, 1]) * loguniform(rng, 0.01, 3.0) * R
    if kind == "helix_const":
        turns = rng.randint(1, 3)
    if kind == "thread":
        sweep = math.pi
    if kind in ("helix_const", "thread") and rng.random() < 0.3:
        # steep: the climb dominates the path length (a lead screw, a deep plunge along a short arc)
        h = rng.choice([-1, 1]) * loguniform(rng, 4.0, 40.0) * R * (sweep + 2 * math.pi * (turns - 1))
    if kind == "arc_radius" and abs(sweep - math.pi) < 1e-3:
        sweep = math.pi / 2       # the centre of a near-half-turn is ill-conditioned in binary64
    a1 = a0 + (sweep if ccw else -sweep)
    target = (c[0] + R * math.cos(a1), c[1] + R * math.sin(a1), start[2] + h)
    total = sweep + 2 * math.pi * (turns - 1)
    if kind == "thread":
        pitch = abs(h) / rng.choice([1, 2, 3]) * rng.uniform(0.7, 1.0)
        turns = max(1, int(abs(h) / pitch))
        total = math.pi + 2 * math.pi * (turns - 1)
    else:
        pitch = None
    L = math.hypot(R * total, h)
    lo, hi = (1.0, 1e4) if decade is None else (10.0 ** decade, 10.0 ** (decade + 1))
    ratio = loguniform(rng, lo, hi if thorough else min(hi, 4000.0))
    res = L / ratio
    units = rng.choice([None, "mm", "in", "in"])
    order = rng.choice(["units-first", "res-first"])
    return dict(kind=kind, R=R, a0=a0, ccw=ccw, start=start, c=c, sweep=sweep, h=h, turns=turns, target=target,
                total=total, L=L, res=res, units=units, order=order, pitch=pitch, relative=rng.random() < 0.25,
                minor=sweep <= math.pi)


def cap_res(s):
    """Multi-turn requests: keep a segment's sweep below one turn so that the oracle can unwrap angles."""
    if s["total"] > 2 * math.pi - 0.2:
        s["res"] = min(s["res"], 4.5 * s["R"])
    return s


def trace_shape(g, s):
    rel = s["relative"]
    st, tg = s["start"], s["target"]
    if s["kind"] != "thread":
        g.set_direction("ccw" if s["ccw"] else "cw")
    else:
        g.set_direction("ccw" if s["ccw"] else "cw")
    T = (tg[0] - st[0], tg[1] - st[1], tg[2] - st[2]) if rel else tg
    centre = (s["c"][0] - st[0], s["c"][1] - st[1])
    k = s["kind"]
    if k == "arc":
        g.trace.arc(T[:2], centre)
    elif k == "arc_helical":
        g.trace.arc(T, centre)
    elif k == "arc_radius":
        r = s["R"] if s["minor"] else -s["R"]
        g.trace.arc_radius(T[:2], r)
    elif k == "circle":
        g.trace.circle(centre)
    elif k == "helix_const":
        g.trace.helix(T, centre, s["turns"])
    elif k == "thread":
        g.trace.thread(T, s["pitch"])


def goto_start(g, s):
    with g.absolute_mode():
        g.rapid(x=s["start"][0], y=s["start"][1], z=s["start"][2])


def check_const_speed(s, res, segs):
    """Returns (problem or None, stats). Independent geometry: every vertex on the helix of radius R about c."""
    R, c, h, L = s["R"], s["c"], s["h"], s["L"]
    total = s["total"]
    k = len(segs)
    # helix()/thread() measure the length with a 500-sample polyline (estimate_length), arc() uses hypot(R total, h)
    Lest = L
    if s["kind"] in ("helix_const", "thread"):
        dphi = total / 499
        Lest = 499 * math.hypot(2 * R * math.sin(dphi / 2), h / 499)
    n = max(2, int(10 * Lest / res))
    # The filter accumulates CHORDS between consecutive samples; the oracle measures the helix arc between kept vertices.
    # For n' samples: chord c = hypot(2 R sin(total / 2n'), h / n'), arc a = L / n'.  A kept segment spanning m samples has
    # m c <= 0.9 res + c, hence arc m a <= (0.9 res + c) a / c; n' = n or n - 1 (the truncation int() may fall either way).
    up_arc, lo_count = 0.0, None
    for nn in {n, max(2, n - 1)}:
        cc = math.hypot(2 * R * math.sin(abs(total) / (2 * nn)), h / nn)
        aa = L / nn
        up_arc = max(up_arc, (0.9 * res + cc) * aa / cc)
        lc = nn * cc / (0.9 * res + cc) - 1
        lo_count = lc if lo_count is None else min(lo_count, lc)
    spacing = L / max(2, n - 1)
    sgn = 1.0 if s["ccw"] else -1.0
    tolR = 1e-9 * max(1.0, R) + 1e-9 * max(abs(c[0]), abs(c[1]), 1.0)
    travelled = []
    acc_angle = 0.0
    prev = s["start"]
    for i, (o, t) in enumerate(segs):
        if max(abs(o[j] - prev[j]) for j in range(3)) > 1e-9 * max(1.0, R):
            return "segment %d does not start where the previous one ended" % i, None
        rt = math.hypot(t[0] - c[0], t[1] - c[1])
        if abs(rt - R) > tolR:
            return "vertex %d is at distance %.12g from the centre, radius is %.12g" % (i + 1, rt, R), None
        ao = math.atan2(o[1] - c[1], o[0] - c[0])
        at = math.atan2(t[1] - c[1], t[0] - c[0])
        d = (at - ao) * sgn
        d = d % (2 * math.pi)
        if d > 2 * math.pi - 1e-7:      # a vertex coinciding with the previous one up to rounding
            d -= 2 * math.pi
        acc_angle += d
        dz = t[2] - o[2]
        travelled.append(math.hypot(R * d, dz))
        if abs(total) > 0 and abs((t[2] - s["start"][2]) - h * acc_angle / total) > 1e-7 * max(1.0, abs(h), R):
            return "vertex %d: z is not proportional to the swept angle" % (i + 1), None
        prev = t
    if abs(acc_angle - total) > 1e-6 * max(1.0, total):
        return "the vertices sweep %.9g rad, the request is %.9g rad" % (acc_angle, total), None
    if max(abs(prev[j] - s["target"][j]) for j in range(3)) > 1e-7 * max(1.0, R):
        return "the last vertex %r is not the target %r" % (prev, s["target"]), None
    eps = 1e-7
    smax = max(travelled)
    up = up_arc * (1 + eps)
    for i, T in enumerate(travelled):
        if T > up:
            return ("segment %d of %d travels %.6g = %.4f res along the curve; bound (0.9 res + sample chord) x arc/chord = %.4f res (res %.6g, L/res %.1f)" % (
                i + 1, k, T, T / res, up / res, res, L / res)), None
        if 0 < i < k - 1 and T < 0.9 * res * (1 - eps):
            return ("inner segment %d of %d travels %.6g = %.4f res < 0.9 res (res %.6g, L/res %.1f)" % (
                i + 1, k, T, T / res, res, L / res)), None
    lo_cnt = lo_count - 1e-6
    hi_cnt = L / (0.9 * res) + 2 + 1e-6
    if not (lo_cnt <= k <= hi_cnt):
        return "%d segments for L/res = %.2f (expected between %.1f and %.1f)" % (k, L / res, lo_cnt, hi_cnt), None
    # chord error implied by the segment length
    sag = 0.0
    for (o, t) in segs:
        ch = math.hypot(t[0] - o[0], t[1] - o[1])
        if ch / 2 < R:
            sag = max(sag, R - math.sqrt(R * R - ch * ch / 4))
    half = min(math.pi, up / (2 * R))
    bound = R * (1 - math.cos(half)) * (1 + 1e-6) + 1e-9 * R
    if sag > bound:
        return "chord error %.6g exceeds the bound %.6g implied by a segment of %.4f res" % (sag, bound, up / res), None
    return None, dict(k=k, maxratio=smax / res, minratio=(min(travelled[1:-1]) / res if k > 2 else None))


def gen_other(rng):
    kind = rng.choice(["spiral", "helix_var", "spline"])
    start = (rng.uniform(-20, 20), rng.uniform(-20, 20), rng.uniform(-2, 2))
    if kind == "spline":
        pts = [(start[0] + rng.uniform(-30, 30), start[1] + rng.uniform(-30, 30), start[2] + rng.uniform(-3, 3)) for _ in range(rng.randint(2, 5))]
        return dict(kind=kind, start=start, pts=pts, res=loguniform(rng, 0.3, 3.0), ccw=True)
    R = loguniform(rng, 1.0, 40.0)
    t = (start[0] + rng.uniform(-R, R), start[1] + rng.uniform(-R, R), start[2] + rng.uniform(0, 5))
    return dict(kind=kind, start=start, target=t, centre=(rng.uniform(-R, R) or 1.0, rng.uniform(-R, R)),
                turns=rng.randint(1, 3), res=loguniform(rng, 0.2, 2.0), ccw=rng.random() < 0.5)


def trace_other(g, s):
    g.set_direction("ccw" if s["ccw"] else "cw")
    if s["kind"] == "spline":
        g.trace.spline(s["pts"])
    elif s["kind"] == "spiral":
        g.trace.spiral(s["target"], s["turns"])
    else:
        g.trace.helix(s["target"], s["centre"], s["turns"])


def shapes_phase(run):
    nshapes = 700 if run.thorough else 130
    stats = dict(kinds={}, decades={}, units={}, halving_chains=0, maxratio=0.0, minratio=None, segments=0)
    shapes = []
    for d in range(4):
        shapes += [gen_shape(run.rng, run.thorough, d) for _ in range(nshapes // 8)]
    shapes += [gen_shape(run.rng, run.thorough) for _ in range(nshapes - len(shapes))]
    # sub-0.1 resolutions (typical inch work) and resolutions longer than the path
    for _ in range(nshapes // 10):
        s = gen_shape(run.rng, run.thorough)
        s["res"] = loguniform(run.rng, 0.002, 0.09)
        s["R"] and shapes.append(rescale_for(s, run.rng))
    found = False
    for s in shapes:
        cap_res(s)
        # the output precision is a formatting matter: the interpolation works on the configured resolution whatever it is
        s["dp"] = run.rng.choice([5, 5, 5, 2, 0])
        g, segs = new_builder(units=s["units"], res=s["res"], order=s["order"], relative=s["relative"], dp=s["dp"])
        res = g.state.resolution
        goto_start(g, s)
        del segs[:]
        rep = dict(kind="shape", shape={k: (list(v) if isinstance(v, tuple) else v) for k, v in s.items()}, state_resolution=res)
        if abs(res - s["res"]) > 1e-9 * s["res"]:
            # (a units switch leaves the number as it is, see DESIGN section 7: the configured value is the requested one)
            found = True
            run.violation("set_resolution(%.9g) on a builder with decimal_places=%d, units %s (%s): the resolution in force is %.9g"
                          % (s["res"], s["dp"], s["units"], s["order"], res), rep)
            continue
        try:
            trace_shape(g, s)
        except Exception as e:
            run.violation("%s raised %s: %s" % (s["kind"], type(e).__name__, str(e)[:200]), rep)
            found = True
            continue
        prob, st = check_const_speed(s, res, list(segs))
        dec = int(math.floor(math.log10(max(s["L"] / res, 1e-9))))
        stats["kinds"][s["kind"]] = stats["kinds"].get(s["kind"], 0) + 1
        stats["decades"][str(dec)] = stats["decades"].get(str(dec), 0) + 1
        stats["units"][str(s["units"])] = stats["units"].get(str(s["units"]), 0) + 1
        run.count(("shape", s["kind"], round(s["R"], 6), round(res, 9)), len(segs) >= 4)
        if prob:
            found = True
            run.violation("%s (R=%.6g, sweep=%.4f rad, height=%.4g, units=%s, resolution=%.6g): %s" % (
                s["kind"], s["R"], s["total"], s["h"], s["units"], res, prob), rep)
            continue
        stats["segments"] += st["k"]
        stats["maxratio"] = max(stats["maxratio"], st["maxratio"])
        if st["minratio"] is not None:
            stats["minratio"] = st["minratio"] if stats["minratio"] is None else min(stats["minratio"], st["minratio"])
        if len(run.cov["samples"]) < 3:
            run.sample(dict(shape=s["kind"], R=s["R"], L_over_res=s["L"] / res, segments=st["k"], longest_over_res=st["maxratio"],
                            shortest_inner_over_res=st["minratio"]))
    # halving chains on the SAME builder (the resolution is reconfigured between traces), every shape
    nchains = 160 if run.thorough else 36
    for i in range(nchains):
        const = i % 2 == 0
        if const:
            s = gen_shape(run.rng, False)
            s["res"] = s["L"] / loguniform(run.rng, 1.0, 60.0)
            s["relative"] = False
            cap_res(s)
        else:
            s = gen_other(run.rng)
        g, segs = new_builder(units=s.get("units"), res=s["res"])
        counts = []
        res = g.state.resolution
        chain = []
        err = None
        for step in range(5):
            g.set_resolution(res)
            with g.absolute_mode():
                g.rapid(x=s["start"][0], y=s["start"][1], z=s["start"][2])
            del segs[:]
            try:
                (trace_shape if const else trace_other)(g, s)
            except ValueError as e:
                err = str(e)
                break
            counts.append(len(segs))
            chain.append(res)
            if const:
                prob, st = check_const_speed(s, res, list(segs))
                if prob:
                    found = True
                    run.violation("%s re-traced on the same builder after set_resolution(%.6g) (chain %r): %s" % (
                        s["kind"], res, chain, prob), dict(kind="chain", shape={k: (list(v) if isinstance(v, tuple) else v) for k, v in s.items()}, chain=chain))
                    break
            res = res / 2
        if err is not None and not counts:
            continue
        stats["halving_chains"] += 1
        run.count(("chain", s["kind"], round(s["res"], 9)), True)
        for a, b, r in zip(counts, counts[1:], chain[1:]):
            if b < a:
                found = True
                run.violation("%s: halving the resolution to %.6g gives %d segments, fewer than %d (counts %r for resolutions %r)" % (
                    s["kind"], r, b, a, counts, chain), dict(kind="chain", shape={k: (list(v) if isinstance(v, (tuple, list)) else v) for k, v in s.items()}, chain=chain, counts=counts))
                break
    return found, stats


def rescale_for(s, rng):
    """Keep the request but make the path 1..300 resolutions long by shrinking the geometry about the start."""
    ratio = loguniform(rng, 1.0, 300.0)
    f = (s["res"] * ratio) / s["L"]
    st = s["start"]
    s = dict(s)
    s["R"] *= f
    s["h"] *= f
    s["L"] *= f
    s["c"] = (st[0] + (s["c"][0] - st[0]) * f, st[1] + (s["c"][1] - st[1]) * f)
    s["target"] = tuple(st[i] + (s["target"][i] - st[i]) * f for i in range(3))
    if s["pitch"]:
        s["pitch"] *= f
    return s


def main():
    run = Run(PID)
    st = standard_proof_phase(run, PID)
    fres, cases = filter_phase(run)
    found, stats = shapes_phase(run)
    found = found or any(c.get("oracle_failed") for c in cases)
    if fres is None:
        if not found:
            run.violation("the model TracerQ.v could not be evaluated against the implementation (see log)",
                          dict(correspondence="C12 filter correspondence (harness/c12.py filter_phase)"), no_input=True)
    elif fres["mismatches"] and not found:
        what, rep = fres["mismatches"][0]
        run.violation("correspondence broken: trace.parametric/_filter_segments and model/TracerQ.v disagree on %d of %d cases "
                      "(first: %s); the oracle found no input on which the stated bounds fail" % (len(fres["mismatches"]), fres["cases"], what),
                      dict(correspondence="TracerQ.keep_mask / nsegments vs PathTracer.parametric", first=rep,
                           theorems=["C12_filter", "C12_count", "C12_sampling"]), no_input=True)
    proof_broken_violation(run, st, found)
    run.cov["rule"] = ("(B) trace.parametric(fn, length) with harness curves of dyadic points moving along one axis at a time "
                       "(even / jittered / stalling / bursty / oversized spacing; resolutions 10m/2^j from 0.0098 to 50; 2..2500 samples): "
                       "sample count and kept vertices compared with nsegments / keep_mask evaluated in Coq, plus the statement of "
                       "C12_filter checked on the implementation's output with exact rationals. (C) arc, helical arc, arc_radius (both "
                       "signs), circle, constant-radius helix (1-3 turns), thread: random radius 0.05..2000, sweep, height, start, direction, "
                       "L/res log-uniform over 1..1e4 per decade, mm/in/default units in both configuration orders, absolute and relative "
                       "mode; every vertex on the requested helix, travelled length per segment <= 0.9 res + L/n and > 0.9 res for inner "
                       "segments, count within [L/(0.9res+L/n) - 1, L/(0.9 res) + 2], sagitta within the bound implied by the segment "
                       "length; halving chains (5 resolutions on the same builder) for these and for spiral / varying-radius helix / spline. "
                       "non-trivial = >= 5 samples / >= 4 segments.")
    extra = dict(input_distribution=dict(filter_styles=fres["styles"] if fres else None, shapes=stats),
                 modelled_not_verified=["numpy linspace/diff/norm and binary64 rounding (exact on the dyadic correspondence inputs; "
                                        "1e-7 relative margins in the shape oracle)", "the shape functions themselves (C10)"])
    run.finish(proof=st, extra=extra)


if __name__ == "__main__":
    main()
