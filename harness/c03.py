"""C03 — configured bounds are never exceeded by an emitted command."""
import os, sys
sys.path.insert(0, os.path.dirname(os.path.abspath(__file__)))
from builder_check import *  # noqa

PID = "C03"


def mkpt3(x, y, z):
    return (Fraction(x), Fraction(y), Fraction(z))
TEMPS = {140: "bed-temperature", 190: "bed-temperature", 104: "hotend-temperature", 109: "hotend-temperature",
         141: "chamber-temperature", 191: "chamber-temperature"}


def oracle(dp, cmds, steps, upto):
    fails = []
    eps = Fraction(1, 2) / Fraction(10) ** dp
    bounds = {}
    rel = False
    before = initial_snapshot()
    transformed = False
    for i, (c, s) in enumerate(zip(cmds, steps)):
        if c[0] == "set_bounds" and s["exc"] is None:
            if c[1] == "axes":
                bounds["axes"] = ([Fraction(v) for v in c[2]], [Fraction(v) for v in c[3]])
            else:
                bounds[c[1]] = (Fraction(c[2]), Fraction(c[3]))
        pos0 = [p if isinstance(p, Fraction) else Fraction(0) for p in before["pos"]]
        cur = list(pos0)
        nrel = [0, 0, 0]
        for raw in s["raw"]:
            toks = O.tokenize(raw)
            if toks is None:
                return fails + [(i, "malformed line %r" % raw, "malformed")]
            g = [v for k, v in toks if k == "G"]
            mm = [int(v) for k, v in toks if k == "M" and v.denominator == 1]
            d = dict((k, v) for k, v in toks if k not in ("G", "M"))
            motion = any(v in (0, 1) or int(v) == 38 for v in g)
            if 90 in g:
                rel = False
            if 91 in g:
                rel = True

            def chk(name, v, what):
                if name in bounds:
                    lo, hi = bounds[name]
                    if not (lo - eps <= v <= hi + eps):
                        fails.append((i, "%r emitted %r: %s %s outside the %s bounds [%s, %s]"
                                      % (cmd_json(c), raw, what, float(v), name, float(lo), float(hi)), "word:" + name))
            if "F" in d and (motion or (not g and not mm)):
                chk("feed-rate", d["F"], "F")
            if "S" in d and (motion or (not g and not mm) or any(v in (3, 4) for v in mm)):
                chk("tool-power", d["S"], "S")
            if "T" in d:
                chk("tool-number", d["T"], "T")
            for v in mm:
                if v in TEMPS:
                    for k in ("S", "R"):
                        if k in d:
                            chk(TEMPS[v], d[k], "temperature " + k)
                            break
            if motion and "axes" in bounds:
                lo, hi = bounds["axes"]
                tgt = list(cur)
                for k, a in enumerate("XYZ"):
                    if a in d:
                        tgt[k] = (cur[k] + d[a]) if rel else d[a]
                        # every relative word is rounded before the machine adds it: the position reconstructed from the
                        # words of this call drifts from the bounded (tracked) target by up to half a unit per word (C01)
                        nrel[k] = nrel[k] + 1 if rel else 0
                for k, a in enumerate("XYZ"):
                    if a in d and not (lo[k] - eps * (2 + nrel[k]) <= tgt[k] <= hi[k] + eps * (2 + nrel[k])):
                        fails.append((i, "%r emitted %r: target %s=%s outside the axes box [%s, %s]"
                                      % (cmd_json(c), raw, a, float(tgt[k]), float(lo[k]), float(hi[k])), "word:axes"))
                cur = tgt
        # an accepted move ends inside the box: the tracked position itself (exact, not only its rounded word) -- C03_target_*
        if s["exc"] is None and s["raw"] and c[0] in ("move", "move_abs", "trace", "polyline") and "axes" in bounds and not transformed:
            lo, hi = bounds["axes"]
            for k, a in enumerate("xyz"):
                v = s["snap"]["pos"][k]
                moved = c[2].get(a) is not None if c[0] in ("move", "move_abs") else True
                if moved and isinstance(v, Fraction) and not (lo[k] <= v <= hi[k]):
                    fails.append((i, "%r was accepted and moved %s to %s (%.3g past the limit), outside the axes box [%s, %s]"
                                  % (cmd_json(c), a.upper(), float(v), float(max(v - hi[k], lo[k] - v)), float(lo[k]), float(hi[k])), "target:axes"))
        if c[0] == "set_transform":
            transformed = True
        # NaN never passes a bound
        if s["exc"] is None and s["raw"]:
            vals = []
            if c[0] in ("move", "move_abs", "probe"):
                vals = [("feed-rate", v) for k, v in c[-1] if k.upper() == "F"] + [("tool-power", v) for k, v in c[-1] if k.upper() == "S"]
            for name, v in vals:
                if v == NAN and name in bounds:
                    fails.append((i, "%r accepted NaN for the bounded property %s" % (cmd_json(c), name), "nan"))
        before = s["snap"]
        if fails:
            return fails
    return fails


def gen_cases(run):
    n = 2500 if run.thorough else 260
    maxlen = 150 if run.thorough else 40
    cases = []
    for i in range(n):
        g = Gen(run.rng, dict(W_FULL, set_bounds=3, probe=6, polyline=5, move=20, move_abs=6, hook=(3 if i % 3 == 0 else 0)), malformed=0.08, bounds=True)
        cases.append((run.rng.choice([0, 2, 5, 8]), g.history(run.rng.randint(6, maxlen))))
    return cases


def tracer_cases(run):
    r = run.rng
    out = []
    for i in range(200 if run.thorough else 30):
        lo = [Fraction(r.randint(-30, -5)) for _ in range(3)]
        hi = [Fraction(r.randint(5, 30)) for _ in range(3)]
        cs = [("set_bounds", "axes", tuple(lo), tuple(hi)), ("set_resolution", Fraction(1, 2)),
              ("move", "linear", {"x": Fraction(r.randint(-4, 4)), "y": Fraction(r.randint(-4, 4)), "z": Fraction(0)}, [])]
        if r.random() < 0.5:
            cs.append(("set_distance", "relative"))
        for _ in range(r.randint(1, 3)):
            k = r.randrange(3)
            if k == 0:
                cs.append(("trace", "circle", [(r.randint(-14, 14) or 2, r.randint(-14, 14))], {}))
            elif k == 1:
                cs.append(("trace", "spiral", [(r.randint(-25, 25) or 2, r.randint(-25, 25), 0)], {"turns": 2}))
            else:
                cs.append(("trace", "arc_radius", [(r.randint(1, 9), r.randint(-9, 9))], {"radius": float(r.choice([12, -12, 30]))}))
        out.append((5, cs))
    return out


CORPUS = [
    # a move hook rewrites F / S: the hook's value is what is written, so it is the value that has to pass the bounds
    (5, [("set_bounds", "feed-rate", Fraction(100), Fraction(1000)), ("set_bounds", "tool-power", Fraction(0), Fraction(100)),
         ("add_hook", ("set", 1, "F", Fraction(2400))), ("move", "linear", {"x": Fraction(6)}, [("F", Fraction(500))]),
         ("remove_hook", 1), ("add_hook", ("set", 2, "S", Fraction(500))), ("move", "linear", {"x": Fraction(7)}, []),
         ("polyline", [mkpt3(8, 1, 0), mkpt3(9, 2, 0)], [])]),
    (5, [("set_bounds", "axes", (Fraction(0), Fraction(0), Fraction(0)), (Fraction(20), Fraction(20), Fraction(20))),
         ("move", "linear", {"x": Fraction(1), "y": Fraction(1), "z": Fraction(1)}, []), ("probe", "towards", {"z": Fraction(-50)}, []),
         ("set_distance", "relative"), ("move", "linear", {"x": Fraction(25)}, []), ("move_abs", "rapid", {"y": Fraction(21)}, [])]),
    (5, [("set_bounds", "feed-rate", Fraction(100), Fraction(1000)), ("move", "linear", {"x": Fraction(1)}, [("F", Fraction(2500))]),
         ("set_bounds", "feed-rate", Fraction(100), Fraction(3000)), ("move", "linear", {"x": Fraction(2)}, [("F", Fraction(2500))]),
         ("set_bounds", "feed-rate", Fraction(100), Fraction(1000)), ("move", "linear", {"x": Fraction(3)}, [("F", Fraction(2500))]),
         ("set_feed", Fraction(2500))]),
    (5, [("set_bounds", "hotend-temperature", Fraction(150), Fraction(250)), ("set_hotend", Fraction(280)),
         ("halt", "wait-for-hotend", [("S", Fraction(280))]), ("halt", "wait-for-hotend", [("R", Fraction(100))]),
         ("set_bounds", "tool-number", Fraction(1), Fraction(6)), ("tool_change", "manual", 7)]),
]

if __name__ == "__main__":
    run_builder_check(PID, gen_cases, oracle, fields=None, truncate_at_leak=False, corpus=CORPUS,
                      oracle_only_cases=tracer_cases,
                      rule="random bound configurations (1-4 of the seven properties, min<max, ranges excluding 0, re-set "
                           "mid-history) then histories in both distance modes with partially known positions, G92, "
                           "probe/home, polylines, F/S words on moves, boundary values min, max, min-2^-10, max+2^-10, "
                           "NaN, +-inf; oracle-only histories with circles/spirals/arcs inside an axes box.",
                      theorem_names="C03_words, C03_nan (coq/props/C03.v)")
