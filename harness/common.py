"""Shared machinery of the gscrib verification checks.

Every check (harness/cXX.py) does, in this order:
  1. regenerate coq/gen/GenTables.v from the live /repo and (re)build the Coq development
     (full .vo build through make; a no-op when nothing changed);
  2. re-check the property file coq/props/CXX.v with coqc and collect Print Assumptions;
  3. run the correspondence (model evaluated inside Coq with vm_compute on the very same
     generated cases the real Python code ran) and the independent oracle;
  4. decide per DESIGN.md section 4 and write evidence/CXX.json.
"""
import fcntl
import hashlib
import json
import os
import random
import re
import subprocess
import sys
import time

ROOT = os.path.dirname(os.path.dirname(os.path.abspath(__file__)))
REPO = os.environ.get("VERIF_REPO", "/repo")
COQ = os.path.join(ROOT, "coq")
BUILD = os.path.join(ROOT, "build")
PY = "/venv/bin/python"

# the implementation under test is always /repo's current working tree
if REPO not in sys.path:
    sys.path.insert(0, REPO)
os.environ["PYTHONPATH"] = REPO
os.environ.setdefault("PYTHONHASHSEED", "0")

KERNEL_TB = [
    "Coq 8.16.1 kernel (coqc, full .vo build, vm_compute; no native_compute); coqchk in the thorough tier",
    "hand-written Gallina model tied to /repo by the correspondence run of this check (generated cases run on "
    "the real Python objects and on the model inside Coq with vm_compute)",
    "harness: case generators, implementation runner, projection and comparison code (Python)",
    "translator harness/gen_tables.py (tables regenerated from the live package on every run)",
]


def get_seed():
    try:
        return int(os.environ.get("VERIF_SEED", "20260930"))
    except ValueError:
        return 20260930


def sh(cmd, timeout, cwd=None, env=None):
    """Run a shell command under a timeout; returns (rc, output)."""
    try:
        p = subprocess.run(cmd, shell=True, cwd=cwd, env=env, timeout=timeout,
                           stdout=subprocess.PIPE, stderr=subprocess.STDOUT)
        return p.returncode, p.stdout.decode("utf-8", "replace")
    except subprocess.TimeoutExpired as e:
        out = (e.stdout or b"").decode("utf-8", "replace")
        return 124, out + "\n[timeout after %ss]" % timeout


# --------------------------------------------------------------------------------------
# Coq build
# --------------------------------------------------------------------------------------

class Lock:
    """exclusive for builds of coq/, shared for everything that only reads the compiled files"""
    def __init__(self, name, shared=False):
        os.makedirs(BUILD, exist_ok=True)
        self.path = os.path.join(BUILD, name + ".lock")
        self.shared = shared

    def __enter__(self):
        self.f = open(self.path, "a")
        fcntl.flock(self.f, fcntl.LOCK_SH if self.shared else fcntl.LOCK_EX)
        return self

    def __exit__(self, *a):
        fcntl.flock(self.f, fcntl.LOCK_UN)
        self.f.close()


def regen_tables():
    """Regenerate coq/gen/GenTables.v from the live repository (own process, fresh import)."""
    rc, out = sh("%s %s/harness/gen_tables.py" % (PY, ROOT), 120, cwd=ROOT)
    return rc == 0, out


def coq_build(clean=False):
    """Regenerate tables and build the whole development. Returns (ok, log)."""
    with Lock("coqbuild"):
        ok, out = regen_tables()
        if not ok:
            return False, "gen_tables failed:\n" + out
        log = out
        # (a from-clean rebuild is done by the thorough tier in a private copy, see thorough_rebuild: compiled files in
        #  coq/ are shared with checks that may be running concurrently and are never deleted here)
        if not os.path.exists(os.path.join(COQ, "Makefile")) or \
                os.path.getmtime(os.path.join(COQ, "_CoqProject")) > os.path.getmtime(os.path.join(COQ, "Makefile")):
            rc, o = sh("coq_makefile -f _CoqProject -o Makefile", 60, cwd=COQ)
            log += o
            if rc != 0:
                return False, log
        rc, o = sh("make -j16 -k", 3000, cwd=COQ)
        log += "\n".join(o.splitlines()[-60:])
        return rc == 0, log


def vo_ok(rel):
    """Is the compiled file for coq/<rel>.v present and newer than its source?"""
    v = os.path.join(COQ, rel + ".v")
    vo = os.path.join(COQ, rel + ".vo")
    return os.path.exists(vo) and os.path.getmtime(vo) >= os.path.getmtime(v)


def prop_status(pid, thorough=False):
    """Re-check props/<pid>.v with coqc; returns dict(obligations, discharged, axioms, log, ok)."""
    src = os.path.join(COQ, "props", pid + ".v")
    text = open(src).read()
    names = re.findall(r"^(?:Theorem|Corollary)\s+(\w+)", text, re.M)
    with Lock("coqbuild", shared=True):
        # per-process scratch directories: two runs of the same check (another tier, another seed) may overlap in time
        po_dir = _scratch("propsout")
        rc, out = sh("coqc -Q . GS -o %s props/%s.v" % (os.path.join(po_dir, "%s.vo" % pid), pid), 1200, cwd=COQ)
        # Print Assumptions for EVERY theorem of the property file (the file itself prints it for a selection only)
        pa_dir = _scratch("pa")
        with open(os.path.join(pa_dir, "PA_%s.v" % pid), "w") as f:
            f.write("From GS Require Import props.%s.\n" % pid)
            for nm in names:
                f.write("Print Assumptions %s.\n" % nm)
        rc2, out2 = sh("coqc -Q %s GS %s" % (COQ, os.path.join(pa_dir, "PA_%s.v" % pid)), 1200, cwd=pa_dir) if rc == 0 else (1, "")
    axioms = {}
    blocks = re.split(r"(?=Closed under the global context|Axioms:)", out2 if rc == 0 else "")
    pa = [b for b in blocks if b.startswith("Closed") or b.startswith("Axioms:")]
    if rc == 0 and (rc2 != 0 or len(pa) != len(names)):
        rc = 1
        out += "\nPrint Assumptions pass failed:\n" + out2[-1500:]
    for name, blk in zip(names, pa):
        if blk.startswith("Closed"):
            axioms[name] = []
        else:
            axioms[name] = sorted(set(re.findall(r"^([A-Za-z_][\w.']*)(?:\s*:|[ \t]*$)", blk, re.M)) - {"Axioms"})
    ok = (rc == 0)
    res = dict(obligations=len(names), discharged=len(names) if ok else 0, theorems=names,
               axioms=axioms, ok=ok, log=out[-3000:],
               checker_cmd="cd /verif/coq && make (coq_makefile, full .vo) && coqc -Q . GS props/%s.v" % pid)
    if thorough and ok:
        res.update(thorough_rebuild(pid))
        res["checker_cmd"] += " && " + res["checker_extra"]
        if not (res.get("clean_build_ok") and res.get("coqchk_ok")):
            res["ok"] = False
            res["discharged"] = 0
            res["log"] += "\nTHOROUGH: from-clean build / coqchk failed:\n" + res.get("clean_build_tail", "") + res.get("coqchk", "")
    return res


def thorough_rebuild(pid):
    """From-clean full .vo build of the whole development in a private copy, then coqchk -o on the property file."""
    d = os.path.join(BUILD, "thorough_%s_%d" % (pid, os.getpid()))
    sh("rm -rf %s && mkdir -p %s && cd %s && cp --parents _CoqProject gen/*.v model/*.v proofs/*.v props/*.v %s/" % (d, d, COQ, d), 120)
    rc1, o1 = sh("coq_makefile -f _CoqProject -o Makefile && make -j16 2>&1 | tail -15", 3000, cwd=d)
    built = os.path.exists(os.path.join(d, "props", pid + ".vo"))
    res = dict(clean_build_ok=built, clean_build_tail=o1[-1200:])
    if built:
        rc3, o3 = sh("coqchk -silent -o -Q . GS GS.props.%s 2>&1 | tail -40" % pid, 3000, cwd=d)
        res["coqchk"] = o3[-2500:]
        res["coqchk_ok"] = ("Modules were successfully checked" in o3) or rc3 == 0
    res["checker_extra"] = "from-clean make of a private copy (build/thorough_%s) && coqchk -o -Q . GS GS.props.%s" % (pid, pid)
    sh("rm -rf %s" % d, 120)
    return res


_SCRATCH = {}
_SCRATCH_LOCK = __import__("threading").Lock()


def _scratch(kind):
    """build/<kind>/p<os pid>: private to this process, removed when it exits"""
    with _SCRATCH_LOCK:          # coq_eval_many calls this from several threads at once
        if kind not in _SCRATCH:
            import atexit
            import shutil
            d = os.path.join(BUILD, kind, "p%d" % os.getpid())
            shutil.rmtree(d, ignore_errors=True)
            os.makedirs(d, exist_ok=True)
            _SCRATCH[kind] = d
            atexit.register(shutil.rmtree, d, True)
        return _SCRATCH[kind]


def scratch_dir(kind):
    """a private scratch directory under /verif/build for files a check writes and reads back; removed at exit"""
    return _scratch(kind)


_COQ_HEADER = "From Coq Require Import List ZArith NArith QArith String Ascii Bool.\nImport ListNotations.\n"


def coq_eval(pid, name, imports, body, timeout=900):
    """Write build/cases/<pid>/<name>.v and run coqc on it. Returns (rc, stdout)."""
    d = os.path.join(_scratch("cases"), pid)
    os.makedirs(d, exist_ok=True)
    path = os.path.join(d, name + ".v")
    with open(path, "w") as f:
        f.write(_COQ_HEADER)
        f.write(imports + "\n")
        f.write("Set Printing Width 2000000.\nSet Printing Depth 100000000.\n")
        f.write(body)
    with Lock("coqbuild", shared=True):
        rc, out = sh("ulimit -s unlimited 2>/dev/null; coqc -Q %s GS -Q %s Cases_%s %s" % (COQ, d, pid, path), timeout, cwd=d)
    return rc, out


def coq_eval_many(pid, files, imports, timeout=900, jobs=16):
    """files: list of (name, body). Runs them in parallel. Returns list of (rc, out)."""
    from concurrent.futures import ThreadPoolExecutor
    with ThreadPoolExecutor(max_workers=jobs) as ex:
        futs = [ex.submit(coq_eval, pid, n, imports, b, timeout) for n, b in files]
        return [f.result() for f in futs]


def parse_evals(out):
    """Split coqc output into the printed values of successive Eval commands (as strings)."""
    vals = []
    for m in re.finditer(r"^\s*=\s(.*?)\n\s*:\s[^\n]*(?:\n|$)", out, re.S | re.M):
        vals.append(m.group(1))
    return vals


_TOK = re.compile(r"\[|\]|;|\(|\)|-?\d+(?:\.\d+)?|%\w+|[A-Za-z_][\w.']*|\"(?:[^\"]|\"\")*\"|,|#")


def parse_term(s):
    """Parse a printed Coq value made of lists, tuples, numbers (Z/N/nat, possibly negative and
    parenthesised, Q as a # b), strings, and constructor applications, into Python:
    list -> list, tuple -> tuple, number -> int, a # b -> Fraction, string -> str,
    constructor C x y -> ("C", x, y), bare constructor -> "C"."""
    from fractions import Fraction
    toks = [t for t in _TOK.findall(s) if not t.startswith("%")]
    pos = [0]

    def peek():
        return toks[pos[0]] if pos[0] < len(toks) else None

    def nxt():
        t = toks[pos[0]]
        pos[0] += 1
        return t

    def atom():
        t = nxt()
        if t == "[":
            items = []
            if peek() == "]":
                nxt()
                return items
            while True:
                items.append(expr())
                t2 = nxt()
                if t2 == "]":
                    return items
                assert t2 == ";", (t2, s[:200])
        if t == "(":
            first = expr()
            if peek() == ",":
                items = [first]
                while peek() == ",":
                    nxt()
                    items.append(expr())
                assert nxt() == ")"
                return tuple(items)
            assert nxt() == ")", s[:200]
            return first
        if re.fullmatch(r"-?\d+", t):
            return int(t)
        if re.fullmatch(r"-?\d+\.\d+", t):
            return Fraction(t)
        if t.startswith('"'):
            return t[1:-1].replace('""', '"')
        return ("@", t)

    def app():
        a = atom()
        if isinstance(a, tuple) and len(a) == 2 and a[0] == "@":
            args = []
            while peek() is not None and peek() not in ("]", ";", ")", ",", "#"):
                args.append(atom_arg())
            return (a[1],) + tuple(args) if args else a[1]
        return a

    def atom_arg():
        a = atom()
        if isinstance(a, tuple) and len(a) == 2 and a[0] == "@":
            return a[1]
        return a

    def expr():
        a = app()
        if peek() == "#":
            nxt()
            b = app()
            return Fraction(a, b)
        return a

    v = expr()
    return v


# --------------------------------------------------------------------------------------
# Gallina literal emitters
# --------------------------------------------------------------------------------------

def g_Z(n):
    return "(%d)%%Z" % n


def g_N(n):
    return "%d%%N" % n


def g_nat(n):
    return "%d%%nat" % n


def g_bool(b):
    return "true" if b else "false"


def g_list(items):
    return "[" + "; ".join(items) + "]"


def g_bytes(b):
    return "[" + ";".join(str(x) for x in b) + "]%N" if len(b) else "(@nil N)"


def g_Q(fr):
    """Fraction -> Gallina Q literal."""
    return "(%d # %d)" % (fr.numerator, fr.denominator)


def g_opt(x, f):
    return "None" if x is None else "(Some %s)" % f(x)


# --------------------------------------------------------------------------------------
# verdicts and evidence
# --------------------------------------------------------------------------------------

def load_known():
    p = os.path.join(ROOT, "known_findings.json")
    if not os.path.exists(p):
        return []
    return json.load(open(p)).get("findings", [])


class Run:
    def __init__(self, pid, argv=None):
        import argparse
        ap = argparse.ArgumentParser()
        ap.add_argument("--tier", default=os.environ.get("VERIF_TIER", "quick"))
        ap.add_argument("--replay", default=None)
        a = ap.parse_args(argv)
        self.pid = pid
        self.tier = a.tier if a.tier in ("quick", "thorough") else "quick"
        self.replay = a.replay
        self.seed = get_seed()
        if self.replay and os.path.exists(self.replay):
            # every random choice derives from one PRNG state: re-running with the recorded seed and tier regenerates the
            # same inputs, hence the recorded failing input (checks with a dedicated replay path additionally run it alone)
            try:
                doc = json.load(open(self.replay))
                if isinstance(doc.get("seed"), int):
                    self.seed = doc["seed"]
                if "_thorough_" in os.path.basename(self.replay):
                    self.tier = "thorough"
            except Exception:
                pass
        self.rng = random.Random(self.seed * 1000003 + int(pid[1:]))
        self.t0 = time.time()
        self.violations = []
        self.known_hits = {}
        self.known = [k for k in load_known() if k.get("property") == pid and k.get("status") == "known"]
        self.cov = dict(evaluations=0, distinct_nontrivial=0, rule="", samples=[])
        self.assumptions = []
        self.notes = []
        self._distinct = set()
        os.makedirs(os.path.join(BUILD, "replay"), exist_ok=True)

    @property
    def thorough(self):
        return self.tier == "thorough"

    def log(self, *a):
        print("[%s %6.1fs]" % (self.pid, time.time() - self.t0), *a, flush=True)

    # counting -------------------------------------------------------------------------
    def count(self, case_key, nontrivial):
        self.cov["evaluations"] += 1
        if nontrivial:
            h = hashlib.sha1(repr(case_key).encode()).hexdigest()
            self._distinct.add(h)

    def sample(self, s, limit=4):
        if len(self.cov["samples"]) < limit:
            self.cov["samples"].append(s)

    # verdicts -------------------------------------------------------------------------
    def match_known(self, signature):
        for k in self.known:
            if k.get("signature") == signature:
                return k
        return None

    def violation(self, what, replay, signature=None, no_input=False):
        """Record a violation (or a known finding if its signature is listed)."""
        if signature is not None:
            k = self.match_known(signature)
            if k is not None:
                self.known_hits.setdefault(signature, k)
                return
        if len(self.violations) >= 5:
            self.violations.append(None)
            return
        idx = len([v for v in self.violations if v])
        path = os.path.join(BUILD, "replay", "%s_%s_%d.json" % (self.pid, self.tier, idx))
        doc = dict(property=self.pid, what=what, signature=signature, seed=self.seed,
                   replay_cmd="/verif/bin/check %s --replay %s" % (self.pid, path), **replay)
        if no_input:
            doc["no_failing_input_found"] = True
        with open(path, "w") as f:
            json.dump(doc, f, indent=1, default=str)
        self.violations.append((what, path, no_input))

    def finish(self, proof=None, extra=None, level="proof"):
        for sig, k in self.known_hits.items():
            print("KNOWN-FINDING: property=%s %s" % (self.pid, k.get("what", sig)))
        for k in self.known:
            if k.get("always_report") and k.get("signature") not in self.known_hits:
                pass
        nviol = 0
        for v in self.violations:
            if not v:
                continue
            what, path, no_input = v
            nviol += 1
            print("VIOLATION property=%s replay=%s%s" % (self.pid, path, " no-failing-input-found" if no_input else ""))
            print("  ->", what[:600])
        cov = dict(self.cov)
        cov["distinct_nontrivial"] = len(self._distinct)
        if proof is not None:
            cov["obligations"] = proof["obligations"]
            cov["discharged"] = proof["discharged"]
            cov["checker_cmd"] = proof["checker_cmd"]
            tb = list(KERNEL_TB)
            axs = sorted({a for l in proof["axioms"].values() for a in l})
            tb.append("axioms reported by Print Assumptions for the property theorems: " +
                      (", ".join(axs) if axs else "none (closed under the global context)"))
            cov["trusted_base"] = tb + (extra or {}).pop("trusted_base_extra", []) if extra else tb
            cov["theorems"] = proof["theorems"]
            cov["print_assumptions"] = proof["axioms"]
            if "coqchk" in proof:
                cov["coqchk_tail"] = proof["coqchk"][-800:]
        if extra:
            cov.update(extra)
        cov["known_findings_seen"] = sorted(self.known_hits)
        if self.notes:
            cov["notes"] = self.notes
        ev = dict(property_id=self.pid, tier=self.tier, seed=self.seed, level=level,
                  coverage=cov, assumptions=self.assumptions, wall_s=round(time.time() - self.t0, 2),
                  violations=nviol)
        evdir = os.path.join(ROOT, "evidence")
        if os.environ.get("VERIF_DEV") == "1":      # development runs (no proof phase) never touch the evidence files
            evdir = os.path.join(BUILD, "evidence_dev")
        os.makedirs(evdir, exist_ok=True)
        with open(os.path.join(evdir, self.pid + ".json"), "w") as f:
            json.dump(ev, f, indent=1, default=str)
        self.log("done: evaluations=%d distinct_nontrivial=%d violations=%d known=%d wall=%.1fs" % (
            cov["evaluations"], cov["distinct_nontrivial"], nviol, len(self.known_hits), time.time() - self.t0))
        sys.exit(1 if nviol else 0)


def standard_proof_phase(run, pid):
    """Steps 1-2 shared by all checks. Returns the proof status dict (ok False when broken)."""
    if os.environ.get("VERIF_DEV") == "1":   # development only: harness without the proof phase
        return dict(obligations=0, discharged=0, theorems=[], axioms={}, ok=True, log="", checker_cmd="(dev)")
    ok, log = coq_build()
    if not ok:
        run.log("Coq build is not clean:\n" + log[-2500:])
    st = prop_status(pid, thorough=run.thorough)
    st["build_ok"] = ok
    st["build_log"] = log[-2500:]
    if not ok:
        # the translator refused the source or a model/proof file no longer compiles against the regenerated tables:
        # the theorems are not re-established for the current tree, whatever the previously compiled files say
        st["ok"] = False
        st["discharged"] = 0
        st["log"] = "BUILD NOT CLEAN:\n" + log[-2000:] + "\n" + st["log"]
    if not st["ok"]:
        run.log("property file does not check:\n" + st["log"][-2500:])
    return st


def proof_broken_violation(run, st, found_input):
    """If a proof obligation no longer checks and the search found no failing input, report it."""
    if st["ok"]:
        return
    if not found_input:
        run.violation("the property theorems of coq/props/%s.v no longer check against the tables "
                      "regenerated from /repo (or a model/proof file fails to compile); the search found "
                      "no failing input" % run.pid,
                      dict(theorems=st["theorems"], coqc_log=st["log"][-3000:], build_log=st.get("build_log", "")),
                      no_input=True)
