import sys, os, random
sys.path.insert(0, os.path.dirname(os.path.abspath(__file__)))
from builder_lib import *
n = int(sys.argv[1]) if len(sys.argv) > 1 else 50
bounds = len(sys.argv) > 2 and sys.argv[2] == "b"
rng = random.Random(int(os.environ.get("VERIF_SEED", "1")))
cases = []
for i in range(n):
    g = Gen(rng, W_FULL if i % 2 else W_MOTION, bounds=bounds, hooks=False)
    cases.append((rng.choice([0, 2, 5, 5, 8]), g.history(rng.randint(5, 40))))
impl = []
for i, (dp, cs) in enumerate(cases):
    impl.append(ImplRun(dp, style=i % 3).run(cs))
import time; t=time.time()
model, log = eval_model("DEV", cases)
print("model eval", time.time()-t)
if model is None:
    print(log); sys.exit(1)
bad = 0
from collections import Counter
excs = Counter()
for ci, (dp, cs) in enumerate(cases):
    for si, (m, im) in enumerate(zip(model[ci], impl[ci])):
        excs[im["exc"]] += 1
        d = compare_step(m, im)
        if d:
            bad += 1
            print("case", ci, "step", si, cs[si], "dp", dp); print("   ", d)
            break
print("mismatching cases:", bad, "of", n, dict(excs))
