"""C19 — heightmaps interpolate faithfully and sample paths within tolerance."""
import math
import os
import sys
from fractions import Fraction

sys.path.insert(0, os.path.dirname(os.path.abspath(__file__)))
from common import *  # noqa

PID = "C19"
IMPORTS = "From GS Require Import model.HeightMap."


FLAT = ("Eval vm_compute in flat_map (fun p : Q * Q * Q => [Qnum (fst (fst p)); Zpos (Qden (fst (fst p))); Qnum (snd (fst p)); "
        "Zpos (Qden (snd (fst p))); Qnum (snd p); Zpos (Qden (snd p))]) (filter_points %s %s).")


def gq(x):
    return g_Q(Fraction(x))


def g_pt(p):
    return "(%s, %s, %s)" % (gq(p[0]), gq(p[1]), gq(p[2]))


# independent Bresenham (all-octant, integer), used by the oracle only
def own_line(x0, y0, x1, y1):
    dx, dy = abs(x1 - x0), abs(y1 - y0)
    n = max(dx, dy)
    if n == 0:
        return [(x0, y0)]
    out = []
    for i in range(n + 1):
        # ideal point at parameter i/n; the minor coordinate rounded to the nearest pixel
        out.append((Fraction(x0) + Fraction(i * (x1 - x0), n), Fraction(y0) + Fraction(i * (y1 - y0), n)))
    return out


def check_filter_rule(points, kept, tol, what):
    """Declarative: kept starts with the first sample, ends at the last one, is an in-order selection of the samples, and
    every dropped sample differs from the previously kept one by less than the tolerance."""
    if not kept:
        return "%s: nothing returned" % what
    if tuple(kept[0]) != tuple(points[0]):
        return "%s: starts with %r, the first sample is %r" % (what, tuple(kept[0]), tuple(points[0]))
    if tuple(kept[-1]) != tuple(points[-1]):
        return "%s: ends with %r, the last sample is %r" % (what, tuple(kept[-1]), tuple(points[-1]))
    idx = []
    pos = 0
    for kp in kept:
        while pos < len(points) and tuple(points[pos]) != tuple(kp):
            pos += 1
        if pos == len(points):
            return "%s: returned point %r is not a sample, or out of order" % (what, tuple(kp))
        idx.append(pos)
        pos += 1
    ki = 0
    for i, p in enumerate(points):
        while ki + 1 < len(idx) and idx[ki + 1] <= i:
            ki += 1
        if i in idx:
            continue
        ref = points[idx[ki]][2]
        d = abs(Fraction(p[2]) - Fraction(ref))
        if d >= Fraction(tol) + Fraction(1, 10 ** 12):
            return ("%s: dropped sample %d %r differs from the previously kept height %r by %.6g >= tolerance %.6g"
                    % (what, i, tuple(p), ref, float(d), tol))
    return None


# ---------------------------------------------------------------------------------------
def gen_image(rng):
    import numpy as np
    h, w = rng.randint(4, 14), rng.randint(4, 14)
    kind = rng.choice(["u8", "u8", "u16", "u16", "u16dark", "u8flat"])
    if kind == "u8":
        img = np.array([[rng.randint(0, 255) for _ in range(w)] for _ in range(h)], dtype=np.uint8)
    elif kind == "u8flat":
        img = np.full((h, w), rng.randint(0, 255), dtype=np.uint8)
    elif kind == "u16":
        img = np.array([[rng.randint(0, 65535) for _ in range(w)] for _ in range(h)], dtype=np.uint16)
    else:   # a dark 16-bit image: every value fits in 8 bits
        img = np.array([[rng.randint(0, 255) for _ in range(w)] for _ in range(h)], dtype=np.uint16)
    return kind, img


def raster_phase(run, stats):
    import numpy as np
    from scipy.interpolate import RectBivariateSpline
    from gscrib.heightmaps import RasterHeightMap
    n = 160 if run.thorough else 30
    coq_lines, coq_expect = [], []
    found = False
    for it in range(n):
        kind, img = gen_image(run.rng)
        h, w = img.shape
        stats["images"][kind] = stats["images"].get(kind, 0) + 1
        via = "array"
        if it % 3 == 2:
            # the same pixels through an image file (PNG is lossless for 8- and 16-bit grayscale)
            import cv2
            via = "png"
            path = os.path.join(scratch_dir("c19files"), "img_%d.png" % it)
            if not cv2.imwrite(path, img):
                raise RuntimeError("cv2.imwrite failed")
            hm = RasterHeightMap.from_path(path)
            os.remove(path)
        else:
            hm = RasterHeightMap(img)
        scale = run.rng.choice([1.0, 2.0, 0.5, 12.5, 0.03125, 100.0])
        hm.set_scale(scale)
        mx = 65535.0 if img.dtype == np.uint16 else 255.0
        rep = dict(kind="raster", dtype=str(img.dtype), image=img.tolist(), scale=scale, loaded_via=via)
        run.count(("raster", kind, h, w, it), True)
        # ---- exact at pixel centres, x = column, y = row; zero outside
        own = RectBivariateSpline(np.arange(h), np.arange(w), (img / mx).astype(np.float32))
        bad = None
        for r in range(h):
            for c in range(w):
                want = scale * float(img[r, c]) / mx
                got = hm.get_depth_at(c, r)
                if abs(got - want) > 1e-6 * max(abs(want), scale / mx) + 1e-9 * scale:
                    bad = "get_depth_at(x=%d, y=%d) = %.9g, scale x stored height = %.9g (pixel value %d, %s image)" % (c, r, got, want, int(img[r, c]), img.dtype)
                    break
            if bad:
                break
        if not bad:
            for (x, y) in [(-0.5, 1), (w, 1), (1, -0.001), (1, h), (w + 3, h + 3), (-1, -1), (w - 0.5, h - 0.5), (w - 1e-9, 0)]:
                got = hm.get_depth_at(x, y)
                inside = (0 <= x < w) and (0 <= y < h)
                if not inside and got != 0.0:
                    bad = "get_depth_at(%r, %r) = %r outside the %dx%d image" % (x, y, got, w, h)
        if bad:
            found = True
            run.violation("raster heightmap %dx%d: %s" % (w, h, bad), rep)
            continue
        # wrapper correspondence at off-grid points: model raster_depth with the value of an independently built spline
        for _ in range(4):
            x, y = run.rng.uniform(-2, w + 2), run.rng.uniform(-2, h + 2)
            v = float(own(y, x)[0, 0])
            coq_lines.append("Eval vm_compute in (let r := raster_depth %d %d %s (fun _ _ => %s) %s %s in (Qnum (Qred r), Zpos (Qden (Qred r))))."
                             % (w, h, gq(scale), gq(v), gq(x), gq(y)))
            coq_expect.append(("depth", hm.get_depth_at(x, y), rep, (x, y)))
        # ---- sample_path under a sequence of configuration changes, lines repeated
        lines = []
        for _ in range(3):
            lines.append(tuple(run.rng.uniform(-2, max(w, h) + 2) for _ in range(4)))
        lines.append((0.5, 1.5, 2.5, 3.5))            # halves: Python rounds half to even
        lines.append((1.2, 1.2, 1.4, 0.9))            # a single pixel
        ops = []
        for _ in range(8 if run.thorough else 6):
            k = run.rng.random()
            if k < 0.25:
                ops.append(("scale", run.rng.choice([1.0, 3.0, 0.25, 40.0])))
            elif k < 0.45:
                ops.append(("tol", run.rng.choice([0.378, 0.05, 0.01, 1.5, 0.2])))
            else:
                ops.append(("path", run.rng.choice(lines)))
        tol = 0.378
        for op in ops:
            if op[0] == "scale":
                hm.set_scale(op[1]); scale = op[1]
            elif op[0] == "tol":
                hm.set_tolerance(op[1]); tol = op[1]
            else:
                line = op[1]
                out = [tuple(float(v) for v in p) for p in hm.sample_path(line)]
                rp = [round(v) for v in line]
                stats["paths"] += 1
                # the samples the pixel line must consist of (own rasterisation: one step per major-axis pixel,
                # minor coordinate within half a pixel of the ideal line)
                ideal = own_line(*rp)
                prob = None
                # every returned point: integer pixel, on the ideal line within half a pixel, in order, own height
                idx = -1
                for p in out:
                    cand = [i for i in range(idx + 1, len(ideal)) if abs(Fraction(p[0]) - ideal[i][0]) <= Fraction(1, 2)
                            and abs(Fraction(p[1]) - ideal[i][1]) <= Fraction(1, 2)]
                    if p[0] != int(p[0]) or p[1] != int(p[1]) or not cand:
                        prob = "point %r is not a pixel of the line %r in order" % (p, rp)
                        break
                    idx = cand[0]
                    zz = hm.get_depth_at(p[0], p[1])
                    if abs(zz - p[2]) > 1e-12 * max(1.0, abs(zz)):
                        prob = "point %r carries height %.9g but the map's height there is %.9g (scale %r)" % (p, p[2], zz, scale)
                        break
                if not prob and (tuple(out[0][:2]) != (rp[0], rp[1]) or tuple(out[-1][:2]) != (rp[2], rp[3])):
                    prob = "path runs from %r to %r, requested (rounded) ends are %r" % (out[0][:2], out[-1][:2], rp)
                if prob:
                    found = True
                    run.violation("raster sample_path(%r) after %r: %s" % (line, ops[:ops.index(op)], prob), dict(rep, ops=ops, line=list(line)))
                    break
                # the drop rule over the pixel line (skimage's, which the model's draw_line is compared with separately)
                from skimage import draw
                rr, cc = draw.line(*rp)
                samples = [(float(x), float(y), hm.get_depth_at(int(x), int(y))) for x, y in zip(rr, cc)]
                prob = check_filter_rule(samples, out, tol, "drop rule")
                if prob:
                    found = True
                    run.violation("raster sample_path(%r), tolerance %r, scale %r: %s" % (line, tol, scale, prob), dict(rep, ops=ops, line=list(line)))
                    break
                coq_lines.append(FLAT % (gq(tol), g_list([g_pt(p) for p in samples])))
                coq_expect.append(("filter", out, rep, line, samples, tol))
    return coq_lines, coq_expect, found


def own_hull(pts):
    pts = sorted(set(pts))
    def cross(o, a, b):
        return (a[0] - o[0]) * (b[1] - o[1]) - (a[1] - o[1]) * (b[0] - o[0])
    lower, upper = [], []
    for p in pts:
        while len(lower) >= 2 and cross(lower[-2], lower[-1], p) <= 0:
            lower.pop()
        lower.append(p)
    for p in reversed(pts):
        while len(upper) >= 2 and cross(upper[-2], upper[-1], p) <= 0:
            upper.pop()
        upper.append(p)
    return lower[:-1] + upper[:-1]


def hull_side(hull, q):
    """> 0 strictly inside, < 0 strictly outside, else near the boundary (signed distance-like, exact rationals)"""
    m = None
    for i in range(len(hull)):
        a, b = hull[i], hull[(i + 1) % len(hull)]
        cr = (b[0] - a[0]) * (q[1] - a[1]) - (b[1] - a[1]) * (q[0] - a[0])
        ln = math.hypot(float(b[0] - a[0]), float(b[1] - a[1]))
        d = float(cr) / ln
        m = d if m is None else min(m, d)
    return m


def sparse_phase(run, stats):
    import numpy as np
    from scipy.spatial import Delaunay
    from gscrib.heightmaps import SparseHeightMap
    n = 120 if run.thorough else 24
    coq_lines, coq_expect = [], []
    found = False
    for it in range(n):
        m = run.rng.randint(4, 14)
        grid = run.rng.random() < 0.3
        pts = set()
        while len(pts) < m:
            if grid:
                pts.add((float(run.rng.randint(0, 6)), float(run.rng.randint(0, 6))))
            else:
                pts.add((round(run.rng.uniform(-20, 60), 2), round(run.rng.uniform(-20, 60), 2)))
        pts = sorted(pts)
        if len({p[0] for p in pts}) < 2 or len({p[1] for p in pts}) < 2:
            continue
        fp = [(Fraction(p[0]), Fraction(p[1])) for p in pts]
        hull = own_hull(fp)
        if len(hull) < 3:
            continue      # collinear
        zs = [round(run.rng.uniform(-5, 25), 3) for _ in pts]
        plane = None
        if it % 4 == 2:
            # heights on a plane z = p x + q y + r: every triangulation must reproduce the plane inside the hull
            # (C19_sparse_affine), so the oracle needs no triangulation of its own here
            plane = (run.rng.choice([0.5, -0.25, 1.0, 0.125, 0.0]), run.rng.choice([0.5, -0.25, -1.0, 0.375]), run.rng.choice([0.0, 3.5, -2.0]))
            zs = [plane[0] * p[0] + plane[1] * p[1] + plane[2] for p in pts]
            stats["affine_point_sets"] = stats.get("affine_point_sets", 0) + 1
        data = np.array([[p[0], p[1], z] for p, z in zip(pts, zs)])
        via = "array"
        if it % 2 == 1:
            # the same data through a CSV / TSV file (numbers written so that they read back exactly; no header line; the
            # first row is whatever point sorts first -- usually a negative x)
            via = run.rng.choice(["csv", "tsv"])
            sep = "," if via == "csv" else "\t"
            path = os.path.join(scratch_dir("c19files"), "points_%d.%s" % (it, via))
            with open(path, "w") as fcsv:
                for row in data.tolist():
                    cells = [repr(float(v)) for v in row]
                    if run.rng.random() < 0.3:
                        cells = [("+" + c) if not c.startswith("-") and run.rng.random() < 0.5 else c for c in cells]
                    fcsv.write(sep.join(cells) + "\n")
            hm = SparseHeightMap.from_path(path)
            os.remove(path)
        else:
            hm = SparseHeightMap(data)
        scale = run.rng.choice([1.0, 2.5, 0.125, 30.0])
        hm.set_scale(scale)
        rep = dict(kind="sparse", points=data.tolist(), scale=scale, loaded_via=via)
        stats["point_sets"] += 1
        run.count(("sparse", m, grid, it), True)
        lo, hi = min(zs), max(zs)
        bad = None
        for p, z in zip(pts, zs):
            got = hm.get_depth_at(p[0], p[1])
            if not abs(got - scale * z) <= 1e-9 * max(1.0, abs(scale * z)):
                bad = "get_depth_at%r = %r at a stored point with height %r (scale %r)" % (p, got, z, scale)
        queries = []
        for _ in range(25):
            queries.append((run.rng.uniform(-30, 70), run.rng.uniform(-30, 70)))
        for _ in range(10):
            a, b, c = run.rng.sample(pts, 3)
            u, v = run.rng.random(), run.rng.random()
            if u + v > 1:
                u, v = 1 - u, 1 - v
            queries.append((a[0] + u * (b[0] - a[0]) + v * (c[0] - a[0]), a[1] + u * (b[1] - a[1]) + v * (c[1] - a[1])))
        tri = Delaunay(np.array(pts))
        tris = "[" + "; ".join("(%s, %s, %s)" % tuple("Build_vtx %s %s %s" % (gq(pts[i][0]), gq(pts[i][1]), gq(zs[i])) for i in s) for s in tri.simplices.tolist()) + "]"
        for q in queries:
            got = hm.get_depth_at(q[0], q[1])
            side = hull_side(hull, (Fraction(q[0]), Fraction(q[1])))
            if math.isnan(got):
                bad = "get_depth_at%r is NaN" % (q,)
            elif side > 1e-7:
                if not (scale * lo - 1e-9 * scale * max(1, abs(lo)) <= got <= scale * hi + 1e-9 * scale * max(1, abs(hi))):
                    bad = "get_depth_at%r = %r inside the hull, stored heights x scale span [%r, %r]" % (q, got, scale * lo, scale * hi)
                if plane is not None and not bad:
                    want = scale * (plane[0] * q[0] + plane[1] * q[1] + plane[2])
                    if abs(got - want) > 1e-8 * max(1.0, abs(want), scale * max(abs(lo), abs(hi))):
                        bad = "get_depth_at%r = %r inside the hull of data on the plane z = %r x + %r y + %r (scale %r), which is %r there" % ((q,) + plane + (scale, want))
            elif side < -1e-7:
                if got != 0.0:
                    bad = "get_depth_at%r = %r outside the convex hull of the data" % (q, got)
            if abs(side) > 1e-7:
                coq_lines.append("Eval vm_compute in (let r := sparse_depth %s %s %s %s in (Qnum (Qred r), Zpos (Qden (Qred r))))." % (gq(scale), tris, gq(q[0]), gq(q[1])))
                coq_expect.append(("tri", got, rep, q))
        if bad:
            found = True
            run.violation("sparse heightmap over %d points: %s" % (len(pts), bad), rep)
            continue
        # sample_path
        tol = 0.378
        for _ in range(5):
            k = run.rng.random()
            if k < 0.3:
                tol = run.rng.choice([0.378, 0.8, 2.0, 5.0, 0.1])
                hm.set_tolerance(tol)
                continue
            if k < 0.5:
                scale = run.rng.choice([1.0, 4.0, 0.5])
                hm.set_scale(scale)
                continue
            line = tuple(round(run.rng.uniform(-25, 65), 2) for _ in range(4))
            if run.rng.random() < 0.1:
                line = (line[0], line[1], line[0], line[1])
            out = [tuple(float(v) for v in p) for p in hm.sample_path(line)]
            stats["paths"] += 1
            x1, y1, x2, y2 = line
            dist = float(np.hypot(x2 - x1, y2 - y1))
            nseg = max(int(dist / tol), 1)
            xs, ys = np.linspace(x1, x2, nseg + 1), np.linspace(y1, y2, nseg + 1)
            samples = [(float(x), float(y), hm.get_depth_at(float(x), float(y))) for x, y in zip(xs, ys)]
            prob = None
            if tuple(out[0][:2]) != (x1, y1) or tuple(out[-1][:2]) != (x2, y2):
                prob = "path runs from %r to %r, requested ends are %r" % (out[0][:2], out[-1][:2], line)
            tprev = -1.0
            for p in out:
                # on the segment, in order
                if dist > 0:
                    t = ((p[0] - x1) * (x2 - x1) + (p[1] - y1) * (y2 - y1)) / dist ** 2
                    off = abs((p[0] - x1) * (y2 - y1) - (p[1] - y1) * (x2 - x1)) / dist
                    if off > 1e-9 * max(1.0, dist) or t < tprev - 1e-12 or t < -1e-12 or t > 1 + 1e-12:
                        prob = "point %r is not on the segment in order (offset %.3g, parameter %.9g after %.9g)" % (p, off, t, tprev)
                    tprev = t
                zz = hm.get_depth_at(p[0], p[1])
                if abs(zz - p[2]) > 1e-12 * max(1.0, abs(zz)):
                    prob = "point %r carries height %.9g but the map's height there is %.9g" % (p, p[2], zz)
            if not prob:
                prob = check_filter_rule(samples, out, tol, "drop rule")
            if prob:
                found = True
                run.violation("sparse sample_path(%r), tolerance %r, scale %r: %s" % (line, tol, scale, prob), dict(rep, line=list(line), tolerance=tol))
                break
            # model: linspace (exact) against numpy's, and the filter over the implementation's own heights
            coq_lines.append(FLAT % (gq(tol), g_list([g_pt(p) for p in samples])))
            coq_expect.append(("filter", out, rep, line, samples, tol))
            i = run.rng.randrange(nseg + 1)
            coq_lines.append("Eval vm_compute in (let r := linspace %d %s %s %d in (Qnum (Qred r), Zpos (Qden (Qred r))))." % (nseg, gq(x1), gq(x2), i))
            coq_expect.append(("linspace", float(xs[i]), rep, (nseg, x1, x2, i)))
    return coq_lines, coq_expect, found


def main():
    run = Run(PID)
    st = standard_proof_phase(run, PID)
    stats = dict(images={}, point_sets=0, paths=0, line_cases=0, round_cases=0)
    l1, e1, f1 = raster_phase(run, stats)
    l2, e2, f2 = sparse_phase(run, stats)
    found = f1 or f2
    # flat map
    from gscrib.heightmaps import FlatHeightMap
    fm = FlatHeightMap()
    out = fm.sample_path([1.5, 2.5, -3.0, 4.0]).tolist()
    if fm.get_depth_at(3, 4) != 0.0 or out != [[1.5, 2.5, 0.0], [-3.0, 4.0, 0.0]]:
        found = True
        run.violation("flat heightmap: depth %r, path %r" % (fm.get_depth_at(3, 4), out), dict(kind="flat"))
    # ---- correspondence of skimage.draw.line / round() with draw_line / py_round ---------------
    from skimage import draw
    l3, e3 = [], []
    nl = 1500 if run.thorough else 300
    for i in range(nl):
        span = run.rng.choice([3, 8, 40, 200])
        a = [run.rng.randint(-span, span) for _ in range(4)]
        if i % 7 == 0:
            a[2] = a[0]
        if i % 11 == 0:
            a[3] = a[1] + (a[2] - a[0])        # exact diagonal
        if i % 13 == 0:
            a[3] = a[1] + 2 * (a[2] - a[0])    # ties on the half pixel
        rr, cc = draw.line(*a)
        l3.append("Eval vm_compute in draw_line %s %s %s %s." % tuple(g_Z(x) for x in a))
        e3.append(("skline", list(zip(rr.tolist(), cc.tolist())), a))
        stats["line_cases"] += 1
    for i in range(200):
        q = Fraction(run.rng.randint(-4000, 4000), run.rng.choice([1, 2, 4, 3, 10, 8]))
        l3.append("Eval vm_compute in py_round %s." % g_Q(q))
        e3.append(("round", round(q), q))
        stats["round_cases"] += 1
    lines = l1 + l2 + l3
    expect = e1 + e2 + e3
    files = []
    per = 150
    for i in range(0, len(lines), per):
        files.append(("c_%d" % (i // per), "\n".join(lines[i:i + per]) + "\n"))
    outs = coq_eval_many(PID, files, IMPORTS, timeout=900)
    vals = []
    ok = True
    for rc, out in outs:
        if rc != 0:
            ok = False
            run.log("model evaluation failed:\n" + out[-1500:])
            break
        vals += [parse_term(v) for v in parse_evals(out)]
    mism = []
    if ok and len(vals) != len(expect):
        ok = False
        run.log("model evaluation returned %d values for %d cases" % (len(vals), len(expect)))
    if ok:
        for v, e in zip(vals, expect):
            k = e[0]
            if k == "skline":
                got = [tuple(p) for p in v]
                if got != e[1]:
                    mism.append(("skimage.draw.line%r = %r, model draw_line gives %r" % (tuple(e[2]), e[1][:12], got[:12]), dict(line=e[2])))
            elif k == "round":
                if v != e[1]:
                    mism.append(("round(%s) = %r, model py_round gives %r" % (e[2], e[1], v), dict(q=str(e[2]))))
            elif k in ("depth", "tri", "linspace"):
                mv = Fraction(v[0], v[1])
                if abs(float(mv) - e[1]) > 1e-9 * max(1.0, abs(e[1])):
                    mism.append(("%s: implementation %r, model %r at %r" % ({"depth": "raster get_depth_at", "tri": "sparse get_depth_at", "linspace": "numpy.linspace"}[k], e[1], float(mv), e[3]), dict(e[2], query=list(e[3]))))
            elif k == "filter":
                _, out, rep, line, samples, tol = e
                got = [tuple(Fraction(x) for x in p) for p in out]
                mod = [(Fraction(v[i], v[i + 1]), Fraction(v[i + 2], v[i + 3]), Fraction(v[i + 4], v[i + 5])) for i in range(0, len(v), 6)]
                if got != mod:
                    mism.append(("sample_path%r (tolerance %r): implementation keeps %d points, model filter_points keeps %d" % (tuple(line), tol, len(got), len(mod)), dict(rep, line=list(line), tolerance=tol)))
    if (not ok) and not found:
        run.violation("the model HeightMap.v could not be evaluated against the implementation (see log)",
                      dict(correspondence="C19 correspondence (harness/c19.py)"), no_input=True)
    elif mism and not found:
        what, rep = mism[0]
        run.violation("correspondence broken on %d of %d cases (first: %s); the oracle found no input on which the property fails" % (len(mism), len(expect), what),
                      dict(correspondence="model/HeightMap.v vs gscrib.heightmaps / skimage.draw.line / round", first=rep,
                           theorems=["C19_raster_line", "C19_filter", "C19_drop_rule", "C19_sparse_range"]), no_input=True)
    proof_broken_violation(run, st, found)
    run.cov["rule"] = ("raster maps: random 8-bit / 16-bit / dark 16-bit (all values <= 255) / flat images 4x4..14x14, scales 0.03..100: every pixel "
                       "centre equals scale x stored height (x = column, y = row; 1e-6 relative: heights are stored as float32), zero outside; "
                       "sample_path over sequences of set_scale / set_tolerance / repeated lines (incl. half-integer ends, single pixels, lines "
                       "leaving the image): ends, pixels on the line in order (own rasterisation, half-pixel), own height under the CURRENT scale. "
                       "Sparse maps: 4-14 random or gridded non-collinear points: stored height at data points, [min, max] inside the hull "
                       "(own hull), 0 outside; sample_path ends / on-segment / order / own height / drop rule. Correspondence in Coq: "
                       "draw_line == skimage.draw.line and py_round == round exactly; raster_depth, sparse_depth (on scipy's simplices), "
                       "linspace within 1e-9; filter_points == sample_path output exactly on the implementation's own heights.")
    extra = dict(input_distribution=stats, correspondence_cases=len(expect), correspondence_mismatches=len(mism),
                 modelled_not_verified=["scipy RectBivariateSpline reproduces the grid (hypothesis of C19_raster_pixel_centre; checked by the oracle at every pixel)",
                                        "scipy Delaunay/LinearNDInterpolator (the triangulation is an input of the model; checked by the oracle)",
                                        "float32 storage of normalised heights; OpenCV PNG encoding/decoding (from_path is exercised on a third of the images)"])
    run.finish(proof=st, extra=extra)


if __name__ == "__main__":
    main()
