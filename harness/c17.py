"""C17 — socket input is split into lines independently of packet boundaries."""
import json
import os
import sys

sys.path.insert(0, os.path.dirname(os.path.abspath(__file__)))
from common import *  # noqa

PID = "C17"
IMPORTS = "From GS Require Import model.LineBuf."


# ---------------------------------------------------------------------------------------
# implementation runner: a real Device driven through connect()/readline() with fakes of
# the EXTERNAL socket / selectors modules only
# ---------------------------------------------------------------------------------------

class FakeSocketFile:
    def __init__(self, script):
        self.script = list(script)

    def read(self, n):
        assert n == 256 or n > 0
        if not self.script:
            return b""
        kind, data = self.script.pop(0)
        if kind == "chunk":
            assert len(data) <= n
            return data
        if kind == "again":
            return None
        return b""  # eof

    def write(self, b):
        return len(b)

    def flush(self):
        pass

    def close(self):
        pass


class FakeSocket:
    def __init__(self, script):
        self._file = FakeSocketFile(script)

    def connect(self, addr):
        pass

    def settimeout(self, t):
        pass

    def setsockopt(self, *a):
        pass

    def __getattr__(self, name):  # any other socket option call is irrelevant to line splitting
        return lambda *a, **k: None

    def makefile(self, *a, **k):
        return self._file

    def close(self):
        pass


class FakeSelector:
    def __init__(self, selects):
        self.selects = list(selects)

    def register(self, *a):
        pass

    def unregister(self, *a):
        pass

    def close(self):
        pass

    def select(self, timeout=None):
        if not self.selects:
            return []
        return [object()] if self.selects.pop(0) else []


def run_impl(reads, selects, max_calls, poll=False):
    """reads: list of ('chunk', bytes) | ('again', None) | ('eof', None). Returns list of results:
    bytes for lines / b'' for READ_EMPTY / None for READ_EOF, stopping after the first READ_EOF."""
    from gscrib.printrun import device as devmod
    fake_sock = FakeSocket(reads)
    fake_sel = FakeSelector(selects)
    real_socket, real_selector = devmod.socket.socket, devmod.selectors.DefaultSelector
    devmod.socket.socket = lambda *a, **k: fake_sock
    devmod.selectors.DefaultSelector = lambda: fake_sel
    try:
        d = devmod.Device("127.0.0.1:9")
        d.connect()
        out = []
        for _ in range(max_calls):
            if poll and not d.is_connected:      # the way printcore reads: _listen_can_continue() before every readline()
                break
            r = d.readline()
            out.append(r)
            if r is None:
                break
        return out
    finally:
        devmod.socket.socket, devmod.selectors.DefaultSelector = real_socket, real_selector


# ---------------------------------------------------------------------------------------
# generators
# ---------------------------------------------------------------------------------------

def gen_stream(rng, thorough):
    n = rng.choice([0, 1, 2, 5, 20, 60, 200] + ([1000, 3000] if thorough else []))
    mode = rng.randrange(4)
    bs = bytearray()
    for _ in range(n):
        if mode == 0:
            b = rng.choice([10, 10, 13, 32, 71, 49, 255, 0])
        elif mode == 1:
            b = 10 if rng.random() < 0.15 else rng.randrange(256)
        elif mode == 2:
            b = 10 if rng.random() < 0.02 else rng.choice(b"ok T:210.5 /210 XYZ\r")
        else:
            b = 10 if rng.random() < 0.5 else rng.randrange(256)
        bs.append(b)
    if rng.random() < 0.3 and bs:
        bs[-1] = 10
    return bytes(bs)


def gen_case(rng, thorough):
    data = gen_stream(rng, thorough)
    reads = []
    i = 0
    style = rng.randrange(4)
    while i < len(data):
        if style == 0:
            k = 1
        elif style == 1:
            k = rng.randint(1, 256)
        elif style == 2:
            k = rng.choice([1, 2, 3, 255, 256])
        else:
            # cut right after / right before newlines
            j = data.find(b"\n", i)
            k = (j - i + 1) if j >= 0 and rng.random() < 0.5 else rng.randint(1, 8)
            if rng.random() < 0.3 and k > 1:
                k -= 1
        k = max(1, min(k, 256))
        reads.append(("chunk", data[i:i + k]))
        i += k
        while rng.random() < 0.25:
            reads.append(("again", None))
    while rng.random() < 0.2:
        reads.append(("again", None))
    if rng.random() < 0.1:
        reads.append(("eof", None))
    nsel = sum(1 for r in reads if r[0] == "again")
    selects = [rng.random() < 0.5 for _ in range(rng.randint(0, nsel + 1))]
    return dict(reads=reads, selects=selects)


def g_case(c):
    rs = []
    for kind, data in c["reads"]:
        if kind == "chunk":
            rs.append("Chunk " + g_bytes(data))
        elif kind == "again":
            rs.append("Again")
        else:
            rs.append("Eof")
    return "{| reads := %s; selects := %s |}" % (g_list(rs), g_list([g_bool(b) for b in c["selects"]]))


def model_results(term):
    """parsed Coq value (list res) -> python list in the impl's convention"""
    out = []
    for r in term:
        if r == "REmpty":
            out.append(b"")
        elif r == "REof":
            out.append(None)
        elif r == "RFuel":
            out.append("FUEL")
        else:
            assert r[0] == "RLine", r
            out.append(bytes(r[1]))
    return out


def oracle(case, results):
    """Independent statement of the property on the implementation's observable behaviour."""
    data = b"".join(d for k, d in case["reads"] if k == "chunk")
    problems = []
    lines = [r for r in results if r]
    if results and results[-1] is None:
        # stream fully consumed up to the first end-of-stream
        upto = []
        for k, d in case["reads"]:
            if k == "eof":
                break
            if k == "chunk":
                upto.append(d)
        delivered = b"".join(upto)
        # data after an explicit eof may or may not have been consumed; conservation on the prefix
        got = b"".join(lines)
        if not (got == delivered or (got.startswith(delivered) and data.startswith(got))):
            problems.append("bytes lost, duplicated or reordered: got %r expected %r" % (got[:80], delivered[:80]))
        expected = [l for l in delivered.splitlines(keepends=True)] if False else None
        # cut after each newline (only b'\n' is a line break)
        exp = []
        cur = b""
        for b in got:
            cur += bytes([b])
            if b == 10:
                exp.append(cur)
                cur = b""
        if cur:
            exp.append(cur)
        if not any(k == "eof" for k, _ in case["reads"]) and lines != exp:
            problems.append("lines are not the stream cut after each newline: %r vs %r" % (lines[:6], exp[:6]))
    else:
        got = b"".join(lines)
        if not data.startswith(got):
            problems.append("returned bytes are not a prefix of the stream")
    for l in lines[:-1]:
        if not l.endswith(b"\n") or l.count(b"\n") != 1:
            problems.append("a non-final result is not exactly one line: %r" % l[:60])
    return problems


def main():
    run = Run(PID)
    st = standard_proof_phase(run, PID)
    if run.replay:
        doc = json.load(open(run.replay))
        cases = [dict(reads=[(k, bytes(d) if d is not None else None) for k, d in doc["case"]["reads"]],
                      selects=doc["case"]["selects"])]
    else:
        n = 3000 if run.thorough else 400
        cases = [gen_case(run.rng, run.thorough) for _ in range(n)]
        # fixed corpus first
        corpus = [
            dict(reads=[("chunk", b"G1"), ("again", None), ("chunk", b" "), ("chunk", b"X\nG2\nM"), ("chunk", b"5")], selects=[False]),
            dict(reads=[("chunk", b"ok\n")], selects=[]),
            dict(reads=[("chunk", b"a"), ("chunk", b"b"), ("chunk", b"c")], selects=[]),
            dict(reads=[("chunk", b"x\ry\n")], selects=[]),
            dict(reads=[("again", None), ("chunk", b"\n\n\n")], selects=[True]),
            dict(reads=[("chunk", b"G1 X1"), ("again", None), ("again", None), ("again", None), ("again", None), ("again", None), ("again", None),
                        ("chunk", b"0 Y2\nok\n")], selects=[False, False, False, False, False, False]),
            dict(reads=[("chunk", b"ok\nErr"), ("chunk", b"or: "), ("chunk", b"halted")], selects=[]),
            # long lines arriving in very many very small packets (no cap on the number of pending chunks)
            dict(reads=[("chunk", bytes([b])) for b in (b"X:" + b"1234567890" * 12 + b" ok\nT:1\n")], selects=[]),
            dict(reads=[r for i in range(0, 300, 2) for r in (("chunk", (b"ab" * 150 + b"\n")[i:i + 2]), ("again", None))][:-1]
                       + [("chunk", b"\nok\n")], selects=[True, False] * 80),
            dict(reads=[("chunk", bytes([65 + i % 26])) for i in range(700)] + [("chunk", b"\n")], selects=[]),
        ]
        cases = corpus + cases
    impl = []
    for ci, c in enumerate(cases):
        maxc = 2 * len(c["reads"]) + sum(d.count(b"\n") for k, d in c["reads"] if k == "chunk") + 4
        try:
            # every other case reads the way printcore does: is_connected is polled before each readline()
            impl.append(run_impl(c["reads"], c["selects"], maxc, poll=(ci % 2 == 1)))
        except Exception as e:  # an exception is itself a behaviour
            impl.append(["EXC", type(e).__name__, str(e)[:100]])
    # model, evaluated inside Coq
    files = []
    per = 250
    for i in range(0, len(cases), per):
        body = "Definition cases := %s.\n" % g_list([g_case(c) for c in cases[i:i + per]])
        ks = [len(r) for r in impl[i:i + per]]
        body += "Definition ks := %s.\n" % g_list([g_nat(k) for k in ks])
        body += "Eval vm_compute in (map (fun '(k, e) => fst (fst (session k [] e))) (combine ks cases)).\n"
        files.append(("cases_%d" % (i // per), body))
    model = []
    model_ok = True
    for (rc, out) in coq_eval_many(PID, files, IMPORTS):
        vals = parse_evals(out)
        if rc != 0 or len(vals) != 1:
            model_ok = False
            run.log("model evaluation failed:\n" + out[-1500:])
            break
        model.extend(model_results(r) for r in parse_term(vals[0]))
    found_input = False
    dist = dict(lines=0, timeouts=0, eof_tail=0, sizes={})
    for idx, c in enumerate(cases):
        res = impl[idx]
        nontrivial = len(c["reads"]) >= 3 and any(r for r in res if r and r != "EXC")
        run.count((c["reads"], c["selects"]), nontrivial)
        dist["lines"] += sum(1 for r in res if r and r != "EXC")
        dist["timeouts"] += sum(1 for r in res if r == b"")
        if len(res) >= 2 and res[-1] is None and res[-2] and not res[-2].endswith(b"\n"):
            dist["eof_tail"] += 1
        b = min(len(c["reads"]) // 10, 9)
        dist["sizes"][str(b * 10)] = dist["sizes"].get(str(b * 10), 0) + 1
        case_json = dict(reads=[(k, list(d) if d is not None else None) for k, d in c["reads"]], selects=c["selects"])
        if res and res[0] == "EXC":
            problems = ["readline raised %s: %s" % (res[1], res[2])]
        else:
            problems = oracle(c, res)
        if problems:
            found_input = True
            run.violation("; ".join(problems)[:500],
                          dict(case=case_json, observed=[(list(r) if isinstance(r, bytes) else r) for r in res]))
            continue
        if model_ok and idx < len(model) and model[idx] != res:
            # correspondence break without an oracle failure on this case: search around it
            run.violation("model and implementation disagree on a case on which the oracle sees no failure "
                          "(correspondence relation: session k [] env = list of Device.readline() results)",
                          dict(case=case_json, model=[(list(r) if isinstance(r, bytes) else r) for r in model[idx]],
                               observed=[(list(r) if isinstance(r, bytes) else r) for r in res],
                               theorem="C17_conservation / C17_lines_are_cut (coq/props/C17.v) via model/LineBuf.v"),
                          no_input=True)
        if idx in (0, 5, 7, 20):
            run.sample(dict(reads=[(k, d.decode("latin-1") if d else None) for k, d in c["reads"]][:12],
                            selects=c["selects"][:8],
                            results=[(r.decode("latin-1") if isinstance(r, bytes) else r) for r in res][:8]))
    if not model_ok:
        run.violation("the model could not be evaluated (model/LineBuf.v does not compile or the case file failed)",
                      dict(theorem="correspondence C17"), no_input=not found_input)
    proof_broken_violation(run, st, found_input)
    run.cov["rule"] = ("random byte streams (4 alphabets, 0..3000 bytes) x 4 fragmentation styles (1-byte, random 1..256, "
                       "boundary sizes, cuts at/next to newlines) x random 'no data yet' results and selector "
                       "timeouts, optional explicit EOF; corpus of 10 fixed cases first (incl. long lines in 1-2 byte packets). non-trivial = >=3 script "
                       "entries and at least one non-empty result; distinct = distinct (reads, selects) scripts")
    run.finish(proof=st, extra=dict(
        input_distribution=dict(dist, histogram_key="number of script entries (bucket of 10)"),
        traces_validated_against_impl=len(model) if model_ok else 0,
        explanation="theorems over all streams/fragmentations/timeouts in coq/props/C17.v; correspondence of "
                    "model/LineBuf.v with Device.readline() on generated scripts; independent oracle on every case"))


if __name__ == "__main__":
    main()
