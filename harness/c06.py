"""C06 — the tool and coolant can always be switched off."""
import os, re, sys
sys.path.insert(0, os.path.dirname(os.path.abspath(__file__)))
from builder_check import *  # noqa

PID = "C06"
SHUT = ("tool_off", "power_off", "coolant_off", "emergency")


def _carries(raw, message):
    """the comment line shows the message: its pieces between line breaks (which a comment cannot contain), in order"""
    at = 0
    for part in re.split(r"[\r\n]+", message):
        at = raw.find(part, at)
        if at < 0:
            return False
        at += len(part)
    return True


def oracle(dp, cmds, steps, upto):
    fails = []
    for i, (c, s) in enumerate(zip(cmds, steps)):
        if c[0] not in SHUT:
            continue
        toks = [O.tokenize(r) for r in s["raw"]]
        codes = [[(k, v) for k, v in t if k in ("M",)] for t in toks if t is not None]
        sn = s["snap"]
        what = None
        if s["exc"] is not None:
            what = "%s raised %s" % (c[0], s["exc"])
        elif c[0] in ("tool_off", "power_off"):
            if codes != [[("M", 5)]] or sn["tool_on"]:
                what = "%s emitted %r, tool_active=%s" % (c[0], s["raw"], sn["tool_on"])
        elif c[0] == "coolant_off":
            if codes != [[("M", 9)]] or sn["cool_on"]:
                what = "coolant_off emitted %r, coolant_active=%s" % (s["raw"], sn["cool_on"])
        else:
            last = ("M", 30) if c[2] else ("M", 0)
            ok = (len(toks) == 4 and None not in toks and codes[0] == [("M", 5)] and codes[1] == [("M", 9)]
                  and toks[2] == [] and codes[3] == [last] and _carries(s["raw"][2], c[1])
                  and not sn["tool_on"] and not sn["cool_on"])
            if not ok:
                what = "emergency_halt emitted %r, tool=%s coolant=%s" % (s["raw"], sn["tool_on"], sn["cool_on"])
        if what:
            fails.append((i, what + " (after %d earlier calls)" % i, "shutdown-failed"))
    return fails


def gen_cases(run):
    n = 2500 if run.thorough else 300
    cases = []
    for i in range(n):
        r = run.rng
        g = Gen(r, W_INTERLOCK, malformed=0.08, bounds=(i % 3 != 0))
        cs = []
        if i % 3 != 0 and r.random() < 0.7:
            # tool-power ranges that exclude zero
            a = r.choice([Fraction(1), Fraction(100), Fraction(1, 2)])
            cs.append(("set_bounds", "tool-power", a, a + r.choice([Fraction(900), Fraction(1)])))
            g.bounds["tool-power"] = (cs[0][2], cs[0][3])
        cs += g.history(r.randint(3, 30))
        out = []
        for c in cs:
            out.append(c)
            if r.random() < 0.25:
                k = r.choice(SHUT)
                out.append((k,) if k != "emergency" else ("emergency", r.choice(EMERGENCY_MESSAGES), r.random() < 0.5))
        out.append(("emergency", r.choice(["end", "", "the\nend"]), r.random() < 0.5))
        cases.append((r.choice([0, 2, 5]), out))
    return cases


CORPUS = [
    (5, [("set_bounds", "tool-power", Fraction(100), Fraction(1000)), ("tool_on", "clockwise", Fraction(500)), ("tool_off",)]),
    (5, [("set_bounds", "tool-power", Fraction(100), Fraction(1000)), ("power_on", "constant", Fraction(500)), ("power_off",)]),
    (5, [("set_bounds", "tool-power", Fraction(100), Fraction(1000)), ("power_on", "dynamic", Fraction(100)),
         ("coolant_on", "mist"), ("emergency", "x", True)]),
    (5, [("power_on", "constant", Fraction(5)), ("tool_off",), ("tool_on", "clockwise", Fraction(5)), ("power_off",), ("pause", False)]),
]

if __name__ == "__main__":
    run_builder_check(PID, gen_cases, oracle, fields=None, truncate_at_leak=False, corpus=CORPUS,
                      rule="reachable states from random histories (either tool API, any power, coolant modes, halts, "
                           "temperatures, units) x bounds configurations incl. tool-power ranges excluding zero, with "
                           "tool_off/power_off/coolant_off/emergency_halt injected after 25% of the calls and at the end.",
                      theorem_names="C06_off (coq/props/C06.v)")
