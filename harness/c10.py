"""C10 — interpolated paths follow the requested curve and end on target."""
import math
import os
import sys
from fractions import Fraction

sys.path.insert(0, os.path.dirname(os.path.abspath(__file__)))
from common import *  # noqa

PID = "C10"
IMPORTS = ("From Coq Require Import Reals Lra.\nFrom Interval Require Import Tactic.\n"
           "From GS Require Import model.TracerR proofs.TracerRProofs.\nOpen Scope R_scope.\n")
TWO_PI = 2 * math.pi


def loguniform(rng, lo, hi):
    return math.exp(rng.uniform(math.log(lo), math.log(hi)))


def new_builder(res, relative):
    from gscrib import GCodeBuilder
    from builder_lib import Recorder
    rec = Recorder()
    g = GCodeBuilder(decimal_places=5, line_endings="\n")
    g.add_writer(rec.writer)
    segs = []

    def hook(origin, target, params, state):
        segs.append(((origin.x, origin.y, origin.z), (target.x, target.y, target.z)))
        return params
    g.add_hook(hook)
    g.set_resolution(res)
    return g, segs


# ---------------------------------------------------------------------------------------
# requests
# ---------------------------------------------------------------------------------------

ALIGNED_P = float(os.environ.get("VERIF_C10_ALIGNED", "0.15"))


def gen_request(rng, thorough):
    kind = rng.choice(["arc", "arc", "arc_helical", "arc_radius", "arc_radius", "circle", "helix", "helix", "helix_const",
                       "spiral", "thread", "spline", "polyline"])
    start = (round(rng.uniform(-60, 60), 3), round(rng.uniform(-60, 60), 3), round(rng.uniform(-5, 5), 3))
    if rng.random() < 0.1:
        start = (0.0, 0.0, 0.0)
    ccw = rng.random() < 0.5
    s = dict(kind=kind, start=start, ccw=ccw, relative=rng.random() < 0.4)
    R = loguniform(rng, 0.3, 1000.0)
    a0 = rng.uniform(-math.pi, math.pi)
    axis = rng.random() < 0.15                                       # start on an axis of the centre (exact centre)
    sweep = rng.uniform(0.05, TWO_PI - 0.05)
    if kind in ("arc", "arc_helical", "circle", "helix", "helix_const"):
        centre = (-R * math.cos(a0), -R * math.sin(a0))                # relative to the start, as the API takes it
        if axis:
            Rr = round(R, 2)
            centre = rng.choice([(-Rr, 0.0), (Rr, 0.0), (0.0, Rr), (0.0, -Rr)])
        elif rng.random() < 0.15:
            centre = (float(round(centre[0])) or 1.0, float(round(centre[1])))
        s["centre"] = centre
        cx, cy = start[0] + centre[0], start[1] + centre[1]
        R = math.hypot(start[0] - cx, start[1] - cy)
        a0 = math.atan2(start[1] - cy, start[0] - cx)
        a1 = a0 + (sweep if ccw else -sweep)
        aligned = kind in ("helix", "helix_const") and rng.random() < ALIGNED_P
        if kind == "circle":
            s["target"] = None
            s["sweep"] = TWO_PI
        elif aligned:
            # the target at exactly the start's angle about the centre: straight above / below the start (the docstring's own
            # example) or further out on the same axis-parallel ray -- the residual angle is 0 and counts as a full turn
            s["turns"] = rng.randint(1, 3)
            z = start[2] + rng.choice([-1, 1]) * rng.uniform(0.5, 20)
            if axis and kind == "helix":
                k1 = loguniform(rng, 1.2, 3.0)
                s["target"] = (start[0] - centre[0] * (k1 - 1), start[1] - centre[1] * (k1 - 1), z)
            else:
                s["target"] = (start[0], start[1], z)
            s["has_z"] = True
        elif kind == "helix":
            R1 = R * loguniform(rng, 0.2, 3.0)
            s["turns"] = rng.randint(1, 4)
            z = start[2] + (rng.uniform(-20, 20) if rng.random() < 0.6 else 0.0)
            s["target"] = (cx + R1 * math.cos(a1), cy + R1 * math.sin(a1), z)
            s["has_z"] = rng.random() < 0.8
        else:
            z = start[2] + (rng.uniform(-3, 3) * R if kind in ("arc_helical", "helix_const") else 0.0)
            if kind in ("arc_helical", "helix_const") and rng.random() < 0.15:
                z = 0.0                      # a 3-D target on the Z = 0 plane, exactly
            s["target"] = (cx + R * math.cos(a1), cy + R * math.sin(a1), z)
            s["has_z"] = kind in ("arc_helical", "helix_const")
            if kind == "helix_const":
                s["turns"] = rng.randint(1, 3)
        size = R
    elif kind == "arc_radius":
        d = loguniform(rng, 0.3, 500.0)
        ang = rng.uniform(-math.pi, math.pi)
        s["target"] = (start[0] + d * math.cos(ang), start[1] + d * math.sin(ang), start[2] + (rng.uniform(-2, 2) if rng.random() < 0.3 else 0.0))
        s["has_z"] = s["target"][2] != start[2]
        dist = math.hypot(s["target"][0] - start[0], s["target"][1] - start[1])
        s["radius"] = rng.choice([1, -1]) * dist / 2 * loguniform(rng, 1.02, 8.0)
        if rng.random() < 0.08:
            s["radius"] = rng.choice([1, -1]) * (dist / 2 - 0.005)   # snapped to a half circle by the implementation
        size = abs(s["radius"])
    elif kind == "spiral":
        d = loguniform(rng, 1.0, 200.0)
        ang = rng.uniform(-math.pi, math.pi)
        s["target"] = (start[0] + d * math.cos(ang), start[1] + d * math.sin(ang), start[2] + (rng.uniform(0, 10) if rng.random() < 0.5 else 0.0))
        if rng.random() < ALIGNED_P:
            s["target"] = (start[0] + round(d, 2), start[1], s["target"][2])     # on the +X ray from the start: residual angle 0
        s["has_z"] = rng.random() < 0.7
        s["turns"] = rng.randint(1, 4)
        size = d
    elif kind == "thread":
        d = loguniform(rng, 1.0, 100.0)
        ang = rng.uniform(-math.pi, math.pi)
        dz = rng.choice([-1, 1]) * loguniform(rng, 0.5, 30.0)
        s["target"] = (start[0] + d * math.cos(ang), start[1] + d * math.sin(ang), start[2] + dz)
        s["pitch"] = loguniform(rng, 0.3, 12.0)
        size = d / 2
    elif kind in ("spline", "polyline"):
        npts = rng.randint(1, 6)
        pts = []
        cur = list(start)
        step = loguniform(rng, 2.0, 60.0)
        for _ in range(npts):
            cur = [cur[0] + rng.uniform(-step, step), cur[1] + rng.uniform(-step, step), cur[2] + rng.uniform(-step, step) * 0.2]
            pts.append(tuple(round(v, 4) for v in cur))
            if rng.random() < 0.1:
                pts.append(pts[-1])          # a repeated control point
        if rng.random() < 0.3 and len(pts) >= 2:
            # revisit an earlier point (closed loop back to the start, figure eight, out-and-back)
            pts.append(rng.choice([tuple(round(v, 4) for v in start), pts[0], pts[rng.randrange(len(pts) - 1)]]))
        if rng.random() < 0.15:
            pts.append((0.0, 0.0, 0.0))      # a vertex on the work origin
        if kind == "polyline" and rng.random() < 0.3:
            # collinear runs, exactly: way-points on one straight stroke, and a stroke out and back along itself -- every
            # given point is a vertex of the path, whether or not it changes the direction
            d = (float(rng.randint(-6, 6) or 2), float(rng.randint(-6, 6)), 0.0)
            b = tuple(float(round(v)) for v in start)
            stroke = [tuple(b[i] + k * d[i] for i in range(3)) for k in rng.choice([(1, 2, 3), (3, 1), (2, 4, 1), (1, 2, 1, 0)])]
            pts = stroke + pts if rng.random() < 0.5 else pts + stroke
        s["points"] = pts
        s["dim"] = rng.choice([2, 3])
        size = step
    s["size"] = size
    s["res"] = size / loguniform(rng, 0.8, 400.0 if thorough else 120.0)
    return s


def run_request(s):
    g, segs = new_builder(s["res"], s["relative"])
    st = s["start"]
    g.rapid(x=st[0], y=st[1], z=st[2])
    if s["relative"]:
        g.set_distance_mode("relative")
    g.set_direction("ccw" if s["ccw"] else "cw")
    del segs[:]
    pos = [st[0], st[1], st[2]]

    def T(t, dim=3):
        out = tuple((t[i] - pos[i]) if s["relative"] else t[i] for i in range(dim))
        return out
    k = s["kind"]
    if k == "arc":
        g.trace.arc(T(s["target"], 2), s["centre"])
    elif k == "arc_helical":
        g.trace.arc(T(s["target"], 3), s["centre"])
    elif k == "arc_radius":
        g.trace.arc_radius(T(s["target"], 3 if s["has_z"] else 2), s["radius"])
    elif k == "circle":
        g.trace.circle(s["centre"])
    elif k in ("helix", "helix_const"):
        g.trace.helix(T(s["target"], 3 if s["has_z"] else 2), s["centre"], s["turns"])
    elif k == "spiral":
        g.trace.spiral(T(s["target"], 3 if s["has_z"] else 2), s["turns"])
    elif k == "thread":
        g.trace.thread(T(s["target"], 3), s["pitch"])
    elif k in ("spline", "polyline"):
        pts = []
        for p in s["points"]:
            pts.append(T(p, s["dim"]))
            for i in range(s["dim"]):
                pos[i] = p[i]
        getattr(g.trace, k)(pts)
    return list(segs)


# ---------------------------------------------------------------------------------------
# oracle: independent float geometry
# ---------------------------------------------------------------------------------------

def expected_geometry(s):
    """centre, start/end radius, start angle, signed total angle, height for the closed-form kinds."""
    st = s["start"]
    k = s["kind"]
    sgn = 1.0 if s["ccw"] else -1.0
    if k == "circle":
        tg = st
    else:
        tg = s["target"]
        if not s.get("has_z", True) and k != "thread":
            tg = (tg[0], tg[1], st[2])
    if k in ("arc", "arc_helical", "circle", "helix", "helix_const"):
        c = (st[0] + s["centre"][0], st[1] + s["centre"][1])
    elif k == "spiral":
        c = (st[0], st[1])
    elif k == "thread":
        c = ((st[0] + tg[0]) / 2, (st[1] + tg[1]) / 2)
    elif k == "arc_radius":
        # the centre on the perpendicular bisector; which of the two: the one giving the minor arc in the
        # selected direction for a positive radius, the major one for a negative radius
        dx, dy = tg[0] - st[0], tg[1] - st[1]
        d = math.hypot(dx, dy)
        r = max(abs(s["radius"]), d / 2)
        hh = math.sqrt(max(r * r - d * d / 4, 0.0))
        mx, my = (st[0] + tg[0]) / 2, (st[1] + tg[1]) / 2
        cands = [(mx + hh * dy / d, my - hh * dx / d), (mx - hh * dy / d, my + hh * dx / d)]
        best = None
        for cc in cands:
            sw = ((math.atan2(tg[1] - cc[1], tg[0] - cc[0]) - math.atan2(st[1] - cc[1], st[0] - cc[0])) * sgn) % TWO_PI
            minor = sw <= math.pi + 1e-9
            if minor == (s["radius"] > 0):
                best = cc
        c = best if best is not None else cands[0]
    r0 = math.hypot(st[0] - c[0], st[1] - c[1])
    r1 = math.hypot(tg[0] - c[0], tg[1] - c[1])
    a0 = math.atan2(st[1] - c[1], st[0] - c[0]) if r0 > 0 else 0.0
    a1 = math.atan2(tg[1] - c[1], tg[0] - c[0]) if r1 > 0 else 0.0
    base = ((a1 - a0) * sgn) % TWO_PI
    if base < 1e-12 or TWO_PI - base < 1e-12:
        base = TWO_PI
    turns = 1
    if k in ("helix", "helix_const", "spiral"):
        turns = s["turns"]
    elif k == "thread":
        turns = max(1, int(abs(tg[2] - st[2]) / s["pitch"]))
    total = sgn * (base + TWO_PI * (turns - 1))
    return dict(c=c, r0=r0, r1=r1, a0=a0, total=total, h=tg[2] - st[2], target=tg, turns=turns)


def thetas_for(s, geo, segs):
    """parameter of every emitted vertex on the expected curve, or a problem string"""
    c, r0, r1, a0, total = geo["c"], geo["r0"], geo["r1"], geo["a0"], geo["total"]
    sgn = 1.0 if total > 0 else -1.0
    out = []
    acc = 0.0
    prev_ang = a0
    varying = abs(r1 - r0) > 1e-3 * max(r0, r1)
    for i, (o, t) in enumerate(segs):
        rho = math.hypot(t[0] - c[0], t[1] - c[1])
        if varying:
            th = (rho - r0) / (r1 - r0)
        else:
            ang = math.atan2(t[1] - c[1], t[0] - c[0])
            d = ((ang - prev_ang) * sgn) % TWO_PI
            if d > TWO_PI - 1e-6:
                d -= TWO_PI
            acc += d
            prev_ang = ang
            th = acc / abs(total)
        out.append(th)
    return out


def check_closed_form(s, segs):
    geo = expected_geometry(s)
    st = s["start"]
    c, r0, r1, a0, total, h, tg = geo["c"], geo["r0"], geo["r1"], geo["a0"], geo["total"], geo["h"], geo["target"]
    scale = max(1.0, r0, r1, abs(c[0]), abs(c[1]), abs(st[2]), abs(h))
    tol = 2e-9 * scale
    if not segs:
        return "nothing was emitted", geo, []
    if max(abs(segs[0][0][i] - st[i]) for i in range(3)) > tol:
        return "the polyline starts at %r, the current position is %r" % (segs[0][0], st), geo, []
    for i in range(1, len(segs)):
        if max(abs(segs[i][0][j] - segs[i - 1][1][j]) for j in range(3)) > tol:
            return "segment %d does not start where segment %d ended" % (i, i - 1), geo, []
    last = segs[-1][1]
    if max(abs(last[i] - tg[i]) for i in range(3)) > max(tol, 2e-10 * max(r0, r1) * 1.01):
        return "the polyline ends at %r, the target is %r" % (last, tg), geo, []
    ths = thetas_for(s, geo, segs)
    prev = 0.0
    for i, ((o, t), th) in enumerate(zip(segs, ths)):
        if not (th > prev - 1e-12 and th <= 1 + 1e-9):
            return "vertex %d: the curve parameter goes from %.12g to %.12g (not monotone in the selected direction)" % (i + 1, prev, th), geo, ths
        prev = th
        rho = r0 + (r1 - r0) * th
        ang = a0 + total * th
        ex = (c[0] + rho * math.cos(ang), c[1] + rho * math.sin(ang), st[2] + th * h)
        dev = max(abs(t[j] - ex[j]) for j in range(3))
        if dev > tol * (1 + abs(total)):
            return ("vertex %d %r is %.3g away from the curve point %r at parameter %.9g (centre %r, radius %.9g -> %.9g, "
                    "sweep %.9g rad, height %.9g)" % (i + 1, t, dev, ex, th, c, r0, r1, total, h)), geo, ths
    if abs(ths[-1] - 1) > 1e-7:
        return "the vertices cover the parameter range up to %.9g only: sweep %.9g instead of %.9g rad" % (ths[-1], ths[-1] * total, total), geo, ths
    return None, geo, ths


def dist_point_segment(p, a, b):
    ab = [b[i] - a[i] for i in range(3)]
    ap = [p[i] - a[i] for i in range(3)]
    den = sum(v * v for v in ab)
    t = 0.0 if den == 0 else max(0.0, min(1.0, sum(ab[i] * ap[i] for i in range(3)) / den))
    return math.dist(p, [a[i] + t * ab[i] for i in range(3)])


def check_points(s, segs):
    st = s["start"]
    pts = [tuple(p[:s["dim"]]) + ((st[2],) if s["dim"] == 2 else ()) for p in s["points"]]
    # a 2-d control point keeps the z of the previous point
    absolute = []
    z = st[2]
    for p in s["points"]:
        if s["dim"] == 3:
            z = p[2]
        absolute.append((p[0], p[1], z))
    tol = 1e-9 * max(1.0, max(abs(v) for p in absolute for v in p))
    if s["kind"] == "polyline":
        got = [t for (_, t) in segs]
        if len(got) != len(absolute):
            return "%d vertices emitted for %d points" % (len(got), len(absolute))
        for i, (a, b) in enumerate(zip(got, absolute)):
            if max(abs(a[j] - b[j]) for j in range(3)) > tol:
                return "vertex %d is %r, the given point is %r" % (i, a, b)
        if segs and max(abs(segs[0][0][j] - st[j]) for j in range(3)) > tol:
            return "the polyline starts at %r, not at the current position %r" % (segs[0][0], st)
        return None
    # spline
    controls = [st]
    for p in absolute:
        if p != controls[-1]:
            controls.append(p)
    if len(controls) < 2:
        return None
    if not segs:
        return "nothing was emitted"
    if max(abs(segs[0][0][j] - st[j]) for j in range(3)) > tol:
        return "the spline starts at %r, not at the current position %r" % (segs[0][0], st)
    if max(abs(segs[-1][1][j] - controls[-1][j]) for j in range(3)) > tol * 10:
        return "the spline ends at %r, the last control point is %r" % (segs[-1][1], controls[-1])
    # within one resolution of every control point, in order
    pos = 0
    for ci, cp in enumerate(controls[1:], 1):
        best = None
        for k in range(pos, len(segs)):
            d = dist_point_segment(cp, segs[k][0], segs[k][1])
            if d <= s["res"] * (1 + 1e-9):
                best = k
                break
        if best is None:
            dmin = min(dist_point_segment(cp, a, b) for a, b in segs)
            return ("control point %d %r is not within one resolution (%.6g) of the polyline after the previous control point "
                    "(closest approach anywhere: %.6g)" % (ci, cp, s["res"], dmin))
        pos = best
    return None


# ---------------------------------------------------------------------------------------
# correspondence: interval-certified samples against model/TracerR.v
# ---------------------------------------------------------------------------------------

def rq(x):
    """a binary64 (or Fraction) as a Coq real-number term"""
    f = Fraction(x)
    if f.denominator == 1:
        return "(%d)" % f.numerator
    return "(%d / %d)" % (f.numerator, f.denominator)


def atan2_branch(yv, xv, ys, xs):
    """(lemma, rhs term) for atan2 ys xs given the numeric values (exact Fractions or floats)"""
    if xv > 0:
        return "atan2_xpos", "atan (%s / %s)" % (ys, xs)
    if xv < 0:
        if yv >= 0:
            return "atan2_xneg_ynonneg", "atan (%s / %s) + PI" % (ys, xs)
        return "atan2_xneg_yneg", "atan (%s / %s) - PI" % (ys, xs)
    if yv > 0:
        return "atan2_xzero_ypos", "PI / 2"
    if yv < 0:
        return "atan2_xzero_yneg", "- (PI / 2)"
    return "atan2_zero_zero", "0"


def coq_script(s, geo, segs, ths, picks):
    import numpy as np
    st = s["start"]
    k = s["kind"]
    D = "CCW" if s["ccw"] else "CW"
    OX, OY, OZ = rq(st[0]), rq(st[1]), rq(st[2])
    tg = geo["target"]
    TX, TY = rq(tg[0]), rq(tg[1])
    H = rq(Fraction(tg[2]) - Fraction(st[2])) if (k == "thread" or s.get("has_z", False) or k == "circle") else "(0)"
    side_unf = "idtac"
    pre = []
    if k in ("arc", "arc_helical", "circle", "helix", "helix_const"):
        cxv = Fraction(st[0]) + Fraction(s["centre"][0])
        cyv = Fraction(st[1]) + Fraction(s["centre"][1])
        CX, CY = rq(cxv), rq(cyv)
    elif k == "spiral":
        cxv, cyv = Fraction(st[0]), Fraction(st[1])
        CX, CY = OX, OY
    elif k == "thread":
        cxv = Fraction(st[0]) + (Fraction(tg[0]) - Fraction(st[0])) / 2
        cyv = Fraction(st[1]) + (Fraction(tg[1]) - Fraction(st[1])) / 2
        CX, CY = "(th_cx %s %s)" % (OX, TX), "(th_cy %s %s)" % (OY, TY)
        side_unf = "unfold th_cx, th_cy"
    else:  # arc_radius
        rad = s["radius"]
        dist = math.hypot(tg[0] - st[0], tg[1] - st[1])
        if abs(rad) < dist / 2:
            return None          # snapped radius: the model takes |rad| >= dist/2; covered by the oracle only
        RAD = rq(rad)
        cxv, cyv = geo["c"]
        CXe = "(ar_cx %s %s %s %s %s %s)" % (D, OX, OY, TX, TY, RAD)
        CYe = "(ar_cy %s %s %s %s %s %s)" % (D, OX, OY, TX, TY, RAD)
        lem = {("CW", True): "ar_side_cw_pos", ("CW", False): "ar_side_cw_neg", ("CCW", True): "ar_side_ccw_pos", ("CCW", False): "ar_side_ccw_neg"}[(D, rad > 0)]
        val = {("CW", True): "1", ("CW", False): "-1", ("CCW", True): "-1", ("CCW", False): "1"}[(D, rad > 0)]
        pre.append("assert (HSD : ar_side %s %s = %s) by (apply %s; lra)." % (D, RAD, val, lem))
        # enclose the centre chosen by the model once (1e-12 relative), then treat it as a bounded real variable
        dl = Fraction(max(1.0, abs(cxv), abs(cyv), abs(rad), dist)) / 10 ** 12
        unf = "unfold ar_cx, ar_cy, ar_height, ar_dist, hypot; rewrite HSD; interval with (i_prec 120)"
        pre.append("assert (BX : %s <= %s <= %s) by (%s)." % (rq(Fraction(cxv) - dl), CXe, rq(Fraction(cxv) + dl), unf))
        pre.append("assert (BY : %s <= %s <= %s) by (%s)." % (rq(Fraction(cyv) - dl), CYe, rq(Fraction(cyv) + dl), unf))
        pre.append("set (CX := %s) in *. set (CY := %s) in *. clearbody CX CY." % (CXe, CYe))
        CX, CY = "CX", "CY"
    SIDE = "first [lra | (%s; first [lra | interval with (i_prec 100)])]" % side_unf
    ys0, xs0 = "(%s - %s)" % (OY, CY), "(%s - %s)" % (OX, CX)
    ys1, xs1 = "(%s - %s)" % (TY, CY), "(%s - %s)" % (TX, CX)
    y0v, x0v = Fraction(st[1]) - Fraction(cyv), Fraction(st[0]) - Fraction(cxv)
    y1v, x1v = Fraction(tg[1]) - Fraction(cyv), Fraction(tg[0]) - Fraction(cxv)
    l0, e0 = atan2_branch(y0v, x0v, ys0, xs0)
    l1, e1 = atan2_branch(y1v, x1v, ys1, xs1)
    lines = list(pre)
    lines.append("assert (HS : a_start %s %s %s %s = %s) by (unfold a_start; apply %s; %s)." % (OX, OY, CX, CY, e0, l0, SIDE))
    lines.append("assert (HE : a_end %s %s %s %s = %s) by (unfold a_end; apply %s; %s)." % (TX, TY, CX, CY, e1, l1, SIDE))
    # a point exactly on the horizontal ray through the centre: atan (0 / x) = 0, so that exactly aligned start and target
    # angles are compared as closed forms (the interval tactic cannot decide a - a' >= 0 for two enclosures of the same number)
    if y0v == 0 and x0v != 0:
        lines.append("assert (Z0 : %s / %s = 0) by (unfold Rdiv; replace %s with 0 by lra; ring)." % (ys0, xs0, ys0))
        lines.append("rewrite Z0, atan_0 in HS.")
    if y1v == 0 and x1v != 0:
        lines.append("assert (Z1 : %s / %s = 0) by (unfold Rdiv; replace %s with 0 by lra; ring)." % (ys1, xs1, ys1))
        lines.append("rewrite Z1, atan_0 in HE.")
    # the branch of enforce, as the implementation's own binary64 computation takes it
    a0f = float(np.arctan2(float(y0v), float(x0v)))
    a1f = float(np.arctan2(float(y1v), float(x1v)))
    diff = a1f - a0f
    AS, AE = "a_start %s %s %s %s" % (OX, OY, CX, CY), "a_end %s %s %s %s" % (TX, TY, CX, CY)
    if s["ccw"]:
        lemE, rhs = ("enforce_ccw_flip", "%s - %s + 2 * PI" % (AE, AS)) if diff <= 0 else ("enforce_ccw_keep", "%s - %s" % (AE, AS))
    else:
        lemE, rhs = ("enforce_cw_flip", "%s - %s - 2 * PI" % (AE, AS)) if diff >= 0 else ("enforce_cw_keep", "%s - %s" % (AE, AS))
    lines.append("assert (HN : enforce %s (%s - %s) = %s) by (apply %s; rewrite HS, HE; first [lra | %s; interval with (i_prec 100)])."
                 % (D, AE, AS, rhs, lemE, side_unf))
    scale = max(1.0, geo["r0"], geo["r1"], abs(float(cxv)), abs(float(cyv)), abs(st[2]), abs(geo["h"]))
    EPS = rq(Fraction(scale) * (1 + Fraction(abs(geo["total"]))) / 10 ** 9)
    helixy = k in ("helix", "helix_const", "spiral", "thread")
    for i in picks:
        (o, t), th = segs[i], ths[i]
        TH = rq(1 if i == len(segs) - 1 else th)
        if helixy:
            args = "%s %s %s %s %s %s %s %d%%Z" % (D, OX, OY, TX, TY, CX, CY, geo["turns"])
            goal = ("Rabs (hx_x %s %s - %s) <= %s /\\ Rabs (hx_y %s %s - %s) <= %s /\\ Rabs (arc_z %s %s %s - %s) <= %s"
                    % (args, TH, rq(t[0]), EPS, args, TH, rq(t[1]), EPS, OZ, H, TH, rq(t[2]), EPS))
            tac = ("unfold hx_x, hx_y, arc_z, hx_angle, hx_total, hx_radius, full_turn; rewrite HN, HS, HE; "
                   "unfold arc_r, arc_rt, hypot; %s; repeat split; interval with (i_prec 100)" % side_unf)
        else:
            args = "%s %s %s %s %s %s %s" % (D, OX, OY, TX, TY, CX, CY)
            goal = ("Rabs (arc_x %s %s - %s) <= %s /\\ Rabs (arc_y %s %s - %s) <= %s /\\ Rabs (arc_z %s %s %s - %s) <= %s"
                    % (args, TH, rq(t[0]), EPS, args, TH, rq(t[1]), EPS, OZ, H, TH, rq(t[2]), EPS))
            tac = ("unfold arc_x, arc_y, arc_z, arc_angle, arc_total; rewrite HN, HS, HE; "
                   "unfold arc_r, hypot; %s; repeat split; interval with (i_prec 100)" % side_unf)
        lines.append("assert (V%d : %s) by (%s)." % (i, goal, tac))
    return "Goal True.\nProof.\n  " + "\n  ".join(lines) + "\n  exact I.\nQed.\n"


# ---------------------------------------------------------------------------------------

def main():
    run = Run(PID)
    st = standard_proof_phase(run, PID)
    n = 700 if run.thorough else 110
    reqs = [gen_request(run.rng, run.thorough) for _ in range(n)]
    # corpus: the request shapes behind the two repaired defects and the arc_radius sign/direction table
    reqs.insert(0, dict(kind="thread", start=(10.0, 5.0, 0.0), ccw=True, relative=False, target=(18.0, 11.0, 6.0), pitch=2.0, size=5.0, res=0.5))
    reqs.insert(0, dict(kind="circle", start=(30.0, -12.0, 1.0), ccw=False, relative=True, centre=(-7.0, 2.0), target=None, sweep=TWO_PI, size=7.0, res=0.5))
    reqs.insert(0, dict(kind="circle", start=(0.0, 0.0, 0.0), ccw=True, relative=False, centre=(-6.0, 2.5), target=None, sweep=TWO_PI, size=6.5, res=0.4))
    reqs.insert(0, dict(kind="arc", start=(8.0, 0.0, 0.0), ccw=True, relative=False, centre=(-4.0, 0.0), target=(0.0, 0.0, 0.0), has_z=False, size=4.0, res=0.3))
    reqs.insert(0, dict(kind="polyline", start=(3.0, 4.0, 1.0), ccw=True, relative=False, points=[(1.0, 1.0, 1.0), (0.0, 0.0, 0.0), (2.0, 0.0, 0.0)], dim=3, size=3.0, res=0.5))
    reqs.insert(0, dict(kind="spline", start=(0.0, 0.0, 0.0), ccw=True, relative=False, points=[(5.0, 5.0, 0.0), (10.0, 0.0, 0.0), (5.0, -5.0, 0.0), (0.0, 0.0, 0.0)], dim=3, size=7.0, res=0.5))
    reqs.insert(0, dict(kind="spline", start=(2.0, 1.0, 0.0), ccw=True, relative=True, points=[(6.0, 5.0, 0.0), (9.0, 1.0, 0.0), (6.0, 5.0, 0.0), (2.0, 8.0, 0.0)], dim=3, size=6.0, res=0.4))
    # way-points on one straight stroke and a stroke out and back along itself
    reqs.insert(0, dict(kind="polyline", start=(0.0, 0.0, 0.0), ccw=True, relative=False, points=[(10.0, 0.0, 0.0), (4.0, 0.0, 0.0), (4.0, 3.0, 0.0), (4.0, 6.0, 0.0)], dim=3, size=5.0, res=0.5))
    reqs.insert(0, dict(kind="polyline", start=(2.0, 2.0, 1.0), ccw=True, relative=True, points=[(4.0, 4.0, 1.0), (6.0, 6.0, 1.0), (3.0, 3.0, 1.0)], dim=3, size=5.0, res=0.5))
    # a helical arc down to the Z = 0 plane exactly, from a start above it (absolute and relative phrasing)
    reqs.insert(0, dict(kind="arc_helical", start=(8.0, 0.0, 4.0), ccw=True, relative=False, centre=(-4.0, 0.0), target=(4.0, 4.0, 0.0), has_z=True, size=4.0, res=0.3))
    reqs.insert(0, dict(kind="arc_helical", start=(8.0, 0.0, -2.5), ccw=False, relative=True, centre=(-4.0, 0.0), target=(4.0, -4.0, 0.0), has_z=True, size=4.0, res=0.3))
    # a helix straight up (the docstring's own use), one further out on the same ray, a spiral to a point on the +X ray
    reqs.insert(0, dict(kind="helix_const", start=(12.0, 7.0, 0.0), ccw=True, relative=False, centre=(-5.0, 0.0), target=(12.0, 7.0, 6.0), has_z=True, turns=2, size=5.0, res=0.5))
    reqs.insert(0, dict(kind="helix", start=(12.0, 7.0, 1.0), ccw=False, relative=True, centre=(0.0, -4.0), target=(12.0, 17.0, -3.0), has_z=True, turns=1, size=6.0, res=0.5))
    reqs.insert(0, dict(kind="spiral", start=(-3.0, 2.0, 0.0), ccw=True, relative=False, target=(5.0, 2.0, 0.0), has_z=False, turns=2, size=8.0, res=0.5))
    for ccw in (True, False):
        for sign in (1, -1):
            reqs.insert(0, dict(kind="arc_radius", start=(3.0, 4.0, 0.0), ccw=ccw, relative=False, target=(13.0, 12.0, 0.0), has_z=False,
                                radius=sign * 10.0, size=10.0, res=0.7))
    found = False
    kinds = {}
    scripts = []
    invalid = 0
    nvert = 0
    for idx, s in enumerate(reqs):
        kinds[s["kind"]] = kinds.get(s["kind"], 0) + 1
        rep = dict(request={k: (list(v) if isinstance(v, tuple) else v) for k, v in s.items()})
        try:
            segs = run_request(s)
        except ValueError as e:
            # every generated request is geometrically valid
            found = True
            run.violation("%s request raised ValueError: %s" % (s["kind"], str(e)[:200]), rep)
            continue
        except Exception as e:
            found = True
            run.violation("%s request raised %s: %s" % (s["kind"], type(e).__name__, str(e)[:200]), rep)
            continue
        nvert += len(segs)
        run.count((s["kind"], s["start"], round(s["res"], 9), s["ccw"], s["relative"], idx), len(segs) >= 3)
        if s["kind"] in ("spline", "polyline"):
            prob = check_points(s, segs)
            if prob:
                found = True
                run.violation("%s through %r from %r at resolution %.6g (%s mode): %s" % (
                    s["kind"], s["points"], s["start"], s["res"], "relative" if s["relative"] else "absolute", prob), rep)
            continue
        prob, geo, ths = check_closed_form(s, segs)
        if prob:
            found = True
            run.violation("%s from %r (%s, %s mode, resolution %.6g; request %r): %s" % (
                s["kind"], s["start"], "ccw" if s["ccw"] else "cw", "relative" if s["relative"] else "absolute", s["res"],
                {k: v for k, v in s.items() if k in ("target", "centre", "radius", "turns", "pitch")}, prob), rep)
            continue
        picks = sorted(set([0, len(segs) - 1] + [run.rng.randrange(len(segs)) for _ in range(2)]))
        sc = coq_script(s, geo, segs, ths, picks)
        if sc is not None:
            scripts.append((idx, s, sc, len(picks)))
        if len(run.cov["samples"]) < 3:
            run.sample(dict(kind=s["kind"], start=s["start"], resolution=s["res"], vertices=len(segs), sweep=geo["total"], turns=geo["turns"]))
    # --- certified samples ---------------------------------------------------------------------
    files = [("req_%d" % idx, sc) for idx, _, sc, _ in scripts]
    run.log("oracle phase done; certifying %d requests" % len(files))
    outs = coq_eval_many(PID, files, IMPORTS, timeout=600)
    run.log("certification done")
    certified = 0
    bad = []
    for (idx, s, sc, npk), (rc, out) in zip(scripts, outs):
        if rc == 0:
            certified += npk
        else:
            bad.append((idx, s, out[-1200:]))
    if bad and not found:
        idx, s, out = bad[0]
        run.violation("correspondence broken: %d of %d requests have emitted vertices that the interval tactic cannot place on the "
                      "curve of model/TracerR.v within 1e-9 (first: %s request %r); the float oracle found no vertex off the expected curve"
                      % (len(bad), len(scripts), s["kind"], {k: v for k, v in s.items() if k in ("start", "target", "centre", "radius", "turns", "pitch", "ccw")}),
                      dict(correspondence="TracerR shape functions vs emitted vertices (generated script req_%d.v)" % idx, coqc_output=out,
                           theorems=["C10_arc_const_radius", "C10_arc_sweep", "C10_helix_radius"]), no_input=True)
    proof_broken_violation(run, st, found)
    run.cov["rule"] = ("valid requests for arc (planar/helical), arc_radius (both signs, incl. radii snapped to the half circle), circle, "
                       "helix (varying and constant radius, 1-4 turns), spiral, thread, spline, polyline: random start positions (incl. "
                       "the origin and starts on an axis of the centre), radii 0.3-1000, both directions, both distance modes, "
                       "size/resolution 0.8-400. Oracle (own binary64 geometry): starts at the current position, contiguous, every "
                       "vertex on the requested curve at a monotonically increasing parameter, full sweep / turn count, z linear, ends on "
                       "target; spline within one resolution of every control point in order; polyline exactly the given points. "
                       "Correspondence: for every closed-form request 2-5 emitted vertices are placed on the curve of model/TracerR.v "
                       "by kernel-checked interval arithmetic (|shape(theta) - vertex| <= 1e-9 scale). non-trivial = >= 3 vertices.")
    extra = dict(input_distribution=dict(kinds=kinds, vertices=nvert), certified_vertices=certified, certified_requests=len(scripts) - len(bad),
                 trusted_base_extra=["the Interval library's tactic (its computations are checked by the kernel through vm_compute reflection)"],
                 modelled_not_verified=["scipy CubicSpline (spline): oracle only", "numpy cos/sin/arctan2/hypot in binary64: tied by certified samples"])
    run.finish(proof=st, extra=extra)


if __name__ == "__main__":
    main()
