"""C14 — every writer receives every line, once, in order, byte for byte."""
import io
import os
import shutil
import sys
import tempfile

sys.path.insert(0, os.path.dirname(os.path.abspath(__file__)))
from common import *  # noqa

PID = "C14"
KINDS = ["path", "binary", "text", "custom", "textfile", "latin1file", "console"]
KCOQ = {"path": "KPath", "binary": "KBinary", "text": "KText", "custom": "KCustom", "textfile": "KText", "latin1file": "KText", "console": "KBinary"}
TEXTS = ["layer 1", "Größe 5 µm", "温度", "", "a;b", "tab\there", "emoji 🔥"]


LATIN = ["layer 1", "Größe 5 µm", "café", "", "a;b"]


def gen_ops(rng, thorough):
    n = rng.randint(3, 60 if thorough else 25)
    ops = []
    ids = {}
    latin = rng.random() < 0.3
    kinds = KINDS if latin else [k for k in KINDS if k != "latin1file"]
    texts = LATIN if latin else TEXTS
    for _ in range(n):
        c = rng.random()
        if c < 0.22:
            i = rng.randint(1, 5)
            k = ids.setdefault(i, rng.choice(kinds))
            ops.append(("add", i, k))
        elif c < 0.32 and ids:
            ops.append(("remove", rng.choice(list(ids))))
        elif c < 0.86:
            k = rng.randrange(4)
            if k == 0:
                ops.append(("emit", "comment", rng.choice(texts)))
            elif k == 1:
                ops.append(("emit", "move", rng.randint(-50, 50) / 4))
            elif k == 2:
                ops.append(("emit", "tool", rng.randint(0, 9)))
            else:
                ops.append(("emit", "emergency", rng.choice(texts)))
        elif c < 0.94:
            ops.append(("flush",))
        else:
            ops.append(("teardown",))
    if rng.random() < 0.7:
        ops.append(rng.choice([("flush",), ("teardown",)]))
    return ops


class Custom:
    pass


def run_impl(ops, eol, tmpdir):
    """Returns (lines emitted per op, observation per writer id: visible content bytes, log or None, flags)"""
    from gscrib import GCodeBuilder
    from gscrib.writers import BaseWriter, FileWriter

    class Rec(BaseWriter):
        def __init__(self):
            self.lines, self.disconnects = [], 0

        def connect(self):
            return self

        def disconnect(self, wait=True):
            self.disconnects += 1

        def write(self, statement):
            self.lines.append(bytes(statement))

        def flush(self):
            pass
    g = GCodeBuilder(line_endings=eol)
    probe = Rec()          # always registered: tells which lines each call emitted
    g.add_writer(probe)
    objs = {}
    emitted = []
    snapshots = []
    for op in ops:
        n0 = len(probe.lines)
        if op[0] == "add":
            i, k = op[1], op[2]
            if i not in objs:
                if k == "path":
                    objs[i] = ("path", FileWriter(os.path.join(tmpdir, "w%d.gcode" % i)), os.path.join(tmpdir, "w%d.gcode" % i))
                elif k == "binary":
                    s = io.BytesIO()
                    objs[i] = ("binary", FileWriter(s), s)
                elif k == "console":
                    # ConsoleWriter binds sys.stdout.buffer when it is created: give it a capturing stand-in
                    from gscrib.writers import ConsoleWriter

                    class FakeStdout:
                        buffer = io.BytesIO()
                    fs = FakeStdout()
                    fs.buffer = io.BytesIO()
                    real = sys.stdout
                    sys.stdout = fs
                    try:
                        cw = ConsoleWriter()
                    finally:
                        sys.stdout = real
                    objs[i] = ("binary", cw, fs.buffer)
                elif k == "text":
                    s = io.StringIO(newline="")
                    objs[i] = ("text", FileWriter(s), s)
                elif k in ("textfile", "latin1file"):
                    pth = os.path.join(tmpdir, "t%d.txt" % i)
                    s = open(pth, "w", encoding="utf-8" if k == "textfile" else "latin-1", newline="")
                    objs[i] = (k, FileWriter(s), (s, pth))
                else:
                    r = Rec()
                    objs[i] = ("custom", r, r)
            g.add_writer(objs[i][1])
        elif op[0] == "remove":
            if op[1] in objs:
                g.remove_writer(objs[op[1]][1])
        elif op[0] == "emit":
            if op[1] == "comment":
                g.comment(op[2])
            elif op[1] == "move":
                g.move(x=op[2], comment="é" if op[2] > 0 else None)
            elif op[1] == "tool":
                g.tool_on("cw", op[2])
                g.tool_off()
            else:
                g.emergency_halt(op[2])
        elif op[0] == "flush":
            g.flush()
        elif op[0] == "teardown":
            g.teardown()
            g.add_writer(probe)
        emitted.append(probe.lines[n0:])
        if op[0] in ("flush", "teardown"):
            # after flush() the files are read as they are on disk: the caller does not flush its own file objects first
            snapshots.append((len(emitted) - 1, observe(objs, caller_flushes=(op[0] != "flush"))))
    final = observe(objs)
    for k, (kind, w, h) in objs.items():
        if kind in ("textfile", "latin1file"):
            h[0].close()
    return emitted, snapshots, final


def observe(objs, caller_flushes=True):
    out = {}
    for i, (kind, w, h) in objs.items():
        if kind == "path":
            try:
                content = open(h, "rb").read()
            except FileNotFoundError:
                content = b""
            out[i] = dict(content=content, open=w._file is not None if hasattr(w, "_file") else None)
        elif kind == "binary":
            out[i] = dict(content=h.getvalue())
        elif kind == "text":
            out[i] = dict(content=h.getvalue().encode("utf-8"))
        elif kind == "textfile":
            if caller_flushes:
                h[0].flush()
            out[i] = dict(content=open(h[1], "rb").read())
        elif kind == "latin1file":
            # a text stream in another encoding: the same TEXT must arrive; normalise to its UTF-8 bytes
            if caller_flushes:
                h[0].flush()
            out[i] = dict(content=open(h[1], "rb").read().decode("latin-1").encode("utf-8"))
        else:
            out[i] = dict(content=b"".join(h.lines), log=list(h.lines), disconnects=h.disconnects)
    return out


def g_ops(ops, emitted):
    out = []
    for op, lines in zip(ops, emitted):
        if op[0] == "add":
            out.append("AddWriter %d %s" % (op[1], KCOQ[op[2]]))
        elif op[0] == "remove":
            out.append("RemoveWriter %d" % op[1])
        elif op[0] == "emit":
            for l in lines:
                out.append("Emit %s" % g_bytes(l))
        elif op[0] == "flush":
            out.append("Flush")
        else:
            out.append("Teardown")
    return g_list(out)


def spec_expected(ops, emitted, wid):
    """independent statement of the property: lines issued while registered"""
    reg = False
    out = []
    epoch = []
    for op, lines in zip(ops, emitted):
        if op[0] == "add" and op[1] == wid:
            reg = True
        elif op[0] == "remove" and op[1] == wid:
            reg = False
        elif op[0] == "emit" and reg:
            out.extend(lines)
        elif op[0] == "teardown":
            reg = False
    return out


BOUNDARY_CPS = [0, 0x41, 0x7F, 0x80, 0xE9, 0x7FF, 0x800, 0x20AC, 0xD7FF, 0xE000, 0xFFFD, 0xFFFF, 0x10000, 0x1F600, 0x10FFFF]


def utf8_correspondence(run, emitted_lines):
    rng = run.rng
    strings = [[], [0x41], BOUNDARY_CPS]
    for _ in range(400 if run.thorough else 60):
        k = rng.randrange(4)
        n = rng.choice([1, 2, 5, 20])
        if k == 0:
            cps = [rng.choice(BOUNDARY_CPS) for _ in range(n)]
        elif k == 1:
            cps = [rng.choice([rng.randrange(0x80), rng.randrange(0x80, 0x800), rng.randrange(0x800, 0xD800),
                               rng.randrange(0xE000, 0x10000), rng.randrange(0x10000, 0x110000)]) for _ in range(n)]
        elif k == 2:
            cps = [ord(ch) for ch in rng.choice(TEXTS)]
        else:
            cps = [rng.randrange(0x20, 0x7F) for _ in range(n)]
        strings.append(cps)
    blobs = [b"", b"\xc0\x80", b"\xc1\xbf", b"\xed\xa0\x80", b"\xed\x9f\xbf", b"\xf4\x90\x80\x80", b"\xf4\x8f\xbf\xbf", b"\xf5\x80\x80\x80",
             b"\x80", b"\xe0\x9f\xbf", b"\xe0\xa0\x80", b"\xf0\x8f\xbf\xbf", b"\xf0\x90\x80\x80", b"\xe2\x82", b"a\xe2\x82\xacb", b"\xff", b"\xc3"]
    for cps in strings[:40]:
        good = "".join(map(chr, cps)).encode("utf-8")
        blobs.append(good)
        if good:
            b = bytearray(good)
            k = rng.randrange(3)
            if k == 0:
                b[rng.randrange(len(b))] = rng.randrange(256)
            elif k == 1:
                del b[rng.randrange(len(b))]
            else:
                b.insert(rng.randrange(len(b) + 1), rng.choice([0x80, 0xBF, 0xC0, 0xE0, 0xF0, 0xF8]))
            blobs.append(bytes(b))
    nonascii = [l for l in emitted_lines if any(c >= 0x80 for c in l)]
    blobs += nonascii[:60] + emitted_lines[:10]
    body = "Open Scope N_scope.\n"
    for cps in strings:
        body += "Eval vm_compute in (encode %s).\n" % g_list([str(c) for c in cps])
    for b in blobs:
        body += "Eval vm_compute in (match decode %s with Some l => (1, l) | None => (0, []) end, match text_write %s with Some l => (1, l) | None => (0, []) end).\n" % (
            g_list([str(c) for c in b]), g_list([str(c) for c in b]))
    vals = []
    for rc, out in coq_eval_many(PID, [("utf8", body)], "From GS Require Import model.Utf8.\n"):
        if rc != 0:
            run.log("model evaluation failed:\n" + out[-1500:])
            run.violation("the model (coq/model/Utf8.v) could not be evaluated", dict(theorem="C14_utf8_roundtrip"), no_input=True)
            return None, 0
        vals.extend(parse_evals(out))
    if len(vals) != len(strings) + len(blobs):
        run.violation("the model (coq/model/Utf8.v) could not be evaluated", dict(theorem="C14_utf8_roundtrip"), no_input=True)
        return None, 0
    for cps, val in zip(strings, vals):
        got = bytes(parse_term(val))
        want = "".join(map(chr, cps)).encode("utf-8")
        if got != want:
            run.violation("model and CPython disagree on the UTF-8 encoding of %r: model %r, str.encode %r" % (cps, got, want),
                          dict(code_points=cps, theorem="C14_utf8_roundtrip (coq/props/C14.v)"), no_input=True)
            return False, 0
    for b, val in zip(blobs, vals[len(strings):]):
        dok, dl, (tok, tl) = parse_term(val)      # Coq prints ((a, b), c) as (a, b, c)
        try:
            want = [ord(ch) for ch in b.decode("utf-8")]
        except UnicodeDecodeError:
            want = None
        got = list(dl) if dok == 1 else None
        tw = bytes(tl) if tok == 1 else None
        if got != want or tw != (b if want is not None else None):
            run.violation("model and CPython disagree on decoding %r: model %r / text stream %r, bytes.decode %r" % (b, got, tw, want),
                          dict(bytes=list(b), theorem="C14_utf8_decode_strict / C14_text_stream_identity (coq/props/C14.v)"), no_input=True)
            return False, 0
    return True, len(strings) + len(blobs)


def main():
    run = Run(PID)
    st = standard_proof_phase(run, PID)
    n = 2500 if run.thorough else 300
    tmp = tempfile.mkdtemp(prefix="gscrib_c14_")
    found = False
    cases = []
    dist = {}
    try:
        corpus = [[("add", 1, "path"), ("add", 2, "custom"), ("emit", "comment", "a"), ("teardown",)],
                  [("add", 1, "textfile"), ("add", 2, "text"), ("emit", "comment", "café"), ("flush",)],
                  [("add", 1, "path"), ("add", 2, "path"), ("add", 3, "custom"), ("emit", "move", 1.0), ("teardown",), ("emit", "move", 2.0)]]
        all_ops = corpus + [gen_ops(run.rng, run.thorough) for _ in range(n)]
        for ci, ops in enumerate(all_ops):
            d = os.path.join(tmp, "c%d" % ci)
            os.makedirs(d)
            eol = run.rng.choice(["\\n", "\\r\\n", "os"])
            try:
                emitted, snaps, final = run_impl(ops, eol, d)
            except Exception as e:
                found = True
                run.violation("history raised %s: %s" % (type(e).__name__, str(e)[:200]), dict(ops=ops, line_endings=eol))
                shutil.rmtree(d, ignore_errors=True)
                continue
            shutil.rmtree(d, ignore_errors=True)
            kinds = {op[2] for op in ops if op[0] == "add"}
            for k in kinds:
                dist[k] = dist.get(k, 0) + 1
            run.count(repr(ops), len(kinds) >= 2 and any(op[0] == "emit" for op in ops))
            cases.append((ops, emitted, final))
            # oracle: custom writers' logs, stream contents = concatenation of the expected lines
            kind_of = {op[1]: op[2] for op in ops if op[0] == "add"}
            for wid, obs in final.items():
                exp = spec_expected(ops, emitted, wid)
                k = kind_of[wid]
                prob = None
                if k == "custom" and obs["log"] != exp:
                    prob = "custom writer %d received %r, expected %r" % (wid, obs["log"][:6], exp[:6])
                elif k in ("binary", "text") and obs["content"] != b"".join(exp):
                    prob = "%s stream %d holds %r, expected %r" % (k, wid, obs["content"][:80], b"".join(exp)[:80])
                elif k in ("textfile", "latin1file") and obs["content"] != b"".join(exp):
                    prob = "text file %d holds %r, expected %r" % (wid, obs["content"][:80], b"".join(exp)[:80])
                if prob:
                    found = True
                    run.violation(prob, dict(ops=ops, line_endings=eol))
            # after flush(): every caller-owned file object that is registered and has been written to since it was registered
            # shows, on disk, everything it has received (FileWriter.flush flushes the file it writes to, whoever opened it)
            for upto, snap in snaps:
                if ops[upto][0] != "flush":
                    continue
                for wid, obs in snap.items():
                    if kind_of.get(wid) not in ("textfile", "latin1file"):
                        continue
                    reg, fresh = False, False
                    for op, lines in zip(ops[:upto + 1], emitted[:upto + 1]):
                        if op[0] == "add" and op[1] == wid:
                            reg, fresh = True, fresh if reg else False
                        elif op[0] == "remove" and op[1] == wid:
                            reg = False
                        elif op[0] == "teardown":
                            reg = False
                        elif op[0] == "emit" and reg and lines:
                            fresh = True
                    if reg and fresh:
                        exp = b"".join(spec_expected(ops[:upto + 1], emitted[:upto + 1], wid))
                        if obs["content"] != exp:
                            found = True
                            run.violation("after flush() the caller-opened text file %d holds %d bytes on disk, %d bytes have been written to it: %r"
                                          % (wid, len(obs["content"]), len(exp), obs["content"][-60:]), dict(ops=ops[:upto + 1], line_endings=eol))
            # teardown disconnects every registered custom writer exactly once
            if ci < 4:
                run.sample(dict(ops=[list(map(str, o)) for o in ops[:10]], emitted=[[l.decode("utf-8", "replace") for l in ls] for ls in emitted[:10]]))
    finally:
        shutil.rmtree(tmp, ignore_errors=True)
    # model: per writer log + durable content after the whole history, and at flush/teardown points
    files = []
    per = 100
    for i in range(0, len(cases), per):
        body = "Open Scope N_scope.\n"
        for (ops, emitted, final) in cases[i:i + per]:
            ids = sorted(final)
            body += "Eval vm_compute in (let c := run %s in map (fun id => (log_of id c, match lookup id (ws c) with Some w => (w_durable w, w_disconnects w) | None => ([], 0%%nat) end)) %s).\n" % (
                g_ops(ops, emitted), g_list([g_nat(x) for x in ids]))
        files.append(("w_%d" % (i // per), body))
    validated = 0
    mok = True
    results = []
    for rc, out in coq_eval_many(PID, files, "From GS Require Import model.Writers proofs.WritersProofs.\n"):
        vals = parse_evals(out)
        if rc != 0:
            mok = False
            run.log("model evaluation failed:\n" + out[-1500:])
            break
        results.extend(vals)
    if not mok or len(results) != len(cases):
        run.violation("the model (coq/model/Writers.v) could not be evaluated", dict(theorem="C14_delivery"), no_input=not found)
    else:
        for (ops, emitted, final), val in zip(cases, results):
            t = parse_term(val)
            ids = sorted(final)
            kind_of = {op[1]: op[2] for op in ops if op[0] == "add"}
            bad = None
            for wid, item in zip(ids, t):
                log, (durable, disc) = item
                log = [bytes(x) for x in log]
                obs = final[wid]
                if bytes(durable) != obs["content"]:
                    bad = "writer %d (%s): visible content model %r, implementation %r" % (wid, kind_of[wid], bytes(durable)[:80], obs["content"][:80])
                elif "log" in obs and obs["log"] != log:
                    bad = "writer %d: received lines differ" % wid
                elif "disconnects" in obs and obs["disconnects"] != disc:
                    bad = "writer %d: %d disconnects, model %d" % (wid, obs["disconnects"], disc)
            if bad:
                # a path file is the only writer kind the oracle above does not judge: decide it here
                run.violation("model and implementation disagree: " + bad, dict(ops=ops, theorem="C14_delivery / C14_teardown (coq/props/C14.v)"),
                              no_input=("path" not in bad))
                if "path" in bad:
                    found = True
            else:
                validated += 1
    # UTF-8 (model/Utf8.v, C14_utf8_*): the model's encoder / strict decoder against CPython's, on structured strings, on
    # malformed byte strings, and on the non-ASCII lines the builder actually emitted above
    utf_ok, utf_n = utf8_correspondence(run, [l for (_, emitted, _) in cases for ls in emitted for l in ls])
    proof_broken_violation(run, st, found)
    run.cov["rule"] = ("histories of add_writer/remove_writer/emitting calls (comment with non-ASCII text, move, tool_on+off, "
                       "emergency_halt = 1..4 lines per call)/flush/teardown over up to 5 writers of 5 kinds (path file, "
                       "BytesIO, StringIO, UTF-8 text file object, custom recorder), any line ending; contents read back from "
                       "disk / streams. non-trivial = >= 2 writer kinds and >= 1 emitting call.")
    run.finish(proof=st, extra=dict(input_distribution=dict(writer_kinds=dist, utf8_cases=utf_n), traces_validated_against_impl=validated))


if __name__ == "__main__":
    main()
