"""C08 — every emitted line is one well-formed block with faithful numbers."""
import math
import os
import re
import struct
import sys
from fractions import Fraction

sys.path.insert(0, os.path.dirname(os.path.abspath(__file__)))
from builder_check import *  # noqa

PID = "C08"
IMPORTS_F = "From GS Require Import model.FloatFmt.\n"


def bits_of(v):
    """-> (eb, mb, bits, exact Fraction value or None if non-finite)"""
    import numpy as np
    if isinstance(v, np.float32):
        b = struct.unpack(">I", struct.pack(">f", float(v)))[0]
        return 8, 23, b
    if isinstance(v, np.float16):
        b = int(np.array([v], dtype=np.float16).view(np.uint16)[0])
        return 5, 10, b
    b = struct.unpack(">Q", struct.pack(">d", float(v)))[0]
    return 11, 52, b


def gen_numbers(rng, n):
    import numpy as np
    out = []

    def r64():
        c = rng.random()
        if c < 0.20:
            return struct.unpack(">d", struct.pack(">Q", rng.getrandbits(64)))[0]
        if c < 0.35:
            return rng.uniform(-1000, 1000)
        if c < 0.45:
            return rng.randint(-10 ** 6, 10 ** 6) / 2 ** rng.randint(0, 12)
        if c < 0.55:
            return round(rng.uniform(-100, 100), rng.randint(0, 8))
        if c < 0.70:
            return (2 * rng.randint(0, 10 ** 6) + 1) / (2 * 10 ** rng.randint(0, 8)) * rng.choice([1, -1])   # decimal ties
        if c < 0.80:
            return rng.uniform(-1, 1) * 10 ** rng.randint(-12, 16)
        if c < 0.86:
            return float(2 ** rng.randint(-1074, 1023)) * rng.choice([1, -1])
        if c < 0.92:
            k = rng.randint(-8, 15)
            return math.nextafter(10.0 ** k, rng.choice([0, math.inf])) if rng.random() < 0.7 else 10.0 ** k
        if c < 0.96:
            return rng.choice([5e-324, -5e-324, 2.2250738585072014e-308, 1.7976931348623157e308, 1e15 + 0.125,
                               0.1, 0.3, 2.675, 1.005, 0.5, 1.5, 2.5, -0.5, 1e-5, 5e-6, 4.999999e-6, 9.999995])
        return float(rng.randint(-2 ** 60, 2 ** 60))
    for _ in range(n):
        c = rng.random()
        v = r64()
        if v != v or v in (math.inf, -math.inf):
            kind = "nonfinite"
        elif c < 0.08:
            v = np.float32(v) if abs(v) < 3e38 else np.float32(1.5)
        elif c < 0.12:
            v = np.float16(v) if abs(v) < 6e4 else np.float16(0.1)
        elif c < 0.18:
            v = int(v) if abs(v) < 2 ** 62 else 7
        elif c < 0.20:
            v = np.int64(int(v)) if abs(v) < 2 ** 62 else np.int64(3)
        out.append((v, rng.choice([0, 1, 2, 3, 4, 5, 5, 5, 6, 8, 10, 12])))
    for v in (0.0, -0.0, 0, math.nan, math.inf, -math.inf, np.float32("nan"), np.float32(0.0)):
        out.append((v, 5))
    return out


def number_oracle(v, dp, text):
    """independent statement: plain signed decimal, <= dp fractional digits, within half a unit of the last
    configured place of the requested value -- or inside the value's own rounding interval"""
    if not re.fullmatch(r"-?\d+(\.\d+)?", text):
        return "not a plain signed decimal: %r" % text
    frac = text.split(".")[1] if "." in text else ""
    if len(frac) > dp:
        return "%d fractional digits > decimal_places %d" % (len(frac), dp)
    w = Fraction(text)
    import numpy as np
    exact = Fraction(float(v)) if not isinstance(v, (np.float32, np.float16)) else Fraction(float(v))
    if abs(w - exact) <= Fraction(1, 2 * 10 ** dp):
        return None
    # rounding interval of the value in its own format
    if isinstance(v, np.float32):
        back = Fraction(float(np.float32(float(text)))) if abs(float(text)) < 3.4e38 else None
    elif isinstance(v, np.float16):
        back = Fraction(float(np.float16(float(text)))) if abs(float(text)) < 65520 else None
    else:
        back = Fraction(float(text))
    if back == exact:
        return None
    return "word %s is neither within 10^-%d/2 of the requested %r nor reads back as it" % (text, dp, v)


def main():
    run = Run(PID)
    st = standard_proof_phase(run, PID)
    from gscrib.formatters import DefaultFormatter
    import numpy as np
    n = 60000 if run.thorough else 5000
    nums = gen_numbers(run.rng, n)
    # the same value again at another precision, on the same formatter (set_decimal_places between the two)
    for _ in range(n // 15):
        v, dp = run.rng.choice(nums)
        nums.append((v, run.rng.choice([d for d in (0, 1, 2, 3, 5, 8, 12) if d != dp])))
        nums.append((v, dp))
    f = DefaultFormatter()
    impl = []
    kinds = {}
    for v, dp in nums:
        f.set_decimal_places(dp)
        try:
            impl.append(f.number(v))
        except ValueError:
            impl.append("ValueError")
        except Exception as e:
            impl.append("EXC:" + type(e).__name__)
        kinds[type(v).__name__] = kinds.get(type(v).__name__, 0) + 1
    # model
    files = []
    per = 400
    for i in range(0, len(nums), per):
        items = []
        for v, dp in nums[i:i + per]:
            eb, mb, b = bits_of(v)
            items.append("(%d, %d, %d, %d%%nat)" % (eb, mb, b, dp))
        body = "Open Scope Z_scope.\nDefinition cases := %s.\n" % g_list(items)
        body += "Eval vm_compute in map (fun '(eb, mb, b, dp) => number eb mb b dp) cases.\n"
        files.append(("n_%d" % (i // per), body))
    model = []
    model_ok = True
    for rc, out in coq_eval_many(PID, files, IMPORTS_F, timeout=1800):
        vals = parse_evals(out)
        if rc != 0 or len(vals) != 1:
            model_ok = False
            run.log("model evaluation failed:\n" + out[-1500:])
            break
        for t in parse_term(vals[0]):
            model.append("ValueError" if t == "None" else bytes(t[1]).decode())
    found = False
    for idx, ((v, dp), txt) in enumerate(zip(nums, impl)):
        finite = not (isinstance(v, (float, np.floating)) and (v != v or abs(float(v)) == math.inf))
        run.count((repr(v), type(v).__name__, dp), finite and v != 0)
        prob = None
        if not finite:
            if txt != "ValueError":
                prob = "non-finite %r was formatted as %r instead of raising ValueError" % (v, txt)
        elif txt in ("ValueError",) or txt.startswith("EXC:"):
            prob = "finite %r raised %s" % (v, txt)
        elif v == 0:
            if txt != "0":
                prob = "zero formatted as %r" % txt
        else:
            prob = number_oracle(v, dp, txt)
        if prob:
            found = True
            run.violation("number(%r) at decimal_places=%d: %s" % (v, dp, prob),
                          dict(value=repr(v), type=type(v).__name__, decimal_places=dp, observed=txt))
        elif model_ok and model[idx] != txt:
            run.violation("model and implementation disagree on number(%r, dp=%d): model %r, implementation %r; the "
                          "value oracle accepts the implementation's word" % (v, dp, model[idx], txt),
                          dict(value=repr(v), type=type(v).__name__, decimal_places=dp, observed=txt, model=model[idx],
                               theorem="C08_number (coq/props/C08.v); correspondence: FloatFmt.number = DefaultFormatter.number"),
                          no_input=True)
        if idx in (0, 7, 100, 1000):
            run.sample(dict(value=repr(v), type=type(v).__name__, decimal_places=dp, text=txt))
    if not model_ok:
        run.violation("the model (coq/model/FloatFmt.v) could not be evaluated", dict(theorem="C08_number"), no_input=not found)
    # builder level: raw lines of every command through the independent block grammar ------------------
    from builder_lib import Gen, ImplRun, W_FULL
    import oracle as O
    nb = 1500 if run.thorough else 200
    lines_checked = 0
    model_cases = []
    for i in range(nb):
        g = Gen(run.rng, dict(W_FULL, probe=4, polyline=3), malformed=0.1, bounds=False)
        dp = run.rng.choice([0, 1, 3, 5, 8, 12])
        cmds = g.history(run.rng.randint(5, 30))
        # extreme magnitudes
        if i % 3 == 0:
            cmds.append(("move", "linear", {"x": Fraction(run.rng.randint(1, 9), 10 ** 6), "y": Fraction(10 ** 12 + 1, 8)}, [("F", Fraction(1, 3 * 2 ** 20))]))
        if i % 4 == 1:
            # scalar words under the other unit systems: a dwell in milliseconds, temperatures in kelvin, a feed in inches
            cmds += [("set_time_units", "milliseconds"), ("sleep", Fraction(run.rng.randint(1, 400), 8)), ("set_temp_units", "kelvin"),
                     ("set_bed", Fraction(run.rng.randint(2300, 2900), 8)), ("set_units", "inches"), ("set_feed", Fraction(run.rng.randint(1, 999), 16))]
        cfg = dict(comment_symbols=run.rng.choice([";", "(", "#", "//", "["]), line_endings=run.rng.choice(["\\n", "\\r\\n", "os"]))
        from gscrib import GCodeBuilder
        from builder_lib import Recorder
        rec = Recorder()
        xa = run.rng.choice(["X", "A", "U"])
        gb = GCodeBuilder(decimal_places=dp, x_axis=xa, **cfg)
        gb.add_writer(rec.writer)
        ir = ImplRun.__new__(ImplRun)
        ir.rec, ir.g, ir.ctx, ir.hooks, ir.calls, ir.style = rec, gb, [], {}, [], 0
        steps = ir.run(cmds)
        if xa == "X":
            model_cases.append((dp, cmds, steps))
        eol = {"\\n": b"\n", "\\r\\n": b"\r\n", "os": os.linesep.encode()}[cfg["line_endings"]]
        for c, s in zip(cmds, steps):
            for raw in s["raw"]:
                rb = raw.encode("utf-8")
                lines_checked += 1
                prob = None
                if not rb.endswith(eol) or rb.count(b"\n") != 1 or (eol == b"\n" and b"\r" in rb):
                    prob = "line not terminated exactly once by the configured ending"
                else:
                    toks = O.tokenize(rb[:-len(eol)].decode("utf-8"), cfg["comment_symbols"])
                    if toks is None:
                        prob = "not a well-formed block (address letters + plain decimal words, then a comment)"
                    else:
                        for k, v in toks:
                            pass
                        m = re.findall(r"(?<![A-Za-z0-9.])([A-Za-z]+)(-?\d+\.(\d+))", O.strip_comment(rb.decode("utf-8").rstrip("\r\n"), cfg["comment_symbols"]))
                        # G/M words are instructions from the code table (G38.2), not formatted values
                        if any(len(fr) > dp for letters, _, fr in m if letters.upper() not in ("G", "M")):
                            prob = "a word has more than %d fractional digits" % dp
                if prob:
                    found = True
                    run.violation("%s: %r emitted by %r (decimal_places=%d, comment_symbols=%r)" % (prob, raw, cmd_json(c), dp, cfg["comment_symbols"]),
                                  dict(dp=dp, config=cfg, history=[cmd_json(x) for x in cmds], line=raw))
    # ... and the VALUES of the words: the same histories on the builder model (coq/model/Builder.v), whose every word is the
    # decimal_places-rounding of the requested value -- any other word is off by at least one unit of the last place
    words_vs_model = 0
    if model_cases:
        from builder_lib import eval_model, fmt_lines
        model, log = eval_model(PID, [(dp_, cmds_) for dp_, cmds_, _ in model_cases])
        if model is None:
            run.log("model evaluation failed:\n" + log)
            run.violation("the model (coq/model/Builder.v) could not be evaluated on the generated histories", dict(log=log[-1500:], theorem="C08_number / C08_block"), no_input=not found)
        else:
            for (dp_, cmds_, steps_), msteps in zip(model_cases, model):
                for si, (m, im) in enumerate(zip(msteps, steps_)):
                    if m["exc"] != im["exc"] or any(l is None for l in im["lines"]):
                        break            # exceptions and malformed lines are other checks' business (C02/C03/C05, the grammar above)
                    if m["lines"] != im["lines"]:
                        found = True
                        run.violation("%r at decimal_places=%d emitted %r; the requested values round to %s" % (cmd_json(cmds_[si]), dp_, im["raw"], fmt_lines(m["lines"])),
                                      dict(dp=dp_, history=[cmd_json(x) for x in cmds_[:si + 1]], observed=im["raw"], expected_words=fmt_lines(m["lines"])))
                        break
                    words_vs_model += sum(len(l) for l in im["lines"])
    # formatter.parameters()/command() with scalar types on axis and non-axis words -----------------------
    words_checked = 0
    block_cases = []
    for i in range(4000 if run.thorough else 600):
        r = run.rng
        dp = r.choice([0, 2, 5, 8])
        f.set_decimal_places(dp)
        params = {}
        for k in r.sample(["X", "y", "Z", "E", "F", "A", "P", "Q", "s"], r.randint(1, 4)):
            c = r.random()
            mag = r.choice([1e-7, 2e-5, 1e-3, 1.0, 1234.5, 1e7, 3e12])
            base = r.uniform(-1, 1) * mag
            if c < 0.3:
                v = base
            elif c < 0.45:
                v = np.float32(base)
            elif c < 0.55:
                v = np.float16(max(min(base, 6e4), -6e4))
            elif c < 0.65:
                v = np.int64(int(base))
            elif c < 0.75:
                v = int(base)
            elif c < 0.80:
                v = r.choice([np.float32("nan"), np.float32("inf"), math.nan, -math.inf, np.float16("inf")])
            else:
                v = np.float64(base)
            params[k] = v
        nonfinite = any(not math.isfinite(float(v)) for v in params.values())
        try:
            txt = f.command("G1", params, None) if r.random() < 0.5 else "G1 " + f.parameters(params)
            exc = None
        except ValueError:
            txt, exc = None, "ValueError"
        except Exception as e:
            txt, exc = None, type(e).__name__
        prob = None
        if nonfinite:
            if exc != "ValueError":
                prob = "non-finite parameter value was not rejected with ValueError (got %r / %s)" % (txt, exc)
        elif exc is not None:
            prob = "finite parameters raised %s" % exc
        else:
            toks = O.tokenize(txt, ";")
            if toks is None:
                prob = "statement %r is not a sequence of address letters + plain decimals" % txt
            else:
                words_checked += len(toks)
                vals = {k.upper(): v for k, v in params.items()}
                for k, w in toks[1:]:
                    if k in vals:
                        pr = number_oracle(vals[k], dp, str(w) if w.denominator == 1 else
                                           re.search(r"%s(-?[0-9.]+)" % k, txt).group(1))
                        if pr:
                            prob = "word %s of %r: %s" % (k, txt, pr)
        if prob:
            found = True
            run.violation(prob, dict(decimal_places=dp, params={k: (repr(v), type(v).__name__) for k, v in params.items()}, observed=txt))
        else:
            block_cases.append((dp, dict(params), txt))
    # the same statements against the block model (coq/model/Block.v: command / parameters), byte for byte
    blocks_ok = 0
    if block_cases:
        body = "Open Scope Z_scope.\n"
        for dp, params, txt in block_cases:
            up = {k.upper(): v for k, v in params.items()}
            order = [a for a in "XYZ" if a in up] + [k for k in up if k not in "XYZ"]
            ws = []
            for k in order:
                eb, mb, b = bits_of(up[k])
                ws.append("mkbword %s %d %d %d" % (g_list([str(c) + "%N" for c in k.encode()]), eb, mb, b))
            body += "Eval vm_compute in (match command_text %d%%nat [71%%N; 49%%N] %s with Some l => (1%%N, l) | None => (0%%N, []) end).\n" % (dp, g_list(ws))
        vals = []
        bad_eval = False
        for rc, out in coq_eval_many(PID, [("blocks", body)], "From GS Require Import model.FloatFmt model.Block.\n", timeout=1800):
            if rc != 0:
                bad_eval = True
                run.log("model evaluation failed:\n" + out[-1500:])
                break
            vals.extend(parse_evals(out))
        if bad_eval or len(vals) != len(block_cases):
            run.violation("the model (coq/model/Block.v) could not be evaluated", dict(theorem="C08_block"), no_input=not found)
        else:
            for (dp, params, txt), val in zip(block_cases, vals):
                ok_, l = parse_term(val)
                mtxt = bytes(l).decode() if ok_ == 1 else None
                if mtxt != txt:
                    run.violation("model and implementation disagree on the block for %r at decimal_places=%d: model %r, implementation %r; "
                                  "the block grammar and the value oracle accept the implementation's text"
                                  % ({k: repr(v) for k, v in params.items()}, dp, mtxt, txt),
                                  dict(decimal_places=dp, params={k: (repr(v), type(v).__name__) for k, v in params.items()}, observed=txt, model=mtxt,
                                       theorem="C08_block (coq/props/C08.v); correspondence: Block.command_text = DefaultFormatter.command"), no_input=True)
                    break
                blocks_ok += 1
    proof_broken_violation(run, st, found)
    run.cov["rule"] = ("formatter level: structured doubles (random bit patterns, uniform, dyadic, decimal ties at every "
                       "place, 10^k +- 1 ulp, powers of two incl. subnormals, magnitudes to 1e308, float32/float16/int/"
                       "int64 scalars, +-0, NaN, +-inf) x decimal_places 0..12, text compared exactly with the model and "
                       "judged by the value oracle; builder level: random histories x decimal_places x comment style x "
                       "line ending x relabelled X axis, every raw line through an independent block grammar. "
                       "non-trivial = finite non-zero value; distinct = distinct (value, type, dp).")
    run.finish(proof=st, extra=dict(input_distribution=dict(value_types=kinds), builder_lines_checked=lines_checked, parameter_words_checked=words_checked, builder_words_compared_with_model=words_vs_model, blocks_compared_with_model=blocks_ok,
                                    traces_validated_against_impl=len(model) if model_ok else 0))


if __name__ == "__main__":
    main()
