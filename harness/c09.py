"""C09 — comment text can never change what the machine executes."""
import os, sys
sys.path.insert(0, os.path.dirname(os.path.abspath(__file__)))
from common import *  # noqa
import oracle as O

PID = "C09"
STYLES = [";", "(", "[", "<", '"', "'", "/*", "#", "//", "%"]
ENTRY = ["comment", "annotate", "move", "rapid", "move_absolute", "rapid_absolute", "set_axis", "auto_home", "probe",
         "emergency_halt", "polyline", "comment_args"]


def gen_text(rng, style):
    pairs = {"(": ")", "[": "]", "<": ">", '"': '"', "'": "'", "/*": "*/"}
    pieces = ["\n", "\r", "\r\n", style, pairs.get(style, ""), "G1 X100", "M3 S24000", " ", "  ", "x", "é", "温度", "*", "/", "**//", "*/*",
              "(", ")", ";", "end", "\t", "\x0b", " ", "{0}", "{", "}", "%s", "\\n", "a) G1 X100 (b", "*/ M3 /*", "; G28",
              # compatibility variants of the delimiters (they fold to the ASCII ones under Unicode normalisation) and the
              # Unicode line separators: to the machine they are ordinary comment text and must stay that
              "\uff09", "\uff08", "\ufe5a", "\ufe59", "\uff3d", "\uff3b", "\uff1e", "\uff1c", "\uff02", "\uff07", "\uff0a\uff0f",
              "\uff0f\uff0a", "\uff1b", "\ufe54", "\uff03", "\uff05", "\uff0f\uff0f", "\u2028", "\u2029", "\x85",
              "\uff09 G1 X999 \uff08", "\uff0a\uff0f M3 S1 \uff0f\uff0a", "\uff02 G28 \uff02"]
    n = rng.choice([0, 1, 1, 2, 3, 5, 8])
    t = "".join(rng.choice(pieces) for _ in range(n))
    if rng.random() < 0.1:
        t = "".join(chr(rng.choice([10, 13, 32, 40, 41, 42, 47, 59, 65, 0x3b1])) for _ in range(rng.randint(1, 200)))
    return t


def emit(style, eol, entry, text, dp=3):
    from gscrib import GCodeBuilder
    from builder_lib import Recorder
    rec = Recorder()
    g = GCodeBuilder(decimal_places=dp, comment_symbols=style, line_endings=eol)
    g.add_writer(rec.writer)
    g.move(x=1, y=2)
    if entry == "comment":
        g.comment(text)
    elif entry == "comment_args":
        g.comment("note", text, 5)
    elif entry == "annotate":
        g.annotate("tool_diameter", text)
    elif entry == "move":
        g.move(x=3, F=100, comment=text)
    elif entry == "rapid":
        g.rapid(z=5, comment=text)
    elif entry == "move_absolute":
        g.set_distance_mode("relative")
        g.move_absolute(x=7, comment=text)
    elif entry == "rapid_absolute":
        g.rapid_absolute(y=7, comment=text)
    elif entry == "set_axis":
        g.set_axis(x=0, comment=text)
    elif entry == "auto_home":
        g.auto_home(z=0, comment=text)
    elif entry == "probe":
        g.probe("towards", z=-1, F=50, comment=text)
    elif entry == "emergency_halt":
        g.tool_on("cw", 100)
        g.emergency_halt(text)
    elif entry == "polyline":
        g.trace.polyline([(1, 1), (2, 2)], comment=text)
    g.move(x=9)
    return b"".join(rec.chunks)


def executable(raw, style, eol):
    """independent reading: split into lines at CR/LF, strip comments, tokenize"""
    text = raw.decode("utf-8")
    lines = [l for l in text.replace("\r\n", "\n").replace("\r", "\n").split("\n")]
    if lines and lines[-1] == "":
        lines.pop()
    out = []
    for l in lines:
        body = O.strip_comment(l, style)
        out.append(body.split())
    return out


def main():
    run = Run(PID)
    st = standard_proof_phase(run, PID)
    n = 6000 if run.thorough else 700
    found = False
    dist = {}
    cases = [(";", "\\n", "comment", "hello\nG1 X100"), ("(", "\\n", "comment", "a) G1 X100 (b"), ("/*", "\\n", "comment", "end **// M3 S24000 //** x"),
             ("(", "\\n", "move", "x)\nG0 Z-50 ("), ("'", "\\r\\n", "emergency_halt", "it's \r broken")]
    for _ in range(n):
        style = run.rng.choice(STYLES)
        cases.append((style, run.rng.choice(["\\n", "\\n", "\\r\\n"]), run.rng.choice(ENTRY), gen_text(run.rng, style)))
    for style, eol, entry, text in cases:
        key = "%s|%s" % (style, entry)
        dist[key] = dist.get(key, 0) + 1
        try:
            ref = emit(style, eol, entry, "x")
            out = emit(style, eol, entry, text)
        except Exception as e:
            found = True
            run.violation("emitting with comment text %r raised %s: %s" % (text, type(e).__name__, str(e)[:100]),
                          dict(style=style, line_endings=eol, entry=entry, text=text))
            continue
        interesting = any(c in text for c in "\r\n") or style in text or any(c in text for c in ")]>\"'*/")
        run.count((style, eol, entry, text), interesting)
        a, b = executable(ref, style, eol), executable(out, style, eol)
        if a != b:
            found = True
            what = "executable words differ" if len(a) == len(b) else "number of lines differs (%d vs %d)" % (len(b), len(a))
            run.violation("%s for %s(%r) under comment style %r: output %r" % (what, entry, text, style, out.decode("utf-8", "replace")),
                          dict(style=style, line_endings=eol, entry=entry, text=text, output=out.decode("utf-8", "replace"),
                               reference=ref.decode("utf-8")))
        if len(run.cov["samples"]) < 4 and interesting:
            run.sample(dict(style=style, entry=entry, text=text, output=out.decode("utf-8", "replace")))
    # the comment style is changed on a live builder and the same text is written again ----------------
    from gscrib import GCodeBuilder
    from builder_lib import Recorder
    for _ in range(1500 if run.thorough else 200):
        a, b = run.rng.choice(STYLES), run.rng.choice(STYLES)
        text = gen_text(run.rng, b)
        outs = []
        for t in ("x", text):
            rec = Recorder()
            g = GCodeBuilder(decimal_places=3, comment_symbols=a, line_endings="\\n")
            g.add_writer(rec.writer)
            g.comment(t)
            g.move(x=1, comment=t)
            k = len(rec.chunks)
            g.format.set_comment_symbols(b)
            g.comment(t)
            g.move(x=2, comment=t)
            g.set_axis(y=0, comment=t)
            outs.append((b"".join(rec.chunks[:k]), b"".join(rec.chunks[k:])))
        run.count((a, b, "switch", text), True)
        (r1, r2), (o1, o2) = outs
        if executable(r1, a, "\\n") != executable(o1, a, "\\n") or executable(r2, b, "\\n") != executable(o2, b, "\\n"):
            found = True
            run.violation("after switching the comment style from %r to %r on a live builder, the text %r changes the "
                          "executable words: %r" % (a, b, text, (o1 + o2).decode("utf-8", "replace")),
                          dict(style_before=a, style_after=b, text=text, output=(o1 + o2).decode("utf-8", "replace")))
    # correspondence: model/Formatter.v fmt_comment = DefaultFormatter.comment, byte for byte -------------
    from gscrib.formatters import DefaultFormatter
    pairs = {"(": ")", "[": "]", "<": ">", '"': '"', "'": "'", "/*": "*/"}

    def g_pat(sym):
        b = sym.encode()
        return "(P1 %d)" % b[0] if len(b) == 1 else "(P2 %d %d)" % (b[0], b[1])

    def g_style(sym):
        return "(Bracket %s %s)" % (g_pat(sym), g_pat(pairs[sym])) if sym in pairs else "(Prefix %s)" % g_pat(sym)
    mcases = cases[: (3000 if run.thorough else 500)]
    fm = DefaultFormatter()
    impl_c = []
    for style, eol, entry, text in mcases:
        fm.set_comment_symbols(style)
        impl_c.append(fm.comment(text).encode("utf-8"))
    files = []
    for i in range(0, len(mcases), 250):
        items = ["(%s, %s)" % (g_style(st_), g_bytes(tx.encode("utf-8"))) for st_, _, _, tx in mcases[i:i + 250]]
        files.append(("c_%d" % (i // 250), "Open Scope N_scope.\nDefinition cases := %s.\nEval vm_compute in map (fun '(st, t) => fmt_comment st t) cases.\n" % g_list(items)))
    model_c = []
    mok = True
    for rc, out in coq_eval_many(PID, files, "From GS Require Import model.Formatter.\n"):
        vals = parse_evals(out)
        if rc != 0 or len(vals) != 1:
            mok = False
            run.log("model evaluation failed:\n" + out[-1200:])
            break
        model_c.extend(bytes(x) for x in parse_term(vals[0]))
    validated = 0
    if not mok:
        run.violation("the text model (coq/model/Formatter.v) could not be evaluated", dict(theorem="C09_inert"), no_input=not found)
    else:
        for (style, eol, entry, text), a, b in zip(mcases, impl_c, model_c):
            if a != b and found:
                continue          # already reported above with a failing input
            if a != b:
                run.violation("model and implementation disagree on comment(%r) under style %r: model %r, implementation %r; "
                              "the lexer oracle found no executable difference for this text" % (text, style, b, a),
                              dict(style=style, text=text, model=list(b), observed=list(a),
                                   theorem="C09_inert (coq/props/C09.v); correspondence fmt_comment = DefaultFormatter.comment"),
                              no_input=True)
            else:
                validated += 1
    proof_broken_violation(run, st, found)
    run.cov["rule"] = ("text generator: line breaks, CR, the delimiters of the configured style, G-code-looking payloads, "
                       "nested/adjacent delimiter fragments, non-ASCII, format-like braces, empty/whitespace, up to 200 chars "
                       "x 10 comment styles (7 bracketed/quoted incl. '/*', 3 prefix) x 12 entry points; the output is "
                       "compared with the same calls carrying the text 'x' through an independent comment-stripping lexer. "
                       "non-trivial = text containing a line break or a delimiter character.")
    run.finish(proof=st, extra=dict(input_distribution=dist, traces_validated_against_impl=validated))


if __name__ == "__main__":
    main()
