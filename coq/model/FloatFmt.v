(* Model of DefaultFormatter.number on a finite non-zero binary floating-point value:
   numpy.format_float_positional(x, precision=dp, unique=True, fractional=True, trim='-')
   i.e. Dragon4 in "unique" mode with a cut-off at dp fractional digits.

   The model is declarative.  A float is (sign, mantissa m > 0, exponent e): value m * 2^e, with
   the distance to its upper neighbour 2^e and to its lower neighbour 2^e (2^(e-1) when the
   mantissa is the smallest of a binade: [f_low_half]).  Its rounding interval is
   [v - mlow, v + mhigh], mlow/mhigh half those distances, closed iff the mantissa is even.
   Digits are produced for k = k0, k0+1, ... fractional places (k0 = the place of the first
   significant digit, capped at dp): the truncation d = floor(v * 10^k) is acceptable "low" if
   d/10^k lies in the rounding interval, "high" if (d+1)/10^k does; generation stops when low or
   high or k = dp; then: exactly one acceptable -> that one; otherwise round to nearest, ties to
   the even digit.  Trailing zeros are trimmed by the printer. *)
From Coq Require Import ZArith QArith Qround Bool List.
From GS Require Import model.Num.
Import ListNotations.
Open Scope Z_scope.

Record flt := mkflt { f_neg : bool; f_m : Z; f_e : Z; f_low_half : bool }.

Definition pow2q (e : Z) : Q :=
  match e with
  | Z0 => 1%Q
  | Zpos p => inject_Z (2 ^ Zpos p)
  | Zneg p => (1 # (2 ^ p))%Q
  end.
Definition pow10q (k : Z) : Q :=
  match k with
  | Z0 => 1%Q
  | Zpos p => inject_Z (10 ^ Zpos p)
  | Zneg p => (1 # (10 ^ p))%Q
  end.

Definition fval (f : flt) : Q := (inject_Z (f_m f) * pow2q (f_e f))%Q.       (* |x| *)
Definition mhigh (f : flt) : Q := (pow2q (f_e f) / 2)%Q.
Definition mlow (f : flt) : Q := (if f_low_half f then pow2q (f_e f) / 4 else pow2q (f_e f) / 2)%Q.

(* place of the first significant digit: the least k with v * 10^k >= 1 *)
Fixpoint first_place (fuel : nat) (v : Q) (k : Z) : Z :=
  match fuel with
  | O => k
  | S n => if Qle_bool 1 (v * pow10q k) then
             (if Qle_bool 1 (v * pow10q (k - 1)) then first_place n v (k - 1) else k)
           else first_place n v (k + 1)
  end.

Record dres := mkdres { d_q : Z; d_k : Z }.   (* the printed magnitude is d_q / 10^d_k *)

Definition le_or_lt (closed : bool) (a b : Q) : bool :=
  if closed then Qle_bool a b else negb (Qle_bool b a).

Definition step_k (f : flt) (dp k : Z) : option dres :=
  let v := fval f in
  let sc := pow10q k in
  let t := (v * sc)%Q in
  let d := Qfloor t in
  let rem := (t - inject_Z d)%Q in
  let lo := (inject_Z d / sc)%Q in
  let hi := (inject_Z (d + 1) / sc)%Q in
  let even := Z.even (f_m f) in
  let low := le_or_lt even (v - lo) (mlow f) in
  let high := le_or_lt even (hi - v) (mhigh f) in
  if low || high || (k =? dp) then
    let down :=
      if negb (Bool.eqb low high) then low
      else match (rem ?= 1 # 2)%Q with
           | Lt => true
           | Gt => false
           | Eq => Z.even d
           end in
    Some (mkdres (if down then d else d + 1) k)
  else None.

Fixpoint gen (fuel : nat) (f : flt) (dp k : Z) : option dres :=
  match fuel with
  | O => None
  | S n => match step_k f dp k with
           | Some r => Some r
           | None => gen n f dp (k + 1)
           end
  end.

(* dp >= 0 *)
Definition fmt_digits (f : flt) (dp : nat) : option dres :=
  let v := fval f in
  let k0 := Z.min (first_place 800 v 0) (Z.of_nat dp) in
  gen (S (Z.to_nat (Z.of_nat dp - k0))) f (Z.of_nat dp) k0.

(* ---- printing the digits (positional, trailing zeros trimmed, no exponent) ---- *)
Fixpoint digits_aux (fuel : nat) (n : Z) (acc : list N) : list N :=
  match fuel with
  | O => acc
  | S fu => if n <? 10 then Z.to_N n :: acc
            else digits_aux fu (n / 10) (Z.to_N (n mod 10) :: acc)
  end.
Definition digits_of (n : Z) : list N := digits_aux (S (Z.to_nat (Z.log2 n))) n [].   (* n >= 0 *)

Fixpoint strip0 (l : list N) : list N :=    (* trailing zeros of a reversed list = leading here *)
  match l with
  | 0%N :: l' => strip0 l'
  | _ => l
  end.

Definition chr (d : N) : N := (48 + d)%N.
Definition render (neg : bool) (r : dres) : list N :=
  let sign := if neg then [45%N] else [] in
  if d_k r <=? 0 then sign ++ map chr (digits_of (d_q r * 10 ^ (- d_k r)))
  else
    let k := Z.to_nat (d_k r) in
    let ds := digits_of (d_q r) in
    let padded := repeat 0%N (S k - length ds) ++ ds in
    let ip := firstn (length padded - k) padded in
    let fp := rev (strip0 (rev (skipn (length padded - k) padded))) in
    sign ++ map chr ip ++ (match fp with [] => [] | _ => 46%N :: map chr fp end).

(* DefaultFormatter.number on a decoded finite value: zero shortcut, then Dragon4 *)
Inductive fin_input := FZero | FVal (f : flt).
Definition number_text (x : fin_input) (dp : nat) : option (list N) :=
  match x with
  | FZero => Some [48%N]
  | FVal f => match fmt_digits f dp with
              | Some r => Some (render (f_neg f) r)
              | None => None
              end
  end.

(* IEEE-754 decoding: eb exponent bits, mb stored mantissa bits; None = infinity or NaN *)
Definition decode (eb mb bits : Z) : option fin_input :=
  let sign := Z.odd (bits / 2 ^ (eb + mb)) in
  let ex := (bits / 2 ^ mb) mod 2 ^ eb in
  let mant := bits mod 2 ^ mb in
  let bias := 2 ^ (eb - 1) - 1 in
  if ex =? 2 ^ eb - 1 then None
  else if ex =? 0 then
    (if mant =? 0 then Some FZero else Some (FVal (mkflt sign mant (1 - bias - mb) false)))
  else Some (FVal (mkflt sign (mant + 2 ^ mb) (ex - bias - mb) ((mant =? 0) && (1 <? ex)))).

(* DefaultFormatter.number: non-finite values are rejected (None), otherwise the text *)
Definition number (eb mb bits : Z) (dp : nat) : option (list N) :=
  match decode eb mb bits with
  | None => None
  | Some x => number_text x dp
  end.
