(* Text-level model of DefaultFormatter.comment / command / line (formatters/default_formatter.py)
   and an independent comment-stripping lexer (the specification side of C09).
   Bytes are [N].  Comment delimiters are one or two bytes long (checked against the table
   regenerated from /repo in proofs/CommentProofs.v). *)
From Coq Require Import List NArith Bool.
Import ListNotations.
Open Scope N_scope.

Notation bytes := (list N) (only parsing).
Definition SP : N := 32.
Definition CR : N := 13.
Definition LF : N := 10.

Inductive pat := P1 (a : N) | P2 (a b : N).
Definition pbytes (p : pat) : bytes := match p with P1 a => [a] | P2 a b => [a; b] end.
Definition plen (p : pat) : nat := match p with P1 _ => 1%nat | P2 _ _ => 2%nat end.

Definition starts (p : pat) (l : bytes) : bool :=
  match p, l with
  | P1 a, x :: _ => N.eqb x a
  | P2 a b, x :: y :: _ => N.eqb x a && N.eqb y b
  | _, _ => false
  end.

(* Python's str.replace(p, " "): leftmost, non-overlapping *)
Fixpoint repl (p : pat) (skip : nat) (l : bytes) : bytes :=
  match l with
  | [] => []
  | x :: l' =>
    match skip with
    | S k => repl p k l'
    | O => if starts p l then SP :: repl p (plen p - 1) l' else x :: repl p O l'
    end
  end.
Definition replace_sp (p : pat) (l : bytes) : bytes := repl p O l.

Inductive cstyle := Prefix (sym : pat) | Bracket (op cl : pat).

(* DefaultFormatter.comment after the repair: line breaks and the delimiters of the style are
   replaced by a blank, then the text is put into the template "<open> {} <close>" / "<sym> {}" *)
Definition sanitize (st : cstyle) (t : bytes) : bytes :=
  let t1 := replace_sp (P1 LF) (replace_sp (P1 CR) t) in
  match st with
  | Prefix _ => t1
  | Bracket o c => replace_sp c (replace_sp o t1)
  end.
Definition fmt_comment (st : cstyle) (t : bytes) : bytes :=
  match st with
  | Prefix s => pbytes s ++ SP :: sanitize st t
  | Bracket o c => pbytes o ++ SP :: sanitize st t ++ SP :: pbytes c
  end.

(* a statement: the formatted words, a blank, the comment; line() appends the terminator *)
Definition statement (st : cstyle) (words t : bytes) : bytes := words ++ SP :: fmt_comment st t.
Definition emit_line (st : cstyle) (eol words t : bytes) : bytes := statement st words t ++ eol.

(* ---- the independent lexer ---- *)
Fixpoint find_occ (p : pat) (l : bytes) : option nat :=
  if starts p l then Some O
  else match l with
       | [] => None
       | _ :: l' => match find_occ p l' with Some i => Some (S i) | None => None end
       end.

(* remove the comments of one line (no line breaks inside): a prefix comment runs to the end of
   the line; a bracketed comment runs from its opener to the next closer (to the end if there is
   none) and is replaced by a blank; several comments per line are handled by [fuel] rounds *)
Fixpoint strip_comments (fuel : nat) (st : cstyle) (l : bytes) : bytes :=
  match fuel with
  | O => l
  | S f =>
    match st with
    | Prefix s => match find_occ s l with Some i => firstn i l | None => l end
    | Bracket o c =>
      match find_occ o l with
      | None => l
      | Some i =>
        let rest := skipn (i + plen o) l in
        match find_occ c rest with
        | None => firstn i l
        | Some j => firstn i l ++ SP :: strip_comments f st (skipn (j + plen c) rest)
        end
      end
    end
  end.

Definition count_breaks (l : bytes) : nat :=
  length (filter (fun x => N.eqb x LF || N.eqb x CR) l).
