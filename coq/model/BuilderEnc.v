(* Printable projections of the builder model, used by the correspondence harness:
   pi_words (lines), pi_exc, pi_state (public state snapshot), hook calls.
   Rationals are printed as [QQ num den] to stay clear of Coq's decimal/hex notations. *)
From Coq Require Import ZArith QArith Bool List String.
From GS Require Import model.Num model.Builder.
Import ListNotations.

Inductive qe := QQ (n d : Z).
Inductive xe := XF (n d : Z) | XP | XN | XNaN.
Definition eq_ (q : Q) : qe := QQ (Qnum q) (Zpos (Qden q)).
Definition eo (o : option Q) : option qe := option_map eq_ o.
Definition ex (x : xnum) : xe :=
  match x with Fin q => XF (Qnum q) (Zpos (Qden q)) | PInf => XP | NInf => XN | NaN => XNaN end.
Definition eox (o : option xnum) : option xe := option_map ex o.

Definition enc_pt (p : point) := [eo (px p); eo (py p); eo (pz p)].
Definition enc_call (c : hookcall) :=
  match c with HookCall id o t => (id, enc_pt o, enc_pt t) end.
Definition enc_line (l : line) := map (fun w => (fst w, eq_ (snd w))) l.

Definition snap_letters : list string := ["F"; "S"; "E"; "A"; "B"; "P"; "I"; "R"]%string.

Definition snap (s : st) :=
  ( (enc_pt (pos s), enc_pt (spos s), dm s, sdm s),
    (ex (feed s), ex (tpower s), tool_on s, cool_on s),
    (spinm s, powerm s, coolm s, swapm s, haltm s, toolnum s),
    (em s, fm s, lu s, tu s, ku s, pl s),
    (ex (t_hotend s), ex (t_bed s), ex (t_chamber s)),
    map (fun k => eox (cget k (cparams s))) snap_letters ).

Definition enc_res (r : res) :=
  match r with (s, ls, calls, e) => (map enc_line ls, e, map enc_call calls, snap s) end.

Definition run_enc (dp : nat) (cs : list cmd) := map enc_res (run dp init cs).
