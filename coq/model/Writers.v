(* Model of GCodeCore's writer list and of FileWriter (writers/file_writer.py).
   A writer is a path-based file (opened lazily with "wb+": connecting truncates -- this is what
   tests/test_file_writer.py::test_write_after_disconnect asserts --, closed on disconnect), a
   caller-owned binary or UTF-8 text stream (never closed, never truncated), or a custom writer.
   [w_content] is what has been handed to the file object since the last connect, [w_durable] what a
   reader of the file sees (committed by flush() and by closing), [w_log] every line received. *)
From Coq Require Import List NArith Bool PeanoNat.
Import ListNotations.

Notation bytes := (list N) (only parsing).
Inductive wkind := KPath | KBinary | KText | KCustom.

Record wst := mkw { w_kind : wkind; w_open : bool; w_content : bytes; w_durable : bytes;
                    w_log : list bytes; w_epoch : list bytes; w_disconnects : nat }.
Definition fresh (k : wkind) : wst := mkw k false [] [] [] [] 0.

Definition connect (w : wst) : wst :=
  if w_open w then w
  else match w_kind w with
       | KPath => mkw KPath true [] [] (w_log w) [] (w_disconnects w)        (* "wb+" truncates *)
       | k => mkw k true (w_content w) (w_durable w) (w_log w) (w_epoch w) (w_disconnects w)
       end.
Definition wwrite (w : wst) (l : bytes) : wst :=
  let w1 := connect w in
  let c := w_content w1 ++ l in
  (* caller-owned in-memory streams and custom writers see the bytes at once *)
  let d := match w_kind w1 with KPath => w_durable w1 | _ => c end in
  mkw (w_kind w1) true c d (w_log w1 ++ [l]) (w_epoch w1 ++ [l]) (w_disconnects w1).
Definition wflush (w : wst) : wst :=
  if w_open w then mkw (w_kind w) true (w_content w) (w_content w) (w_log w) (w_epoch w) (w_disconnects w) else w.
Definition wdisconnect (w : wst) : wst :=
  mkw (w_kind w) false (w_content w) (if w_open w then w_content w else w_durable w) (w_log w) (w_epoch w)
      (S (w_disconnects w)).

Record core := mkcore { reg : list nat; ws : list (nat * wst) }.
Definition core0 := mkcore [] [].

Fixpoint lookup (id : nat) (l : list (nat * wst)) : option wst :=
  match l with [] => None | (i, w) :: l' => if Nat.eqb i id then Some w else lookup id l' end.
Fixpoint update (id : nat) (f : wst -> wst) (l : list (nat * wst)) : list (nat * wst) :=
  match l with
  | [] => []
  | (i, w) :: l' => if Nat.eqb i id then (i, f w) :: l' else (i, w) :: update id f l'
  end.
Definition mem (id : nat) (l : list nat) : bool := existsb (Nat.eqb id) l.

Inductive op := AddWriter (id : nat) (k : wkind) | RemoveWriter (id : nat) | Emit (l : bytes) | Flush | Teardown.

Definition apply_all (f : wst -> wst) (ids : list nat) (l : list (nat * wst)) : list (nat * wst) :=
  fold_left (fun acc id => update id f acc) ids l.

Definition step (c : core) (o : op) : core :=
  match o with
  | AddWriter id k =>
      let ws' := match lookup id (ws c) with Some _ => ws c | None => ws c ++ [(id, fresh k)] end in
      if mem id (reg c) then mkcore (reg c) ws' else mkcore (reg c ++ [id]) ws'
  | RemoveWriter id => mkcore (filter (fun i => negb (Nat.eqb i id)) (reg c)) (ws c)
  | Emit l => mkcore (reg c) (apply_all (fun w => wwrite w l) (reg c) (ws c))
  | Flush => mkcore (reg c) (apply_all wflush (reg c) (ws c))
  | Teardown => mkcore [] (apply_all wdisconnect (reg c) (ws c))
  end.
Definition run (ops : list op) : core := fold_left step ops core0.

(* the specification: the lines a writer must have received -- those emitted while it was registered *)
Fixpoint expected (id : nat) (registered : bool) (ops : list op) : list bytes :=
  match ops with
  | [] => []
  | AddWriter i _ :: ops' => expected id (registered || Nat.eqb i id) ops'
  | RemoveWriter i :: ops' => expected id (registered && negb (Nat.eqb i id)) ops'
  | Emit l :: ops' => (if registered then [l] else []) ++ expected id registered ops'
  | Flush :: ops' => expected id registered ops'
  | Teardown :: ops' => expected id false ops'
  end.
