(* Model of PathTracer.parametric's sampling count and PathTracer._filter_segments
   (geometry/tracer.py), on the list of distances between consecutive samples.
   The samples are p_0 .. p_(m-1) (p_0 = the curve at theta = 1/n, NOT the start point),
   ds = [|p_1 - p_0|; ...; |p_(m-1) - p_(m-2)|]. *)
From Coq Require Import ZArith QArith Qround Bool List.
From GS Require Import gen.GenTables.
Import ListNotations.
Open Scope Q_scope.

(* num_segments = max(2, int(10 * length / resolution)): the two constants are read from the source on every run *)
Definition nsegments (len res : Q) : Z := Z.max min_samples (Qfloor (oversampling * len / res)).

(* the loop over distances[:-1]: mask entry i says whether sample i+1 is kept *)
Fixpoint mask_loop (res remaining : Q) (ds : list Q) : list bool :=
  match ds with
  | [] => []
  | [_] => [true]                        (* the last distance is not looped over: last sample always kept *)
  | d :: ds' =>
      let r := remaining - d in
      if Qlt_le_dec r (res / filter_tolerance_div) then true :: mask_loop res res ds'
      else false :: mask_loop res r ds'
  end.
Definition keep_mask (res : Q) (ds : list Q) : list bool := mask_loop res res ds.

(* travelled length of each emitted segment after p_0: sums of the distances between kept samples *)
Fixpoint seg_loop (acc : Q) (mask : list bool) (ds : list Q) : list Q :=
  match mask, ds with
  | b :: mask', d :: ds' => if b then (acc + d) :: seg_loop 0 mask' ds' else seg_loop (acc + d) mask' ds'
  | _, _ => []
  end.
Definition segments (res : Q) (ds : list Q) : list Q := seg_loop 0 (keep_mask res ds) ds.

Fixpoint qsum (l : list Q) : Q := match l with [] => 0 | x :: l' => x + qsum l' end.

(* PathTracer.spline: the control points handed to the interpolant are the current position followed by the given
   (absolute) points, with consecutive duplicates removed *)
Section SplineControls.
  Variable A : Type.
  Variable eqb : A -> A -> bool.
  Fixpoint controls_go (lastc : A) (pts : list A) : list A :=
    match pts with
    | [] => []
    | p :: pts' => if eqb p lastc then controls_go lastc pts' else p :: controls_go p pts'
    end.
  Definition spline_controls (origin : A) (pts : list A) : list A := origin :: controls_go origin pts.
End SplineControls.
