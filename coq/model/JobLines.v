(* What printcore._sendnext transmits for one job line (C15: "every non-comment line of the job").
   A line whose first non-blank characters are ";@" is a host command and is not transmitted; otherwise
   comments are removed with gcoder.gcode_strip_comment_exp = \([^\(\)]*\)|;.*|[/\*].*\n (re.sub, leftmost,
   alternatives in this order), the result is stripped of surrounding whitespace (str.strip()), and an
   empty result is skipped.  Lines are lists of code points. *)
From Coq Require Import List NArith Bool.
Import ListNotations.
Open Scope N_scope.

Definition LP : N := 40.   Definition RP : N := 41.   Definition SEMI : N := 59.   Definition NL : N := 10.
Definition SLASH : N := 47. Definition STAR : N := 42. Definition AT : N := 64.

(* after an opening parenthesis: the rest after the first ')' provided no '(' comes before it -- \([^\(\)]*\) *)
Fixpoint close_paren (l : list N) : option (list N) :=
  match l with
  | [] => None
  | c :: l' => if c =? RP then Some l' else if c =? LP then None else close_paren l'
  end.
(* ;.*  -- '.' does not match a newline: what is left starts at the next newline *)
Fixpoint to_newline (l : list N) : list N :=
  match l with [] => [] | c :: l' => if c =? NL then l else to_newline l' end.
(* [/\*].*\n -- needs a newline further on: the rest after it *)
Fixpoint after_newline (l : list N) : option (list N) :=
  match l with [] => None | c :: l' => if c =? NL then Some l' else after_newline l' end.

Fixpoint strip_fuel (fuel : nat) (l : list N) : list N :=
  match fuel with
  | O => l
  | S f =>
    match l with
    | [] => []
    | c :: l' =>
      if c =? LP then match close_paren l' with Some r => strip_fuel f r | None => c :: strip_fuel f l' end
      else if c =? SEMI then strip_fuel f (to_newline l')
      else if (c =? SLASH) || (c =? STAR)
           then match after_newline l' with Some r => strip_fuel f r | None => c :: strip_fuel f l' end
      else c :: strip_fuel f l'
    end
  end.
Definition strip_job_comments (l : list N) : list N := strip_fuel (length l) l.

(* str.isspace() *)
Definition is_ws (c : N) : bool :=
  ((9 <=? c) && (c <=? 13)) || ((28 <=? c) && (c <=? 32)) || (c =? 133) || (c =? 160) || (c =? 5760)
  || ((8192 <=? c) && (c <=? 8202)) || (c =? 8232) || (c =? 8233) || (c =? 8239) || (c =? 8287) || (c =? 12288).
Fixpoint lstrip (l : list N) : list N :=
  match l with c :: l' => if is_ws c then lstrip l' else l | [] => [] end.
Definition rstrip (l : list N) : list N := rev (lstrip (rev l)).
Definition strip (l : list N) : list N := rstrip (lstrip l).

Definition is_host_command (raw : list N) : bool :=
  match lstrip raw with a :: b :: _ => (a =? SEMI) && (b =? AT) | _ => false end.

(* None: nothing is transmitted for this job line *)
Definition job_command (raw : list N) : option (list N) :=
  if is_host_command raw then None
  else match strip (strip_job_comments raw) with [] => None | t => Some t end.

(* the whole job: the commands transmitted, in order *)
Definition job_commands (job : list (list N)) : list (list N) :=
  flat_map (fun raw => match job_command raw with Some t => [t] | None => [] end) job.

(* the simple reading of a line: everything before the first ';' *)
Fixpoint before_semi (l : list N) : list N :=
  match l with [] => [] | c :: l' => if c =? SEMI then [] else c :: before_semi l' end.
