(* The reference interpreter (the specification side): an independent reading of the
   emitted program, one abstract line (list of address words) at a time.
   It is split into components so that each property uses only what it talks about. *)
From Coq Require Import ZArith QArith Bool List String.
From GS Require Import model.Num model.Builder.
Import ListNotations.
Open Scope string_scope.
Open Scope list_scope.

Definition is_letter (w : word) (l : string) : bool := String.eqb (fst w) l.
Definition is_code (w : word) (l : string) (n : Z) : bool :=
  is_letter w l && Qeq_bool (snd w) (inject_Z n).
Definition is_m (w : word) (n : Z) : bool := is_code w "M" n.
Definition is_g (w : word) (n : Z) : bool := is_code w "G" n.

Definition tool_start (w : word) : bool := is_m w 3 || is_m w 4.
Definition tool_stop (w : word) : bool := is_m w 5.
Definition cool_start (w : word) : bool := is_m w 7 || is_m w 8.
Definition cool_stop (w : word) : bool := is_m w 9.
Definition tool_change (w : word) : bool := is_m w 6.
Definition halt_codes : list Z := [0; 1; 2; 30; 60; 109; 190; 191; 400]%Z.
Definition is_halt (w : word) : bool := existsb (is_m w) halt_codes.

(* ---- interlock scan (C02): machine flags and "no unsafe word so far" ---- *)
Record flags := mkflags { f_tool : bool; f_cool : bool; f_ok : bool }.
Definition flags0 := mkflags false false true.

Definition step_word (f : flags) (w : word) : flags :=
  let ok1 := if tool_start w then negb (f_tool f) else true in
  let ok2 := if cool_start w then negb (f_cool f) else true in
  let ok3 := if tool_change w || is_halt w then negb (f_tool f || f_cool f) else true in
  mkflags (if tool_start w then true else if tool_stop w then false else f_tool f)
          (if cool_start w then true else if cool_stop w then false else f_cool f)
          (f_ok f && ok1 && ok2 && ok3).
Definition scan_line (f : flags) (l : line) : flags := fold_left step_word l f.
Definition scan_lines (f : flags) (ls : list line) : flags := fold_left scan_line ls f.
