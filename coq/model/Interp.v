(* The reference interpreter (the specification side): an independent reading of the
   emitted program, one abstract line (list of address words) at a time.
   It is split into components so that each property uses only what it talks about. *)
From Coq Require Import ZArith QArith Bool List String.
From GS Require Import model.Num model.Builder.
Import ListNotations.
Open Scope string_scope.
Open Scope list_scope.

Definition is_letter (w : word) (l : string) : bool := String.eqb (fst w) l.
Definition is_code (w : word) (l : string) (n : Z) : bool :=
  is_letter w l && Qeq_bool (snd w) (inject_Z n).
Definition is_m (w : word) (n : Z) : bool := is_code w "M" n.
Definition is_g (w : word) (n : Z) : bool := is_code w "G" n.

Definition tool_start (w : word) : bool := is_m w 3 || is_m w 4.
Definition tool_stop (w : word) : bool := is_m w 5.
Definition cool_start (w : word) : bool := is_m w 7 || is_m w 8.
Definition cool_stop (w : word) : bool := is_m w 9.
Definition tool_change (w : word) : bool := is_m w 6.
Definition halt_codes : list Z := [0; 1; 2; 30; 60; 109; 190; 191; 400]%Z.
Definition is_halt (w : word) : bool := existsb (is_m w) halt_codes.

(* ---- interlock scan (C02): machine flags and "no unsafe word so far" ---- *)
Record flags := mkflags { f_tool : bool; f_cool : bool; f_ok : bool }.
Definition flags0 := mkflags false false true.

Definition step_word (f : flags) (w : word) : flags :=
  let ok1 := if tool_start w then negb (f_tool f) else true in
  let ok2 := if cool_start w then negb (f_cool f) else true in
  let ok3 := if tool_change w || is_halt w then negb (f_tool f || f_cool f) else true in
  mkflags (if tool_start w then true else if tool_stop w then false else f_tool f)
          (if cool_start w then true else if cool_stop w then false else f_cool f)
          (f_ok f && ok1 && ok2 && ok3).
Definition scan_line (f : flags) (l : line) : flags := fold_left step_word l f.
Definition scan_lines (f : flags) (ls : list line) : flags := fold_left scan_line ls f.

(* ---- modal machine state (C07): what a controller derives from the lines so far ---- *)
Fixpoint wget (k : string) (l : line) : option Q :=
  match l with
  | [] => None
  | w :: l' => if String.eqb (fst w) k then Some (snd w) else wget k l'
  end.

Definition isq (n : Z) (o : option Q) : bool :=
  match o with Some q => Qeq_bool q (inject_Z n) | None => false end.
Definition is_probe_q (o : option Q) : bool :=
  match o with Some q => negb (Qle_bool q (38 # 1)) && negb (Qle_bool (39 # 1) q) | None => false end.
Definition keep (new old : option Q) : option Q := match new with Some _ => new | None => old end.

Record mach := mkmach {
  m_tool : bool; m_start : Z; m_S : option Q; m_cool : Z; m_T : option Q; m_F : option Q;
  m_rel : bool; m_em : option Z; m_fm : option Z; m_lu : option Z; m_pl : option Z;
  m_bed : option Q; m_hot : option Q; m_cha : option Q }.

Definition mach0 := mkmach false 0 None 0 None None false None None None None None None None.

(* one line: its first G word and first M word decide what it does (the builder emits one
   command per line); F is modal on motion and bare lines, S on motion, bare and tool-start lines *)
Definition interp_line (m : mach) (l : line) : mach :=
  let g := wget "G" l in
  let mm := wget "M" l in
  let motion := isq 0 g || isq 1 g || is_probe_q g in
  let bare := match g, mm with None, None => true | _, _ => false end in
  let starts := isq 3 mm || isq 4 mm in
  let temp := keep (wget "S" l) (wget "R" l) in
  mkmach
    (if starts then true else if isq 5 mm then false else m_tool m)
    (if isq 3 mm then 3 else if isq 4 mm then 4 else if isq 5 mm then 0 else m_start m)
    (if motion || bare || starts then keep (wget "S" l) (m_S m) else m_S m)
    (if isq 7 mm then 7 else if isq 8 mm then 8 else if isq 9 mm then 0 else m_cool m)
    (keep (wget "T" l) (m_T m))
    (if motion || bare then keep (wget "F" l) (m_F m) else m_F m)
    (if isq 90 g then false else if isq 91 g then true else m_rel m)
    (if isq 82 mm then Some 82 else if isq 83 mm then Some 83 else m_em m)%Z
    (if isq 93 g then Some 93 else if isq 94 g then Some 94 else if isq 95 g then Some 95 else m_fm m)%Z
    (if isq 20 g then Some 20 else if isq 21 g then Some 21 else m_lu m)%Z
    (if isq 17 g then Some 17 else if isq 18 g then Some 18 else if isq 19 g then Some 19 else m_pl m)%Z
    (if isq 140 mm || isq 190 mm then keep temp (m_bed m) else m_bed m)
    (if isq 104 mm || isq 109 mm then keep temp (m_hot m) else m_hot m)
    (if isq 141 mm || isq 191 mm then keep temp (m_cha m) else m_cha m).

Definition interp_lines (m : mach) (ls : list line) : mach := fold_left interp_line ls m.

(* ---- position machine (C01): G0/G1/G90/G91/G92/G28/G38.x ---- *)
(* per axis: unknown, or (machine coordinate, number of rounded words it is the sum of) *)
Definition axis_st := option (Q * nat).
Record pmach := mkpm { p_rel : bool; p_x : axis_st; p_y : axis_st; p_z : axis_st }.
Definition pmach0 := mkpm false None None None.

Definition upd_abs (w : option Q) (c : axis_st) : axis_st :=
  match w with Some v => Some (v, 1%nat) | None => c end.
Definition upd_rel (w : option Q) (c : axis_st) : axis_st :=
  match w, c with Some v, Some (q, n) => Some (q + v, S n)%Q | _, _ => c end.
Definition upd_mask (w : option Q) (c : axis_st) : axis_st :=
  match w with Some _ => None | None => c end.

Definition pinterp_line (p : pmach) (l : line) : pmach :=
  let g := wget "G" l in
  let x := wget "X" l in let y := wget "Y" l in let z := wget "Z" l in
  if isq 90 g then mkpm false (p_x p) (p_y p) (p_z p)
  else if isq 91 g then mkpm true (p_x p) (p_y p) (p_z p)
  else if isq 0 g || isq 1 g then
    (if p_rel p then mkpm true (upd_rel x (p_x p)) (upd_rel y (p_y p)) (upd_rel z (p_z p))
     else mkpm false (upd_abs x (p_x p)) (upd_abs y (p_y p)) (upd_abs z (p_z p)))
  else if isq 92 g then mkpm (p_rel p) (upd_abs x (p_x p)) (upd_abs y (p_y p)) (upd_abs z (p_z p))
  else if isq 28 g then
    (match x, y, z with
     | None, None, None => mkpm (p_rel p) None None None
     | _, _, _ => mkpm (p_rel p) (upd_mask x (p_x p)) (upd_mask y (p_y p)) (upd_mask z (p_z p))
     end)
  else if is_probe_q g then mkpm (p_rel p) (upd_mask x (p_x p)) (upd_mask y (p_y p)) (upd_mask z (p_z p))
  else p.
Definition pinterp_lines (p : pmach) (ls : list line) : pmach := fold_left pinterp_line ls p.
