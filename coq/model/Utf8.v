(* UTF-8 as GCodeCore.write() and FileWriter.write() use it (C14): write() turns the statement (a
   Python str: a list of code points) into bytes with str.encode("utf-8"); for a caller-owned TEXT
   stream FileWriter turns the bytes back into a str with bytes.decode("utf-8") and the stream
   (opened with a UTF-8 encoding) encodes it again.  Code points and bytes are N. *)
From Coq Require Import List NArith Bool.
Import ListNotations.
Open Scope N_scope.

(* Unicode scalar values: what a str that encodes without error consists of *)
Definition scalar (c : N) : bool := (c <? 0xD800) || ((0xDFFF <? c) && (c <? 0x110000)).

Definition encode1 (c : N) : list N :=
  if c <? 0x80 then [c]
  else if c <? 0x800 then [0xC0 + c / 64; 0x80 + c mod 64]
  else if c <? 0x10000 then [0xE0 + c / 4096; 0x80 + (c / 64) mod 64; 0x80 + c mod 64]
  else [0xF0 + c / 262144; 0x80 + (c / 4096) mod 64; 0x80 + (c / 64) mod 64; 0x80 + c mod 64].
Definition encode (cs : list N) : list N := flat_map encode1 cs.

Definition cont (b : N) : bool := (0x80 <=? b) && (b <? 0xC0).

(* strict decoding (errors="strict"): None where Python raises UnicodeDecodeError *)
Fixpoint decode_fuel (fuel : nat) (bs : list N) : option (list N) :=
  match fuel with
  | O => match bs with [] => Some [] | _ => None end
  | S f =>
    match bs with
    | [] => Some []
    | b0 :: r0 =>
      if b0 <? 0x80 then option_map (cons b0) (decode_fuel f r0)
      else if b0 <? 0xC2 then None
      else if b0 <? 0xE0 then
        match r0 with
        | b1 :: r1 => if cont b1 then option_map (cons ((b0 - 0xC0) * 64 + (b1 - 0x80))) (decode_fuel f r1) else None
        | _ => None
        end
      else if b0 <? 0xF0 then
        match r0 with
        | b1 :: b2 :: r2 =>
          let c := (b0 - 0xE0) * 4096 + (b1 - 0x80) * 64 + (b2 - 0x80) in
          if cont b1 && cont b2 && (0x800 <=? c) && scalar c then option_map (cons c) (decode_fuel f r2) else None
        | _ => None
        end
      else if b0 <? 0xF5 then
        match r0 with
        | b1 :: b2 :: b3 :: r3 =>
          let c := (b0 - 0xF0) * 262144 + (b1 - 0x80) * 4096 + (b2 - 0x80) * 64 + (b3 - 0x80) in
          if cont b1 && cont b2 && cont b3 && (0x10000 <=? c) && (c <? 0x110000) then option_map (cons c) (decode_fuel f r3) else None
        | _ => None
        end
      else None
    end
  end.
Definition decode (bs : list N) : option (list N) := decode_fuel (length bs) bs.

(* what a UTF-8 text stream holds after FileWriter.write(line): decode, then the stream's own encoding *)
Definition text_write (line : list N) : option (list N) := option_map encode (decode line).
