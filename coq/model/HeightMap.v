(* Model of gscrib/heightmaps: the path filter (_filter_points, identical in raster and sparse maps), the sparse line
   sampler (numpy.linspace), the raster line sampler (skimage.draw.line = Bresenham), the range/argument-order/scale
   wrappers of get_depth_at, and barycentric interpolation on a GIVEN triangulation (scipy's LinearNDInterpolator with
   fill value 0).  The spline / Delaunay constructions themselves are parameters (Section variables). *)
From Coq Require Import ZArith QArith Qabs Qround Bool List.
From GS Require Import gen.GenTables.
Import ListNotations.
Open Scope Q_scope.

Notation pt3 := (Q * Q * Q)%type (only parsing).
Definition zof (p : pt3) : Q := snd p.
Definition pt_eqb (a b : pt3) : bool :=
  Qeq_bool (fst (fst a)) (fst (fst b)) && Qeq_bool (snd (fst a)) (snd (fst b)) && Qeq_bool (snd a) (snd b).

(* the loop of _filter_points: last_z is the height of the previously kept sample *)
Fixpoint fgo (tol lastz : Q) (pts : list pt3) : list pt3 :=
  match pts with
  | [] => []
  | p :: ps => if Qle_bool tol (Qabs (zof p - lastz)) then p :: fgo tol (zof p) ps else fgo tol lastz ps
  end.

Definition filter_points (tol : Q) (pts : list pt3) : list pt3 :=
  match pts with
  | [] => []                                   (* the implementation raises IndexError; never reached: >= 1 sample *)
  | first :: _ =>
      let kept := first :: fgo tol (zof first) pts in
      let lastp := last pts first in
      if pt_eqb (last kept first) lastp then kept else kept ++ [lastp]
  end.

(* numpy.linspace(a, b, n + 1)[i] *)
Definition linspace (n : nat) (a b : Q) (i : nat) : Q :=
  if Nat.eqb i n then b else a + inject_Z (Z.of_nat i) * ((b - a) / inject_Z (Z.of_nat n)).

Section Sparse.
  Variable depth : Q -> Q -> Q.                (* the map's own get_depth_at *)
  Definition sparse_line (n : nat) (x1 y1 x2 y2 : Q) : list pt3 :=
    map (fun i => let x := linspace n x1 x2 i in let y := linspace n y1 y2 i in (x, y, depth x y)) (seq 0 (S n)).
  Definition sparse_sample_path (tol : Q) (n : nat) (x1 y1 x2 y2 : Q) : list pt3 :=
    filter_points tol (sparse_line n x1 y1 x2 y2).
End Sparse.

(* skimage.draw.line(r0, c0, r1, c1): Bresenham; the major axis advances one pixel per step *)
Fixpoint bres (fuel : nat) (steep : bool) (r c d dr dc sr sc : Z) : list (Z * Z) :=
  match fuel with
  | O => []
  | S f =>
      let out := if steep then (c, r) else (r, c) in
      let '(r', d') := if (0 <=? d)%Z then ((r + sr)%Z, (d - 2 * dc)%Z) else (r, d) in
      out :: bres f steep r' (c + sc)%Z (d' + 2 * dr)%Z dr dc sr sc
  end.

Definition draw_line (r0 c0 r1 c1 : Z) : list (Z * Z) :=
  let dr := Z.abs (r1 - r0) in
  let dc := Z.abs (c1 - c0) in
  let sc := if (0 <? c1 - c0)%Z then 1%Z else (-1)%Z in
  let sr := if (0 <? r1 - r0)%Z then 1%Z else (-1)%Z in
  (if (dc <? dr)%Z
   then bres (Z.to_nat dr) true c0 r0 (2 * dc - dr) dc dr sc sr
   else bres (Z.to_nat dc) false r0 c0 (2 * dr - dc) dr dc sr sc) ++ [(r1, c1)].

(* Python's round(): half to even *)
Definition py_round (q : Q) : Z :=
  let f := Qfloor q in
  let r := q - inject_Z f in
  match Qcompare r (1 # 2) with
  | Lt => f
  | Gt => (f + 1)%Z
  | Eq => if Z.even f then f else (f + 1)%Z
  end.

Section Raster.
  Variables (width height : Z) (scale : Q).
  Variable interp : Q -> Q -> Q.               (* the spline, called as interpolator(y, x) *)
  Definition raster_depth (x y : Q) : Q :=
    if Qlt_le_dec x 0 then 0 else if Qlt_le_dec x (inject_Z width) then
      (if Qlt_le_dec y 0 then 0 else if Qlt_le_dec y (inject_Z height) then scale * interp y x else 0)
    else 0.
  Definition raster_line (x1 y1 x2 y2 : Q) : list pt3 :=
    map (fun rc => let x := inject_Z (fst rc) in let y := inject_Z (snd rc) in (x, y, raster_depth x y))
        (draw_line (py_round x1) (py_round y1) (py_round x2) (py_round y2)).
  Definition raster_sample_path (tol x1 y1 x2 y2 : Q) : list pt3 := filter_points tol (raster_line x1 y1 x2 y2).
End Raster.

(* the normalisation of pixel values *)
Definition normalise (sixteen : bool) (v : Z) : Q := inject_Z v / (if sixteen then uint16_max else uint8_max).

(* barycentric interpolation on a given list of triangles (vertices with their heights); fill value 0 *)
Record vtx := { vx : Q; vy : Q; vz : Q }.
Definition det2 (ax ay bx by_ : Q) : Q := ax * by_ - ay * bx.
Definition bary (a b c : vtx) (x y : Q) : option (Q * Q * Q) :=
  let dd := det2 (vx b - vx a) (vy b - vy a) (vx c - vx a) (vy c - vy a) in
  if Qeq_bool dd 0 then None else
  let w1 := det2 (x - vx a) (y - vy a) (vx c - vx a) (vy c - vy a) / dd in      (* weight of b *)
  let w2 := det2 (vx b - vx a) (vy b - vy a) (x - vx a) (y - vy a) / dd in      (* weight of c *)
  let w0 := 1 - w1 - w2 in
  if Qle_bool 0 w0 && Qle_bool 0 w1 && Qle_bool 0 w2 then Some (w0, w1, w2) else None.

Fixpoint tri_interp (tris : list (vtx * vtx * vtx)) (x y : Q) : Q :=
  match tris with
  | [] => 0
  | (a, b, c) :: rest =>
      match bary a b c x y with
      | Some (w0, w1, w2) => w0 * vz a + w1 * vz b + w2 * vz c
      | None => tri_interp rest x y
      end
  end.
Definition sparse_depth (scale : Q) (tris : list (vtx * vtx * vtx)) (x y : Q) : Q := scale * tri_interp tris x y.
