(* The reference interpreter, continued (C07): the last value of every move parameter.
   A controller remembers the parameter words of the lines that carry a move or a coordinate
   setting: G0 / G1 / G38.x motion, G92 and G28 -- exactly the calls through which gscrib's
   get_parameter() is fed (GCodeCore._update_axes).  Words on any other line (a bare S or F
   line, M106 P.. S.., M104 S.., halt parameters) are not move parameters. *)
From Coq Require Import ZArith QArith Bool List String.
From GS Require Import model.Num model.Builder model.Interp.
Import ListNotations.
Open Scope string_scope.

Definition carries_params (l : line) : bool :=
  let g := wget "G" l in isq 0 g || isq 1 g || is_probe_q g || isq 92 g || isq 28 g.

(* one line, one letter: the first word with that letter on a carrying line replaces the old value *)
Definition param_line (k : string) (old : option Q) (l : line) : option Q :=
  if carries_params l then keep (wget k l) old else old.
Definition param_lines (k : string) (old : option Q) (ls : list line) : option Q :=
  fold_left (param_line k) ls old.
