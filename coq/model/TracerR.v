(* Real-valued model of the closed-form shape functions of geometry/tracer.py (arc, arc_radius, circle,
   helix, thread, spiral) and of Direction.enforce / full_turn (enums/types/direction.py).
   numpy's arctan2 is defined here from atan by cases (atan2 0 0 = 0, as numpy). *)
From Coq Require Import Reals ZArith.
Open Scope R_scope.

Definition atan2 (y x : R) : R :=
  match Rlt_dec 0 x with
  | left _ => atan (y / x)
  | right _ =>
    match Rlt_dec x 0 with
    | left _ => if Rle_dec 0 y then atan (y / x) + PI else atan (y / x) - PI
    | right _ => if Rlt_dec 0 y then PI / 2 else if Rlt_dec y 0 then - (PI / 2) else 0
    end
  end.

Definition hypot (x y : R) : R := sqrt (x * x + y * y).

Inductive dir := CW | CCW.

(* Direction.enforce *)
Definition enforce (d : dir) (a : R) : R :=
  match d with
  | CW => if Rle_dec 0 a then a - 2 * PI else a
  | CCW => if Rle_dec a 0 then a + 2 * PI else a
  end.
Definition full_turn (d : dir) : R := match d with CW => - (2 * PI) | CCW => 2 * PI end.

(* PathTracer.arc: o = current position, t = absolute target, (cx, cy) = o + center; h = t.z - o.z (0 when the
   target has no z).  arc_* give the point at parameter th *)
Section Arc.
  Variables (d : dir) (ox oy oz tx ty h cx cy : R).
  Definition a_start := atan2 (oy - cy) (ox - cx).
  Definition a_end := atan2 (ty - cy) (tx - cx).
  Definition arc_r := hypot (ox - cx) (oy - cy).
  Definition arc_rt := hypot (tx - cx) (ty - cy).
  Definition arc_total := enforce d (a_end - a_start).
  Definition arc_angle (th : R) := a_start + arc_total * th.
  Definition arc_x (th : R) := cx + arc_r * cos (arc_angle th).
  Definition arc_y (th : R) := cy + arc_r * sin (arc_angle th).
  Definition arc_z (th : R) := oz + th * h.
  Definition arc_length := hypot (arc_r * arc_total) h.

  (* PathTracer.helix: radius varies linearly from |o - c| to |t - c|; turns >= 1 *)
  Variable turns : Z.
  Definition hx_total := enforce d (a_end - a_start) + full_turn d * (IZR turns - 1).
  Definition hx_radius (th : R) := arc_r + (arc_rt - arc_r) * th.
  Definition hx_angle (th : R) := a_start + hx_total * th.
  Definition hx_x (th : R) := cx + hx_radius th * cos (hx_angle th).
  Definition hx_y (th : R) := cy + hx_radius th * sin (hx_angle th).
End Arc.

(* PathTracer.arc_radius: the centre chosen for a signed radius rad and a direction; dist = |t - o|_xy > 0,
   |rad| >= dist / 2 (the implementation snaps |rad| to dist/2 when it is smaller by at most 0.01) *)
Section ArcRadius.
  Variables (d : dir) (ox oy tx ty rad : R).
  Definition ar_dist := hypot (tx - ox) (ty - oy).
  Definition ar_height := sqrt (Rabs rad * Rabs rad - (ar_dist / 2) * (ar_dist / 2)).
  (* is_clockwise == (radius > 0) *)
  Definition ar_side : R :=
    match d with
    | CW => if Rlt_dec 0 rad then 1 else -1
    | CCW => if Rlt_dec 0 rad then -1 else 1
    end.
  Definition ar_cx := (tx + ox) / 2 + ar_side * ar_height * (ty - oy) / ar_dist.
  Definition ar_cy := (ty + oy) / 2 - ar_side * ar_height * (tx - ox) / ar_dist.
End ArcRadius.

(* PathTracer.thread (after the repair): the centre is the midpoint of start and target *)
Definition th_cx (ox tx : R) := ox + (tx - ox) / 2.
Definition th_cy (oy ty : R) := oy + (ty - oy) / 2.
