(* Model of gscrib/printrun/device.py: Device._readline_buf / Device._readline_socket.
   Bytes are [N]; the newline byte is 10.  The environment is the scripted socket file
   (a list of read results) and the selector (a list of booleans).  When the script is
   exhausted the socket file reports end-of-stream, the selector reports a timeout. *)
From Coq Require Import List NArith Bool.
Import ListNotations.
Open Scope N_scope.

Notation bytes := (list N) (only parsing).
Definition NL : N := 10.

Inductive rd := Chunk (c : bytes) | Again | Eof.

(* what readline() hands back: READ_EMPTY (b''), a line, or READ_EOF (None) *)
Inductive res := REmpty | RLine (l : bytes) | REof | RFuel.

Record env := { reads : list rd; selects : list bool }.

(* bytes.find(b'\n') : index of the first newline *)
Fixpoint find_nl (c : bytes) : option nat :=
  match c with
  | [] => None
  | b :: c' => if N.eqb b NL then Some O
               else match find_nl c' with Some i => Some (S i) | None => None end
  end.

(* Device._readline_buf *)
Definition readline_buf (buf : list bytes) : option bytes * list bytes :=
  match buf with
  | [] => (None, buf)
  | _ =>
    let chunk := last buf [] in
    match find_nl chunk with
    | Some eol =>
        let line := concat (removelast buf) ++ firstn (S eol) chunk in
        let rest := skipn (S eol) chunk in
        (Some line, match rest with [] => [] | _ => [rest] end)
    | None => (None, buf)
    end
  end.

Definition read1 (e : env) : rd * env :=
  match reads e with
  | [] => (Eof, e)
  | r :: rs => (r, {| reads := rs; selects := selects e |})
  end.

Definition select1 (e : env) : bool * env :=
  match selects e with
  | [] => (false, e)
  | b :: bs => (b, {| reads := reads e; selects := bs |})
  end.

(* chunk = read(n); if chunk is None and select(timeout): chunk = read(n) *)
Definition pull (e : env) : rd * env :=
  let (r, e1) := read1 e in
  match r with
  | Again => let (ready, e2) := select1 e1 in
             if ready then read1 e2 else (Again, e2)
  | _ => (r, e1)
  end.

(* the while-True loop of Device._readline_socket *)
Fixpoint sock_loop (fuel : nat) (buf : list bytes) (e : env) : res * list bytes * env :=
  match fuel with
  | O => (RFuel, buf, e)
  | S fuel' =>
    let (r, e') := pull e in
    match r with
    | Chunk (b :: c) =>
        let buf' := buf ++ [b :: c] in
        match readline_buf buf' with
        | (Some l, buf'') => (RLine l, buf'', e')
        | (None, _) => sock_loop fuel' buf' e'
        end
    | Again => (REmpty, buf, e')
    | Chunk [] | Eof =>
        match concat buf with
        | [] => (REof, [], e')
        | l => (RLine l, [], e')
        end
    end
  end.

(* Device._readline_socket *)
Definition readline_socket (buf : list bytes) (e : env) : res * list bytes * env :=
  match readline_buf buf with
  | (Some (b :: l), buf') => (RLine (b :: l), buf', e)
  | _ => sock_loop (S (length (reads e))) buf e
  end.

(* k successive readline() calls, stopping at READ_EOF *)
Fixpoint session (k : nat) (buf : list bytes) (e : env) : list res * list bytes * env :=
  match k with
  | O => ([], buf, e)
  | S k' =>
    match readline_socket buf e with
    | (REof, buf', e') => ([REof], buf', e')
    | (r, buf', e') =>
        let '(rs, buf'', e'') := session k' buf' e' in (r :: rs, buf'', e'')
    end
  end.

Definition line_of (r : res) : bytes := match r with RLine l => l | _ => [] end.
Definition lines_of (rs : list res) : list bytes :=
  filter (fun l => match l with [] => false | _ => true end) (map line_of rs).

(* every byte the script still holds *)
Fixpoint data_of (rs : list rd) : bytes :=
  match rs with
  | [] => []
  | Chunk c :: rs' => c ++ data_of rs'
  | _ :: rs' => data_of rs'
  end.

(* the specification: cut a byte stream after each newline *)
Fixpoint cut_aux (cur : bytes) (s : bytes) : list bytes :=
  match s with
  | [] => match cur with [] => [] | _ => [rev cur] end
  | b :: s' => if N.eqb b NL then rev (b :: cur) :: cut_aux [] s'
               else cut_aux (b :: cur) s'
  end.
Definition cut (s : bytes) : list bytes := cut_aux [] s.
