(* Executable model of gscrib.GCodeBuilder (gcode_builder.py on top of gcode_core.py and
   gcode_state.py).  One [step] per public call; the order of effects inside each call is
   the order in the code (state setter -> format -> commit -> write, or whatever order the
   method uses), because C05 is about exactly that.  Output is abstract: one [line] per
   emitted statement, a list of (address letters, value) words; comments carry no words.
   Text formatting is modelled separately (model/Formatter.v).

   Context managers are flattened: [EnterAbs]/[EnterRel] push the previous mode and switch,
   [ExitMode] is the generator's finally-block.  A with-block whose body raises is the same
   sequence of effects (contextlib runs the finally either way). *)
From Coq Require Import ZArith QArith Qround Bool List String.
From GS Require Import gen.GenTables model.Num.
Import ListNotations.
Open Scope string_scope.
Open Scope list_scope.

(* ---------------------------------------------------------------- enums *)
Inductive dmode := Absolute | Relative.
Inductive emode := EAbsolute | ERelative.
Inductive fmode := PerMinute | PerRev | InvTime.
Inductive units := Inches | Millimeters.
Inductive plane := XY | ZX | YZ.
Inductive tunits := Seconds | Milliseconds.
Inductive kunits := Celsius | Kelvin.
Inductive spin := SpinOff | SpinCW | SpinCCW.
Inductive power := PowOff | PowConst | PowDyn.
Inductive swap := SwapOff | SwapManual | SwapAuto.
Inductive coolant := CoolOff | CoolMist | CoolFlood.
Inductive halt := HaltOff | HPause | HOptPause | HEnd | HEndReset | HPallet
                | HWaitBed | HWaitHotend | HWaitChamber | HWaitMotion.
Inductive probing := PAway | PTowards | PAwayNoErr | PTowardsNoErr.
Inductive query := QPosition | QTemperature.
Inductive mkind := Linear | Rapid.
(* an enum-valued argument: a member, or a string that names no member (ValueError) *)
Inductive arg (A : Type) := Member (a : A) | BadName.
Arguments Member {A} a. Arguments BadName {A}.

Definition lookup (cls mem : string) : option (string * Q) :=
  match find (fun r => match r with (c, m, _, _) => andb (String.eqb c cls) (String.eqb m mem) end)
             gcode_words with
  | Some (_, _, l, v) => Some (l, v)
  | None => None
  end.
Notation word := (string * Q)%type (only parsing).
Definition instr (cls mem : string) : word :=
  match lookup cls mem with Some w => w | None => ("?", 0%Q) end.

Definition i_move (k : mkind) : word :=
  instr "PositioningMode" (match k with Linear => "LINEAR" | Rapid => "RAPID" end).
Definition i_offset : word := instr "PositioningMode" "OFFSET".
Definition i_home : word := instr "PositioningMode" "HOME".
Definition i_probe (p : probing) : word :=
  instr "ProbingMode" (match p with PAway => "AWAY" | PTowards => "TOWARDS"
                                  | PAwayNoErr => "AWAY_NO_ERROR" | PTowardsNoErr => "TOWARDS_NO_ERROR" end).
Definition i_units (u : units) : word :=
  instr "LengthUnits" (match u with Inches => "INCHES" | Millimeters => "MILLIMETERS" end).
Definition i_dmode (d : dmode) : word :=
  instr "DistanceMode" (match d with Absolute => "ABSOLUTE" | Relative => "RELATIVE" end).
Definition i_emode (d : emode) : word :=
  instr "ExtrusionMode" (match d with EAbsolute => "ABSOLUTE" | ERelative => "RELATIVE" end).
Definition i_fmode (d : fmode) : word :=
  instr "FeedMode" (match d with PerMinute => "UNITS_PER_MINUTE" | PerRev => "UNITS_PER_REVOLUTION"
                               | InvTime => "INVERSE_TIME" end).
Definition i_spin (s : spin) : word :=
  instr "SpinMode" (match s with SpinOff => "OFF" | SpinCW => "CLOCKWISE" | SpinCCW => "COUNTER" end).
Definition i_power (s : power) : word :=
  instr "PowerMode" (match s with PowOff => "OFF" | PowConst => "CONSTANT" | PowDyn => "DYNAMIC" end).
Definition i_swap (s : swap) : word :=
  instr "ToolSwapMode" (match s with SwapOff => "OFF" | SwapManual => "MANUAL" | SwapAuto => "AUTOMATIC" end).
Definition i_coolant (s : coolant) : word :=
  instr "CoolantMode" (match s with CoolOff => "OFF" | CoolMist => "MIST" | CoolFlood => "FLOOD" end).
Definition i_fan (on : bool) : word := instr "FanMode" (if on then "COOLING" else "OFF").
Definition kname (k : kunits) := match k with Celsius => "CELSIUS" | Kelvin => "KELVIN" end.
Definition i_bed (k : kunits) : word := instr "BedTemperature" (kname k).
Definition i_hotend (k : kunits) : word := instr "HotendTemperature" (kname k).
Definition i_chamber (k : kunits) : word := instr "ChamberTemperature" (kname k).
Definition i_plane (p : plane) : word :=
  instr "Plane" (match p with XY => "XY" | ZX => "ZX" | YZ => "YZ" end).
Definition i_sleep (t : tunits) : word :=
  instr "TimeUnits" (match t with Seconds => "SECONDS" | Milliseconds => "MILLISECONDS" end).
Definition i_query (q : query) : word :=
  instr "QueryMode" (match q with QPosition => "POSITION" | QTemperature => "TEMPERATURE" end).
Definition hname (h : halt) : string :=
  match h with HaltOff => "OFF" | HPause => "PAUSE" | HOptPause => "OPTIONAL_PAUSE"
  | HEnd => "END_WITHOUT_RESET" | HEndReset => "END_WITH_RESET" | HPallet => "PALLET_EXCHANGE"
  | HWaitBed => "WAIT_FOR_BED" | HWaitHotend => "WAIT_FOR_HOTEND"
  | HWaitChamber => "WAIT_FOR_CHAMBER" | HWaitMotion => "WAIT_FOR_MOTION" end.
Definition i_halt (h : halt) : word := instr "HaltMode" (hname h).

(* ---------------------------------------------------------------- points *)
Record point := mkpt { px : option Q; py : option Q; pz : option Q }.
Definition unknown := mkpt None None None.
Definition zero := mkpt (Some 0%Q) (Some 0%Q) (Some 0%Q).
Definition res1 (c : option Q) : Q := match c with Some q => q | None => 0%Q end.
Definition resolve (p : point) : point :=
  mkpt (Some (res1 (px p))) (Some (res1 (py p))) (Some (res1 (pz p))).
Definition rep1 (c n : option Q) := match n with Some _ => n | None => c end.
Definition replace (p n : point) : point :=
  mkpt (rep1 (px p) (px n)) (rep1 (py p) (py n)) (rep1 (pz p) (pz n)).
Definition mask1 (c n : option Q) : option Q := match n with Some _ => None | None => c end.
Definition mask (p n : point) : point :=
  mkpt (mask1 (px p) (px n)) (mask1 (py p) (py n)) (mask1 (pz p) (pz n)).
Definition lift2 (f : Q -> Q -> Q) (a b : option Q) : option Q := Some (f (res1 a) (res1 b)).
Definition padd (a b : point) : point :=
  mkpt (lift2 qadd (px a) (px b)) (lift2 qadd (py a) (py b)) (lift2 qadd (pz a) (pz b)).
Definition psub (a b : point) : point :=
  mkpt (lift2 qsub (px a) (px b)) (lift2 qsub (py a) (py b)) (lift2 qsub (pz a) (pz b)).
Definition is_unknown (p : point) : bool :=
  match px p, py p, pz p with None, None, None => true | _, _, _ => false end.

(* a requested coordinate triple as given by the caller: absent, or a number *)
Record req := mkreq { rx : option xnum; ry : option xnum; rz : option xnum }.
Definition rq1 (c : option xnum) : option Q := match c with Some x => Some (xq x) | None => None end.
Definition req_point (r : req) : point := mkpt (rq1 (rx r)) (rq1 (ry r)) (rq1 (rz r)).
Definition fin1 (c : option xnum) : bool := match c with Some x => xfinite x | None => true end.
Definition req_finite (r : req) : bool := fin1 (rx r) && fin1 (ry r) && fin1 (rz r).

(* affine transform: row-major 3x3 linear part and translation *)
Record affine := mkaff { a11 : Q; a12 : Q; a13 : Q; a21 : Q; a22 : Q; a23 : Q;
                         a31 : Q; a32 : Q; a33 : Q; t1 : Q; t2 : Q; t3 : Q }.
Definition aff_id := mkaff 1 0 0 0 1 0 0 0 1 0 0 0.
Definition q3 (a b c d x y z : Q) : Q := Qred (a * x + b * y + c * z + d).
Definition aff_apply (m : affine) (p : point) : point :=
  let x := res1 (px p) in let y := res1 (py p) in let z := res1 (pz p) in
  mkpt (Some (q3 (a11 m) (a12 m) (a13 m) (t1 m) x y z))
       (Some (q3 (a21 m) (a22 m) (a23 m) (t2 m) x y z))
       (Some (q3 (a31 m) (a32 m) (a33 m) (t3 m) x y z)).

(* ---------------------------------------------------------------- state *)
Definition params := list (string * xnum).        (* non-axis words, caller's order, upper case *)
Record bounds := mkbounds {
  b_axes : option (point * point);
  b_bed : option (Q * Q); b_chamber : option (Q * Q); b_hotend : option (Q * Q);
  b_feed : option (Q * Q); b_toolnum : option (Q * Q); b_power : option (Q * Q) }.
Definition no_bounds := mkbounds None None None None None None None.

Inductive hook :=
| HRecord (id : nat)                          (* returns params unchanged *)
| HSet (id : nat) (k : string) (v : xnum)     (* params.update(k=v) *)
| HExtrude (id : nat) (area cross : Q)        (* bundled extrusion hook: area = nozzle*layer *)
| HDrop (id : nat) (k : string).             (* returns a NEW mapping without k: the word is neither emitted nor remembered *)
Definition hook_id (h : hook) : nat :=
  match h with HRecord i | HSet i _ _ | HExtrude i _ _ | HDrop i _ => i end.

Record st := mkst {
  pos : point;            (* GCodeCore._current_axes *)
  cparams : list (string * option xnum);  (* remembered move parameters (shared dict), X/Y/Z included *)
  dm : dmode;             (* GCodeCore._distance_mode *)
  modes : list dmode;     (* open absolute_mode()/relative_mode() contexts: mode to restore *)
  tf : affine;            (* current coordinate transform *)
  hooks : list hook;
  (* GState *)
  spos : point; sdm : dmode; bnd : bounds;
  toolnum : Z; tpower : xnum; feed : xnum;
  spinm : spin; powerm : power; coolm : coolant; swapm : swap; haltm : halt;
  em : emode; fm : fmode; lu : units; tu : tunits; ku : kunits; pl : plane;
  tool_on : bool; cool_on : bool;
  t_hotend : xnum; t_bed : xnum; t_chamber : xnum }.

Definition init : st :=
  mkst unknown [] Absolute [] aff_id []
       zero Absolute no_bounds
       default_tool_number (Fin default_tool_power) (Fin default_feed_rate)
       SpinOff PowOff CoolOff SwapOff HaltOff
       EAbsolute PerMinute Millimeters Seconds Celsius XY
       false false NInf NInf NInf.

Inductive err := ValueErr | ToolStateErr | CoolantStateErr | KeyErr | IndexErr.
Notation line := (list (string * Q)) (only parsing).
Inductive hookcall := HookCall (id : nat) (origin target : point).
(* result of a call: new state, emitted lines, hook invocations, exception *)
Definition res := (st * list line * list hookcall * option err)%type.

(* record update helpers (one per field that changes) *)
Definition set_pos s v := mkst v (cparams s) (dm s) (modes s) (tf s) (hooks s) (spos s) (sdm s) (bnd s) (toolnum s) (tpower s) (feed s) (spinm s) (powerm s) (coolm s) (swapm s) (haltm s) (em s) (fm s) (lu s) (tu s) (ku s) (pl s) (tool_on s) (cool_on s) (t_hotend s) (t_bed s) (t_chamber s).
Definition set_cparams s v := mkst (pos s) v (dm s) (modes s) (tf s) (hooks s) (spos s) (sdm s) (bnd s) (toolnum s) (tpower s) (feed s) (spinm s) (powerm s) (coolm s) (swapm s) (haltm s) (em s) (fm s) (lu s) (tu s) (ku s) (pl s) (tool_on s) (cool_on s) (t_hotend s) (t_bed s) (t_chamber s).
Definition set_dm s v := mkst (pos s) (cparams s) v (modes s) (tf s) (hooks s) (spos s) (sdm s) (bnd s) (toolnum s) (tpower s) (feed s) (spinm s) (powerm s) (coolm s) (swapm s) (haltm s) (em s) (fm s) (lu s) (tu s) (ku s) (pl s) (tool_on s) (cool_on s) (t_hotend s) (t_bed s) (t_chamber s).
Definition set_modes s v := mkst (pos s) (cparams s) (dm s) v (tf s) (hooks s) (spos s) (sdm s) (bnd s) (toolnum s) (tpower s) (feed s) (spinm s) (powerm s) (coolm s) (swapm s) (haltm s) (em s) (fm s) (lu s) (tu s) (ku s) (pl s) (tool_on s) (cool_on s) (t_hotend s) (t_bed s) (t_chamber s).
Definition set_tf s v := mkst (pos s) (cparams s) (dm s) (modes s) v (hooks s) (spos s) (sdm s) (bnd s) (toolnum s) (tpower s) (feed s) (spinm s) (powerm s) (coolm s) (swapm s) (haltm s) (em s) (fm s) (lu s) (tu s) (ku s) (pl s) (tool_on s) (cool_on s) (t_hotend s) (t_bed s) (t_chamber s).
Definition set_hooks s v := mkst (pos s) (cparams s) (dm s) (modes s) (tf s) v (spos s) (sdm s) (bnd s) (toolnum s) (tpower s) (feed s) (spinm s) (powerm s) (coolm s) (swapm s) (haltm s) (em s) (fm s) (lu s) (tu s) (ku s) (pl s) (tool_on s) (cool_on s) (t_hotend s) (t_bed s) (t_chamber s).
Definition set_spos s v := mkst (pos s) (cparams s) (dm s) (modes s) (tf s) (hooks s) v (sdm s) (bnd s) (toolnum s) (tpower s) (feed s) (spinm s) (powerm s) (coolm s) (swapm s) (haltm s) (em s) (fm s) (lu s) (tu s) (ku s) (pl s) (tool_on s) (cool_on s) (t_hotend s) (t_bed s) (t_chamber s).
Definition set_sdm s v := mkst (pos s) (cparams s) (dm s) (modes s) (tf s) (hooks s) (spos s) v (bnd s) (toolnum s) (tpower s) (feed s) (spinm s) (powerm s) (coolm s) (swapm s) (haltm s) (em s) (fm s) (lu s) (tu s) (ku s) (pl s) (tool_on s) (cool_on s) (t_hotend s) (t_bed s) (t_chamber s).
Definition set_bnd s v := mkst (pos s) (cparams s) (dm s) (modes s) (tf s) (hooks s) (spos s) (sdm s) v (toolnum s) (tpower s) (feed s) (spinm s) (powerm s) (coolm s) (swapm s) (haltm s) (em s) (fm s) (lu s) (tu s) (ku s) (pl s) (tool_on s) (cool_on s) (t_hotend s) (t_bed s) (t_chamber s).
Definition set_toolnum s v := mkst (pos s) (cparams s) (dm s) (modes s) (tf s) (hooks s) (spos s) (sdm s) (bnd s) v (tpower s) (feed s) (spinm s) (powerm s) (coolm s) (swapm s) (haltm s) (em s) (fm s) (lu s) (tu s) (ku s) (pl s) (tool_on s) (cool_on s) (t_hotend s) (t_bed s) (t_chamber s).
Definition set_tpower s v := mkst (pos s) (cparams s) (dm s) (modes s) (tf s) (hooks s) (spos s) (sdm s) (bnd s) (toolnum s) v (feed s) (spinm s) (powerm s) (coolm s) (swapm s) (haltm s) (em s) (fm s) (lu s) (tu s) (ku s) (pl s) (tool_on s) (cool_on s) (t_hotend s) (t_bed s) (t_chamber s).
Definition set_feed s v := mkst (pos s) (cparams s) (dm s) (modes s) (tf s) (hooks s) (spos s) (sdm s) (bnd s) (toolnum s) (tpower s) v (spinm s) (powerm s) (coolm s) (swapm s) (haltm s) (em s) (fm s) (lu s) (tu s) (ku s) (pl s) (tool_on s) (cool_on s) (t_hotend s) (t_bed s) (t_chamber s).
Definition set_spinm s v := mkst (pos s) (cparams s) (dm s) (modes s) (tf s) (hooks s) (spos s) (sdm s) (bnd s) (toolnum s) (tpower s) (feed s) v (powerm s) (coolm s) (swapm s) (haltm s) (em s) (fm s) (lu s) (tu s) (ku s) (pl s) (tool_on s) (cool_on s) (t_hotend s) (t_bed s) (t_chamber s).
Definition set_powerm s v := mkst (pos s) (cparams s) (dm s) (modes s) (tf s) (hooks s) (spos s) (sdm s) (bnd s) (toolnum s) (tpower s) (feed s) (spinm s) v (coolm s) (swapm s) (haltm s) (em s) (fm s) (lu s) (tu s) (ku s) (pl s) (tool_on s) (cool_on s) (t_hotend s) (t_bed s) (t_chamber s).
Definition set_coolm s v := mkst (pos s) (cparams s) (dm s) (modes s) (tf s) (hooks s) (spos s) (sdm s) (bnd s) (toolnum s) (tpower s) (feed s) (spinm s) (powerm s) v (swapm s) (haltm s) (em s) (fm s) (lu s) (tu s) (ku s) (pl s) (tool_on s) (cool_on s) (t_hotend s) (t_bed s) (t_chamber s).
Definition set_swapm s v := mkst (pos s) (cparams s) (dm s) (modes s) (tf s) (hooks s) (spos s) (sdm s) (bnd s) (toolnum s) (tpower s) (feed s) (spinm s) (powerm s) (coolm s) v (haltm s) (em s) (fm s) (lu s) (tu s) (ku s) (pl s) (tool_on s) (cool_on s) (t_hotend s) (t_bed s) (t_chamber s).
Definition set_haltm s v := mkst (pos s) (cparams s) (dm s) (modes s) (tf s) (hooks s) (spos s) (sdm s) (bnd s) (toolnum s) (tpower s) (feed s) (spinm s) (powerm s) (coolm s) (swapm s) v (em s) (fm s) (lu s) (tu s) (ku s) (pl s) (tool_on s) (cool_on s) (t_hotend s) (t_bed s) (t_chamber s).
Definition set_em s v := mkst (pos s) (cparams s) (dm s) (modes s) (tf s) (hooks s) (spos s) (sdm s) (bnd s) (toolnum s) (tpower s) (feed s) (spinm s) (powerm s) (coolm s) (swapm s) (haltm s) v (fm s) (lu s) (tu s) (ku s) (pl s) (tool_on s) (cool_on s) (t_hotend s) (t_bed s) (t_chamber s).
Definition set_fm s v := mkst (pos s) (cparams s) (dm s) (modes s) (tf s) (hooks s) (spos s) (sdm s) (bnd s) (toolnum s) (tpower s) (feed s) (spinm s) (powerm s) (coolm s) (swapm s) (haltm s) (em s) v (lu s) (tu s) (ku s) (pl s) (tool_on s) (cool_on s) (t_hotend s) (t_bed s) (t_chamber s).
Definition set_lu s v := mkst (pos s) (cparams s) (dm s) (modes s) (tf s) (hooks s) (spos s) (sdm s) (bnd s) (toolnum s) (tpower s) (feed s) (spinm s) (powerm s) (coolm s) (swapm s) (haltm s) (em s) (fm s) v (tu s) (ku s) (pl s) (tool_on s) (cool_on s) (t_hotend s) (t_bed s) (t_chamber s).
Definition set_tu s v := mkst (pos s) (cparams s) (dm s) (modes s) (tf s) (hooks s) (spos s) (sdm s) (bnd s) (toolnum s) (tpower s) (feed s) (spinm s) (powerm s) (coolm s) (swapm s) (haltm s) (em s) (fm s) (lu s) v (ku s) (pl s) (tool_on s) (cool_on s) (t_hotend s) (t_bed s) (t_chamber s).
Definition set_ku s v := mkst (pos s) (cparams s) (dm s) (modes s) (tf s) (hooks s) (spos s) (sdm s) (bnd s) (toolnum s) (tpower s) (feed s) (spinm s) (powerm s) (coolm s) (swapm s) (haltm s) (em s) (fm s) (lu s) (tu s) v (pl s) (tool_on s) (cool_on s) (t_hotend s) (t_bed s) (t_chamber s).
Definition set_pl s v := mkst (pos s) (cparams s) (dm s) (modes s) (tf s) (hooks s) (spos s) (sdm s) (bnd s) (toolnum s) (tpower s) (feed s) (spinm s) (powerm s) (coolm s) (swapm s) (haltm s) (em s) (fm s) (lu s) (tu s) (ku s) v (tool_on s) (cool_on s) (t_hotend s) (t_bed s) (t_chamber s).
Definition set_tool_on s v := mkst (pos s) (cparams s) (dm s) (modes s) (tf s) (hooks s) (spos s) (sdm s) (bnd s) (toolnum s) (tpower s) (feed s) (spinm s) (powerm s) (coolm s) (swapm s) (haltm s) (em s) (fm s) (lu s) (tu s) (ku s) (pl s) v (cool_on s) (t_hotend s) (t_bed s) (t_chamber s).
Definition set_cool_on s v := mkst (pos s) (cparams s) (dm s) (modes s) (tf s) (hooks s) (spos s) (sdm s) (bnd s) (toolnum s) (tpower s) (feed s) (spinm s) (powerm s) (coolm s) (swapm s) (haltm s) (em s) (fm s) (lu s) (tu s) (ku s) (pl s) (tool_on s) v (t_hotend s) (t_bed s) (t_chamber s).
Definition set_t_hotend s v := mkst (pos s) (cparams s) (dm s) (modes s) (tf s) (hooks s) (spos s) (sdm s) (bnd s) (toolnum s) (tpower s) (feed s) (spinm s) (powerm s) (coolm s) (swapm s) (haltm s) (em s) (fm s) (lu s) (tu s) (ku s) (pl s) (tool_on s) (cool_on s) v (t_bed s) (t_chamber s).
Definition set_t_bed s v := mkst (pos s) (cparams s) (dm s) (modes s) (tf s) (hooks s) (spos s) (sdm s) (bnd s) (toolnum s) (tpower s) (feed s) (spinm s) (powerm s) (coolm s) (swapm s) (haltm s) (em s) (fm s) (lu s) (tu s) (ku s) (pl s) (tool_on s) (cool_on s) (t_hotend s) v (t_chamber s).
Definition set_t_chamber s v := mkst (pos s) (cparams s) (dm s) (modes s) (tf s) (hooks s) (spos s) (sdm s) (bnd s) (toolnum s) (tpower s) (feed s) (spinm s) (powerm s) (coolm s) (swapm s) (haltm s) (em s) (fm s) (lu s) (tu s) (ku s) (pl s) (tool_on s) (cool_on s) (t_hotend s) (t_bed s) v.

(* ---------------------------------------------------------------- bounds *)
Definition in_range (b : option (Q * Q)) (x : xnum) : bool :=
  match b with
  | None => true
  | Some (lo, hi) => xle (Fin lo) x && xle x (Fin hi)
  end.
Definition in1 (v lo hi : option Q) : bool :=
  match v, lo, hi with
  | Some x, Some a, Some b => qleb a x && qleb x b
  | _, _, _ => true
  end.
(* Point.within_bounds: unknown coordinates are ignored *)
Definition within (b : option (point * point)) (p : point) : bool :=
  match b with
  | None => true
  | Some (lo, hi) => in1 (px p) (px lo) (px hi) && in1 (py p) (py lo) (py hi) && in1 (pz p) (pz lo) (pz hi)
  end.

Inductive bname := BAxes | BBed | BChamber | BHotend | BFeed | BToolnum | BPower | BUnknown.

(* ---------------------------------------------------------------- small steps *)
Definition ok (s : st) (ls : list line) : res := (s, ls, [], None).
Definition fail (s : st) (ls : list line) (e : err) : res := (s, ls, [], Some e).

(* GState._set_feed_rate / _set_tool_power: bounds, then negativity, then assign *)
Definition try_feed (s : st) (x : xnum) : st + err :=
  if negb (in_range (b_feed (bnd s)) x) then inr ValueErr
  else if xlt x (Fin 0) then inr ValueErr else inl (set_feed s x).
Definition try_power (s : st) (x : xnum) : st + err :=
  if negb (in_range (b_power (bnd s)) x) then inr ValueErr
  else if xlt x (Fin 0) then inr ValueErr else inl (set_tpower s x).

Fixpoint pget (k : string) (ps : params) : option xnum :=
  match ps with
  | [] => None
  | (k', v) :: ps' => if String.eqb k k' then Some v else pget k ps'
  end.
(* dict update keeping first-insertion order *)
Fixpoint pset {A} (k : string) (v : A) (ps : list (string * A)) : list (string * A) :=
  match ps with
  | [] => [(k, v)]
  | (k', v') :: ps' => if String.eqb k k' then (k, v) :: ps' else (k', v') :: pset k v ps'
  end.
Fixpoint cget (k : string) (ps : list (string * option xnum)) : option xnum :=
  match ps with
  | [] => None
  | (k', v) :: ps' => if String.eqb k k' then v else cget k ps'
  end.

(* GCodeBuilder._track_move_params: F first, then S; an accepted F stays when S is rejected *)
Definition track (s : st) (ps : params) : st * option err :=
  match (match pget "F" ps with Some f => try_feed s f | None => inl s end) with
  | inr e => (s, Some e)
  | inl s1 => match pget "S" ps with
              | Some p => match try_power s1 p with inl s2 => (s2, None) | inr e => (s1, Some e) end
              | None => (s1, None)
              end
  end.

Definition params_finite (ps : params) : bool := forallb (fun kv => xfinite (snd kv)) ps.
Definition pwords (dp : nat) (ps : params) : list word :=
  map (fun kv => (fst kv, round_dp dp (xq (snd kv)))) ps.
Definition axis_words (dp : nat) (p : point) : list word :=
  (match px p with Some q => [("X", round_dp dp q)] | None => [] end) ++
  (match py p with Some q => [("Y", round_dp dp q)] | None => [] end) ++
  (match pz p with Some q => [("Z", round_dp dp q)] | None => [] end).
(* DefaultFormatter.parameters: axes first (X, Y, Z), then the other words in dict order *)
Definition move_line (dp : nat) (i : word) (mv : point) (ps : params) : line :=
  i :: axis_words dp mv ++ pwords dp ps.

(* GCodeBuilder.write: reset the halt mode, then emit *)
Definition written (s : st) : st := set_haltm s HaltOff.

(* GCodeCore._update_axes + GCodeBuilder._update_axes *)
Definition remember (s : st) (r : req) (ps : params) : st :=
  let c0 := cparams s in
  let c1 := fold_left (fun c kv => pset (fst kv) (Some (snd kv)) c) ps c0 in
  let c2 := pset "X" (rx r) c1 in let c3 := pset "Y" (ry r) c2 in let c4 := pset "Z" (rz r) c3 in
  set_cparams s c4.
Definition update_axes (s : st) (target : point) (r : req) (ps : params) : st + st :=
  (* inl = committed, inr = core committed but GState._set_axes raised *)
  let s1 := set_pos (remember s r ps) target in
  if within (b_axes (bnd s)) target then inl (set_spos s1 target) else inr s1.

(* to_absolute *)
Definition to_absolute (s : st) (p : point) : point :=
  match dm s with
  | Relative => padd (resolve (pos s)) (resolve p)
  | Absolute => replace (resolve (pos s)) p
  end.
(* to_absolute_list: a sequence of points in the current distance mode to absolute points (polyline / spline arguments):
   relative points accumulate, absolute points replace the coordinates they give *)
Fixpoint abs_list (rel : bool) (cur : point) (pts : list point) : list point :=
  match pts with
  | [] => []
  | p :: pts' => let c := if rel then padd cur (resolve p) else replace cur p in c :: abs_list rel c pts'
  end.
Definition to_absolute_list (s : st) (pts : list point) : list point :=
  abs_list (match dm s with Relative => true | Absolute => false end) (resolve (pos s)) pts.
Definition to_distance_mode (s : st) (p : point) : point :=
  match dm s with
  | Relative => psub (resolve p) (resolve (pos s))
  | Absolute => resolve p
  end.
Definition neq1 (a b : option Q) : bool := negb (qeqb (res1 a) (res1 b)).
Definition comb1 (r o t m : option Q) : option Q :=
  match r with Some _ => m | None => if neq1 o t then m else None end.
(* _transform_move *)
Definition transform_move (s : st) (p : point) : point * point :=
  let cur := resolve (pos s) in
  let target := to_absolute s p in
  let o := aff_apply (tf s) cur in
  let t := aff_apply (tf s) target in
  let mv := match dm s with Relative => psub t o | Absolute => t end in
  (mkpt (comb1 (px p) (px o) (px t) (px mv)) (comb1 (py p) (py o) (py t) (py mv))
        (comb1 (pz p) (pz o) (pz t) (pz mv)), target).

(* hooks *)
(* {k': v for k', v in params.items() if k' != k} *)
Fixpoint premove (k : string) (ps : params) : params :=
  match ps with
  | [] => []
  | (k', v) :: ps' => if String.eqb k k' then premove k ps' else (k', v) :: premove k ps'
  end.

Definition run_hook (s : st) (h : hook) (origin target : point) (ps : params) (esq : Q -> Q) : params :=
  match h with
  | HRecord _ => ps
  | HSet _ k v => pset k v ps
  | HExtrude _ area cross =>
      let dx := qsub (res1 (px target)) (res1 (px origin)) in
      let dy := qsub (res1 (py target)) (res1 (py origin)) in
      let len := esq (qadd (qmul dx dx) (qmul dy dy)) in
      let fl := qdiv (qmul area len) cross in
      let fl' := match em s with
                 | EAbsolute => match cget "E" (cparams s) with
                                | Some e => if xis_zero e then fl else qadd fl (xq e)
                                | None => fl end
                 | ERelative => fl end in
      pset "E" (Fin fl') ps
  | HDrop _ k => premove k ps
  end.

(* square root to 2^-60, the model of math.hypot's value *)
Definition qsqrt (q : Q) : Q :=
  let sc := (2 ^ 120)%Z in
  let n := Qfloor (q * (sc # 1)) in
  Qred (Z.sqrt n # Pos.pow 2 60).

Fixpoint run_hooks (s : st) (hs : list hook) (origin target : point) (ps : params)
  : params * list hookcall :=
  match hs with
  | [] => (ps, [])
  | h :: hs' =>
      let ps' := run_hook s h origin target ps qsqrt in
      let '(ps'', calls) := run_hooks s hs' origin target ps' in
      (ps'', HookCall (hook_id h) origin target :: calls)
  end.

(* _prepare_move / _prepare_rapid followed by _update_axes and write, given the move vector *)
Definition do_move (dp : nat) (k : mkind) (s : st) (r : req) (mv target : point) (ps : params) : res :=
  let '(ps1, calls) :=
    match k, hooks s with
    | Linear, _ :: _ => run_hooks s (hooks s) (resolve (pos s)) (to_absolute s mv) ps
    | _, _ => (ps, [])
    end in
  match track s ps1 with
  | (s1, Some e) => (s1, [], calls, Some e)
  | (s1, None) =>
    if negb (req_finite r && params_finite ps1) then (s1, [], calls, Some ValueErr)
    else match update_axes s1 target r ps1 with
         | inr s2 => (s2, [], calls, Some ValueErr)
         | inl s2 => (written s2, [move_line dp (i_move k) mv ps1], calls, None)
         end
  end.

(* PathTracer.polyline / the emission loop of PathTracer.parametric: each absolute vertex is
   converted with to_distance_mode and handed to move(); the first rejected move ends the call *)
Fixpoint poly_go (dp : nat) (ps : params) (pts : list point) (s : st) (acc : list line)
  (calls : list hookcall) : res :=
  match pts with
  | [] => (s, acc, calls, None)
  | p :: pts' =>
    let q := to_distance_mode s p in
    let r := mkreq (Some (Fin (res1 (px q)))) (Some (Fin (res1 (py q)))) (Some (Fin (res1 (pz q)))) in
    let '(mv, target) := transform_move s q in
    let '(s1, ls, cs, e) := do_move dp Linear s r mv target ps in
    match e with
    | Some _ => (s1, acc ++ ls, calls ++ cs, e)
    | None => poly_go dp ps pts' s1 (acc ++ ls) (calls ++ cs)
    end
  end.

Definition set_distance (s : st) (d : dmode) : st * line :=
  (written (set_sdm (set_dm s d) d), [i_dmode d]).

(* ---------------------------------------------------------------- commands *)
Inductive cmd :=
| Move (k : mkind) (r : req) (ps : params)
| MoveAbs (k : mkind) (r : req) (ps : params)
| SetAxis (r : req) (ps : params)
| Home (r : req) (ps : params)
| Probe (m : arg probing) (r : req) (ps : params)
| Polyline (pts : list point) (ps : params)       (* tracer: absolute vertices *)
| SetDistance (m : arg dmode)
| EnterAbs | EnterRel | ExitMode
| SetExtrusion (m : arg emode) | SetFeedMode (m : arg fmode) | SetUnits (m : arg units)
| SetPlane (m : arg plane) | SetTimeUnits (m : arg tunits) | SetTempUnits (m : arg kunits)
| SetFeed (x : xnum) | SetPower (x : xnum) | SetFan (speed : xnum) (fan : Z)
| SetBedT (x : xnum) | SetHotendT (x : xnum) | SetChamberT (x : xnum)
| Sleep (x : xnum)
| ToolOn (m : arg spin) (x : xnum) | ToolOff
| PowerOn (m : arg power) (x : xnum) | PowerOff
| ToolChange (m : arg swap) (n : Z)
| CoolantOn (m : arg coolant) | CoolantOff
| Halt (m : arg halt) (ps : params)
| EmergencyHalt (reset : bool)
| Query (m : arg query)
| Comment | Annotate (valid_key : bool)
| SetBounds (n : bname) (lo hi : point) (slo shi : xnum)
| AddHook (h : hook) | RemoveHook (id : nat)
| SetTransform (m : affine).

Definition digits_len (n : Z) : nat :=
  (* len(str(n)) for n >= 1 *)
  let fix go (fuel : nat) (n : Z) : nat :=
    match fuel with O => 1%nat | S f => if (n <? 10)%Z then 1%nat else S (go f (n / 10)%Z) end
  in go 40%nat n.

Definition tool_off (s : st) : st :=
  set_spinm (set_tool_on (set_tpower (set_powerm s PowOff) (Fin 0)) false) SpinOff.
Definition power_off (s : st) : st :=
  set_powerm (set_tool_on (set_tpower (set_spinm s SpinOff) (Fin 0)) false) PowOff.
Definition coolant_off (s : st) : st := set_coolm (set_cool_on s false) CoolOff.

Definition is_wait_temp (h : halt) : bool :=
  match h with HWaitBed | HWaitHotend | HWaitChamber => true | _ => false end.

(* GState._set_halt_mode for a mode other than OFF *)
Definition try_halt (s : st) (h : halt) : st + err :=
  if tool_on s then inr ToolStateErr
  else if cool_on s then inr CoolantStateErr else inl (set_haltm s h).

Definition halt_cmd (dp : nat) (s : st) (h : halt) (ps : params) : res :=
  match try_halt s h with
  | inr e => fail s [] e
  | inl s1 =>
    let temp := match pget "S" ps with Some t => Some t | None => pget "R" ps end in
    let r :=
      match temp with
      | None => inl s1
      | Some t =>
        match h with
        | HWaitBed => if in_range (b_bed (bnd s1)) t then inl (set_t_bed s1 t) else inr ValueErr
        | HWaitHotend => if in_range (b_hotend (bnd s1)) t then inl (set_t_hotend s1 t) else inr ValueErr
        | HWaitChamber => if in_range (b_chamber (bnd s1)) t then inl (set_t_chamber s1 t) else inr ValueErr
        | _ => inl s1
        end
      end in
    match r with
    | inr e => fail s1 [] e
    | inl s2 => if negb (params_finite ps) then fail s2 [] ValueErr
                else ok (written s2) [i_halt h :: pwords dp ps]
    end
  end.

Definition ge_point (lo hi : point) : bool :=
  (* Point.__ge__(lo, hi) = not (lo < hi); lo < hi iff all <= and one < *)
  let a := res1 (px lo) in let b := res1 (py lo) in let c := res1 (pz lo) in
  let x := res1 (px hi) in let y := res1 (py hi) in let z := res1 (pz hi) in
  negb ((qleb a x && qleb b y && qleb c z) && (qltb a x || qltb b y || qltb c z)).

Definition set_scalar_bound (b : bounds) (n : bname) (v : option (Q * Q)) : bounds :=
  match n with
  | BBed => mkbounds (b_axes b) v (b_chamber b) (b_hotend b) (b_feed b) (b_toolnum b) (b_power b)
  | BChamber => mkbounds (b_axes b) (b_bed b) v (b_hotend b) (b_feed b) (b_toolnum b) (b_power b)
  | BHotend => mkbounds (b_axes b) (b_bed b) (b_chamber b) v (b_feed b) (b_toolnum b) (b_power b)
  | BFeed => mkbounds (b_axes b) (b_bed b) (b_chamber b) (b_hotend b) v (b_toolnum b) (b_power b)
  | BToolnum => mkbounds (b_axes b) (b_bed b) (b_chamber b) (b_hotend b) (b_feed b) v (b_power b)
  | BPower => mkbounds (b_axes b) (b_bed b) (b_chamber b) (b_hotend b) (b_feed b) (b_toolnum b) v
  | _ => b
  end.

Definition step1 (dp : nat) (s : st) (c : cmd) : res :=
  match c with
  | Move k r ps =>
      let '(mv, target) := transform_move s (req_point r) in
      do_move dp k s r mv target ps
  | MoveAbs k r ps =>
      let mv := req_point r in
      let target := replace (pos s) mv in
      let '(s0, pre) := match dm s with
                        | Relative => let '(s', l) := set_distance s Absolute in (s', [l])
                        | Absolute => (s, []) end in
      let '(s1, ls, calls, e) := do_move dp k s0 r mv target ps in
      match dm s with
      | Relative => let '(s2, l) := set_distance s1 Relative in (s2, pre ++ ls ++ [l], calls, e)
      | Absolute => (s1, pre ++ ls, calls, e)
      end
  | SetAxis r ps =>
      let target := replace (pos s) (req_point r) in
      if negb (req_finite r && params_finite ps) then fail s [] ValueErr
      else match update_axes s target r ps with
           | inr s1 => fail s1 [] ValueErr
           | inl s1 => ok (written s1) [i_offset :: axis_words dp (req_point r) ++ pwords dp ps]
           end
  | Home r ps =>
      let p := req_point r in
      let p' := if is_unknown p then zero else p in
      let target := mask (pos s) p' in
      if negb (req_finite r && params_finite ps) then fail s [] ValueErr
      else match update_axes s target r ps with
           | inr s1 => fail s1 [] ValueErr
           | inl s1 => ok (written s1) [i_home :: axis_words dp p ++ pwords dp ps]
           end
  | Probe m r ps =>
      match m with
      | BadName => fail s [] ValueErr
      | Member pm =>
        let '(mv, target) := transform_move s (req_point r) in
        if negb (within (b_axes (bnd s)) target) then fail s [] ValueErr
        else if negb (req_finite r && params_finite ps) then fail s [] ValueErr
        else match update_axes s (mask target mv) r ps with
             | inr s1 => fail s1 [] ValueErr
             | inl s1 => match track s1 ps with
                         | (s2, Some e) => fail s2 [] e
                         | (s2, None) => ok (written s2) [move_line dp (i_probe pm) mv ps]
                         end
             end
      end
  | Polyline pts ps => poly_go dp ps pts s [] []
  | SetDistance m =>
      match m with BadName => fail s [] ValueErr
      | Member d => let '(s1, l) := set_distance s d in ok s1 [l] end
  | EnterAbs =>
      match dm s with
      | Absolute => ok (set_modes s (Absolute :: modes s)) []
      | Relative => let '(s1, l) := set_distance s Absolute in
                    ok (set_modes s1 (Relative :: modes s)) [l]
      end
  | EnterRel =>
      match dm s with
      | Relative => ok (set_modes s (Relative :: modes s)) []
      | Absolute => let '(s1, l) := set_distance s Relative in
                    ok (set_modes s1 (Absolute :: modes s)) [l]
      end
  | ExitMode =>
      match modes s with
      | [] => ok s []
      | prev :: rest =>
          let s0 := set_modes s rest in
          match prev, dm s with
          | Absolute, Absolute | Relative, Relative => ok s0 []
          | _, _ => let '(s1, l) := set_distance s0 prev in ok s1 [l]
          end
      end
  | SetExtrusion m =>
      match m with BadName => fail s [] ValueErr
      | Member d => ok (written (set_em s d)) [[i_emode d]] end
  | SetFeedMode m =>
      match m with BadName => fail s [] ValueErr
      | Member d => ok (written (set_fm s d)) [[i_fmode d]] end
  | SetUnits m =>
      match m with BadName => fail s [] ValueErr
      | Member d => ok (written (set_lu s d)) [[i_units d]] end
  | SetPlane m =>
      match m with BadName => fail s [] ValueErr
      | Member d => ok (written (set_pl s d)) [[i_plane d]] end
  | SetTimeUnits m =>
      match m with BadName => fail s [] ValueErr | Member d => ok (set_tu s d) [] end
  | SetTempUnits m =>
      match m with BadName => fail s [] ValueErr | Member d => ok (set_ku s d) [] end
  | SetFeed x =>
      match try_feed s x with
      | inr e => fail s [] e
      | inl s1 => if xfinite x then ok (written s1) [[("F", round_dp dp (xq x))]]
                  else fail s1 [] ValueErr
      end
  | SetPower x =>
      match try_power s x with
      | inr e => fail s [] e
      | inl s1 => if xfinite x then ok (written s1) [[("S", round_dp dp (xq x))]]
                  else fail s1 [] ValueErr
      end
  | SetFan speed fan =>
      if (fan <? 0)%Z then fail s [] ValueErr
      else if xlt speed (Fin 0) || xlt (Fin 255) speed then fail s [] ValueErr
      else if xfinite speed
           then ok (written s) [[i_fan (xlt (Fin 0) speed); ("P", inject_Z fan); ("S", round_dp dp (xq speed))]]
           else fail s [] ValueErr
  | SetBedT x =>
      if negb (xfinite x) then fail s [] ValueErr
      else if in_range (b_bed (bnd s)) x
           then ok (written (set_t_bed s x)) [[i_bed (ku s); ("S", round_dp dp (xq x))]]
           else fail s [] ValueErr
  | SetHotendT x =>
      if negb (xfinite x) then fail s [] ValueErr
      else if in_range (b_hotend (bnd s)) x
           then ok (written (set_t_hotend s x)) [[i_hotend (ku s); ("S", round_dp dp (xq x))]]
           else fail s [] ValueErr
  | SetChamberT x =>
      if negb (xfinite x) then fail s [] ValueErr
      else if in_range (b_chamber (bnd s)) x
           then ok (written (set_t_chamber s x)) [[i_chamber (ku s); ("S", round_dp dp (xq x))]]
           else fail s [] ValueErr
  | Sleep x =>
      if xlt x (Fin 0) then fail s [] ValueErr
      else if xfinite x then ok (written s) [[i_sleep (tu s); ("P", round_dp dp (xq x))]]
      else fail s [] ValueErr
  | ToolOn m x =>
      match m with
      | BadName | Member SpinOff => fail s [] ValueErr
      | Member sm =>
        if tool_on s then fail s [] ToolStateErr
        else match try_power s x with
             | inr e => fail s [] e
             | inl s1 =>
               let s2 := set_spinm (set_tool_on s1 true) sm in
               if xfinite x then ok (written s2) [[("S", round_dp dp (xq x)); i_spin sm]]
               else fail s2 [] ValueErr
             end
      end
  | ToolOff => ok (written (tool_off s)) [[i_spin SpinOff]]
  | PowerOn m x =>
      match m with
      | BadName | Member PowOff => fail s [] ValueErr
      | Member pm =>
        if tool_on s then fail s [] ToolStateErr
        else match try_power s x with
             | inr e => fail s [] e
             | inl s1 =>
               let s2 := set_powerm (set_tool_on s1 true) pm in
               if xfinite x then ok (written s2) [[("S", round_dp dp (xq x)); i_power pm]]
               else fail s2 [] ValueErr
             end
      end
  | PowerOff => ok (written (power_off s)) [[i_power PowOff]]
  | ToolChange m n =>
      match m with
      | BadName | Member SwapOff => fail s [] ValueErr
      | Member sm =>
        if negb (in_range (b_toolnum (bnd s)) (Fin (inject_Z n))) then fail s [] ValueErr
        else if (n <? 1)%Z then fail s [] ValueErr
        else if tool_on s then fail s [] ToolStateErr
        else if cool_on s then fail s [] CoolantStateErr
        else ok (written (set_swapm (set_toolnum s n) sm)) [[("T", inject_Z n); i_swap sm]]
      end
  | CoolantOn m =>
      match m with
      | BadName | Member CoolOff => fail s [] ValueErr
      | Member cm =>
        if cool_on s then fail s [] CoolantStateErr
        else ok (written (set_coolm (set_cool_on s true) cm)) [[i_coolant cm]]
      end
  | CoolantOff => ok (written (coolant_off s)) [[i_coolant CoolOff]]
  | Halt m ps =>
      match m with
      | BadName | Member HaltOff => fail s [] ValueErr
      | Member h => halt_cmd dp s h ps
      end
  | EmergencyHalt reset =>
      let s1 := written (tool_off s) in
      let s2 := written (coolant_off s1) in
      let s3 := written s2 in
      let '(s4, ls, _, e) := halt_cmd dp s3 (if reset then HEndReset else HPause) [] in
      (s4, [[i_spin SpinOff]; [i_coolant CoolOff]; []] ++ ls, [], e)
  | Query m =>
      match m with BadName => fail s [] ValueErr
      | Member q => ok (written s) [[i_query q]] end
  | Comment => ok (written s) [[]]
  | Annotate valid => if valid then ok (written s) [[]] else fail s [] ValueErr
  | SetBounds n lo hi slo shi =>
      match n with
      | BUnknown => fail s [] ValueErr
      | BAxes =>
          if ge_point lo hi then fail s [] ValueErr
          else let b := bnd s in
               ok (set_bnd s (mkbounds (Some (resolve lo, resolve hi)) (b_bed b) (b_chamber b) (b_hotend b)
                                       (b_feed b) (b_toolnum b) (b_power b))) []
      | _ =>
          match slo, shi with
          | Fin a, Fin b => if qleb b a then fail s [] ValueErr
                            else ok (set_bnd s (set_scalar_bound (bnd s) n (Some (a, b)))) []
          | _, _ => fail s [] ValueErr   (* outside the generated configurations *)
          end
      end
  | AddHook h =>
      if existsb (fun h' => Nat.eqb (hook_id h') (hook_id h)) (hooks s) then ok s []
      else ok (set_hooks s (hooks s ++ [h])) []
  | RemoveHook id =>
      ok (set_hooks s (filter (fun h' => negb (Nat.eqb (hook_id h') id)) (hooks s))) []
  | SetTransform m => ok (set_tf s m) []
  end.

(* a history: all results in order *)
Fixpoint run (dp : nat) (s : st) (cs : list cmd) : list res :=
  match cs with
  | [] => []
  | c :: cs' => let r := step1 dp s c in
                match r with (s', _, _, _) => r :: run dp s' cs' end
  end.

Definition final (dp : nat) (s : st) (cs : list cmd) : st :=
  fold_left (fun s c => match step1 dp s c with (s', _, _, _) => s' end) cs s.
Definition out_of (r : res) : list line := match r with (_, ls, _, _) => ls end.
Definition output (dp : nat) (s : st) (cs : list cmd) : list line := List.concat (map out_of (run dp s cs)).
