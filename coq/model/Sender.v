(* Model of the stop-and-wait sender of gscrib/printrun/printcore.py (_sendnext, _listen, _send, startprint) streaming a
   job to a Marlin-style firmware (line numbers + XOR checksum) over FIFO channels.  Each _sendnext call, each line
   handled by _listen and each firmware reaction is one atomic step; any interleaving of the three is a run.
   The trailing "M110 N-1" sent when the print ends is not part of the transition system (nothing follows it on the
   wire); the trace checker at the end of this file expects it. *)
From Coq Require Import ZArith NArith Bool List.
Import ListNotations.
Open Scope Z_scope.

(* ---------------- byte level: N<k> <cmd>*<xor> ---------------- *)
Notation bytes := (list N) (only parsing).
Definition checksum (l : bytes) : N := fold_right N.lxor 0%N l.

Fixpoint dec_digits (fuel : nat) (n : N) (acc : bytes) : bytes :=
  match fuel with
  | O => acc
  | S f => let acc' := (48 + N.modulo n 10)%N :: acc in
           if (n <? 10)%N then acc' else dec_digits f (n / 10)%N acc'
  end.
Definition dec_N (n : N) : bytes := dec_digits (S (N.to_nat (N.log2 n))) n [].
Definition dec_Z (z : Z) : bytes := if z <? 0 then 45%N :: dec_N (Z.to_N (- z)) else dec_N (Z.to_N z).

(* _send(command, lineno, calcchecksum=True) *)
Definition frame_bytes (k : Z) (cmd : bytes) : bytes :=
  let prefix := 78%N :: dec_Z k ++ 32%N :: cmd in
  prefix ++ 42%N :: dec_N (checksum prefix).
Definition m110_cmd : bytes := [77; 49; 49; 48; 32; 78; 45; 49]%N.        (* "M110 N-1" *)

(* the firmware's reading of a line: N, optional minus and digits, one blank, the command, a star, digits; the LAST
   star of the line separates the checksum (greedy match) *)
Definition is_digit (c : N) : bool := ((48 <=? c) && (c <=? 57))%N.
Fixpoint val_digits (acc : N) (l : bytes) : N :=
  match l with [] => acc | c :: l' => val_digits (acc * 10 + (c - 48))%N l' end.
Definition parse_N (l : bytes) : option N :=
  match l with [] => None | _ => if forallb is_digit l then Some (val_digits 0 l) else None end.
Definition parse_Z (l : bytes) : option Z :=
  match l with
  | 45%N :: r => option_map (fun n => (- Z.of_N n)%Z) (parse_N r)
  | _ => option_map Z.of_N (parse_N l)
  end.
Fixpoint split_last (c : N) (l : bytes) : option (bytes * bytes) :=
  match l with
  | [] => None
  | x :: l' => match split_last c l' with
               | Some (a, b) => Some (x :: a, b)
               | None => if (x =? c)%N then Some ([], l') else None
               end
  end.
Fixpoint split_first (c : N) (l : bytes) : option (bytes * bytes) :=
  match l with
  | [] => None
  | x :: l' => if (x =? c)%N then Some ([], l')
               else match split_first c l' with Some (a, b) => Some (x :: a, b) | None => None end
  end.
(* (line number, command, checksum matches) *)
Definition fw_parse (l : bytes) : option (Z * bytes * bool) :=
  match split_last 42 l with
  | Some (prefix, cs) =>
      match prefix with
      | 78%N :: body =>
          match split_first 32 body with
          | Some (num, cmd) =>
              match parse_Z num, parse_N cs with
              | Some k, Some c => Some (k, cmd, (c =? checksum prefix)%N)
              | _, _ => None
              end
          | None => None
          end
      | _ => None
      end
  | None => None
  end.

(* ---------------- protocol level ---------------- *)
Section Protocol.
  Variable C : Type.                              (* a job command (stripped, non-empty) *)

  Inductive payload := PJob (n : Z) (c : C) | PReset.      (* N<n> <c>  |  N-1 M110 N-1 *)
  Record frame := { fpay : payload; fgood : bool }.         (* fgood = false: corrupted on the wire *)
  Inductive reply := ROk | RResend (n : Z).

  Record sender := {
    lineno : Z; resendfrom : Z; qi : nat; clear : bool; printing : bool;
    sentl : list (Z * C)                           (* sentlines, newest first *)
  }.
  Record firmware := { expected : Z; accepted : list C }.
  Record sys := { snd_ : sender; fw : firmware; to_fw : list frame; to_host : list reply }.

  Fixpoint lookup (k : Z) (l : list (Z * C)) : option C :=
    match l with [] => None | (k', c) :: l' => if k =? k' then Some c else lookup k l' end.

  (* one _sendnext call by the print thread, enabled when clear (the loop at its top has exited);
     job lines: Some c = a command, None = a comment-only / empty line.
     Result: new sender state and what was written (None: nothing), or None when the call raises (KeyError) *)
  Inductive sent_what := SNothing | SFrame (p : payload) | SEnd.
  Definition sendnext (job : list (option C)) (s : sender) : option (sender * sent_what) :=
    if (resendfrom s <? lineno s) && (-1 <? resendfrom s) then
      match lookup (resendfrom s) (sentl s) with
      | Some c => Some ({| lineno := lineno s; resendfrom := resendfrom s + 1; qi := qi s; clear := false;
                           printing := printing s; sentl := sentl s |}, SFrame (PJob (resendfrom s) c))
      | None => None
      end
    else
      match nth_error job (qi s) with
      | Some (Some c) =>
          Some ({| lineno := lineno s + 1; resendfrom := -1; qi := S (qi s); clear := false; printing := printing s;
                   sentl := (lineno s, c) :: sentl s |}, SFrame (PJob (lineno s) c))
      | Some None =>
          Some ({| lineno := lineno s; resendfrom := -1; qi := S (qi s); clear := true; printing := printing s;
                   sentl := sentl s |}, SNothing)
      | None =>
          Some ({| lineno := 0; resendfrom := -1; qi := 0; clear := true; printing := false; sentl := sentl s |}, SEnd)
      end.

  (* one line handled by _listen *)
  Definition on_reply (s : sender) (r : reply) : sender :=
    match r with
    | ROk => {| lineno := lineno s; resendfrom := resendfrom s; qi := qi s; clear := true; printing := printing s; sentl := sentl s |}
    | RResend n => {| lineno := lineno s; resendfrom := n; qi := qi s; clear := true; printing := printing s; sentl := sentl s |}
    end.

  (* the firmware: accepts N = expected with a valid checksum, else asks for a resend; either way one ok *)
  Definition fw_react (f : firmware) (fr : frame) : firmware * list reply :=
    if negb (fgood fr) then (f, [RResend (expected f); ROk])
    else match fpay fr with
         | PReset => ({| expected := 0; accepted := accepted f |}, [ROk])
         | PJob n c =>
             if n =? expected f then ({| expected := expected f + 1; accepted := accepted f ++ [c] |}, [ROk])
             else (f, [RResend (expected f); ROk])
         end.

  Inductive label := LSend (good : bool) | LFw | LRead.

  Definition step (job : list (option C)) (l : label) (s : sys) : option sys :=
    match l with
    | LSend good =>
        if clear (snd_ s) && printing (snd_ s) then
          match sendnext job (snd_ s) with
          | Some (s', SFrame p) => Some {| snd_ := s'; fw := fw s; to_fw := to_fw s ++ [{| fpay := p; fgood := good |}]; to_host := to_host s |}
          | Some (s', _) => Some {| snd_ := s'; fw := fw s; to_fw := to_fw s; to_host := to_host s |}
          | None => None
          end
        else None
    | LFw =>
        match to_fw s with
        | [] => None
        | fr :: rest => let '(f', rs) := fw_react (fw s) fr in
                        Some {| snd_ := snd_ s; fw := f'; to_fw := rest; to_host := to_host s ++ rs |}
        end
    | LRead =>
        match to_host s with
        | [] => None
        | r :: rest => Some {| snd_ := on_reply (snd_ s) r; fw := fw s; to_fw := to_fw s; to_host := rest |}
        end
    end.

  (* startprint: queue index 0, clear := False, reset line numbers (the M110 frame is written, good or corrupted) *)
  Definition init (boot : Z) (reset_good : bool) : sys :=
    {| snd_ := {| lineno := 0; resendfrom := -1; qi := 0; clear := false; printing := true; sentl := [] |};
       fw := {| expected := boot; accepted := [] |};
       to_fw := [{| fpay := PReset; fgood := reset_good |}]; to_host := [] |}.

  Fixpoint run (job : list (option C)) (ls : list label) (s : sys) : option sys :=
    match ls with
    | [] => Some s
    | l :: ls' => match step job l s with Some s' => run job ls' s' | None => None end
    end.

  Definition cmds_of (job : list (option C)) : list C := flat_map (fun o => match o with Some c => [c] | None => [] end) job.
  Definition quiescent (s : sys) : Prop := printing (snd_ s) = false /\ to_fw s = [] /\ to_host s = [].
End Protocol.

Arguments PJob {C}. Arguments PReset {C}.
Arguments SNothing {C}. Arguments SFrame {C}. Arguments SEnd {C}.

(* ---------------- deterministic schedulers (for witnesses and for the trace checker) ---------------- *)
Section Drive.
  Variable C : Type.
  (* read replies first; then either let the firmware react first (prompt firmware) or let the print thread send first
     (slow firmware); transmission number ntx is corrupted iff it is listed in bad *)
  Fixpoint drive (job : list (option C)) (slow_fw : bool) (bad : list nat) (fuel : nat) (ntx : nat) (s : sys C)
    : sys C * list label :=
    match fuel with
    | O => (s, [])
    | S f =>
        let good := negb (existsb (Nat.eqb ntx) bad) in
        let try_send :=
          match step C job (LSend good) s with
          | Some s' => Some (s', LSend good, if Nat.eqb (length (to_fw C s')) (length (to_fw C s)) then ntx else S ntx)
          | None => None
          end in
        let try_fw := match step C job LFw s with Some s' => Some (s', LFw, ntx) | None => None end in
        let pick :=
          match step C job LRead s with
          | Some s' => Some (s', LRead, ntx)
          | None => if slow_fw then (match try_send with Some x => Some x | None => try_fw end)
                    else (match try_fw with Some x => Some x | None => try_send end)
          end in
        match pick with
        | Some (s', l, ntx') => let '(s2, ls) := drive job slow_fw bad f ntx' s' in (s2, l :: ls)
        | None => (s, [])
        end
    end.
End Drive.

(* ---------------- trace checker: is an observed wire trace a run of the model? ---------------- *)
(* Events as seen at the serial port: ETx = a line written by printcore (with the corruption the link applied),
   ERx = a reply handed to printcore's reader.  The reader may process a reply some time after it was handed over,
   so before each transmission any prefix of the pending replies may have been processed. *)
Section Check.
  Inductive event := ETx (p : payload nat) (good : bool) | ERx (r : reply).

  Definition payload_eqb (a b : payload nat) : bool :=
    match a, b with
    | PJob n c, PJob n' c' => (n =? n') && Nat.eqb c c'
    | PReset, PReset => true
    | _, _ => false
    end.

  (* the next thing _sendnext writes, skipping comment-only lines (each of those calls sets clear itself) *)
  Fixpoint next_tx (job : list (option nat)) (fuel : nat) (s : sender nat) : option (sender nat * payload nat) :=
    match fuel with
    | O => None
    | S f =>
        if clear nat s && printing nat s then
          match sendnext nat job s with
          | Some (s', SFrame p) => Some (s', p)
          | Some (s', SNothing) => next_tx job f s'
          | Some (s', SEnd) => Some (s', PReset)          (* the trailing M110 N-1 *)
          | None => None
          end
        else None
    end.

  (* The set of sender states compatible with the trace so far, each with the number of replies it has processed.
     Before a transmission any further prefix of the replies handed over so far may have been processed. *)
  Definition skey (x : sender nat * nat) :=
    (snd x, resendfrom nat (fst x), lineno nat (fst x), qi nat (fst x), clear nat (fst x), printing nat (fst x)).
  Definition key_eqb (x y : sender nat * nat) : bool :=
    let '(c1, r1, l1, q1, cl1, p1) := skey x in let '(c2, r2, l2, q2, cl2, p2) := skey y in
    Nat.eqb c1 c2 && (r1 =? r2) && (l1 =? l2) && Nat.eqb q1 q2 && Bool.eqb cl1 cl2 && Bool.eqb p1 p2.
  Definition insert (x : sender nat * nat) (l : list (sender nat * nat)) := if existsb (key_eqb x) l then l else x :: l.

  Fixpoint expand (job : list (option nat)) (p : payload nat) (rest : list reply) (s : sender nat) (c : nat)
    (acc : list (sender nat * nat)) : list (sender nat * nat) :=
    let acc' := match next_tx job (S (length job)) s with
                | Some (s2, p2) => if payload_eqb p p2 then insert (s2, c) acc else acc
                | None => acc
                end in
    match rest with
    | [] => acc'
    | r :: rest' => expand job p rest' (on_reply nat s r) (S c) acc'
    end.

  Fixpoint check_sender (job : list (option nat)) (evs : list event) (states : list (sender nat * nat)) (seen : list reply) : bool :=
    match evs with
    | [] => negb (match states with [] => true | _ => false end)
    | ERx r :: evs' => check_sender job evs' states (seen ++ [r])
    | ETx p g :: evs' =>
        let states' := fold_left (fun acc x => expand job p (skipn (snd x) seen) (fst x) (snd x) acc) states [] in
        match states' with [] => false | _ => check_sender job evs' states' seen end
    end.

  (* diagnostics: how many events are left when the state set becomes empty (0 = whole trace explained) *)
  Fixpoint fail_at (job : list (option nat)) (evs : list event) (states : list (sender nat * nat)) (seen : list reply) : nat :=
    match evs with
    | [] => 0
    | ERx r :: evs' => fail_at job evs' states (seen ++ [r])
    | ETx p g :: evs' =>
        let states' := fold_left (fun acc x => expand job p (skipn (snd x) seen) (fst x) (snd x) acc) states [] in
        match states' with [] => S (length evs') | _ => fail_at job evs' states' seen end
    end.

  (* the firmware side: the replies handed to the host are, in order, the model firmware's reactions to the frames *)
  Fixpoint fw_stream (f : firmware nat) (evs : list event) : firmware nat * list reply :=
    match evs with
    | [] => (f, [])
    | ETx p g :: evs' => let '(f1, rs) := fw_react nat f {| fpay := p; fgood := g |} in
                         let '(f2, rest) := fw_stream f1 evs' in (f2, rs ++ rest)
    | ERx _ :: evs' => fw_stream f evs'
    end.
  Definition rx_of (evs : list event) : list reply :=
    flat_map (fun e => match e with ERx r => [r] | _ => [] end) evs.
  Definition reply_eqb (a b : reply) : bool :=
    match a, b with ROk, ROk => true | RResend n, RResend m => n =? m | _, _ => false end.
  Fixpoint is_prefix (a b : list reply) : bool :=
    match a, b with
    | [], _ => true
    | x :: a', y :: b' => reply_eqb x y && is_prefix a' b'
    | _, [] => false
    end.

  (* startprint writes the reset first; returns (trace is a run of the model, commands accepted by the model firmware) *)
  Definition check_trace (job : list (option nat)) (boot : Z) (evs : list event) : bool * list nat :=
    match evs with
    | ETx PReset g :: evs' =>
        let s0 := {| lineno := 0; resendfrom := -1; qi := 0; clear := false; printing := true; sentl := [] |} in
        let '(f, stream) := fw_stream {| expected := boot; accepted := [] |} evs in
        (check_sender job evs' [(s0, 0%nat)] [] && is_prefix (rx_of evs) stream, accepted nat f)
    | _ => (false, [])
    end.
End Check.
