(* Model of PrintrunWriter._on_device_message / _parse_message / _update_param
   (writers/printrun_writer.py) on ASCII messages (bytes as [N]).
   The regular expression VALUE_PATTERN (key = one or more alphanumerics, a colon, value = one or
   more of minus/digit/dot followed by any number of comma-separated further such runs; its source
   text is kept in gen/GenTables.v value_pattern) with re.findall is modelled by a hand scanner: at each position, a maximal alphanumeric run directly followed by ':' and by
   a value (maximal run of [-0-9.], then any number of ',' + maximal non-empty run) is a match and
   scanning resumes after the value; otherwise the scanner moves one byte on. *)
From Coq Require Import List NArith ZArith QArith Bool.
Import ListNotations.
Open Scope N_scope.

Notation bytes := (list N) (only parsing).
Definition is_digit (c : N) : bool := (48 <=? c) && (c <=? 57).
Definition is_alpha (c : N) : bool := ((65 <=? c) && (c <=? 90)) || ((97 <=? c) && (c <=? 122)).
Definition is_alnum (c : N) : bool := is_digit c || is_alpha c.
Definition is_val (c : N) : bool := is_digit c || (c =? 45) || (c =? 46).     (* [-\d\.] *)
Definition COLON : N := 58.
Definition COMMA : N := 44.

(* maximal prefix satisfying f, and the rest *)
Fixpoint span (f : N -> bool) (l : bytes) : bytes * bytes :=
  match l with
  | [] => ([], [])
  | x :: l' => if f x then let '(a, b) := span f l' in (x :: a, b) else ([], l)
  end.

(* the optional comma-separated tail of a value: further components and the rest *)
Fixpoint more_values (fuel : nat) (l : bytes) : list bytes * bytes :=
  match fuel with
  | O => ([], l)
  | S f =>
    match l with
    | c :: l' =>
      if c =? COMMA then
        match span is_val l' with
        | ([], _) => ([], l)
        | (v, rest) => let '(vs, rest') := more_values f rest in (v :: vs, rest')
        end
      else ([], l)
    | [] => ([], l)
    end
  end.

(* one match attempt at the head of l: key, value components, rest *)
Definition match_here (l : bytes) : option (bytes * list bytes * bytes) :=
  match span is_alnum l with
  | ([], _) => None
  | (key, c :: rest) =>
    if c =? COLON then
      match span is_val rest with
      | ([], _) => None
      | (v, rest') => let '(vs, rest'') := more_values (length rest') rest' in Some (key, v :: vs, rest'')
      end
    else None
  | (_, []) => None
  end.

(* re.findall *)
Fixpoint findall (fuel : nat) (l : bytes) : list (bytes * list bytes) :=
  match fuel with
  | O => []
  | S f =>
    match l with
    | [] => []
    | _ :: l' =>
      match match_here l with
      | Some (k, vs, rest) => (k, vs) :: findall f rest
      | None => findall f l'
      end
    end
  end.
Definition scan (l : bytes) : list (bytes * list bytes) := findall (S (length l)) l.

(* Python float() on a string over [-0-9.]: optional '-', digits with at most one '.', >= 1 digit *)
Fixpoint digits_val (acc : Z) (l : bytes) : Z :=
  match l with [] => acc | c :: l' => digits_val (acc * 10 + Z.of_N (c - 48)) l' end.
Definition all_digits (l : bytes) : bool := forallb is_digit l.
Definition parse_unsigned (l : bytes) : option Q :=
  let '(ip, rest) := span is_digit l in
  match rest with
  | [] => match ip with [] => None | _ => Some (inject_Z (digits_val 0 ip)) end
  | c :: fp =>
    if (c =? 46) && all_digits fp && negb (match ip, fp with [], [] => true | _, _ => false end) then
      Some (Qred (inject_Z (digits_val 0 (ip ++ fp)) / inject_Z (10 ^ Z.of_nat (length fp))))
    else None
  end.
Definition parse_float (l : bytes) : option Q :=
  match l with
  | c :: l' => if c =? 45 then option_map Qopp (parse_unsigned l') else parse_unsigned l
  | [] => None
  end.

(* ---- readings ---- *)
Definition upper (c : N) : N := if (97 <=? c) && (c <=? 122) then c - 32 else c.
Definition key := bytes.
Fixpoint beq (a b : bytes) : bool :=
  match a, b with
  | [], [] => true
  | x :: a', y :: b' => (x =? y) && beq a' b'
  | _, _ => false
  end.
Definition kmem (k : key) (l : list key) : bool := existsb (beq k) l.

Record rstate := mkr { readings : list (key * Q); reported : list key }.
Fixpoint rset (k : key) (v : Q) (l : list (key * Q)) : list (key * Q) :=
  match l with
  | [] => [(k, v)]
  | (k', v') :: l' => if beq k k' then (k, v) :: l' else (k', v') :: rset k v l'
  end.
Fixpoint rget (k : key) (l : list (key * Q)) : option Q :=
  match l with [] => None | (k', v) :: l' => if beq k k' then Some v else rget k l' end.

(* _update_param: first occurrence within one message wins; the reported set uses the raw key,
   the readings dictionary the upper-cased one *)
Definition update_param (s : rstate) (k : key) (v : Q) : rstate :=
  if kmem k (reported s) then s
  else mkr (rset (map upper k) v (readings s)) (k :: reported s).

Definition AXES : list key := [[88]; [89]; [90]; [65]; [66]; [67]].     (* X Y Z A B C *)
Definition K_FS : key := [70; 83].
Definition K_MPOS : key := [77; 80; 111; 115].
Definition K_WPOS : key := [87; 80; 111; 115].
Definition K_PRB : key := [80; 82; 66].

(* zip(AXES, map(float, parts)): stops (exception caught) at the first part that is not a float *)
Fixpoint fan_out (s : rstate) (axes : list key) (parts : list bytes) : rstate :=
  match axes, parts with
  | a :: axes', p :: parts' =>
    match parse_float p with
    | Some v => fan_out (update_param s a v) axes' parts'
    | None => s
    end
  | _, _ => s
  end.

Definition handle_kv (starts_lt : bool) (s : rstate) (kv : key * list bytes) : rstate :=
  let '(k, vs) := kv in
  match k, vs with
  | [c], [v] => match parse_float v with Some q => update_param s k q | None => s end
  | [c], _ => s                     (* float("1,2") raises: skipped *)
  | _, _ =>
    if beq k K_FS && starts_lt then
      match vs with
      | [f; sp] => match parse_float f with
                   | Some qf => match parse_float sp with
                                | Some qs => update_param (update_param s [70] qf) [83] qs
                                | None => update_param s [70] qf end   (* F set, then float(speed) raises *)
                   | None => s end
      | _ => s
      end
    else if beq k K_MPOS || beq k K_WPOS || beq k K_PRB then fan_out s AXES vs
    else s
  end.

Definition parse_message (s : rstate) (msg : bytes) : rstate :=
  let s0 := mkr (readings s) [] in
  fold_left (handle_kv (match msg with 60 :: _ => true | _ => false end)) (scan msg) s0.

(* message.strip(): ASCII whitespace on both ends *)
Definition is_space (c : N) : bool := (c =? 32) || ((9 <=? c) && (c <=? 13)).
Fixpoint lstrip (l : bytes) : bytes := match l with c :: l' => if is_space c then lstrip l' else l | [] => [] end.
Definition strip (l : bytes) : bytes := rev (lstrip (rev (lstrip l))).
Definition lower (c : N) : N := if (65 <=? c) && (c <=? 90) then c + 32 else c.
Fixpoint prefix (p l : bytes) : bool :=
  match p, l with [] , _ => true | x :: p', y :: l' => (x =? y) && prefix p' l' | _, [] => false end.

Inductive outcome := Ack | ErrorAck | NoAck.
(* _on_device_message after the repair: an ok line is parsed before the acknowledgement is set *)
Definition on_message (s : rstate) (raw : bytes) : rstate * outcome :=
  let m := strip raw in
  let lm := map lower m in
  if prefix [111; 107] lm then (parse_message s m, Ack)
  else if prefix [101;114;114;111;114] lm || prefix [97;108;97;114;109] lm || prefix [33;33] lm then (s, ErrorAck)
  else (parse_message s m, NoAck).
