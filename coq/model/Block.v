(* One block (line) as DefaultFormatter assembles it (C08): command() writes the instruction, a
   space, and parameters(); parameters() writes the axis words first (X, Y, Z order), then the other
   words in dict order, each as label immediately followed by number(value), separated by single
   spaces.  A word here is a label and the IEEE bit pattern of its value (binary16/32/64). *)
From Coq Require Import List NArith ZArith Bool.
From GS Require Import model.FloatFmt.
Import ListNotations.

Definition SPC : N := 32.
Record bword := mkbword { w_label : list N; w_eb : Z; w_mb : Z; w_bits : Z }.

Definition word_number (dp : nat) (w : bword) : option (list N) := number (w_eb w) (w_mb w) (w_bits w) dp.
Definition word_text (dp : nat) (w : bword) : option (list N) := option_map (app (w_label w)) (word_number dp w).

Fixpoint join_sp (ts : list (list N)) : list N :=
  match ts with
  | [] => []
  | [t] => t
  | t :: ts' => t ++ SPC :: join_sp ts'
  end.

Fixpoint all_some {A} (l : list (option A)) : option (list A) :=
  match l with
  | [] => Some []
  | None :: _ => None                      (* number() raises ValueError: nothing is written *)
  | Some a :: l' => option_map (cons a) (all_some l')
  end.

Definition params_text (dp : nat) (ws : list bword) : option (list N) :=
  option_map join_sp (all_some (map (word_text dp) ws)).
Definition command_text (dp : nat) (cmd : list N) (ws : list bword) : option (list N) :=
  match ws with
  | [] => Some cmd
  | _ => option_map (fun p => cmd ++ SPC :: p) (params_text dp ws)
  end.

(* ---- an independent reader of a block: split at spaces, split each word into letters + rest ---- *)
Fixpoint split_sp (l : list N) : list (list N) :=
  match l with
  | [] => [[]]
  | c :: l' => if (c =? SPC)%N then [] :: split_sp l'
               else match split_sp l' with t :: ts => (c :: t) :: ts | [] => [[c]] end
  end.
Definition is_letter (c : N) : bool := ((65 <=? c) && (c <=? 90) || (97 <=? c) && (c <=? 122))%N.
Fixpoint span_letters (t : list N) : list N * list N :=
  match t with
  | c :: t' => if is_letter c then let '(a, b) := span_letters t' in (c :: a, b) else ([], t)
  | [] => ([], [])
  end.
