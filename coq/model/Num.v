(* Numbers of the builder model.
   Values are exact rationals, always kept in canonical form (Qred) so that Leibniz
   equality is numeric equality.  API inputs are [xnum]: a finite rational or one of the
   IEEE specials, with IEEE comparison semantics (every comparison with NaN is false).
   Float rounding of + - * / is NOT modelled (DESIGN.md 3.1). *)
From Coq Require Import ZArith QArith Qround Bool List.
Import ListNotations.
Open Scope Q_scope.

Inductive xnum := Fin (q : Q) | PInf | NInf | NaN.

Definition qadd (a b : Q) : Q := Qred (a + b).
Definition qsub (a b : Q) : Q := Qred (a - b).
Definition qmul (a b : Q) : Q := Qred (a * b).
Definition qdiv (a b : Q) : Q := Qred (a / b).
Definition qneg (a : Q) : Q := Qred (- a).
Definition qeqb (a b : Q) : bool := Qeq_bool a b.
Definition qleb (a b : Q) : bool := Qle_bool a b.
Definition qltb (a b : Q) : bool := negb (Qle_bool b a).

Definition xfinite (x : xnum) : bool := match x with Fin _ => true | _ => false end.
Definition xq (x : xnum) : Q := match x with Fin q => q | _ => 0 end.

(* a <= b, IEEE *)
Definition xle (a b : xnum) : bool :=
  match a, b with
  | NaN, _ | _, NaN => false
  | NInf, _ => true
  | _, PInf => true
  | Fin p, Fin q => qleb p q
  | _, _ => false
  end.
(* a < b, IEEE *)
Definition xlt (a b : xnum) : bool :=
  match a, b with
  | NaN, _ | _, NaN => false
  | NInf, NInf => false
  | NInf, _ => true
  | PInf, _ => false
  | _, PInf => true
  | Fin p, Fin q => qltb p q
  | _, _ => false
  end.
Definition xeqb (a b : xnum) : bool :=
  match a, b with
  | Fin p, Fin q => qeqb p q
  | PInf, PInf | NInf, NInf => true
  | _, _ => false
  end.
(* Python truthiness of a float: 0.0 is falsy, NaN and infinities are truthy *)
Definition xis_zero (a : xnum) : bool := match a with Fin q => qeqb q 0 | _ => false end.

Fixpoint pow10 (n : nat) : Z := match n with O => 1%Z | S n' => (10 * pow10 n')%Z end.

(* round half to even at [dp] decimals, result canonical *)
Definition round_dp (dp : nat) (q : Q) : Q :=
  let s := pow10 dp in
  let n := q * (s # 1) in
  let fl := Qfloor n in
  let fr := n - (fl # 1) in
  let r :=
    match fr ?= (1 # 2) with
    | Lt => fl
    | Gt => (fl + 1)%Z
    | Eq => if Z.even fl then fl else (fl + 1)%Z
    end in
  Qred ((r # 1) / (s # 1)).

Definition half_unit (dp : nat) : Q := 1 # (2 * Z.to_pos (pow10 dp)).
