(* Model of direct writing: PrintrunWriter.write / _send_statement / _wait_for_acknowledgment / _on_device_message /
   _abort_on_device_error (writers/printrun_writer.py) over printcore's priority queue and sender thread
   (printrun/printcore.py: send, _sender, _send with printing = False) and a FIFO device.
   Threads: caller, sender thread, device, reader thread; every interleaving of their atomic steps is a run. *)
From Coq Require Import ZArith Bool List.
Import ListNotations.

Section Direct.
  Variable S : Type.                               (* a statement, stripped *)

  (* "ok..." | an error reply ("error.../alarm.../!!...") answering a statement | anything else | an UNSOLICITED error line *)
  Inductive line := LOk | LErr | LStatus | LAlarm.
  Inductive phase := Idle | Waiting.
  Inductive outcome := Returned | Raised.

  Record st := {
    todo : list S;                                 (* statements the caller has not written yet *)
    ph : phase;
    ack : bool;                                    (* _ack_event *)
    stored : bool;                                 (* _device_error is not None *)
    queue : list S;                                (* printcore.priqueue *)
    dev_pending : list S;                          (* received by the device, not answered yet *)
    from_dev : list line;                          (* lines on their way to the reader *)
    received : list S;                             (* GHOST: everything the device has received, in order *)
    outcomes : list outcome;                       (* GHOST: how each completed write() ended *)
    termd : nat;                                   (* GHOST: statement terminators handled by the reader *)
    calls : nat;                                   (* GHOST: write() calls started *)
    stamps : list nat;                             (* GHOST: for each line of from_dev, how many terminators the device had emitted before it *)
    temitted : nat                                 (* GHOST: terminators (and alarms) emitted by the device so far *)
  }.

  Inductive label :=
  | CallWrite                                      (* write(): clear the ack event, enqueue *)
  | Return                                         (* the ack event is set: write() returns or re-raises the stored error *)
  | Send                                           (* sender thread: priqueue -> device *)
  | DevTerm (err : bool)                           (* device answers its oldest pending statement: ok / error reply *)
  | DevStatus                                      (* an unsolicited status / reading line *)
  | DevAlarm                                       (* an unsolicited error/alarm line *)
  | Read.                                          (* reader thread handles one line *)

  Definition step (l : label) (s : st) : option st :=
    match l with
    | CallWrite =>
        match ph s, todo s with
        | Idle, x :: rest =>
            Some {| todo := todo s; ph := Waiting; ack := false; stored := stored s; queue := queue s ++ [x];
                    dev_pending := dev_pending s; from_dev := from_dev s; received := received s; outcomes := outcomes s;
                    termd := termd s; calls := Datatypes.S (calls s); stamps := stamps s; temitted := temitted s |}
        | _, _ => None
        end
    | Return =>
        match ph s, ack s, todo s with
        | Waiting, true, x :: rest =>
            Some {| todo := rest; ph := Idle; ack := ack s; stored := false; queue := queue s; dev_pending := dev_pending s;
                    from_dev := from_dev s; received := received s;
                    outcomes := outcomes s ++ [if stored s then Raised else Returned]; termd := termd s; calls := calls s; stamps := stamps s; temitted := temitted s |}
        | _, _, _ => None
        end
    | Send =>
        match queue s with
        | x :: rest =>
            Some {| todo := todo s; ph := ph s; ack := ack s; stored := stored s; queue := rest; dev_pending := dev_pending s ++ [x];
                    from_dev := from_dev s; received := received s ++ [x]; outcomes := outcomes s; termd := termd s; calls := calls s; stamps := stamps s; temitted := temitted s |}
        | [] => None
        end
    | DevTerm err =>
        match dev_pending s with
        | x :: rest =>
            Some {| todo := todo s; ph := ph s; ack := ack s; stored := stored s; queue := queue s; dev_pending := rest;
                    from_dev := from_dev s ++ [if err then LErr else LOk]; received := received s; outcomes := outcomes s;
                    termd := termd s; calls := calls s; stamps := stamps s ++ [temitted s]; temitted := Datatypes.S (temitted s) |}
        | [] => None
        end
    | DevStatus =>
        Some {| todo := todo s; ph := ph s; ack := ack s; stored := stored s; queue := queue s; dev_pending := dev_pending s;
                from_dev := from_dev s ++ [LStatus]; received := received s; outcomes := outcomes s; termd := termd s; calls := calls s;
                stamps := stamps s ++ [temitted s]; temitted := temitted s |}
    | DevAlarm =>
        Some {| todo := todo s; ph := ph s; ack := ack s; stored := stored s; queue := queue s; dev_pending := dev_pending s;
                from_dev := from_dev s ++ [LAlarm]; received := received s; outcomes := outcomes s; termd := termd s; calls := calls s;
                stamps := stamps s ++ [temitted s]; temitted := temitted s |}
    | Read =>
        match from_dev s with
        | LOk :: rest =>
            Some {| todo := todo s; ph := ph s; ack := true; stored := stored s; queue := queue s; dev_pending := dev_pending s;
                    from_dev := rest; received := received s; outcomes := outcomes s; termd := Datatypes.S (termd s); calls := calls s;
                    stamps := tl (stamps s); temitted := temitted s |}
        | LErr :: rest =>
            Some {| todo := todo s; ph := ph s; ack := true; stored := true; queue := queue s; dev_pending := dev_pending s;
                    from_dev := rest; received := received s; outcomes := outcomes s; termd := Datatypes.S (termd s); calls := calls s;
                    stamps := tl (stamps s); temitted := temitted s |}
        | LStatus :: rest =>
            Some {| todo := todo s; ph := ph s; ack := ack s; stored := stored s; queue := queue s; dev_pending := dev_pending s;
                    from_dev := rest; received := received s; outcomes := outcomes s; termd := termd s; calls := calls s;
                    stamps := tl (stamps s); temitted := temitted s |}
        | LAlarm :: rest =>
            Some {| todo := todo s; ph := ph s; ack := true; stored := true; queue := queue s; dev_pending := dev_pending s;
                    from_dev := rest; received := received s; outcomes := outcomes s; termd := termd s; calls := calls s;
                    stamps := tl (stamps s); temitted := temitted s |}
        | [] => None
        end
    end.

  (* a quiescent start: connected, nothing outstanding; `stale` = acknowledgements still on their way for lines
     transmitted during connection (0 in a quiescent start) *)
  Definition init (stmts : list S) (stale : nat) : st :=
    {| todo := stmts; ph := Idle; ack := false; stored := false; queue := []; dev_pending := [];
       from_dev := repeat LOk stale; received := []; outcomes := []; termd := 0; calls := 0; stamps := seq 0 stale; temitted := stale |}.

  Fixpoint run (ls : list label) (s : st) : option st :=
    match ls with
    | [] => Some s
    | l :: ls' => match step l s with Some s' => run ls' s' | None => None end
    end.
End Direct.


(* ---------------- trace checker: is an observed trace a run of the model? ---------------- *)
(* Events seen from outside: ECall = write() entered, ERecv x = the device received statement x, ERx l = a line was
   handed to printcore's reader, EReturn o = write() returned / raised.  The reader may handle a line some time after
   it was handed over: before ECall and EReturn any further prefix of the lines handed over so far may have been handled. *)
Section Check.
  Inductive event := ECall | ERecv (x : nat) | ERx (l : line) | EReturn (o : outcome).

  Definition with_line (s : st nat) (l : line) : st nat :=
    {| todo := todo nat s; ph := ph nat s; ack := ack nat s; stored := stored nat s; queue := queue nat s; dev_pending := dev_pending nat s;
       from_dev := [l]; received := received nat s; outcomes := outcomes nat s; termd := termd nat s; calls := calls nat s;
       stamps := [0%nat]; temitted := temitted nat s |}.
  Definition handle (s : st nat) (l : line) : st nat := match step nat Read (with_line s l) with Some s' => s' | None => s end.

  Definition phase_eqb (a b : phase) := match a, b with Idle, Idle | Waiting, Waiting => true | _, _ => false end.
  Definition key_eqb (x y : st nat * nat) : bool :=
    Nat.eqb (snd x) (snd y) && phase_eqb (ph nat (fst x)) (ph nat (fst y)) && Bool.eqb (ack nat (fst x)) (ack nat (fst y)) &&
    Bool.eqb (stored nat (fst x)) (stored nat (fst y)) && Nat.eqb (length (queue nat (fst x))) (length (queue nat (fst y))) &&
    Nat.eqb (length (todo nat (fst x))) (length (todo nat (fst y))) && Nat.eqb (length (outcomes nat (fst x))) (length (outcomes nat (fst y))).
  Definition insert (x : st nat * nat) (l : list (st nat * nat)) := if existsb (key_eqb x) l then l else x :: l.

  Definition outcome_eqb (a b : outcome) := match a, b with Returned, Returned | Raised, Raised => true | _, _ => false end.
  Definition last_outcome_is (s : st nat) (o : outcome) : bool :=
    match rev (outcomes nat s) with x :: _ => outcome_eqb x o | [] => false end.

  (* apply label l after having handled k >= 0 further lines *)
  Fixpoint expand (l : label) (want : option outcome) (rest : list line) (s : st nat) (c : nat) (acc : list (st nat * nat)) :=
    let acc' := match step nat l s with
                | Some s' => match want with
                             | Some o => if last_outcome_is s' o then insert (s', c) acc else acc
                             | None => insert (s', c) acc
                             end
                | None => acc
                end in
    match rest with
    | [] => acc'
    | x :: rest' => expand l want rest' (handle s x) (Datatypes.S c) acc'
    end.

  Fixpoint check (evs : list event) (states : list (st nat * nat)) (seen : list line) : bool :=
    match evs with
    | [] => negb (match states with [] => true | _ => false end)
    | ERx l :: evs' => check evs' states (seen ++ [l])
    | ECall :: evs' =>
        let states' := fold_left (fun acc x => expand CallWrite None (skipn (snd x) seen) (fst x) (snd x) acc) states [] in
        match states' with [] => false | _ => check evs' states' seen end
    | EReturn o :: evs' =>
        let states' := fold_left (fun acc x => expand Return (Some o) (skipn (snd x) seen) (fst x) (snd x) acc) states [] in
        match states' with [] => false | _ => check evs' states' seen end
    | ERecv x :: evs' =>
        let states' := fold_left (fun acc y => match queue nat (fst y) with
                                               | q :: _ => if Nat.eqb q x then (match step nat Send (fst y) with Some s' => insert (s', snd y) acc | None => acc end) else acc
                                               | [] => acc end) states [] in
        match states' with [] => false | _ => check evs' states' seen end
    end.

  Definition check_trace (stmts : list nat) (evs : list event) : bool := check evs [(init nat stmts 0, 0%nat)] [].

  (* ---- what an observer sees of a run, and when the observed lines can have come from the device ---- *)
  Definition is_term (l : line) : bool := match l with LOk | LErr => true | _ => false end.

  (* the device can have produced the observed lines: every ok / error reply answers a statement it had received and not
     answered yet (b = statements received so far, a = replies observed so far) *)
  Fixpoint answerable (evs : list event) (b a : nat) : bool :=
    match evs with
    | [] => true
    | ERecv _ :: evs' => answerable evs' (Datatypes.S b) a
    | ERx l :: evs' => if is_term l then Nat.ltb a b && answerable evs' b (Datatypes.S a) else answerable evs' b a
    | _ :: evs' => answerable evs' b a
    end.

  (* what an observer sees of a run of the closed system *)
  Definition dev_label (l : line) : label :=
    match l with LOk => DevTerm false | LErr => DevTerm true | LStatus => DevStatus | LAlarm => DevAlarm end.
  Fixpoint observe (ls : list label) (s : st nat) : list event :=
    match ls with
    | [] => []
    | l :: ls' =>
      match step nat l s with
      | None => []
      | Some s' =>
        let rest := observe ls' s' in
        match l with
        | CallWrite => ECall :: rest
        | Return => match rev (outcomes nat s') with o :: _ => EReturn o :: rest | [] => rest end
        | Send => match queue nat s with x :: _ => ERecv x :: rest | [] => rest end
        | DevTerm err => ERx (if err then LErr else LOk) :: rest
        | DevStatus => ERx LStatus :: rest
        | DevAlarm => ERx LAlarm :: rest
        | Read => rest
        end
      end
    end.
End Check.
