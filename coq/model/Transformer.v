(* Model of geometry/transform.py and geometry/transformer.py over exact rationals:
   affine maps (3x3 linear part + translation = the 4x4 homogeneous matrices of the code), chained
   with the pivot conjugation  T(p) . M . T(-p) . current , the state stack, the named states and
   the two context managers.  Rotations enter as (cos, sin) pairs. *)
From Coq Require Import ZArith QArith Bool List.
From GS Require Import model.Num model.Builder.
Import ListNotations.
Open Scope Q_scope.

Record v3 := mkv { vx : Q; vy : Q; vz : Q }.

Definition mat (a b c d e f g h i x y z : Q) : affine := mkaff a b c d e f g h i x y z.
Definition app3 (m : affine) (p : v3) : v3 :=
  mkv (a11 m * vx p + a12 m * vy p + a13 m * vz p + t1 m)
      (a21 m * vx p + a22 m * vy p + a23 m * vz p + t2 m)
      (a31 m * vx p + a32 m * vy p + a33 m * vz p + t3 m).

(* (A . B) p = A (B p); entries kept in lowest terms *)
Definition amul (A B : affine) : affine :=
  mat (Qred (a11 A * a11 B + a12 A * a21 B + a13 A * a31 B)) (Qred (a11 A * a12 B + a12 A * a22 B + a13 A * a32 B))
      (Qred (a11 A * a13 B + a12 A * a23 B + a13 A * a33 B))
      (Qred (a21 A * a11 B + a22 A * a21 B + a23 A * a31 B)) (Qred (a21 A * a12 B + a22 A * a22 B + a23 A * a32 B))
      (Qred (a21 A * a13 B + a22 A * a23 B + a23 A * a33 B))
      (Qred (a31 A * a11 B + a32 A * a21 B + a33 A * a31 B)) (Qred (a31 A * a12 B + a32 A * a22 B + a33 A * a32 B))
      (Qred (a31 A * a13 B + a32 A * a23 B + a33 A * a33 B))
      (Qred (a11 A * t1 B + a12 A * t2 B + a13 A * t3 B + t1 A))
      (Qred (a21 A * t1 B + a22 A * t2 B + a23 A * t3 B + t2 A))
      (Qred (a31 A * t1 B + a32 A * t2 B + a33 A * t3 B + t3 A)).

Definition a_trans (p : v3) : affine := mat 1 0 0 0 1 0 0 0 1 (vx p) (vy p) (vz p).
Definition vneg (p : v3) : v3 := mkv (- vx p) (- vy p) (- vz p).
Definition a_scale (sx sy sz : Q) : affine := mat sx 0 0 0 sy 0 0 0 sz 0 0 0.
Inductive axis := AX | AY | AZ.
Definition a_rot (ax : axis) (c s : Q) : affine :=
  match ax with
  | AX => mat 1 0 0 0 c (- s) 0 s c 0 0 0
  | AY => mat c 0 s 0 1 0 (- s) 0 c 0 0 0
  | AZ => mat c (- s) 0 s c 0 0 0 1 0 0 0
  end.
(* Householder reflection across the plane with normal n (not normalised): I - 2 n n^T / (n.n) *)
Definition a_reflect (n : v3) : affine :=
  let d := vx n * vx n + vy n * vy n + vz n * vz n in
  mat (1 - 2 * vx n * vx n / d) (- 2 * vx n * vy n / d) (- 2 * vx n * vz n / d)
      (- 2 * vy n * vx n / d) (1 - 2 * vy n * vy n / d) (- 2 * vy n * vz n / d)
      (- 2 * vz n * vx n / d) (- 2 * vz n * vy n / d) (1 - 2 * vz n * vz n / d) 0 0 0.

(* Transform._chain_matrix *)
Definition chain (pivot : v3) (M cur : affine) : affine :=
  amul (amul (a_trans pivot) (amul M (a_trans (vneg pivot)))) cur.

Definition det (m : affine) : Q :=
  a11 m * (a22 m * a33 m - a23 m * a32 m) - a12 m * (a21 m * a33 m - a23 m * a31 m)
  + a13 m * (a21 m * a32 m - a22 m * a31 m).
(* the inverse (adjugate / determinant) *)
Definition ainv (m : affine) : affine :=
  let d := det m in
  let b11 := (a22 m * a33 m - a23 m * a32 m) / d in let b12 := (a13 m * a32 m - a12 m * a33 m) / d in
  let b13 := (a12 m * a23 m - a13 m * a22 m) / d in
  let b21 := (a23 m * a31 m - a21 m * a33 m) / d in let b22 := (a11 m * a33 m - a13 m * a31 m) / d in
  let b23 := (a13 m * a21 m - a11 m * a23 m) / d in
  let b31 := (a21 m * a32 m - a22 m * a31 m) / d in let b32 := (a12 m * a31 m - a11 m * a32 m) / d in
  let b33 := (a11 m * a22 m - a12 m * a21 m) / d in
  mat b11 b12 b13 b21 b22 b23 b31 b32 b33
      (- (b11 * t1 m + b12 * t2 m + b13 * t3 m))
      (- (b21 * t1 m + b22 * t2 m + b23 * t3 m))
      (- (b31 * t1 m + b32 * t2 m + b33 * t3 m)).

(* ---- the transformer ---- *)
Record tf1 := mktf { t_m : affine; t_pivot : v3 }.          (* one Transform object (value) *)
Record tstate := mkts { cur : tf1; stack : list tf1; named : list (nat * tf1);
                        ctxs : list (tf1 * list tf1) }.
Definition tf_id : tf1 := mktf aff_id (mkv 0 0 0).
Definition ts0 : tstate := mkts tf_id [] [] [].

Inductive terr := TValueErr | TIndexErr | TKeyErr.
Inductive top :=
| Translate (x y z : Q) | Scale (fs : list Q) | Rotate (ax : axis) (c s : Q) | Reflect (n : v3)
| SetPivot (p : v3)
| Save (name : option nat) | Restore (name : option nat) | Delete (name : nat)
| EnterCurrent | EnterNamed (name : nat) | ExitCtx.

Fixpoint nget (k : nat) (l : list (nat * tf1)) : option tf1 :=
  match l with [] => None | (k', v) :: l' => if Nat.eqb k k' then Some v else nget k l' end.
Fixpoint nset (k : nat) (v : tf1) (l : list (nat * tf1)) : list (nat * tf1) :=
  match l with [] => [(k, v)] | (k', v') :: l' => if Nat.eqb k k' then (k, v) :: l' else (k', v') :: nset k v l' end.
Fixpoint ndel (k : nat) (l : list (nat * tf1)) : list (nat * tf1) :=
  match l with [] => [] | (k', v') :: l' => if Nat.eqb k k' then l' else (k', v') :: ndel k l' end.

Definition with_m (s : tstate) (M : affine) : tstate :=
  mkts (mktf (chain (t_pivot (cur s)) M (t_m (cur s))) (t_pivot (cur s))) (stack s) (named s) (ctxs s).
Definition qz (q : Q) : bool := Qeq_bool q 0.

Definition tstep (s : tstate) (o : top) : tstate * option terr :=
  match o with
  | Translate x y z => (with_m s (a_trans (mkv x y z)), None)
  | Scale fs =>
      match fs with
      | [a] => if qz a then (s, Some TValueErr) else (with_m s (a_scale a a a), None)
      | [a; b] => if qz a || qz b then (s, Some TValueErr) else (with_m s (a_scale a b 1), None)
      | [a; b; c] => if qz a || qz b || qz c then (s, Some TValueErr) else (with_m s (a_scale a b c), None)
      | _ => (s, Some TValueErr)
      end
  | Rotate ax c sn => (with_m s (a_rot ax c sn), None)
  | Reflect n => if qz (vx n) && qz (vy n) && qz (vz n) then (s, Some TValueErr) else (with_m s (a_reflect n), None)
  | SetPivot p => (mkts (mktf (t_m (cur s)) p) (stack s) (named s) (ctxs s), None)
  | Save None => (mkts (cur s) (cur s :: stack s) (named s) (ctxs s), None)
  | Save (Some n) => (mkts (cur s) (stack s) (nset n (cur s) (named s)) (ctxs s), None)
  | Restore None =>
      match stack s with
      | [] => (s, Some TIndexErr)
      | t :: st => (mkts t st (named s) (ctxs s), None)
      end
  | Restore (Some n) =>
      match nget n (named s) with
      | None => (s, Some TKeyErr)
      | Some t => (mkts t (stack s) (named s) (ctxs s), None)
      end
  | Delete n =>
      match nget n (named s) with
      | None => (s, Some TKeyErr)
      | Some _ => (mkts (cur s) (stack s) (ndel n (named s)) (ctxs s), None)
      end
  | EnterCurrent => (mkts (cur s) (stack s) (named s) ((cur s, stack s) :: ctxs s), None)
  | EnterNamed n =>
      match nget n (named s) with
      | None => (s, Some TKeyErr)       (* raised before the with-body: no context is entered *)
      | Some t => (mkts t (stack s) (named s) ((cur s, stack s) :: ctxs s), None)
      end
  | ExitCtx =>
      match ctxs s with
      | [] => (s, None)
      | (c, st) :: cs => (mkts c st (named s) cs, None)
      end
  end.

Definition trun (ops : list top) : tstate := fold_left (fun s o => fst (tstep s o)) ops ts0.
Definition t_apply (s : tstate) (p : v3) : v3 := app3 (t_m (cur s)) p.
Definition t_reverse (s : tstate) (p : v3) : v3 := app3 (ainv (t_m (cur s))) p.
