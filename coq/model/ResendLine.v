(* How printcore._listen reads a resend request (C15: "a resend request makes transmission restart from the requested
   line").  A received line that starts with "resend" (any case) or with "rs" has every "N:", "N" and ":" replaced by a
   blank, is split at blanks, and the first word that int() accepts becomes resendfrom.  Words are [+-]digits here
   (what firmwares send; int() also accepts underscores and non-ASCII digits, which are outside this model). *)
From Coq Require Import List NArith ZArith Bool.
From GS Require Import model.Sender model.JobLines.
Import ListNotations.
Open Scope N_scope.

Definition rsep (c : N) : bool := (c =? 78) || (c =? 58) || is_ws c.          (* 'N', ':' and blanks *)

Fixpoint rsplit (l : list N) : list (list N) :=
  match l with
  | [] => [[]]
  | c :: l' => if rsep c then [] :: rsplit l'
               else match rsplit l' with t :: ts => (c :: t) :: ts | [] => [[c]] end
  end.
Definition nonempty (t : list N) : bool := match t with [] => false | _ => true end.
Definition rwords (l : list N) : list (list N) := filter nonempty (rsplit l).

Definition int_word (t : list N) : option Z :=
  match t with
  | 43 :: ds => option_map Z.of_N (parse_N ds)       (* "+5" *)
  | _ => parse_Z t
  end.
Fixpoint first_int (ws : list (list N)) : option Z :=
  match ws with
  | [] => None
  | w :: ws' => match int_word w with Some z => Some z | None => first_int ws' end
  end.

Definition lower (c : N) : N := if (65 <=? c) && (c <=? 90) then c + 32 else c.
Fixpoint starts_with (p l : list N) : bool :=
  match p, l with
  | [], _ => true
  | a :: p', b :: l' => (a =? b) && starts_with p' l'
  | _, [] => false
  end.
Definition is_resend (line : list N) : bool :=
  starts_with [114;101;115;101;110;100] (map lower line) || starts_with [114;115] line.   (* "resend" / "rs" *)

(* None: the line does not change resendfrom *)
Definition resend_request (line : list N) : option Z :=
  if is_resend line then first_int (rwords line) else None.
