(* C02  Interlocks: no unsafe tool/coolant/halt sequence is ever emitted.
   Model: model/Builder.v; specification side: the word-by-word scan of model/Interp.v
   (tool start M3/M4, stop M5, coolant start M7/M8, stop M9, tool change M6, halt/wait words
   M0 M1 M2 M30 M60 M109 M190 M191 M400).  The instruction words come from the table
   regenerated from /repo (gen/GenTables.v) through the lemmas of proofs/Tables.v. *)
From Coq Require Import ZArith QArith Bool List String.
From GS Require Import model.Num model.Builder model.Interp proofs.Tables proofs.FlagsProofs proofs.InterlockProofs.
Import ListNotations.
Open Scope string_scope.

(* For every history over the whole state-tracked API (raw write() excluded; free parameter
   letters other than M -- [cmd_ok]), every decimal_places, including histories with
   rejected calls and the C05 leak sites: scanning the emitted program never meets a tool
   start while the tool runs, a coolant start while coolant is on, or a tool change / halt /
   wait word while either is active; and whenever the emitted program has the tool
   (coolant) on, the builder reports it on. *)
Theorem C02_safe : forall dp cs, Forall cmd_ok cs ->
  let f := scan_lines flags0 (output dp init cs) in
  f_ok f = true /\
  (f_tool f = true -> tool_on (final dp init cs) = true) /\
  (f_cool f = true -> cool_on (final dp init cs) = true).
Proof.
  intros dp cs H. destruct (run_inv dp cs init flags0 H Inv_init) as (A & B & C & _). auto.
Qed.
Print Assumptions C02_safe.

(* such a call raises instead, from every state, and changes nothing *)
Theorem C02_raises_tool_on : forall dp s sm x, tool_on s = true -> sm <> SpinOff ->
  err_of (step1 dp s (ToolOn (Member sm) x)) = Some ToolStateErr /\ unchanged s (step1 dp s (ToolOn (Member sm) x)).
Proof. exact tool_on_raises. Qed.
Theorem C02_raises_power_on : forall dp s pm x, tool_on s = true -> pm <> PowOff ->
  err_of (step1 dp s (PowerOn (Member pm) x)) = Some ToolStateErr /\ unchanged s (step1 dp s (PowerOn (Member pm) x)).
Proof. exact power_on_raises. Qed.
Theorem C02_raises_coolant_on : forall dp s cm, cool_on s = true -> cm <> CoolOff ->
  err_of (step1 dp s (CoolantOn (Member cm))) = Some CoolantStateErr /\ unchanged s (step1 dp s (CoolantOn (Member cm))).
Proof. exact coolant_on_raises. Qed.
Theorem C02_raises_tool_change : forall dp s sm n, sm <> SwapOff ->
  in_range (b_toolnum (bnd s)) (Fin (inject_Z n)) = true -> (1 <= n)%Z ->
  (tool_on s = true -> err_of (step1 dp s (ToolChange (Member sm) n)) = Some ToolStateErr) /\
  (tool_on s = false -> cool_on s = true ->
     err_of (step1 dp s (ToolChange (Member sm) n)) = Some CoolantStateErr) /\
  (tool_on s = true \/ cool_on s = true -> unchanged s (step1 dp s (ToolChange (Member sm) n))).
Proof. exact tool_change_raises. Qed.
Theorem C02_raises_halt : forall dp s h ps, h <> HaltOff ->
  (tool_on s = true -> err_of (step1 dp s (Halt (Member h) ps)) = Some ToolStateErr) /\
  (tool_on s = false -> cool_on s = true -> err_of (step1 dp s (Halt (Member h) ps)) = Some CoolantStateErr) /\
  (tool_on s = true \/ cool_on s = true -> unchanged s (step1 dp s (Halt (Member h) ps))).
Proof. exact halt_raises. Qed.
Print Assumptions C02_raises_halt.

(* conversely, from every state and for every call: ToolStateError only from tool_on /
   power_on / tool_change / halt with the tool reported active; CoolantStateError only from
   coolant_on / tool_change / halt with coolant reported active; every other rejection is a
   ValueError (argument validation: bounds, negative or non-finite value, OFF or unknown
   mode, tool number < 1, fan speed outside [0,255], negative sleep, unknown bounds name,
   invalid annotation key -- the conditions are the [if]s of model/Builder.v step1). *)
Theorem C02_only_when : forall dp s c e, err_of (step1 dp s c) = Some e ->
  (e = ToolStateErr -> tool_on s = true /\ interlock_cmd_tool c) /\
  (e = CoolantStateErr -> cool_on s = true /\ interlock_cmd_cool c) /\
  (e = ToolStateErr \/ e = CoolantStateErr \/ e = ValueErr).
Proof. exact interlock_only_when. Qed.
Print Assumptions C02_only_when.

(* non-vacuity: a history in which the tool is started through the power API, a second start
   through the spindle API and a pause are rejected, then everything is switched off *)
Example C02_nonvacuous :
  let cs := [PowerOn (Member PowConst) (Fin 50); Move Linear (mkreq (Some (Fin 1)) None None) [("F", Fin 100)];
             ToolOn (Member SpinCW) (Fin 100); Halt (Member HPause) []; PowerOff; Halt (Member HPause) []] in
  Forall cmd_ok cs /\
  map (fun r => err_of r) (run 5 init cs) = [None; None; Some ToolStateErr; Some ToolStateErr; None; None].
Proof. split; [repeat constructor; cbn; try discriminate|vm_compute; reflexivity]. Qed.
