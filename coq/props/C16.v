(* C16  Direct-write statements are delivered synchronously and errors surface.
   Model: model/Direct.v -- the caller's write() (clear ack, enqueue, wait for ack, re-raise the stored error), printcore's
   priority queue and sender thread, a FIFO device (one terminator per statement: ok or an error reply; any latency; any
   unsolicited status lines; unsolicited error/alarm lines) and the reader callback, as a transition system whose runs are
   all interleavings of caller, sender thread, device and reader.
   PARTIAL: (1) steps are atomic (threading.Event / Queue semantics, the scheduler and timeouts are not modelled);
   (2) synchrony is proved from a quiescent start with unsolicited error lines handled between statements only; without quiescence it is FALSE
   for the faithful model and for the code (C16_refuted_stale_ok = the recorded finding); (3) statements are abstract:
   the byte-level strip / encode('ascii') path is tied by the correspondence only (non-ASCII statements: recorded finding). *)
From Coq Require Import ZArith Bool List.
From GS Require Import model.Direct proofs.DirectProofs proofs.DirectCheck.
Import ListNotations.

(* ORDER: in every reachable state and for every device behaviour, what the device has received followed by what is
   still queued is exactly the statements written so far: call order, each exactly once, unmodified *)
Theorem C16_order : forall (S : Type) stmts k ls s, run S ls (init S stmts k) = Some s ->
  received S s ++ queue S s = firstn (calls S s) stmts.
Proof. exact order. Qed.
Print Assumptions C16_order.

(* ... and the same when the acknowledgement flag and the stored error are overwritten with arbitrary values at arbitrary
   moments: delivery order does not depend on any race between write() and the reader callback *)
Theorem C16_order_racy : forall (S : Type) stmts k ls s, rrun S ls (init S stmts k) = Some s ->
  received S s ++ queue S s = firstn (calls S s) stmts.
Proof. exact order_racy. Qed.

(* SYNCHRONY and DISCONNECT: from a quiescent start, for any acknowledgement latency, any unsolicited status lines, error
   replies at any position and unsolicited error lines handled between statements (grun = every run in which the reader
   handles an unsolicited error line only while no write() is waiting; C16_refuted_alarm_during_wait is the excluded case): completed writes never outnumber handled terminators, and whenever no write() is in
   progress everything written has been sent and acknowledged (nothing queued, nothing pending in the device, no
   terminator on its way) -- the state disconnect(wait=True) waits for *)
Theorem C16_sync : forall (S : Type) stmts ls s, grun S ls (init S stmts 0) = Some s ->
  (length (outcomes S s) <= termd S s)%nat /\
  (ph S s = Idle -> termd S s = length (outcomes S s) /\ queue S s = [] /\ dev_pending S s = [] /\ nterm (from_dev S s) = 0%nat /\
                    length (received S s) = length (outcomes S s)).
Proof. exact sync. Qed.

(* write() does not return before the device has acknowledged that very statement: at the moment it returns, the
   number of terminators handled (FIFO: with every line sent before them) is exactly the number of this statement *)
Theorem C16_return_after_own_ack : forall (S : Type) stmts ls s s', grun S ls (init S stmts 0) = Some s ->
  step S Return s = Some s' -> termd S s = Datatypes.S (length (outcomes S s)) /\ length (received S s) = Datatypes.S (length (outcomes S s)).
Proof. exact return_after_own_ack. Qed.
Print Assumptions C16_return_after_own_ack.

(* READINGS: ... so a reading requested by the statement is available when write() returns: every line still on its
   way to the reader was emitted by the device after the terminator of this statement (the reader handles lines in order
   and parses a line before setting the acknowledgement) *)
Theorem C16_readings_available : forall (S : Type) stmts ls s s', grun S ls (init S stmts 0) = Some s ->
  step S Return s = Some s' -> Forall (fun k => (Datatypes.S (length (outcomes S s)) <= k)%nat) (stamps S s).
Proof. exact readings_available. Qed.

(* without quiescence, quantified: with k acknowledgements still on their way when the first write() starts (k = 1 is
   the recorded finding), completed writes still never outnumber handled acknowledgements, of which k belong to nobody:
   write number i may return once the acknowledgement of statement i - k is handled -- at most k statements early *)
Theorem C16_sync_stale : forall (S : Type) stmts k ls s, grun S ls (init S stmts k) = Some s ->
  (length (outcomes S s) <= termd S s)%nat /\
  (length (received S s) + k = length (dev_pending S s) + nterm (from_dev S s) + termd S s)%nat.
Proof. exact sync_stale. Qed.

(* ERRORS SURFACE: an error / alarm / !! line handled by the reader makes the next write() that completes raise *)
Theorem C16_error_surfaces : forall (S : Type) s1 s2 rest ls s3 s4,
  (from_dev S s1 = LErr :: rest \/ from_dev S s1 = LAlarm :: rest) -> step S Read s1 = Some s2 ->
  run S ls s2 = Some s3 -> ~ In Return ls -> step S Return s3 = Some s4 ->
  exists pre, outcomes S s4 = pre ++ [Raised].
Proof. exact error_surfaces. Qed.
Theorem C16_raises_only_on_error : forall (S : Type) s s', step S Return s = Some s' -> stored S s = false ->
  exists pre, outcomes S s' = pre ++ [Returned].
Proof. exact raises_only_on_error. Qed.
Print Assumptions C16_error_surfaces.

(* an unsolicited error line handled during a wait releases that write() early -- by design of the code *)
Theorem C16_refuted_alarm_during_wait : exists s, run nat [CallWrite; Send; DevAlarm; Read; Return] (init nat [7%nat] 0) = Some s /\
  outcomes nat s = [Raised] /\ termd nat s = 0%nat /\ dev_pending nat s = [7%nat].
Proof. exact refuted_alarm_during_wait. Qed.

(* without quiescence: one acknowledgement still on its way from the connection phase lets write() return before the
   device has even received the statement *)
Theorem C16_refuted_stale_ok : exists s, run nat [CallWrite; Read; Return] (init nat [7%nat] 1) = Some s /\
  outcomes nat s = [Returned] /\ received nat s = [] /\ queue nat s = [7%nat].
Proof. exact refuted_stale_ok. Qed.

(* THE TIE, as a theorem.  The correspondence run accepts an observed trace (write() entered / the device received x / a
   line was handed to the reader / write() returned or raised) when check_trace accepts it and the observed replies are
   answerable by a FIFO device (every ok / error reply answers a statement received and not yet answered).  Every such
   trace is a run of the transition system above -- some interleaving ls of caller, sender, device and reader steps from
   the quiescent start whose observable projection is exactly the observed trace -- so C16_order and the other theorems
   about runs speak about what was observed.  (The reader may lag: a line is handled at any moment after it was observed.) *)
Theorem C16_accepted_trace_is_run : forall stmts evs, check_trace stmts evs = true -> answerable evs 0 0 = true ->
  exists ls t, run nat ls (init nat stmts 0) = Some t /\ observe ls (init nat stmts 0) = evs.
Proof. exact accepted_trace_is_run. Qed.
Print Assumptions C16_accepted_trace_is_run.

Example C16_accepted_nonvacuous :
  let evs := [ECall; ERecv 1; ERx LStatus; ERx LOk; EReturn Returned; ECall; ERecv 2; ERx LErr; EReturn Raised] in
  check_trace [1; 2]%nat evs = true /\ answerable evs 0 0 = true /\
  answerable [ECall; ERx LOk; ERecv 1; EReturn Returned] 0 0 = false.
Proof. vm_compute. repeat split. Qed.

(* non-vacuity: two statements, a status line, an error reply to the second *)
Example C16_nonvacuous : exists s,
  run nat [CallWrite; Send; DevStatus; DevTerm false; Read; Read; Return; CallWrite; Send; DevTerm true; Read; Return] (init nat [1; 2]%nat 0) = Some s /\
  outcomes nat s = [Returned; Raised] /\ received nat s = [1; 2]%nat /\ ph nat s = Idle /\
  check_trace [1; 2]%nat [ECall; ERecv 1; ERx LStatus; ERx LOk; EReturn Returned; ECall; ERecv 2; ERx LErr; EReturn Raised] = true.
Proof. eexists. vm_compute. repeat split. Qed.
