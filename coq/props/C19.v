(* C19  Heightmaps interpolate faithfully and sample paths within tolerance.
   Model: model/HeightMap.v.  gscrib's own logic is modelled and proved: the path filter (_filter_points), the
   sparse line sampler (linspace), the raster line sampler (skimage.draw.line as Bresenham, tied by exact
   correspondence on every run), the range test / (y, x) argument order / scale of get_depth_at, and barycentric
   interpolation with fill value 0 on a GIVEN triangulation.
   PARTIAL: scipy's RectBivariateSpline (that it reproduces the grid) and scipy's Delaunay construction are
   hypotheses / inputs of the theorems, checked on the implementation by the harness oracle, not proved. *)
From Coq Require Import ZArith QArith Qabs Qround Bool List.
From GS Require Import model.HeightMap proofs.HeightMapProofs.
Import ListNotations.
Open Scope Q_scope.

(* sample_path's filter: starts at the first sample, ends at the last one, in-order selection *)
Theorem C19_filter : forall tol pts first, 0 < tol -> hd_error pts = Some first ->
  hd_error (filter_points tol pts) = Some first /\
  pt_eqb (last (filter_points tol pts) first) (last pts first) = true /\
  subseq (filter_points tol pts) pts.
Proof. exact filter_spec. Qed.
Print Assumptions C19_filter.

(* the drop rule: a sample is dropped exactly when it differs in height from the previously kept one by less
   than the tolerance; a kept sample becomes the reference *)
Theorem C19_drop_rule : forall tol lz pre p post,
  let ref := lastz lz (fgo tol lz pre) in
  (Qabs (zof p - ref) < tol -> fgo tol lz (pre ++ p :: post) = fgo tol lz pre ++ fgo tol ref post) /\
  (tol <= Qabs (zof p - ref) -> fgo tol lz (pre ++ p :: post) = fgo tol lz pre ++ p :: fgo tol (zof p) post).
Proof. exact drop_rule. Qed.
Print Assumptions C19_drop_rule.

(* sparse maps: samples start/end exactly at the requested ends, lie on the segment in order, carry the map's height *)
Theorem C19_sparse_line : forall depth n x1 y1 x2 y2, (1 <= n)%nat ->
  length (sparse_line depth n x1 y1 x2 y2) = S n /\
  (forall i, (i <= n)%nat ->
     let p := nth i (sparse_line depth n x1 y1 x2 y2) (0, 0, 0) in
     let t := inject_Z (Z.of_nat i) / inject_Z (Z.of_nat n) in
     0 <= t <= 1 /\ fst (fst p) == x1 + t * (x2 - x1) /\ snd (fst p) == y1 + t * (y2 - y1) /\
     zof p = depth (fst (fst p)) (snd (fst p))) /\
  fst (nth 0 (sparse_line depth n x1 y1 x2 y2) (0, 0, 0)) = (x1 + 0 * ((x2 - x1) / inject_Z (Z.of_nat n)), y1 + 0 * ((y2 - y1) / inject_Z (Z.of_nat n))) /\
  fst (nth n (sparse_line depth n x1 y1 x2 y2) (0, 0, 0)) = (x2, y2).
Proof. exact sparse_line_spec. Qed.

(* raster maps: the pixel line starts and ends on the (rounded) requested ends, advances one pixel per step along
   the major axis and stays within half a pixel of the ideal line *)
Theorem C19_raster_line : forall r0 c0 r1 c1,
  let dr := Z.abs (r1 - r0) in let dc := Z.abs (c1 - c0) in
  let sr := if (0 <? r1 - r0)%Z then 1%Z else (-1)%Z in
  let sc := if (0 <? c1 - c0)%Z then 1%Z else (-1)%Z in
  length (draw_line r0 c0 r1 c1) = S (Z.to_nat (Z.max dr dc)) /\
  last (draw_line r0 c0 r1 c1) (0, 0)%Z = (r1, c1) /\
  hd (0, 0)%Z (draw_line r0 c0 r1 c1) = (r0, c0) /\
  forall i, (i < Z.to_nat (Z.max dr dc))%nat -> exists k : Z,
    nth i (draw_line r0 c0 r1 c1) (0, 0)%Z =
      (if (dc <? dr)%Z then ((r0 + Z.of_nat i * sr)%Z, (c0 + k * sc)%Z) else ((r0 + k * sr)%Z, (c0 + Z.of_nat i * sc)%Z)) /\
    (if (dc <? dr)%Z then (- dr <= 2 * (dc * Z.of_nat i - dr * k) < dr)%Z else (- dc <= 2 * (dr * Z.of_nat i - dc * k) < dc)%Z).
Proof. exact draw_line_spec. Qed.
Print Assumptions C19_raster_line.

(* get_depth_at of a raster map: zero outside, scale * interpolator(y, x) inside, and (if the interpolant reproduces
   the grid) scale * stored height at every pixel centre with x = column and y = row *)
Theorem C19_raster_outside : forall width height scale interp x y,
  x < 0 \/ inject_Z width <= x \/ y < 0 \/ inject_Z height <= y -> raster_depth width height scale interp x y = 0.
Proof. exact raster_outside. Qed.
Theorem C19_raster_pixel_centre : forall width height scale interp (pixel : Z -> Z -> Z) sixteen,
  (forall row col, (0 <= row < height)%Z -> (0 <= col < width)%Z ->
     interp (inject_Z row) (inject_Z col) == normalise sixteen (pixel row col)) ->
  forall row col, (0 <= row < height)%Z -> (0 <= col < width)%Z ->
    raster_depth width height scale interp (inject_Z col) (inject_Z row) == scale * normalise sixteen (pixel row col).
Proof. exact raster_pixel_centre. Qed.

(* sparse maps on a given triangulation: between the smallest and largest stored height inside, zero outside,
   the stored height at a vertex *)
Theorem C19_sparse_range : forall lo hi tris x y, Forall (tri_in lo hi) tris ->
  (forall t, In t tris -> let '(a, b, c) := t in bary a b c x y = None) /\ tri_interp tris x y = 0 \/
  (exists t, In t tris /\ let '(a, b, c) := t in bary a b c x y <> None) /\ lo <= tri_interp tris x y <= hi.
Proof. exact tri_interp_range. Qed.
Theorem C19_sparse_vertex : forall a b c rest,
  ~ det2 (vx b - vx a) (vy b - vy a) (vx c - vx a) (vy c - vy a) == 0 ->
  tri_interp ((a, b, c) :: rest) (vx a) (vy a) == vz a.
Proof. exact tri_interp_vertex. Qed.
Print Assumptions C19_sparse_range.

(* the weights are the barycentric coordinates of the query point (they reproduce its location), so the value is the
   height at (x, y) of the plane through the triangle's three stored vertices; in particular a height field that is
   affine on a triangle is reproduced exactly everywhere in it, and all three vertices return their stored height *)
Theorem C19_sparse_point : forall a b c x y w0 w1 w2, bary a b c x y = Some (w0, w1, w2) ->
  (0 <= w0 /\ 0 <= w1 /\ 0 <= w2 /\ w0 + w1 + w2 == 1) /\
  x == w0 * vx a + w1 * vx b + w2 * vx c /\ y == w0 * vy a + w1 * vy b + w2 * vy c.
Proof. intros a b c x y w0 w1 w2 H. split; [exact (bary_weights _ _ _ _ _ _ _ _ H)|exact (bary_point _ _ _ _ _ _ _ _ H)]. Qed.
Theorem C19_sparse_affine : forall a b c rest p q r x y,
  vz a == p * vx a + q * vy a + r -> vz b == p * vx b + q * vy b + r -> vz c == p * vx c + q * vy c + r ->
  bary a b c x y <> None -> tri_interp ((a, b, c) :: rest) x y == p * x + q * y + r.
Proof. exact tri_interp_affine. Qed.
Theorem C19_sparse_vertex_b : forall a b c rest,
  ~ det2 (vx b - vx a) (vy b - vy a) (vx c - vx a) (vy c - vy a) == 0 ->
  tri_interp ((a, b, c) :: rest) (vx b) (vy b) == vz b.
Proof. exact tri_interp_vertex_b. Qed.
Theorem C19_sparse_vertex_c : forall a b c rest,
  ~ det2 (vx b - vx a) (vy b - vy a) (vx c - vx a) (vy c - vy a) == 0 ->
  tri_interp ((a, b, c) :: rest) (vx c) (vy c) == vz c.
Proof. exact tri_interp_vertex_c. Qed.
(* barycentric coordinates are unique: any weights summing to 1 that reproduce the query point in a non-degenerate
   triangle are the ones the model computes, so the interpolated value cannot depend on vertex order or on how the weights
   were obtained; and with a positive scale the scaled value is 0 or between scale x min and scale x max *)
Theorem C19_sparse_unique : forall a b c x y w0 w1 w2 u0 u1 u2, bary a b c x y = Some (w0, w1, w2) ->
  u0 + u1 + u2 == 1 -> x == u0 * vx a + u1 * vx b + u2 * vx c -> y == u0 * vy a + u1 * vy b + u2 * vy c ->
  w0 == u0 /\ w1 == u1 /\ w2 == u2.
Proof. exact bary_unique. Qed.
Theorem C19_sparse_scaled_range : forall scale lo hi tris x y, 0 < scale -> Forall (tri_in lo hi) tris ->
  sparse_depth scale tris x y == 0 \/ scale * lo <= sparse_depth scale tris x y <= scale * hi.
Proof. exact sparse_depth_range. Qed.
Print Assumptions C19_sparse_unique.
Print Assumptions C19_sparse_scaled_range.
Print Assumptions C19_sparse_point.
Print Assumptions C19_sparse_affine.
Print Assumptions C19_sparse_vertex_c.

(* sample_path as a whole.  Raster maps: starts at the pixel of the rounded start, ends at the pixel of the rounded end,
   in-order selection of the pixel line, own height everywhere *)
Theorem C19_raster_path : forall width height scale interp tol x1 y1 x2 y2, 0 < tol ->
  let r0 := py_round x1 in let c0 := py_round y1 in let r1 := py_round x2 in let c1 := py_round y2 in
  let depth := raster_depth width height scale interp in
  let path := raster_sample_path width height scale interp tol x1 y1 x2 y2 in
  let first := (inject_Z r0, inject_Z c0, depth (inject_Z r0) (inject_Z c0)) in
  hd_error path = Some first /\
  pt_eqb (last path first) (inject_Z r1, inject_Z c1, depth (inject_Z r1) (inject_Z c1)) = true /\
  subseq path (raster_line width height scale interp x1 y1 x2 y2) /\
  Forall (fun p => zof p = depth (fst (fst p)) (snd (fst p))) path.
Proof. exact raster_path_spec. Qed.

(* Sparse maps: starts exactly at (x1, y1), ends exactly at (x2, y2), in-order selection of the equally spaced samples,
   own height everywhere *)
Theorem C19_sparse_path : forall depth tol n x1 y1 x2 y2, 0 < tol -> (1 <= n)%nat ->
  let path := sparse_sample_path depth tol n x1 y1 x2 y2 in
  (exists z0, hd_error path = Some (x1 + 0 * ((x2 - x1) / inject_Z (Z.of_nat n)), y1 + 0 * ((y2 - y1) / inject_Z (Z.of_nat n)), z0)) /\
  (exists zl first, pt_eqb (last path first) (x2, y2, zl) = true) /\
  subseq path (sparse_line depth n x1 y1 x2 y2) /\
  Forall (fun p => zof p = depth (fst (fst p)) (snd (fst p))) path.
Proof. exact sparse_path_spec. Qed.
Print Assumptions C19_raster_path.

(* non-vacuity *)
Example C19_nonvacuous :
  draw_line 0 0 2 5 = [(0, 0); (0, 1); (1, 2); (1, 3); (2, 4); (2, 5)]%Z /\
  filter_points (1 # 2) [(0, 0, 0); (1, 0, 1 # 4); (2, 0, 3 # 4); (3, 0, 1); (4, 0, 1)] = [(0, 0, 0); (2, 0, 3 # 4); (4, 0, 1)] /\
  py_round (5 # 2) = 2%Z /\ py_round (7 # 2) = 4%Z.
Proof. vm_compute. repeat split. Qed.
