(* C05  A rejected command has no effect.
   Model: model/Builder.v, whose step1 reproduces the order of effects inside each method of
   gcode_builder.py / gcode_core.py / gcode_state.py.

   THE FULL STATEMENT
       forall s c, rejected (step1 dp s c) -> st_of (step1 dp s c) = s /\ lines_of (step1 dp s c) = []
   IS FALSE OF THE FAITHFUL MODEL, and of the unchanged code: see C05_refuted_* below (each
   witness is replayed on the implementation by the check and recorded in known_findings.json).
   What is proved instead is the exact extent of the failure:
     - C05_atomic: every call outside an explicit list of eleven call kinds is atomic from every
       state (nothing emitted, state identical, hence later calls behave as if it had never
       been made);
     - C05_frame_*: for each of the eleven kinds, a rejected call emits nothing (move_absolute /
       rapid_absolute in relative mode: nothing or exactly the G90, G91 pair) and every state field
       outside a stated small set is unchanged; the sets are attained (the C05_refuted witnesses);
     - C05_atomic_when_*: side conditions under which those calls are atomic after all. *)
From Coq Require Import ZArith QArith Bool List String.
From GS Require Import model.Num model.Builder model.Interp proofs.Tables proofs.FlagsProofs
  proofs.InterlockProofs proofs.AtomicProofs.
Import ListNotations.
Open Scope string_scope.

Theorem C05_atomic : forall dp s c, always_atomic c = true ->
  rejected (step1 dp s c) -> st_of (step1 dp s c) = s /\ lines_of (step1 dp s c) = [].
Proof. exact atomic_always. Qed.
Print Assumptions C05_atomic.

(* consequence spelled out: the rest of any history behaves as if the call had not been made *)
Corollary C05_later : forall dp s c cs, always_atomic c = true -> rejected (step1 dp s c) ->
  run dp (st_of (step1 dp s c)) cs = run dp s cs.
Proof. intros dp s c cs Ha Hr. destruct (atomic_always dp s c Ha Hr) as [-> _]. reflexivity. Qed.

Theorem C05_frame_move : forall dp s k r ps, rejected (step1 dp s (Move k r ps)) ->
  lines_of (step1 dp s (Move k r ps)) = [] /\ frame_move s (st_of (step1 dp s (Move k r ps)))
  /\ haltm (st_of (step1 dp s (Move k r ps))) = haltm s.
Proof. exact move_rejected. Qed.
Theorem C05_frame_move_absolute : forall dp s k r ps, sdm s = dm s -> rejected (step1 dp s (MoveAbs k r ps)) ->
  (lines_of (step1 dp s (MoveAbs k r ps)) = [] \/ lines_of (step1 dp s (MoveAbs k r ps)) = mode_pair)
  /\ frame_move s (st_of (step1 dp s (MoveAbs k r ps))).
Proof. exact move_abs_rejected. Qed.
Theorem C05_frame_set_axis : forall dp s r ps, rejected (step1 dp s (SetAxis r ps)) ->
  lines_of (step1 dp s (SetAxis r ps)) = [] /\ frame_pos s (st_of (step1 dp s (SetAxis r ps))).
Proof. exact set_axis_rejected. Qed.
Theorem C05_frame_home : forall dp s r ps, rejected (step1 dp s (Home r ps)) ->
  lines_of (step1 dp s (Home r ps)) = [] /\ frame_pos s (st_of (step1 dp s (Home r ps))).
Proof. exact home_rejected. Qed.
Theorem C05_frame_probe : forall dp s m r ps, rejected (step1 dp s (Probe m r ps)) ->
  lines_of (step1 dp s (Probe m r ps)) = [] /\ frame_probe s (st_of (step1 dp s (Probe m r ps))).
Proof. exact probe_rejected. Qed.
Theorem C05_frame_tool_on : forall dp s m x, rejected (step1 dp s (ToolOn m x)) ->
  lines_of (step1 dp s (ToolOn m x)) = [] /\ frame_tool s (st_of (step1 dp s (ToolOn m x))) /\
  powerm (st_of (step1 dp s (ToolOn m x))) = powerm s /\
  (xfinite x = true -> st_of (step1 dp s (ToolOn m x)) = s).
Proof. exact tool_on_rejected. Qed.
Theorem C05_frame_power_on : forall dp s m x, rejected (step1 dp s (PowerOn m x)) ->
  lines_of (step1 dp s (PowerOn m x)) = [] /\ frame_tool s (st_of (step1 dp s (PowerOn m x))) /\
  spinm (st_of (step1 dp s (PowerOn m x))) = spinm s /\
  (xfinite x = true -> st_of (step1 dp s (PowerOn m x)) = s).
Proof. exact power_on_rejected. Qed.
Theorem C05_frame_set_feed : forall dp s x, rejected (step1 dp s (SetFeed x)) ->
  lines_of (step1 dp s (SetFeed x)) = [] /\
  (xfinite x = true -> st_of (step1 dp s (SetFeed x)) = s) /\
  (st_of (step1 dp s (SetFeed x)) = s \/ st_of (step1 dp s (SetFeed x)) = set_feed s x).
Proof. exact set_feed_rejected. Qed.
Theorem C05_frame_set_power : forall dp s x, rejected (step1 dp s (SetPower x)) ->
  lines_of (step1 dp s (SetPower x)) = [] /\
  (xfinite x = true -> st_of (step1 dp s (SetPower x)) = s) /\
  (st_of (step1 dp s (SetPower x)) = s \/ st_of (step1 dp s (SetPower x)) = set_tpower s x).
Proof. exact set_power_rejected. Qed.
Theorem C05_frame_halt : forall dp s m ps, rejected (step1 dp s (Halt m ps)) ->
  lines_of (step1 dp s (Halt m ps)) = [] /\ frame_halt s (st_of (step1 dp s (Halt m ps))) /\
  (err_of (step1 dp s (Halt m ps)) <> Some ValueErr -> st_of (step1 dp s (Halt m ps)) = s).
Proof. exact halt_rejected. Qed.
Print Assumptions C05_frame_halt.

(* a move is atomic when nothing can be committed before the rejection: no hooks (or a rapid),
   no F/S words, no axes bounds *)
Theorem C05_atomic_when_move : forall dp k s r ps,
  hooks s = [] \/ k = Rapid -> pget "F" ps = None -> pget "S" ps = None -> b_axes (bnd s) = None ->
  rejected (step1 dp s (Move k r ps)) -> no_effect s (step1 dp s (Move k r ps)).
Proof.
  intros dp k s r ps. cbn [step1]. destruct (transform_move s (req_point r)) as [mv t].
  apply do_move_atomic_when.
Qed.

(* in every reachable state the two copies of the distance mode agree (hypothesis of C05_frame_move_absolute) *)
Theorem C05_reachable_modes_agree : forall dp cs, sdm (final dp init cs) = dm (final dp init cs).
Proof. intros dp cs. apply (reachable_modes_agree dp cs init). reflexivity. Qed.
Print Assumptions C05_reachable_modes_agree.

(* the full statement is refuted by these witnesses (vm_compute on the model; replayed on the code) *)
Example C05_refuted_move_bounds :
  let s := final 5 init [box] in
  let r := step1 5 s (Move Linear (rq (Fin 100)) [("F", Fin 1234)]) in
  err_of r = Some ValueErr /\ lines_of r = [] /\ px (pos (st_of r)) = Some 100%Q /\ feed (st_of r) = Fin 1234 /\
  px (spos (st_of r)) = Some 0%Q.
Proof. exact leak_move_bounds. Qed.
Example C05_refuted_move_absolute_modes :
  let s := final 5 init [SetDistance (Member Relative)] in
  let r := step1 5 s (MoveAbs Linear (rq (Fin 1)) [("F", Fin (-1))]) in
  err_of r = Some ValueErr /\ lines_of r = mode_pair.
Proof. exact leak_move_abs_modes. Qed.
Example C05_refuted_tool_on_inf :
  let r := step1 5 init (ToolOn (Member SpinCW) PInf) in
  err_of r = Some ValueErr /\ lines_of r = [] /\ tool_on (st_of r) = true.
Proof. exact leak_tool_on_inf. Qed.
Example C05_refuted_probe_feed :
  let s := final 5 init [Move Linear (mkreq (Some (Fin 1)) (Some (Fin 1)) (Some (Fin 1))) []] in
  let r := step1 5 s (Probe (Member PTowards) (mkreq None None (Some (Fin (-5)))) [("F", Fin (-1))]) in
  err_of r = Some ValueErr /\ lines_of r = [] /\ pz (pos (st_of r)) = None /\ pz (pos s) = Some 1%Q.
Proof. exact leak_probe_feed. Qed.
Example C05_refuted_halt_temperature :
  let s := final 5 init [SetBounds BBed unknown unknown (Fin 0) (Fin 120)] in
  let r := step1 5 s (Halt (Member HWaitBed) [("S", Fin 600)]) in
  err_of r = Some ValueErr /\ lines_of r = [] /\ haltm (st_of r) = HWaitBed.
Proof. exact leak_halt_temperature. Qed.
Example C05_refuted_set_feed_nan :
  let r := step1 5 init (SetFeed NaN) in err_of r = Some ValueErr /\ feed (st_of r) = NaN.
Proof. exact leak_set_feed_nan. Qed.

(* non-vacuity of C05_atomic: a reachable state in which an always-atomic call is rejected *)
Example C05_nonvacuous :
  let s := final 5 init [ToolOn (Member SpinCW) (Fin 100); CoolantOn (Member CoolMist)] in
  always_atomic (ToolChange (Member SwapManual) 2) = true /\ rejected (step1 5 s (ToolChange (Member SwapManual) 2)).
Proof. split; [reflexivity|vm_compute; discriminate]. Qed.
