(* C18  Device reports are parsed into the readings the caller asks for.
   Model: model/Report.v -- _on_device_message (as repaired: an 'ok ...' line is parsed before the
   acknowledgement), _parse_message, _update_param; the regular expression is modelled by a hand
   scanner and float() by a decimal parser; the model is compared with the real PrintrunWriter on
   generated report sequences on every run. *)
From Coq Require Import List NArith ZArith QArith Bool.
From GS Require Import model.Report proofs.ReportProofs.
Import ListNotations.
Open Scope N_scope.

(* Scanning.  A report is any sequence of fields  KEY:v1,v2,...  and inert text (text in which no
   alphanumeric byte directly precedes a colon and which does not end alphanumerically: "ok ",
   " /210.0 ", " Count ", "<Idle|", "|", ">", "[", ":1]", " @", ...).  Keys are non-empty alphanumeric
   strings, values non-empty runs of minus/digit/dot; what follows a value ends it.  For EVERY such
   report -- any number of fields, any order, any values -- the scanner returns exactly the KEY:value
   fields, in order. *)
Theorem C18_scan : forall fs, wf fs -> scan (render fs) = kvs_of fs.
Proof. exact scan_report. Qed.
Print Assumptions C18_scan.

(* Readings.  After a report with scanned fields kvs (single-letter keys upper-case, as in all the
   report families), for every upper-case letter k: the reading is the value that appears FIRST for k
   in this report -- directly (X:.., T:..), through FS (F, S; Grbl reports only) or through
   MPos / WPos / PRB (X Y Z A B C in order) -- and the earlier reading if the report does not mention
   k.  [expand] lists the elementary readings of a field; a value that float() rejects is skipped. *)
Theorem C18_readings : forall lt kvs old k, Forall field_upper kvs -> is_upper_key k ->
  rget k (readings (fold_left (handle_kv lt) kvs (mkr old []))) =
  match first_of k (flat_map (expand lt) kvs) with Some v => Some v | None => rget k old end.
Proof. exact readings_after_fields. Qed.
Print Assumptions C18_readings.

(* both together, evaluated on the report families of the property (non-vacuity / regression):
   Marlin temperature with a leading ok, Marlin position (first X wins over "Count X"), Grbl status
   with WPos after MPos, probe report; then a report that mentions only Z *)
Example C18_corpus :
  let msgs := [ [111;107;32;84;58;50;49;48;46;53;32;47;50;49;48;46;48;32;66;58;54;48;46;49;32;47;54;48;46;48];
                [88;58;48;46;48;48;32;89;58;49;46;48;32;90;58;50;32;69;58;48;32;67;111;117;110;116;32;88;58;45;51;55;32;89;58;56;48];
                [60;73;100;108;101;124;77;80;111;115;58;53;46;48;44;45;52;46;48;44;49;46;53;124;70;83;58;53;48;48;44;56;48;48;48;124;87;80;111;115;58;45;52;46;48;44;48;44;48;62];
                [91;80;82;66;58;49;46;48;44;50;46;48;44;45;51;46;53;58;49;93];
                [90;58;55] ] in
  let s := fold_left (fun s m => fst (on_message s m)) msgs (mkr [] []) in
  map (fun k => rget k (readings s)) [[84]; [66]; [88]; [89]; [90]; [69]; [70]; [83]] =
  [Some (421 # 2); Some (601 # 10); Some 1; Some 2; Some 7; Some 0; Some 500; Some 8000]%Q.
Proof. vm_compute. reflexivity. Qed.

(* the Marlin position report of the corpus is an instance of the grammar of C18_scan *)
Example C18_grammar_instance :
  let fs := [KV [88] [[48;46;48;48]]; Junk [32]; KV [89] [[49;46;48]]; Junk [32;67;111;117;110;116;32]; KV [88] [[45;51;55]]] in
  wf fs /\ render fs = [88;58;48;46;48;48;32;89;58;49;46;48;32;67;111;117;110;116;32;88;58;45;51;55].
Proof. split; [|reflexivity]. cbn. repeat split; try discriminate; repeat constructor; try discriminate; auto. Qed.
