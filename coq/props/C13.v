(* C13  Transform states are saved, restored and inverted exactly.
   Model: model/Transformer.v -- exact-rational affine maps chained as T(pivot).M.T(-pivot).current,
   the stack of saved states, the named states, current_transform()/named_transform() contexts
   (values are immutable in the model: aliasing in the implementation shows up as a correspondence
   break and is judged by the independent 4x4 oracle of the harness). *)
From Coq Require Import ZArith QArith Bool List.
From GS Require Import model.Num model.Builder model.Transformer proofs.TransformerProofs.
Import ListNotations.
Open Scope Q_scope.

(* stack order: after save_state() and ANY well-bracketed activity (edits, named saves/restores/
   deletes, failing calls, nested save/restore pairs), restore_state() succeeds and brings back
   exactly the saved transform, pivot and stack *)
Theorem C13_lifo : forall s ops, balanced ops ->
  let s2 := trun_from (fst (tstep s (Save None))) ops in
  cur (fst (tstep s2 (Restore None))) = cur s /\ stack (fst (tstep s2 (Restore None))) = stack s /\
  snd (tstep s2 (Restore None)) = None.
Proof. exact save_restore_lifo. Qed.
Print Assumptions C13_lifo.

(* a named state is an immutable snapshot: whatever happens after saving it -- restoring it and
   editing the transform, other saves, contexts, ... anything but saving or deleting that very name --
   restoring the name yields exactly the value that was saved *)
Theorem C13_named_immutable : forall n ops s, forallb (fun o => negb (touches_name n o)) ops = true ->
  let s1 := fst (tstep s (Save (Some n))) in
  let s2 := trun_from s1 ops in
  tstep s2 (Restore (Some n)) = (mkts (cur s) (stack s2) (named s2) (ctxs s2), None).
Proof. exact restore_named_yields_saved. Qed.
Print Assumptions C13_named_immutable.

(* context managers: the exit (the generator's finally: also when the body raises) puts back the
   exact transform and stack of the entry, for every body -- including bodies that pop stack entries
   pushed before the context, and nested contexts *)
Theorem C13_current_transform_restores : forall s ops, body ops ->
  let s2 := trun_from (fst (tstep s EnterCurrent)) ops in
  let s3 := fst (tstep s2 ExitCtx) in
  cur s3 = cur s /\ stack s3 = stack s /\ ctxs s3 = ctxs s.
Proof. exact current_transform_restores. Qed.
Theorem C13_named_transform_restores : forall s n t ops, body ops -> nget n (named s) = Some t ->
  let s1 := fst (tstep s (EnterNamed n)) in
  let s2 := trun_from s1 ops in
  let s3 := fst (tstep s2 ExitCtx) in
  cur s1 = t /\ cur s3 = cur s /\ stack s3 = stack s /\ ctxs s3 = ctxs s.
Proof. exact named_transform_restores. Qed.
Print Assumptions C13_named_transform_restores.

(* reversing a transformed point returns the original point, in every state reachable through the
   API (rotations given by (c, s) with c^2 + s^2 = 1; zero scale factors and zero normals are
   rejected by the code): every reachable transform is invertible *)
Theorem C13_reverse : forall ops p, Forall op_ok ops -> veq (t_reverse (trun ops) (t_apply (trun ops) p)) p.
Proof. exact reverse_apply. Qed.
Print Assumptions C13_reverse.

(* rotations, scalings and reflections chained about a pivot leave the pivot fixed *)
Theorem C13_pivot_fixed : forall P M, linear M -> veq (app3 (amul (a_trans P) (amul M (a_trans (vneg P)))) P) P.
Proof. exact pivot_fixed. Qed.
Print Assumptions C13_pivot_fixed.

(* non-vacuity: the repaired defect's history and a context whose body pops outer stack entries *)
Example C13_nonvacuous :
  let ops := [Translate 10 0 0; Save (Some 1%nat); Restore (Some 1%nat); Translate 5 0 0; Restore (Some 1%nat);
              Save None; Save None; EnterCurrent; Restore None; Restore None; Rotate AZ (3 # 5) (4 # 5);
              ExitCtx; Restore None; Restore None] in
  Forall op_ok ops /\ vx (t_apply (trun ops) (mkv 0 0 0)) == 10 /\ stack (trun ops) = [] /\
  map (fun o => snd o) (snd (fold_left (fun acc o => (fst (tstep (fst acc) o), snd acc ++ [tstep (fst acc) o])) ops (ts0, [])))
    = repeat None 14.
Proof. split; [repeat constructor; cbn; reflexivity|]. vm_compute. repeat split. Qed.
