(* C08  Every emitted line is one well-formed block with faithful numbers.
   Model: model/FloatFmt.v -- IEEE decoding of binary16/32/64 values and a declarative model of
   numpy.format_float_positional(x, precision=dp, unique=True, fractional=True, trim='-'), the
   call made by DefaultFormatter.number; the model is compared with the real formatter on
   thousands of structured values per run (text-exact).
   The assembly of a block -- instruction, then label+number words separated by single spaces --
   is model/Block.v (DefaultFormatter.command / parameters), compared byte for byte with the real
   formatter; C08_block reads every such block back.  The comment and terminator clauses (one
   terminator, words then at most one comment) are stated in props/C09.v on model/Formatter.v and
   checked on raw bytes by the harness's independent block grammar. *)
From Coq Require Import ZArith QArith Qabs Bool List Lia.
From GS Require Import model.Num model.FloatFmt model.Block proofs.FloatFmtProofs proofs.BlockProofs.
Import ListNotations.

(* For EVERY finite non-zero value of any binary format (sign, mantissa > 0, exponent: subnormals,
   powers of two, 1e15 and beyond included) and every decimal_places dp: digits are produced (the
   generation loop never runs out), with at most dp fractional digits, and the printed magnitude
   q/10^k is either inside the value's own rounding interval [v - mlow, v + mhigh] (it reads back as
   exactly the requested scalar) or -- only when the cut-off at dp places was reached -- within
   half a unit of the dp-th decimal place of the value.  The first disjunct is not a weakening:
   beyond 2^53 * 10^-dp the double's own spacing exceeds 10^-dp. *)
Theorem C08_number : forall f dp, exists r, fmt_digits f dp = Some r /\
  (d_k r <= Z.of_nat dp)%Z /\
  ((fval f - mlow f <= dval r /\ dval r <= fval f + mhigh f)%Q \/
   (d_k r = Z.of_nat dp /\ (Qabs (dval r - fval f) <= (1 # 2) / pow10q (Z.of_nat dp))%Q)).
Proof. exact fmt_digits_spec. Qed.
Print Assumptions C08_number.

(* the text: optional '-', one or more digits, optionally '.' and 1..k digits: a plain signed
   decimal -- no exponent, no letters, no "nan"/"inf" *)
Theorem C08_plain_decimal : forall neg r, (0 <= d_q r)%Z ->
  exists ip fp, render neg r = (if neg then [45%N] else []) ++ ip ++ (match fp with [] => [] | _ => 46%N :: fp end) /\
    ip <> [] /\ Forall digit_char ip /\ Forall digit_char fp /\ (Z.of_nat (length fp) <= Z.max (d_k r) 0)%Z.
Proof. exact render_shape. Qed.
Print Assumptions C08_plain_decimal.

(* every number the formatter writes for a finite value is a plain signed decimal: optional '-',
   digits, optionally '.' and digits *)
Theorem C08_number_is_plain : forall eb mb bits dp t, (0 <= bits)%Z -> number eb mb bits dp = Some t -> plain_text t.
Proof. exact number_plain. Qed.

(* the whole block.  For every instruction token and every list of words (letters-only labels, any
   finite binary16/32/64 values): if the formatter writes the block at all (no value is rejected),
   an independent reader -- split at spaces, then split each word where its letters end -- gets back
   exactly the instruction followed by the words, each word splits exactly into its label and the
   number text, and each number text is a plain decimal (its value is the one of C08_number).  So
   the block consists of address words only: no empty token (no double space), nothing glued. *)
Theorem C08_block : forall dp cmd ws txt, cmd <> [] -> ~ In SPC cmd -> Forall bword_ok ws ->
  command_text dp cmd ws = Some txt ->
  exists nums, Forall2 (fun w n => word_number dp w = Some n /\ plain_text n) ws nums /\
    split_sp txt = cmd :: map (fun wn => w_label (fst wn) ++ snd wn) (combine ws nums) /\
    Forall (fun wn => span_letters (w_label (fst wn) ++ snd wn) = (w_label (fst wn), snd wn)) (combine ws nums).
Proof. exact block_readback. Qed.
Print Assumptions C08_block.

(* "G1 X1.5 Y-0.25 F1200" at 3 places; a NaN word: nothing is written *)
Example C08_block_nonvacuous :
  let ws := [mkbword [88%N] 11 52 0x3FF8000000000000; mkbword [89%N] 11 52 0xBFD0000000000000;
             mkbword [70%N] 11 52 0x4092C00000000000] in
  Forall bword_ok ws /\
  command_text 3 [71; 49]%N ws = Some [71;49;32;88;49;46;53;32;89;45;48;46;50;53;32;70;49;50;48;48]%N /\
  command_text 3 [71; 49]%N [mkbword [88%N] 11 52 0x7FF8000000000000] = None.
Proof.
  split; [|vm_compute; split; reflexivity].
  repeat constructor; try discriminate; unfold w_bits; lia.
Qed.

(* +-0 print as "0"; infinities and NaN (all-ones exponent field) are rejected *)
Theorem C08_zero : forall dp, number_text FZero dp = Some [48%N].
Proof. reflexivity. Qed.
Theorem C08_reject : forall eb mb bits, ((bits / 2 ^ mb) mod 2 ^ eb =? 2 ^ eb - 1)%Z = true ->
  forall dp, number eb mb bits dp = None.
Proof. intros eb mb bits H dp. now rewrite (decode_special eb mb bits H). Qed.
Print Assumptions C08_reject.

(* non-vacuity / regression corpus, evaluated inside Coq:
   1.2345678 -> "1.23457" at 5 places; 2.675 (binary below the tie) -> "2.67"; 0.5 -> "0" (tie to even);
   the smallest subnormal -> "-0"; 1e15+0.125 -> "1000000000000000.1" (own spacing > 10^-5);
   float32 0.1 -> "0.1"; NaN rejected *)
Example C08_corpus :
  number 11 52 0x3FF3C0CA2A5B1D5D 5 = Some [49;46;50;51;52;53;55]%N /\
  number 11 52 0x4005666666666666 2 = Some [50;46;54;55]%N /\
  number 11 52 0x3FE0000000000000 0 = Some [48]%N /\
  number 11 52 0x8000000000000001 5 = Some [45;48]%N /\
  number 11 52 0x430C6BF526340001 5 = Some [49;48;48;48;48;48;48;48;48;48;48;48;48;48;48;48;46;49]%N /\
  number 8 23 0x3DCCCCCD 5 = Some [48;46;49]%N /\
  number 11 52 0x7FF8000000000000 5 = None.
Proof. vm_compute. repeat split. Qed.
