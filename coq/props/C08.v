(* C08  Every emitted line is one well-formed block with faithful numbers.
   Model: model/FloatFmt.v -- IEEE decoding of binary16/32/64 values and a declarative model of
   numpy.format_float_positional(x, precision=dp, unique=True, fractional=True, trim='-'), the
   call made by DefaultFormatter.number; the model is compared with the real formatter on
   thousands of structured values per run (text-exact).
   The line-level clauses (one terminator, words then at most one comment) are stated in
   props/C09.v on the text model of the formatter (model/Formatter.v) and checked on raw bytes by
   the harness's independent block grammar. *)
From Coq Require Import ZArith QArith Qabs Bool List.
From GS Require Import model.Num model.FloatFmt proofs.FloatFmtProofs.
Import ListNotations.

(* For EVERY finite non-zero value of any binary format (sign, mantissa > 0, exponent: subnormals,
   powers of two, 1e15 and beyond included) and every decimal_places dp: digits are produced (the
   generation loop never runs out), with at most dp fractional digits, and the printed magnitude
   q/10^k is either inside the value's own rounding interval [v - mlow, v + mhigh] (it reads back as
   exactly the requested scalar) or -- only when the cut-off at dp places was reached -- within
   half a unit of the dp-th decimal place of the value.  The first disjunct is not a weakening:
   beyond 2^53 * 10^-dp the double's own spacing exceeds 10^-dp. *)
Theorem C08_number : forall f dp, exists r, fmt_digits f dp = Some r /\
  (d_k r <= Z.of_nat dp)%Z /\
  ((fval f - mlow f <= dval r /\ dval r <= fval f + mhigh f)%Q \/
   (d_k r = Z.of_nat dp /\ (Qabs (dval r - fval f) <= (1 # 2) / pow10q (Z.of_nat dp))%Q)).
Proof. exact fmt_digits_spec. Qed.
Print Assumptions C08_number.

(* the text: optional '-', one or more digits, optionally '.' and 1..k digits: a plain signed
   decimal -- no exponent, no letters, no "nan"/"inf" *)
Theorem C08_plain_decimal : forall neg r, (0 <= d_q r)%Z ->
  exists ip fp, render neg r = (if neg then [45%N] else []) ++ ip ++ (match fp with [] => [] | _ => 46%N :: fp end) /\
    ip <> [] /\ Forall digit_char ip /\ Forall digit_char fp /\ (Z.of_nat (length fp) <= Z.max (d_k r) 0)%Z.
Proof. exact render_shape. Qed.
Print Assumptions C08_plain_decimal.

(* +-0 print as "0"; infinities and NaN (all-ones exponent field) are rejected *)
Theorem C08_zero : forall dp, number_text FZero dp = Some [48%N].
Proof. reflexivity. Qed.
Theorem C08_reject : forall eb mb bits, ((bits / 2 ^ mb) mod 2 ^ eb =? 2 ^ eb - 1)%Z = true ->
  forall dp, number eb mb bits dp = None.
Proof. intros eb mb bits H dp. now rewrite (decode_special eb mb bits H). Qed.
Print Assumptions C08_reject.

(* non-vacuity / regression corpus, evaluated inside Coq:
   1.2345678 -> "1.23457" at 5 places; 2.675 (binary below the tie) -> "2.67"; 0.5 -> "0" (tie to even);
   the smallest subnormal -> "-0"; 1e15+0.125 -> "1000000000000000.1" (own spacing > 10^-5);
   float32 0.1 -> "0.1"; NaN rejected *)
Example C08_corpus :
  number 11 52 0x3FF3C0CA2A5B1D5D 5 = Some [49;46;50;51;52;53;55]%N /\
  number 11 52 0x4005666666666666 2 = Some [50;46;54;55]%N /\
  number 11 52 0x3FE0000000000000 0 = Some [48]%N /\
  number 11 52 0x8000000000000001 5 = Some [45;48]%N /\
  number 11 52 0x430C6BF526340001 5 = Some [49;48;48;48;48;48;48;48;48;48;48;48;48;48;48;48;46;49]%N /\
  number 8 23 0x3DCCCCCD 5 = Some [48;46;49]%N /\
  number 11 52 0x7FF8000000000000 5 = None.
Proof. vm_compute. repeat split. Qed.
