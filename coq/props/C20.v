(* C20  Move hooks see the true move and extrusion matches path length.
   Model: model/Builder.v -- _prepare_move threads the parameters through the registered hooks (a
   small hook language: recording hook, parameter-setting hook, the bundled extrusion hook with
   math.hypot modelled by a square root correct to 2^-60), _track_move_params, the statement, and
   _update_axes. *)
From Coq Require Import ZArith QArith Bool List String.
From GS Require Import model.Num model.Builder proofs.BoundsProofs proofs.TrackProofs proofs.HooksProofs.
Import ListNotations.
Open Scope string_scope.

(* every linear move -- move(), move_absolute(), each segment of an interpolated path: all go through
   do_move -- calls each registered hook exactly once, in registration order, with the resolved
   position before the move as origin and the absolute target of the move; rapids call none;
   this holds whether the move is later accepted or rejected, in both distance modes *)
Theorem C20_called_once : forall dp k s r mv tg ps,
  calls_of (do_move dp k s r mv tg ps) =
  match k with
  | Linear => map (fun h => HookCall (hook_id h) (resolve (pos s)) (to_absolute s mv)) (hooks s)
  | Rapid => []
  end.
Proof. exact do_move_calls. Qed.
Print Assumptions C20_called_once.

(* with no transform active that target is the position tracked after the move, on every axis,
   for every request in either distance mode *)
Theorem C20_true_target : forall s p, tf s = aff_id ->
  let '(mv, tg) := transform_move s p in peq (to_absolute s mv) tg.
Proof. exact hook_target_is_tracked. Qed.
Print Assumptions C20_true_target.

(* the parameters a hook leaves are the ones remembered: get_parameter afterwards returns them *)
Theorem C20_params_remembered : forall s r ps k, params_ok ps -> reserved k = false ->
  cget k (cparams (remember s r ps)) = match pget k ps with Some v => Some v | None => cget k (cparams s) end.
Proof. exact remembered_params. Qed.

(* the bundled extrusion hook: E = (nozzle x layer / filament cross-section) x XY length, as a per-move
   amount in relative extrusion mode, added to the remembered E (the running total, restartable with
   an E reset: G92 E.. rewrites the remembered E) in absolute mode *)
Theorem C20_extrusion : forall s id area cross o t ps,
  pget "E" (run_hook s (HExtrude id area cross) o t ps qsqrt) =
  Some (Fin (let amount := qdiv (qmul area (xy_len o t)) cross in
             match em s with
             | ERelative => amount
             | EAbsolute => match cget "E" (cparams s) with
                            | Some e => if xis_zero e then amount else qadd amount (xq e)
                            | None => amount
                            end
             end)).
Proof. exact extrusion_hook_amount. Qed.
(* ... where the XY length is the square root of dx^2 + dy^2 to within 2^-60 *)
Theorem C20_length : forall q, (0 <= q)%Q ->
  (qsqrt q * qsqrt q <= q)%Q /\ (q < (qsqrt q + (1 # Pos.pow 2 60)) * (qsqrt q + (1 # Pos.pow 2 60)))%Q.
Proof. exact qsqrt_bounds. Qed.
Print Assumptions C20_length.

(* non-vacuity: two hooks, absolute extrusion, a move, an E reset, a relative-mode bypass move *)
Example C20_nonvacuous :
  let cs := [AddHook (HRecord 1); AddHook (HExtrude 2 (1 # 8) (3 # 1)); SetExtrusion (Member EAbsolute);
             Move Linear (mkreq (Some (Fin 3)) (Some (Fin 4)) None) [];
             SetAxis (mkreq None None None) [("E", Fin 0)];
             SetDistance (Member Relative);
             MoveAbs Linear (mkreq (Some (Fin 6)) (Some (Fin 8)) None) []] in
  map (fun r => calls_of r) (run 5 init cs) =
    [[]; []; []; [HookCall 1 zero (mkpt (Some 3) (Some 4) (Some 0)); HookCall 2 zero (mkpt (Some 3) (Some 4) (Some 0))]; []; [];
     [HookCall 1 (mkpt (Some 3) (Some 4) (Some 0)) (mkpt (Some 6) (Some 8) (Some 0));
      HookCall 2 (mkpt (Some 3) (Some 4) (Some 0)) (mkpt (Some 6) (Some 8) (Some 0))]]%Q /\
  cget "E" (cparams (final 5 init cs)) = Some (Fin (5 # 24)).
Proof. vm_compute. split; reflexivity. Qed.
