(* C20  Move hooks see the true move and extrusion matches path length.
   Model: model/Builder.v -- _prepare_move threads the parameters through the registered hooks (a
   small hook language: recording hook, parameter-setting hook, word-dropping hook (returns a new mapping),
   the bundled extrusion hook with
   math.hypot modelled by a square root correct to 2^-60), _track_move_params, the statement, and
   _update_axes. *)
From Coq Require Import ZArith QArith Bool List String.
From GS Require Import model.Num model.Builder proofs.FlagsProofs proofs.BoundsProofs proofs.MirrorProofs proofs.TrackProofs
  proofs.HooksProofs proofs.ExtrudeProofs proofs.HookMoveProofs model.Interp.
Import ListNotations.
Open Scope string_scope.

(* every linear move -- move(), move_absolute(), each segment of an interpolated path: all go through
   do_move -- calls each registered hook exactly once, in registration order, with the resolved
   position before the move as origin and the absolute target of the move; rapids call none;
   this holds whether the move is later accepted or rejected, in both distance modes *)
Theorem C20_called_once : forall dp k s r mv tg ps,
  calls_of (do_move dp k s r mv tg ps) =
  match k with
  | Linear => map (fun h => HookCall (hook_id h) (resolve (pos s)) (to_absolute s mv)) (hooks s)
  | Rapid => []
  end.
Proof. exact do_move_calls. Qed.
Print Assumptions C20_called_once.

(* with no transform active that target is the position tracked after the move, on every axis,
   for every request in either distance mode *)
Theorem C20_true_target : forall s p, tf s = aff_id ->
  let '(mv, tg) := transform_move s p in peq (to_absolute s mv) tg.
Proof. exact hook_target_is_tracked. Qed.
Print Assumptions C20_true_target.

(* the parameters a hook leaves are the ones remembered: get_parameter afterwards returns them *)
Theorem C20_params_remembered : forall s r ps k, params_ok ps -> reserved k = false ->
  cget k (cparams (remember s r ps)) = match pget k ps with Some v => Some v | None => cget k (cparams s) end.
Proof. exact remembered_params. Qed.

(* the bundled extrusion hook: E = (nozzle x layer / filament cross-section) x XY length, as a per-move
   amount in relative extrusion mode, added to the remembered E (the running total, restartable with
   an E reset: G92 E.. rewrites the remembered E) in absolute mode *)
Theorem C20_extrusion : forall s id area cross o t ps,
  pget "E" (run_hook s (HExtrude id area cross) o t ps qsqrt) =
  Some (Fin (let amount := qdiv (qmul area (xy_len o t)) cross in
             match em s with
             | ERelative => amount
             | EAbsolute => match cget "E" (cparams s) with
                            | Some e => if xis_zero e then amount else qadd amount (xq e)
                            | None => amount
                            end
             end)).
Proof. exact extrusion_hook_amount. Qed.
(* ... where the XY length is the square root of dx^2 + dy^2 to within 2^-60 *)
Theorem C20_length : forall q, (0 <= q)%Q ->
  (qsqrt q * qsqrt q <= q)%Q /\ (q < (qsqrt q + (1 # Pos.pow 2 60)) * (qsqrt q + (1 # Pos.pow 2 60)))%Q.
Proof. exact qsqrt_bounds. Qed.
Print Assumptions C20_length.

(* "the true origin and target", measured against the emitted program.  For every history (no
   transform, no C05 leak) and every accepted linear move() in it: each registered hook is called
   exactly once, with origin = the builder's position before the move and target = its position after
   the move -- and those two positions are the ones an independent interpreter (model/Interp.v,
   [pinterp_lines], the C01 machine) derives from the lines emitted before, respectively up to and
   including, that move ([Agree]: same distance mode, every axis the machine knows within the
   accumulated output rounding).  Bypass moves and path segments go through the same [do_move]
   (C20_called_once, C20_true_target hold for them as stated there). *)
Theorem C20_hook_sees_program_move : forall dp cs1 r ps cs2,
  let c := Move Linear r ps in
  Forall cmd_ok1 (cs1 ++ c :: cs2) -> clean_run dp init (cs1 ++ c :: cs2) ->
  let s := final dp init cs1 in
  let s' := final dp init (cs1 ++ [c]) in
  err_of (step1 dp s c) = None ->
  Agree dp s (pinterp_lines pmach0 (output dp init cs1)) /\
  Agree dp s' (pinterp_lines pmach0 (output dp init (cs1 ++ [c]))) /\
  Forall (call_ok (pos s) (pos s')) (calls_of (step1 dp s c)) /\
  List.length (calls_of (step1 dp s c)) = List.length (hooks s).
Proof. exact hook_sees_program_move. Qed.
Print Assumptions C20_hook_sees_program_move.

(* the running total over whole histories.  With the bundled extrusion hook as the only hook and
   absolute extrusion mode ([extruding]), for EVERY history of calls that contains no explicit E
   reset (an E word on a rapid / G92 / G28 / probe), no change of extrusion mode and no change of
   the hook list -- linear moves, bypass moves, interpolated paths, rapids, distance-mode switches
   and every other call kind, accepted or cleanly rejected -- the remembered E at the end is the E
   at the start plus (area / cross-section) x the XY length of every accepted linear move, where
   the lengths are those of the (origin, target) pairs the hook was called with (C20_called_once,
   C20_true_target: the true moves).  An E reset restarts the total at the given value
   (C20_e_reset); the E word of each G1 line is the rounding of this total (C07_params). *)
Theorem C20_running_total : forall dp id area cross cs s, Forall cmd_ok3 cs -> Forall e_neutral cs ->
  extruding id area cross s -> clean_run dp s cs ->
  (e_total (final dp s cs) == e_total s + area * sum_calls (all_good_calls (run dp s cs)) / cross)%Q /\
  extruding id area cross (final dp s cs).
Proof. exact history_total. Qed.
Print Assumptions C20_running_total.

Theorem C20_running_total_step : forall dp s c id area cross, cmd_ok3 c -> e_neutral c ->
  extruding id area cross s -> clean s (step1 dp s c) ->
  (e_total (st_of (step1 dp s c)) == e_total s + area * sum_calls (good_calls (step1 dp s c)) / cross)%Q /\
  extruding id area cross (st_of (step1 dp s c)).
Proof. exact step_total. Qed.

(* restart: an accepted G92 with an E word sets the remembered E to that value *)
Theorem C20_e_reset : forall dp s r ps v, params_ok ps -> pget "E" ps = Some v ->
  err_of (step1 dp s (SetAxis r ps)) = None -> e_total (st_of (step1 dp s (SetAxis r ps))) = xq v.
Proof. exact set_axis_resets. Qed.

(* non-vacuity of the running total: linear moves in both distance modes, a bypass move, a path, a
   rapid, a cleanly rejected move (hook called, nothing added), other calls in between *)
Example C20_running_total_nonvacuous :
  let s0 := final 5 init [AddHook (HExtrude 2 (1 # 8) (3 # 1))] in
  let cs := [Move Linear (mkreq (Some (Fin 3)) (Some (Fin 4)) None) [("E", Fin 77)];
             Move Rapid (mkreq None None (Some (Fin 2))) [];
             SetDistance (Member Relative); SetFeed (Fin 600);
             Move Linear (mkreq (Some (Fin 6)) (Some (Fin 8)) None) [];
             Move Linear (mkreq (Some PInf) None None) [];
             MoveAbs Linear (mkreq (Some (Fin 9)) (Some (Fin 16)) None) [];
             Polyline [mkpt (Some 9) (Some 26) (Some 0); mkpt (Some 19) (Some 26) (Some 0)] []] in
  extruding 2 (1 # 8) (3 # 1) s0 /\ Forall cmd_ok3 cs /\ Forall e_neutral cs /\ clean_run 5 s0 cs /\
  e_total s0 = 0 /\ sum_calls (all_good_calls (run 5 s0 cs)) = 39 /\
  cget "E" (cparams (final 5 s0 cs)) = Some (Fin (13 # 8)) /\
  map (fun r => err_of r) (run 5 s0 cs) = [None; None; None; None; None; Some ValueErr; None; None].
Proof.
  split; [vm_compute; auto|]. split; [|split; [|split; [|vm_compute; repeat split]]].
  - repeat constructor; cbn; try discriminate; try reflexivity; try tauto; intros H; inversion H; inversion H0.
  - repeat constructor.
  - vm_compute. repeat split; auto.
Qed.

(* non-vacuity: two hooks, absolute extrusion, a move, an E reset, a relative-mode bypass move *)
Example C20_nonvacuous :
  let cs := [AddHook (HRecord 1); AddHook (HExtrude 2 (1 # 8) (3 # 1)); SetExtrusion (Member EAbsolute);
             Move Linear (mkreq (Some (Fin 3)) (Some (Fin 4)) None) [];
             SetAxis (mkreq None None None) [("E", Fin 0)];
             SetDistance (Member Relative);
             MoveAbs Linear (mkreq (Some (Fin 6)) (Some (Fin 8)) None) []] in
  map (fun r => calls_of r) (run 5 init cs) =
    [[]; []; []; [HookCall 1 zero (mkpt (Some 3) (Some 4) (Some 0)); HookCall 2 zero (mkpt (Some 3) (Some 4) (Some 0))]; []; [];
     [HookCall 1 (mkpt (Some 3) (Some 4) (Some 0)) (mkpt (Some 6) (Some 8) (Some 0));
      HookCall 2 (mkpt (Some 3) (Some 4) (Some 0)) (mkpt (Some 6) (Some 8) (Some 0))]]%Q /\
  cget "E" (cparams (final 5 init cs)) = Some (Fin (5 # 24)).
Proof. vm_compute. split; reflexivity. Qed.
