(* C11  A toolpath is the same in relative and absolute distance mode.
   Model: model/Builder.v (to_absolute, to_distance_mode, _transform_move).  The tracer converts its
   arguments with to_absolute first and converts every vertex back with to_distance_mode; the shape
   functions themselves never see the distance mode. *)
From Coq Require Import ZArith QArith Bool List.
From GS Require Import model.Num model.Builder proofs.TrackProofs proofs.HooksProofs proofs.ModeProofs.
Import ListNotations.
Open Scope Q_scope.

(* For every tracked position and every request (any subset of axes): the request given as absolute
   coordinates in absolute mode and given as offsets from the tracked position in relative mode
   normalise to the same absolute target, on every axis (p + (t - p) = t, exactly). *)
Theorem C11_same_target : forall sa sr pa pr, same_but_mode sa sr ->
  as_offset (px (pos sa)) (px pa) (px pr) -> as_offset (py (pos sa)) (py pa) (py pr) ->
  as_offset (pz (pos sa)) (pz pa) (pz pr) ->
  peq (to_absolute sr pr) (to_absolute sa pa).
Proof. exact same_target. Qed.
Print Assumptions C11_same_target.

(* ... the origin (and hence a centre given relative to it) is the same too: every shape function --
   an arbitrary one -- is evaluated on identical absolute arguments in both modes *)
Theorem C11_same_origin : forall sa sr, same_but_mode sa sr -> resolve (pos sr) = resolve (pos sa).
Proof. exact same_origin. Qed.

(* ... and each absolute vertex, converted to the current mode and handed to move(), is reached
   (tracked position = vertex) in either mode.  With C01_tracks the two machine traces therefore
   agree vertex by vertex up to the rounding of the emitted words. *)
Theorem C11_vertex_reached : forall s v, tf s = aff_id ->
  let '(mv, tg) := transform_move s (to_distance_mode s v) in peq tg (resolve v).
Proof. exact vertex_reached. Qed.
Print Assumptions C11_vertex_reached.

(* non-vacuity: from (10, 0, unknown), target x = 4, y = 6 *)
Example C11_nonvacuous :
  let sa := set_pos init (mkpt (Some 10) (Some 0) None) in
  let sr := set_dm sa Relative in
  same_but_mode sa sr /\
  to_absolute sa (mkpt (Some 4) (Some 6) None) = mkpt (Some 4) (Some 6) (Some 0) /\
  to_absolute sr (mkpt (Some (-6)) (Some 6) None) = mkpt (Some 4) (Some 6) (Some 0).
Proof. vm_compute. repeat split. Qed.
