(* C11  A toolpath is the same in relative and absolute distance mode.
   Model: model/Builder.v (to_absolute, to_distance_mode, _transform_move).  The tracer converts its
   arguments with to_absolute first and converts every vertex back with to_distance_mode; the shape
   functions themselves never see the distance mode. *)
From Coq Require Import ZArith QArith Bool List.
From GS Require Import model.Num model.Builder model.Interp proofs.FlagsProofs proofs.TrackProofs proofs.HooksProofs proofs.ModeProofs
  proofs.PathProofs.
Import ListNotations.
Open Scope Q_scope.

(* For every tracked position and every request (any subset of axes): the request given as absolute
   coordinates in absolute mode and given as offsets from the tracked position in relative mode
   normalise to the same absolute target, on every axis (p + (t - p) = t, exactly). *)
Theorem C11_same_target : forall sa sr pa pr, same_but_mode sa sr ->
  as_offset (px (pos sa)) (px pa) (px pr) -> as_offset (py (pos sa)) (py pa) (py pr) ->
  as_offset (pz (pos sa)) (pz pa) (pz pr) ->
  peq (to_absolute sr pr) (to_absolute sa pa).
Proof. exact same_target. Qed.
Print Assumptions C11_same_target.

(* ... the origin (and hence a centre given relative to it) is the same too: every shape function --
   an arbitrary one -- is evaluated on identical absolute arguments in both modes *)
Theorem C11_same_origin : forall sa sr, same_but_mode sa sr -> resolve (pos sr) = resolve (pos sa).
Proof. exact same_origin. Qed.

(* ... and each absolute vertex, converted to the current mode and handed to move(), is reached
   (tracked position = vertex) in either mode.  With C01_tracks the two machine traces therefore
   agree vertex by vertex up to the rounding of the emitted words. *)
Theorem C11_vertex_reached : forall s v, tf s = aff_id ->
  let '(mv, tg) := transform_move s (to_distance_mode s v) in peq tg (resolve v).
Proof. exact vertex_reached. Qed.
Print Assumptions C11_vertex_reached.

(* WHOLE TOOLPATHS.  A logical toolpath is a list of items: "go to this absolute waypoint" (linear or
   rapid, any subset of axes) and "trace this shape" (its absolute vertices -- whatever the shape).
   [cmds_for m L path] is how a caller phrases it in distance mode m: waypoints as they are in
   absolute mode, as offsets from the logical position in relative mode; shapes identically.  With no
   transform, bounds or hooks (nothing can be rejected) and for EVERY path: after every item the
   builder is at the logical position of the path, in either mode ... *)
Theorem C11_path_follows : forall dp m path s L, plain m s -> peq (pos s) L ->
  peq (pos (final dp s (cmds_for m L path))) (lfinal L path) /\
  Forall (fun r => err_of r = None) (run dp s (cmds_for m L path)) /\
  plain m (final dp s (cmds_for m L path)).
Proof. exact path_follows. Qed.
Print Assumptions C11_path_follows.

(* ... hence after every item (every prefix n) the absolute-mode and the relative-mode execution of
   the same toolpath are at the same position ... *)
Theorem C11_modes_agree : forall dp path n sa sr L, plain Absolute sa -> plain Relative sr ->
  peq (pos sa) L -> peq (pos sr) L ->
  peq (pos (final dp sa (firstn n (cmds_for Absolute L path)))) (pos (final dp sr (firstn n (cmds_for Relative L path)))).
Proof. exact modes_agree. Qed.

(* ... and so are the machines: each emitted program, read by the independent interpreter of C01,
   leaves the machine where its builder is (Agree: up to the rounding of the emitted words). *)
Theorem C11_machines_agree : forall dp path,
  let ca := cmds_for Absolute zero path in
  let cr := SetDistance (Member Relative) :: cmds_for Relative zero path in
  Agree dp (final dp init ca) (pinterp_lines pmach0 (output dp init ca)) /\
  Agree dp (final dp init cr) (pinterp_lines pmach0 (output dp init cr)) /\
  peq (pos (final dp init ca)) (pos (final dp init cr)) /\
  peq (pos (final dp init ca)) (lfinal zero path).
Proof. exact machines_agree. Qed.
Print Assumptions C11_machines_agree.

(* ... and for the vertex lists handed to polyline / spline: GCodeCore.to_absolute_list ([to_absolute_list] of
   model/Builder.v: relative points accumulate, absolute points replace the coordinates they give).  The same logical
   vertices -- any subset of axes each -- phrased as successive offsets in relative mode and as they are in absolute
   mode are turned into the same absolute vertices, one by one. *)
Theorem C11_vertex_lists_agree : forall sa sr vs, same_but_mode sa sr ->
  Forall2 peq (to_absolute_list sr (offsets (pos sa) vs)) (to_absolute_list sa vs).
Proof. exact to_absolute_list_agree. Qed.

(* non-vacuity: a partial waypoint, a shape, a rapid; the relative program really uses offsets *)
Example C11_path_nonvacuous :
  let path := [LMove Linear (mkpt (Some 10) (Some 4) None); LPath [mkpt (Some 12) (Some 4) (Some 1); mkpt (Some 12) (Some 9) (Some 1)];
               LMove Rapid (mkpt None (Some 0) (Some 5)); LMove Linear (mkpt (Some (1 # 3)) None None)]%Q in
  cmds_for Relative zero path =
    [Move Linear (mkreq (Some (Fin 10)) (Some (Fin 4)) None) []; Polyline [mkpt (Some 12) (Some 4) (Some 1); mkpt (Some 12) (Some 9) (Some 1)] [];
     Move Rapid (mkreq None (Some (Fin (-9))) (Some (Fin 4))) []; Move Linear (mkreq (Some (Fin (-35 # 3))) None None) []]%Q /\
  lfinal zero path = mkpt (Some (1 # 3)) (Some 0) (Some 5)%Q /\
  map (fun l => l) (output 3 rel_start (cmds_for Relative zero path)) <> output 3 init (cmds_for Absolute zero path).
Proof. vm_compute. repeat split. discriminate. Qed.

(* non-vacuity: from (10, 0, unknown), target x = 4, y = 6 *)
Example C11_nonvacuous :
  let sa := set_pos init (mkpt (Some 10) (Some 0) None) in
  let sr := set_dm sa Relative in
  same_but_mode sa sr /\
  to_absolute sa (mkpt (Some 4) (Some 6) None) = mkpt (Some 4) (Some 6) (Some 0) /\
  to_absolute sr (mkpt (Some (-6)) (Some 6) None) = mkpt (Some 4) (Some 6) (Some 0).
Proof. vm_compute. repeat split. Qed.
