(* C07  Reported machine state mirrors the emitted program.
   Specification side: [interp_line] of model/Interp.v -- a modal reading of each emitted line
   through its first G word and first M word: tool start/stop (M3/M4/M5) with the S word of tool-
   start, motion and bare lines; coolant (M7/M8/M9); T; F of motion and bare lines; G90/G91;
   M82/M83; G93/G94/G95; G20/G21; G17/G18/G19; S (else R) of M140/M190, M104/M109, M141/M191.
   [Mirror dp s m] relates the builder state s to the machine m: tool active flag; when active the
   start code of the one non-OFF mode and m's S = rounding of the reported power; coolant mode;
   tool number; feed rate; distance, extrusion, feed modes; length units; plane; the three target
   temperatures -- each either "never mentioned, and the state has its documented default (as
   regenerated from /repo: Tables.defaults_ok)" or "the last word is the dp-rounding of the
   state value".  The remembered move parameters (get_parameter) have their own reading of the
   program, [param_lines] of model/InterpParams.v: the last k word of a G0/G1/G38.x/G92/G28 line
   (C07_params below). *)
From Coq Require Import ZArith QArith Bool List String.
From GS Require Import model.Num model.Builder model.Interp model.InterpParams proofs.Tables proofs.FlagsProofs
  proofs.BoundsProofs proofs.MirrorProofs proofs.ParamProofs.
Import ListNotations.
Open Scope string_scope.

(* For every history over the whole builder API and every prefix of it ("after every call"),
   provided no call of the history is a C05 leak ([clean_run]: every call either succeeds or is
   rejected with no effect at all -- the leak sites are exactly those of props/C05.v) and
   parameter letters are distinct and not G/M/T/X/Y/Z, halt() with at most one of S/R. *)
Theorem C07_mirror : forall dp cs1 cs2, Forall cmd_ok3 (cs1 ++ cs2) -> clean_run dp init (cs1 ++ cs2) ->
  Mirror dp (final dp init cs1) (interp_lines mach0 (output dp init cs1)).
Proof. exact history_mirror_prefix. Qed.
Print Assumptions C07_mirror.

(* one step, from ANY related pair (not only reachable ones) *)
Theorem C07_step : forall dp s c m, cmd_ok3 c -> hooks_ok2 s -> Mirror dp s m -> clean s (step1 dp s c) ->
  Mirror dp (st_of (step1 dp s c)) (interp_lines m (lines_of (step1 dp s c))).
Proof. exact step_mirror. Qed.
Print Assumptions C07_step.

(* "last value of every move parameter": for every letter k other than G/M/T/X/Y/Z, every history
   and every prefix of it, what get_parameter(k) returns (None if never given), rounded as a line
   would carry it, is the k word of the last emitted G0/G1/G38.x/G92/G28 line that has one -- the
   values set by move hooks included (the line carries the hook's value and so does the state).
   Words on other lines (a bare S or F line, fan / temperature S, halt parameters) do not count. *)
Theorem C07_params : forall dp k cs1 cs2, reserved k = false -> Forall cmd_ok3 (cs1 ++ cs2) ->
  clean_run dp init (cs1 ++ cs2) ->
  param_lines k None (output dp init cs1) =
  option_map (fun v => round_dp dp (xq v)) (cget k (cparams (final dp init cs1))).
Proof. exact history_pm_prefix. Qed.
Print Assumptions C07_params.

(* one step, from ANY state whose remembered k is m *)
Theorem C07_params_step : forall dp k s c m, cmd_ok3 c -> hooks_ok2 s -> reserved k = false ->
  m = option_map (fun v => round_dp dp (xq v)) (cget k (cparams s)) -> clean s (step1 dp s c) ->
  param_lines k m (lines_of (step1 dp s c)) =
  option_map (fun v => round_dp dp (xq v)) (cget k (cparams (st_of (step1 dp s c)))).
Proof. exact step_pm. Qed.
Print Assumptions C07_params_step.

(* calls other than moves / G92 / G28 / probes never touch the remembered parameters, even when
   they are rejected half-way, and none of their lines is read as carrying move parameters *)
Theorem C07_params_frame : forall dp s c, other_cmd c -> cmd_ok3 c ->
  cparams (st_of (step1 dp s c)) = cparams s /\ Forall (fun l => carries_params l = false) (lines_of (step1 dp s c)).
Proof. exact step_other. Qed.
Print Assumptions C07_params_frame.

(* non-vacuity of C07_params: F and E words on moves, a hook overriding F, a bare F line and a fan
   S word in between (not move parameters), an E reset through G92, a rejected move *)
Example C07_params_nonvacuous :
  let cs := [Move Linear (mkreq (Some (Fin 1)) None None) [("F", Fin 600); ("E", Fin (3 # 2))];
             SetFeed (Fin 50); SetFan (Fin 200) 0;
             AddHook (HSet 1 "F" (Fin 1200));
             Move Linear (mkreq None (Some (Fin 2)) None) [("F", Fin 700)];
             Move Linear (mkreq None (Some PInf) None) [("E", Fin 9)];
             SetAxis (mkreq None None None) [("E", Fin 0)];
             Move Rapid (mkreq None None (Some (Fin 5))) []] in
  Forall cmd_ok3 cs /\ clean_run 3 init cs /\
  param_lines "F" None (output 3 init cs) = Some (1200 # 1)%Q /\
  param_lines "E" None (output 3 init cs) = Some (0 # 1)%Q /\
  param_lines "S" None (output 3 init cs) = None /\
  cget "F" (cparams (final 3 init cs)) = Some (Fin 1200) /\
  map (fun r => err_of r) (run 3 init cs) = [None; None; None; None; None; Some ValueErr; None; None].
Proof.
  split; [|split; [|vm_compute; repeat split]].
  - repeat constructor; cbn; try discriminate; try reflexivity; try tauto; intros H; inversion H; inversion H0.
  - vm_compute. repeat split; auto.
Qed.

(* non-vacuity: a history touching most fields, with two cleanly rejected calls *)
Example C07_nonvacuous :
  let cs := [ToolOn (Member SpinCW) (Fin 1000); PowerOff; PowerOn (Member PowDyn) (Fin 50);
             Move Linear (mkreq (Some (Fin 1)) None None) [("S", Fin 80); ("F", Fin 600)];
             ToolOn (Member SpinCCW) (Fin 5); CoolantOn (Member CoolFlood); Halt (Member HPause) [];
             PowerOff; CoolantOff; Halt (Member HWaitBed) [("S", Fin 60)]; SetUnits (Member Inches);
             ToolChange (Member SwapManual) 7; SetDistance (Member Relative)] in
  Forall cmd_ok3 cs /\ clean_run 5 init cs /\
  m_T (interp_lines mach0 (output 5 init cs)) = Some (7 # 1)%Q /\
  m_bed (interp_lines mach0 (output 5 init cs)) = Some (60 # 1)%Q /\
  map (fun r => err_of r) (run 5 init cs) =
    [None; None; None; None; Some ToolStateErr; None; Some ToolStateErr; None; None; None; None; None; None].
Proof.
  split; [|split; [|vm_compute; repeat split]].
  - repeat constructor; cbn; try discriminate; try reflexivity; try tauto; intros H; inversion H; inversion H0.
  - vm_compute. repeat split; auto.
Qed.
