(* C07  Reported machine state mirrors the emitted program.
   Specification side: [interp_line] of model/Interp.v -- a modal reading of each emitted line
   through its first G word and first M word: tool start/stop (M3/M4/M5) with the S word of tool-
   start, motion and bare lines; coolant (M7/M8/M9); T; F of motion and bare lines; G90/G91;
   M82/M83; G93/G94/G95; G20/G21; G17/G18/G19; S (else R) of M140/M190, M104/M109, M141/M191.
   [Mirror dp s m] relates the builder state s to the machine m: tool active flag; when active the
   start code of the one non-OFF mode and m's S = rounding of the reported power; coolant mode;
   tool number; feed rate; distance, extrusion, feed modes; length units; plane; the three target
   temperatures -- each either "never mentioned, and the state has its documented default (as
   regenerated from /repo: Tables.defaults_ok)" or "the last word is the dp-rounding of the
   state value".  The remembered move parameters (get_parameter) are checked by the
   correspondence and the oracle only (not part of this theorem): partial in that respect. *)
From Coq Require Import ZArith QArith Bool List String.
From GS Require Import model.Num model.Builder model.Interp proofs.Tables proofs.FlagsProofs
  proofs.BoundsProofs proofs.MirrorProofs.
Import ListNotations.
Open Scope string_scope.

(* For every history over the whole builder API and every prefix of it ("after every call"),
   provided no call of the history is a C05 leak ([clean_run]: every call either succeeds or is
   rejected with no effect at all -- the leak sites are exactly those of props/C05.v) and
   parameter letters are distinct and not G/M/T/X/Y/Z, halt() with at most one of S/R. *)
Theorem C07_mirror : forall dp cs1 cs2, Forall cmd_ok3 (cs1 ++ cs2) -> clean_run dp init (cs1 ++ cs2) ->
  Mirror dp (final dp init cs1) (interp_lines mach0 (output dp init cs1)).
Proof. exact history_mirror_prefix. Qed.
Print Assumptions C07_mirror.

(* one step, from ANY related pair (not only reachable ones) *)
Theorem C07_step : forall dp s c m, cmd_ok3 c -> hooks_ok2 s -> Mirror dp s m -> clean s (step1 dp s c) ->
  Mirror dp (st_of (step1 dp s c)) (interp_lines m (lines_of (step1 dp s c))).
Proof. exact step_mirror. Qed.
Print Assumptions C07_step.

(* non-vacuity: a history touching most fields, with two cleanly rejected calls *)
Example C07_nonvacuous :
  let cs := [ToolOn (Member SpinCW) (Fin 1000); PowerOff; PowerOn (Member PowDyn) (Fin 50);
             Move Linear (mkreq (Some (Fin 1)) None None) [("S", Fin 80); ("F", Fin 600)];
             ToolOn (Member SpinCCW) (Fin 5); CoolantOn (Member CoolFlood); Halt (Member HPause) [];
             PowerOff; CoolantOff; Halt (Member HWaitBed) [("S", Fin 60)]; SetUnits (Member Inches);
             ToolChange (Member SwapManual) 7; SetDistance (Member Relative)] in
  Forall cmd_ok3 cs /\ clean_run 5 init cs /\
  m_T (interp_lines mach0 (output 5 init cs)) = Some (7 # 1)%Q /\
  m_bed (interp_lines mach0 (output 5 init cs)) = Some (60 # 1)%Q /\
  map (fun r => err_of r) (run 5 init cs) =
    [None; None; None; None; Some ToolStateErr; None; Some ToolStateErr; None; None; None; None; None; None].
Proof.
  split; [|split; [|vm_compute; repeat split]].
  - repeat constructor; cbn; try discriminate; try reflexivity; try tauto; intros H; inversion H; inversion H0.
  - vm_compute. repeat split; auto.
Qed.
