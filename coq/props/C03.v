(* C03  Configured bounds are never exceeded by an emitted command.
   Model: model/Builder.v.  Reading of an emitted line (independent of how it was produced):
   [classify] looks at the first word -- motion (G0, G1, G38.x), bare F, S-led (bare S or
   S.. M3/M4), T-led (tool change), M140/M190, M104/M109, M141/M191 -- and [range_for] says
   which configured range governs which address letter of such a line.  [rnd_in dp rg v] says
   that the word value v is the dp-rounding of a requested value inside rg (or that value
   itself for integer tool numbers).  G28 words are not builder coordinates and M106 S / G4 P
   have no configured range: not bounded words. *)
From Coq Require Import ZArith QArith Bool List String.
From GS Require Import model.Num model.Builder model.Interp proofs.Tables proofs.FlagsProofs
  proofs.NumProofs proofs.AtomicProofs proofs.BoundsProofs.
Import ListNotations.
Open Scope string_scope.

(* For every history (any bounds configuration, set or re-set at any point; both distance modes;
   hooks; rejected calls; C05 leak sites), every line emitted by every step satisfies the bounds
   table in force when that step started: every F word of a motion or bare-F line, every S word
   of a motion, bare-S or tool-start line, every T word of a tool change, every S/R word of a
   bed / hotend / chamber temperature command is the rounding of a value inside its range.
   Hypotheses ([cmd_ok3]): parameter letters are distinct and not G/M/T/X/Y/Z; halt() carries
   at most one of S and R. *)
Theorem C03_words : forall dp cs, Forall cmd_ok3 cs -> all_steps_ok dp init cs.
Proof. intros dp cs H. apply history_scalars; [exact H|constructor]. Qed.
Print Assumptions C03_words.

(* ... and therefore the emitted value lies within half a unit of the last decimal place of the range *)
Theorem C03_rounded : forall dp lo hi v, rnd_in dp (Some (lo, hi)) v ->
  (lo - half_unit dp <= v /\ v <= hi + half_unit dp)%Q.
Proof. exact rnd_in_bounds. Qed.
Print Assumptions C03_rounded.

(* motion targets, in the builder's own coordinates (tracked position + offset in relative mode,
   requested target in absolute mode; before any transform): a move / rapid that emits anything,
   a successful absolute-bypass move and a probe that emits anything have their target inside
   the axes box, from every state (unknown coordinates of a bypass target are skipped) *)
Theorem C03_target_move : forall dp s k r ps, params_ok ps -> hooks_ok2 s ->
  lines_of (step1 dp s (Move k r ps)) <> [] ->
  within (b_axes (bnd s)) (to_absolute s (req_point r)) = true /\
  pos (st_of (step1 dp s (Move k r ps))) = to_absolute s (req_point r).
Proof. exact move_target_in_box. Qed.
Theorem C03_target_move_absolute : forall dp s k r ps, params_ok ps -> hooks_ok2 s ->
  err_of (step1 dp s (MoveAbs k r ps)) = None ->
  within (b_axes (bnd s)) (replace (pos s) (req_point r)) = true.
Proof. exact move_abs_target_in_box. Qed.
Theorem C03_target_probe : forall dp s m r ps,
  lines_of (step1 dp s (Probe m r ps)) <> [] ->
  within (b_axes (bnd s)) (to_absolute s (req_point r)) = true.
Proof. exact probe_target_in_box. Qed.
Print Assumptions C03_target_move_absolute.

(* NaN (and +-inf) never passes a bound *)
Theorem C03_nan : forall lo hi x, xfinite x = false -> in_range (Some (lo, hi)) x = false.
Proof. exact nonfinite_out_of_range. Qed.
Print Assumptions C03_nan.

(* non-vacuity: bounds on axes, feed and power; a relative move from a partially known position,
   a rejected out-of-box move, a probe and a tool start; the emitted lines are bounded lines *)
Example C03_nonvacuous :
  let cs := [box; SetBounds BFeed unknown unknown (Fin 100) (Fin 1000);
             Move Linear (mkreq (Some (Fin 1)) None None) [("F", Fin 500)];
             SetDistance (Member Relative);
             Move Rapid (mkreq None (Some (Fin 25)) None) [];
             Move Linear (mkreq None (Some (Fin 5)) None) [("F", Fin (2001 # 2))];
             ToolOn (Member SpinCW) (Fin 10)] in
  Forall cmd_ok3 cs /\
  map (fun r => (List.length (lines_of r), err_of r)) (run 2 init cs) =
    [(0, None); (0, None); (1, None); (1, None); (0, Some ValueErr); (0, Some ValueErr); (1, None)]%nat /\
  map classify (output 2 init cs) = [LMotion; LOther; LPower].
Proof.
  split; [|split; vm_compute; reflexivity].
  repeat constructor; cbn; try discriminate; try reflexivity; try tauto; intros H; inversion H.
Qed.
