(* C01  The emitted program reproduces the tracked position.
   Specification side: [pinterp_line] of model/Interp.v, an independent reading of G0/G1 (absolute
   or relative by the G90/G91 modal state), G92 (set), G28 (the mentioned axes, or all, become
   unknown) and G38.x (the mentioned axes become unknown); each axis is unknown or carries its
   machine coordinate together with the number n of rounded words it is the sum of
   (n = 1 + relative words since the last absolute word or G92).

   [Agree dp s p]: the builder's distance mode is the machine's, and on every axis whose machine
   coordinate v is known the builder reports a coordinate q with |v - q| <= n * 10^-dp / 2
   -- "up to the rounding of the configured decimal places": a relative word is rounded before the
   machine adds it, the builder adds the unrounded offset, so the drift is half a unit of the last
   place per word (proved rounding bound, proofs/NumProofs.v). *)
From Coq Require Import ZArith QArith Bool List String.
From GS Require Import model.Num model.Builder model.Interp proofs.Tables proofs.FlagsProofs
  proofs.BoundsProofs proofs.MirrorProofs proofs.TrackProofs.
Import ListNotations.
Open Scope string_scope.

(* For every history over the builder API with no transform set (moves, rapids, absolute-bypass
   moves, G92, homing, probing in all modes, distance-mode switches, arbitrarily nested
   absolute_mode()/relative_mode() contexts entered and left at any point -- also after a rejected
   call --, interpolated paths as arbitrary vertex lists, interleaved with every other call), for
   every decimal_places and EVERY PREFIX of the history (after every call): Agree.
   Hypotheses: [clean_run] -- no call is a C05 leak (every call succeeds or is rejected without
   effect; the leak sites are those of props/C05.v: without axes bounds and with valid F/S words
   there are none); [cmd_ok1] -- distinct parameter letters other than G/M/T/X/Y/Z. *)
Theorem C01_tracks : forall dp cs1 cs2, Forall cmd_ok1 (cs1 ++ cs2) -> clean_run dp init (cs1 ++ cs2) ->
  Agree dp (final dp init cs1) (pinterp_lines pmach0 (output dp init cs1)).
Proof. exact history_agree_prefix. Qed.
Print Assumptions C01_tracks.

(* one step from any agreeing pair *)
Theorem C01_step : forall dp s c p, cmd_ok1 c -> hooks_ok2 s -> tf s = aff_id -> Agree dp s p ->
  clean s (step1 dp s c) ->
  Agree dp (st_of (step1 dp s c)) (pinterp_lines p (lines_of (step1 dp s c))) /\
  tf (st_of (step1 dp s c)) = aff_id.
Proof. exact step_agree. Qed.
Print Assumptions C01_step.

(* non-vacuity: unknown axes, G92, relative moves, a nested context, a bypass move in relative mode,
   homing, probing, a polyline; the run is clean and the machine knows X and Y at the end *)
Example C01_nonvacuous :
  let cs := [SetAxis (mkreq (Some (Fin 5)) None None) [];
             Move Linear (mkreq None (Some (Fin (1 # 3))) None) [("F", Fin 600)];
             EnterRel; Move Linear (mkreq (Some (Fin (1 # 3))) (Some (Fin (-2))) None) [];
             EnterAbs; Move Rapid (mkreq None None (Some (Fin 7))) []; ExitMode;
             MoveAbs Linear (mkreq (Some (Fin 1)) None None) []; ExitMode;
             Home (mkreq None None (Some (Fin 0))) [];
             Probe (Member PTowards) (mkreq None None (Some (Fin (-5)))) [];
             Polyline [mkpt (Some 1) (Some 2) (Some 3); mkpt (Some (7 # 3)) (Some 0) (Some 3)]%Q []] in
  Forall cmd_ok1 cs /\ clean_run 2 init cs /\
  (let p := pinterp_lines pmach0 (output 2 init cs) in
   p_rel p = false /\ p_x p = Some ((233 # 100)%Q, 1%nat) /\ p_z p = Some (3%Q, 1%nat)) /\
  px (pos (final 2 init cs)) = Some (7 # 3)%Q.
Proof.
  split; [|split; [|vm_compute; repeat split]].
  - repeat constructor; cbn; try discriminate; try reflexivity; try tauto; intros H; inversion H.
  - vm_compute. repeat split; auto.
Qed.
