(* C04  Coordinate transforms are applied faithfully to every move.
   Model: model/Builder.v, GCodeCore._transform_move with an arbitrary affine transform [tf s]
   (any composition of translate/rotate/scale/reflect/mirror about any pivots is an affine map:
   model/Transformer.v, props/C13.v); the correspondence feeds the model the very matrix the
   implementation holds (read back through the public apply_transform). *)
From Coq Require Import ZArith QArith Bool List.
From GS Require Import model.Num model.Builder proofs.TransformMoveProofs.
Import ListNotations.
Open Scope Q_scope.

(* For EVERY affine transform (invertible or not), every tracked position (known or partially
   unknown), every request (any subset of axes) and both distance modes: the target is the
   requested one in builder coordinates; each mentioned axis carries the image of the target under
   the transform (absolute mode) or the image of the target minus the image of the current position
   (relative mode); each axis that is NOT mentioned was not requested and has equal images before
   and after -- so every axis whose machine coordinate has to change is mentioned. *)
Theorem C04_words : forall s p,
  let rel := match dm s with Relative => true | Absolute => false end in
  let '(mv, tg) := transform_move s p in
  let o := img s (resolve (pos s)) in let t := img s tg in
  tg = to_absolute s p /\
  axis_image rel (px p) (px mv) (px o) (px t) /\
  axis_image rel (py p) (py mv) (py o) (py t) /\
  axis_image rel (pz p) (pz mv) (pz o) (pz t).
Proof. exact transform_move_image. Qed.
Print Assumptions C04_words.

(* in relative mode the words are the LINEAR image of the displacement (the translation part cancels) *)
Theorem C04_relative_is_linear : forall m a b,
  res1 (px (aff_apply m a)) - res1 (px (aff_apply m b)) ==
    a11 m * (res1 (px a) - res1 (px b)) + a12 m * (res1 (py a) - res1 (py b)) + a13 m * (res1 (pz a) - res1 (pz b)) /\
  res1 (py (aff_apply m a)) - res1 (py (aff_apply m b)) ==
    a21 m * (res1 (px a) - res1 (px b)) + a22 m * (res1 (py a) - res1 (py b)) + a23 m * (res1 (pz a) - res1 (pz b)) /\
  res1 (pz (aff_apply m a)) - res1 (pz (aff_apply m b)) ==
    a31 m * (res1 (px a) - res1 (px b)) + a32 m * (res1 (py a) - res1 (py b)) + a33 m * (res1 (pz a) - res1 (pz b)).
Proof. exact image_difference. Qed.

(* consequently: once the machine is at transform(tracked position), executing the emitted
   (unrounded) move keeps it at transform(new tracked position), on every axis, in both modes *)
Theorem C04_machine : forall s p mx my mz,
  let rel := match dm s with Relative => true | Absolute => false end in
  let '(mv, tg) := transform_move s p in
  let o := img s (resolve (pos s)) in let t := img s tg in
  mx == res1 (px o) -> my == res1 (py o) -> mz == res1 (pz o) ->
  exec_axis rel (px mv) mx == res1 (px t) /\ exec_axis rel (py mv) my == res1 (py t) /\
  exec_axis rel (pz mv) mz == res1 (pz t).
Proof. exact machine_follows. Qed.
Print Assumptions C04_machine.

(* ... and therefore over whole histories: for every affine transform, every start, either distance mode and EVERY
   sequence of (partial) requests, a machine that starts at transform(tracked position) is at transform(tracked position)
   after every move (unrounded words; the rounding is C01's error accounting) *)
Theorem C04_history : forall reqs s mx my mz,
  mx == res1 (px (img s (resolve (pos s)))) -> my == res1 (py (img s (resolve (pos s)))) ->
  mz == res1 (pz (img s (resolve (pos s)))) ->
  let '(s', (mx', my', mz')) := play s (mx, my, mz) reqs in
  mx' == res1 (px (img s' (resolve (pos s')))) /\ my' == res1 (py (img s' (resolve (pos s')))) /\
  mz' == res1 (pz (img s' (resolve (pos s')))) /\ tf s' = tf s /\ dm s' = dm s.
Proof. exact history_follows. Qed.

(* non-vacuity: a rotation by (3/5, 4/5) about z combined with a translation couples X and Y:
   an absolute move that requests only X mentions Y as well, and leaves Z out *)
Example C04_nonvacuous :
  let s := set_tf (set_pos init (mkpt (Some 1) (Some 2) (Some 3))) (mkaff (3#5) (-4#5) 0 (4#5) (3#5) 0 0 0 1 10 0 0) in
  let '(mv, tg) := transform_move s (mkpt (Some 6) None None) in
  px mv = Some 12 /\ py mv = Some 6 /\ pz mv = None /\ tg = mkpt (Some 6) (Some 2) (Some 3).
Proof. vm_compute. repeat split. Qed.
