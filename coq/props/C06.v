(* C06  The tool and coolant can always be switched off.
   Model: model/Builder.v (step1 on ToolOff / PowerOff / CoolantOff / EmergencyHalt).
   Quantified over EVERY state [s] (reachable or not: any tool/power/coolant/halt/
   temperature/units state) and hence every bounds table, which is a field of [s]. *)
From Coq Require Import ZArith QArith Bool List String.
From GS Require Import model.Num model.Builder model.Interp proofs.Tables proofs.FlagsProofs proofs.ShutdownProofs.
Import ListNotations.
Open Scope string_scope.

Theorem C06_tool_off : forall dp s,
  let r := step1 dp s ToolOff in
  err_of r = None /\ lines_of r = [[W "M" 5]] /\ tool_on (st_of r) = false /\ cool_on (st_of r) = cool_on s.
Proof. exact tool_off_total. Qed.
Print Assumptions C06_tool_off.

Theorem C06_power_off : forall dp s,
  let r := step1 dp s PowerOff in
  err_of r = None /\ lines_of r = [[W "M" 5]] /\ tool_on (st_of r) = false /\ cool_on (st_of r) = cool_on s.
Proof. exact power_off_total. Qed.
Print Assumptions C06_power_off.

Theorem C06_coolant_off : forall dp s,
  let r := step1 dp s CoolantOff in
  err_of r = None /\ lines_of r = [[W "M" 9]] /\ cool_on (st_of r) = false /\ tool_on (st_of r) = tool_on s.
Proof. exact coolant_off_total. Qed.
Print Assumptions C06_coolant_off.

(* M05, M09, the message comment (a line without words), then M00 or M30, in that order *)
Theorem C06_emergency_halt : forall dp s reset,
  let r := step1 dp s (EmergencyHalt reset) in
  err_of r = None /\
  lines_of r = [[W "M" 5]; [W "M" 9]; []; [W "M" (if reset then 30 else 0)]] /\
  tool_on (st_of r) = false /\ cool_on (st_of r) = false.
Proof. exact emergency_total. Qed.
Print Assumptions C06_emergency_halt.

(* non-vacuity: a reachable state with the tool running through the power API at a power
   inside tool-power bounds [100, 1000] that exclude zero, coolant on *)
Example C06_nonvacuous :
  let s := final 5 init [SetBounds BPower unknown unknown (Fin 100) (Fin 1000);
                         PowerOn (Member PowConst) (Fin 500); CoolantOn (Member CoolMist)] in
  tool_on s = true /\ cool_on s = true /\ b_power (bnd s) = Some (100, 1000)%Q /\
  err_of (step1 5 s PowerOff) = None.
Proof. vm_compute. repeat split. Qed.
