(* C09  Comment text can never change what the machine executes.
   Model: model/Formatter.v -- DefaultFormatter.comment as repaired (line breaks and the delimiters
   of the configured style are replaced by a blank with Python's str.replace semantics, then the
   text goes into "<open> {} <close>" or "<symbols> {}"), the statement "words comment", line().
   Specification side: [strip_comments], an independent lexer -- a prefix comment runs from the
   first occurrence of its symbols to the end of the line, a bracketed comment from its opener to
   the next closer -- and [count_breaks], the number of CR/LF bytes. *)
From Coq Require Import List NArith Bool.
From GS Require Import gen.GenTables model.Formatter proofs.CommentProofs.
Import ListNotations.
Open Scope N_scope.

(* For EVERY byte string t (line breaks, carriage returns, the delimiters themselves, G-code-looking
   payloads, non-ASCII bytes, anything), every supported style and every formatted-words prefix w that
   does not contain the first byte of the comment opener (address letters, digits, '.', '-', blanks
   never do): what remains after removing comments is the words and blanks only -- it does not
   depend on t; in particular it is the same as with the innocuous text "x". *)
Theorem C09_inert : forall f st w t, style_ok st -> words_ok st w ->
  strip_comments (S f) st (statement st w t) = strip_comments (S f) st (statement st w [120]).
Proof. intros f st w t Hs Hw. now rewrite !strip_statement. Qed.
Print Assumptions C09_inert.

Theorem C09_executable_is_words : forall f st w t, style_ok st -> words_ok st w ->
  strip_comments (S f) st (statement st w t) =
  match st with Prefix _ => w ++ [SP] | Bracket _ _ => (w ++ [SP]) ++ [SP] end.
Proof. exact strip_statement. Qed.

(* ... and the number of lines is unchanged: no CR or LF comes out of the comment *)
Theorem C09_lines : forall st eol w t, style_ok st -> pat_no_breaks (opener st) ->
  (match st with Bracket _ c => pat_no_breaks c | _ => True end) ->
  count_breaks (emit_line st eol w t) = (count_breaks w + count_breaks eol)%nat.
Proof. exact line_breaks. Qed.
Print Assumptions C09_lines.

(* the bracketed styles DefaultFormatter knows (COMMENT_OPENINGS / COMMENT_ENDINGS regenerated from
   /repo on every run) all satisfy the hypotheses *)
Theorem C09_table_styles : forall o c st, In (o, c) (zip comment_openings comment_endings) ->
  style_of o c = Some st -> style_ok st /\ pat_no_breaks (opener st) /\
  (match st with Bracket _ c => pat_no_breaks c | _ => True end).
Proof.
  intros o c st Hin Hst. destruct table_styles_ok as [Hall _]. rewrite forallb_forall in Hall.
  specialize (Hall (o, c) Hin). cbn [fst snd] in Hall. rewrite Hst in Hall.
  destruct st as [s|po pc]; [discriminate|]. apply andb_prop in Hall as [H1 H2].
  destruct (pat_okb_spec _ H1) as (A & B & C). destruct (pat_okb_spec _ H2) as (A' & B' & C').
  cbn. auto.
Qed.
Print Assumptions C09_table_styles.

(* non-vacuity, evaluated: the payloads of the repaired defects under ';', '(' and the two-byte
   delimiters of the C-style comment, where deleting instead of blanking would splice a closer *)
Example C09_corpus :
  let semi := Prefix (P1 59) in let paren := Bracket (P1 40) (P1 41) in let cstyle := Bracket (P2 47 42) (P2 42 47) in
  let w := [71; 49; 32; 88; 49] in
  strip_comments 3 semi (statement semi w [104; 10; 71; 49; 32; 88; 57]) = w ++ [SP] /\
  count_breaks (emit_line semi [10] w [104; 10; 71; 49; 13; 88; 57]) = 1%nat /\
  strip_comments 3 paren (statement paren w [97; 41; 32; 71; 49; 32; 40; 98]) = (w ++ [SP]) ++ [SP] /\
  strip_comments 3 cstyle (statement cstyle w [42; 42; 47; 47; 32; 77; 51; 32; 47; 47; 42; 42]) = (w ++ [SP]) ++ [SP] /\
  sanitize cstyle [42; 42; 47; 47] = [42; 32; 47].
Proof. vm_compute. repeat split. Qed.
