(* C17  Socket input is split into lines independently of packet boundaries.
   Model: model/LineBuf.v (Device._readline_buf / Device._readline_socket).
   This file holds only the property theorems, each closed by a lemma of
   proofs/LineBufProofs.v, with the axioms they rest on printed underneath. *)
From Coq Require Import List NArith.
From GS Require Import model.LineBuf proofs.LineBufProofs.
Import ListNotations.

(* After any number k of readline() calls, from any buffer satisfying the buffer
   invariant (the initial empty buffer does) and any script of read/select results:
   the non-empty results so far ++ the buffered bytes ++ the bytes not yet delivered by the
   peer are exactly the original stream (nothing lost, duplicated or reordered); every
   result is empty, a line ending with its only newline, or the newline-free tail; the
   loop never runs out of fuel; after READ_EOF nothing is left in the buffer. *)
Theorem C17_conservation : forall k buf e, BufInv buf ->
  match session k buf e with
  | (rs, buf', e') =>
      concat buf ++ data_of (reads e)
        = concat (lines_of rs) ++ concat buf' ++ data_of (reads e') /\
      Forall res_ok rs /\ BufInv buf' /\ (last rs REmpty = REof -> buf' = [])
  end.
Proof. exact session_conservation. Qed.
Print Assumptions C17_conservation.

(* For every stream, every fragmentation of it into non-empty chunks of any size and every
   placement of "no data yet" results and selector timeouts: the non-empty results up to
   READ_EOF are exactly the stream cut after each newline (the spec function [cut]),
   the unterminated tail included. *)
Theorem C17_lines_are_cut : forall k e, wf e ->
  match session k [] e with
  | (rs, _, _) => last rs REmpty = REof -> lines_of rs = cut (data_of (reads e))
  end.
Proof. intros k e H. exact (session_cut k [] e BufInv_nil H). Qed.
Print Assumptions C17_lines_are_cut.

(* The title statement as such: two sessions over the same byte stream, fragmented into packets differently and with
   "no data yet" results and selector timeouts placed differently, return the same lines once both have reached READ_EOF. *)
Theorem C17_fragmentation_independent : forall k1 k2 e1 e2, wf e1 -> wf e2 ->
  data_of (reads e1) = data_of (reads e2) ->
  match session k1 [] e1, session k2 [] e2 with
  | (rs1, _, _), (rs2, _, _) => last rs1 REmpty = REof -> last rs2 REmpty = REof -> lines_of rs1 = lines_of rs2
  end.
Proof. exact session_fragmentation_independent. Qed.
Print Assumptions C17_fragmentation_independent.

(* non-vacuity: hypotheses are met by a concrete fragmented stream with a timeout *)
Example C17_nonvacuous :
  let e := {| reads := [Chunk [71;49]; Again; Chunk [32]; Chunk [88;10;71;50;10;77]; Chunk [53]];
              selects := [false] |} in
  let '(rs, buf', _) := session 10 [] e in
  lines_of rs = [[71;49;32;88;10]; [71;50;10]; [77;53]]%N /\ last rs REmpty = REof /\ wf e.
Proof. exact session_example. Qed.
