(* C14  Every writer receives every line, once, in order, byte for byte.
   Model: model/Writers.v -- GCodeCore's ordered duplicate-free writer list (add_writer,
   remove_writer, write, flush, teardown) and FileWriter (path files opened lazily with "wb+" and
   closed on disconnect; caller-owned binary / UTF-8 text streams; custom writers).
   A path file re-opened after teardown is truncated -- asserted by the project's own
   tests/test_file_writer.py::test_write_after_disconnect -- so file content is per connection. *)
From Coq Require Import List NArith Bool.
From GS Require Import model.Writers model.Utf8 proofs.WritersProofs proofs.Utf8Proofs.
Import ListNotations.

(* For every history of add_writer / remove_writer / line-emitting calls / flush / teardown over any
   number and mix of writers: the sequence of lines a writer has received is exactly -- same bytes,
   same order, each once -- the lines emitted while it was registered ([expected] is the
   specification: it only tracks registration). *)
Theorem C14_delivery : forall ops id, log_of id (run ops) = expected id false ops.
Proof. exact delivery. Qed.
Print Assumptions C14_delivery.

(* after flush(): the visible content of every registered open file is the concatenation of the
   lines it received since it was (re)connected *)
Theorem C14_file_after_flush : forall ops id w, let c := step (run ops) Flush in
  In id (reg c) -> lookup id (ws c) = Some w -> w_open w = true -> w_durable w = concat (w_epoch w).
Proof. exact flush_content. Qed.

(* after teardown(): no writer is registered, every writer that was registered has been
   disconnected (exactly once more) and its visible content is the concatenation of the lines of
   its last connection *)
Theorem C14_teardown : forall ops id w, let c0 := run ops in let c := step c0 Teardown in
  reg c = [] /\
  (In id (reg c0) -> lookup id (ws c) = Some w ->
     w_open w = false /\ w_durable w = concat (w_epoch w) /\
     exists w0, lookup id (ws c0) = Some w0 /\ w_disconnects w = S (w_disconnects w0)).
Proof. exact teardown_spec. Qed.
Print Assumptions C14_teardown.

(* "as the same UTF-8 bytes", text streams included.  model/Utf8.v: str.encode("utf-8") as [encode],
   bytes.decode("utf-8") (strict) as [decode]; a caller-owned text stream receives decode(line) and
   encodes it again ([text_write]).  For every statement -- every list of Unicode scalar values --
   the text stream ends up holding exactly the bytes the other writers received. *)
Theorem C14_utf8_roundtrip : forall cs, Forall (fun c => scalar c = true) cs -> decode (encode cs) = Some cs.
Proof. exact roundtrip. Qed.
Print Assumptions C14_utf8_roundtrip.

Theorem C14_text_stream_same_bytes : forall cs, Forall (fun c => scalar c = true) cs ->
  text_write (encode cs) = Some (encode cs).
Proof. exact text_write_same. Qed.

(* the decoder is strict (no overlong forms, no surrogates, nothing above U+10FFFF, no truncated
   sequence): whatever it accepts is the encoding of what it returns, so a text stream never alters
   a line -- it keeps the bytes or the write raises *)
Theorem C14_utf8_decode_strict : forall bs cs, decode bs = Some cs ->
  encode cs = bs /\ Forall (fun c => scalar c = true) cs.
Proof. exact decode_sound. Qed.

Theorem C14_text_stream_identity : forall line out, text_write line = Some out -> out = line.
Proof. exact text_write_identity. Qed.
Print Assumptions C14_text_stream_identity.

Example C14_utf8_nonvacuous :
  encode [0x47; 0xE9; 0x20AC; 0x1F525]%N = [0x47; 0xC3; 0xA9; 0xE2; 0x82; 0xAC; 0xF0; 0x9F; 0x94; 0xA5]%N /\
  decode [0xC0; 0x80]%N = None /\ decode [0xED; 0xA0; 0x80]%N = None /\ decode [0xF4; 0x90; 0x80; 0x80]%N = None /\
  decode [0xE2; 0x82]%N = None /\ decode [0xF4; 0x8F; 0xBF; 0xBF]%N = Some [0x10FFFF]%N.
Proof. vm_compute. repeat split. Qed.

(* non-vacuity: two writers, one added mid-stream, one removed and re-added, a duplicate add *)
Example C14_nonvacuous :
  let ops := [AddWriter 1 KPath; Emit [65;10]; AddWriter 2 KBinary; AddWriter 1 KPath; Emit [66;10];
              RemoveWriter 1; Emit [67;10]; AddWriter 1 KPath; Emit [68;10]; Flush; Teardown;
              AddWriter 1 KPath; Emit [69;10]; Teardown]%N in
  log_of 1 (run ops) = [[65;10]; [66;10]; [68;10]; [69;10]]%N /\
  log_of 2 (run ops) = [[66;10]; [67;10]; [68;10]]%N /\
  option_map w_durable (lookup 1 (ws (run ops))) = Some [69;10]%N /\
  option_map w_durable (lookup 2 (ws (run ops))) = Some [66;10;67;10;68;10]%N.
Proof. vm_compute. repeat split. Qed.
