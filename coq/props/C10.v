(* C10  Interpolated paths follow the requested curve and end on target.
   Model: model/TracerR.v -- the closed-form shape functions of geometry/tracer.py over the reals (numpy's arctan2
   defined from atan by cases, Direction.enforce / full_turn), tied to the code on every run by interval-certified
   samples: for vertices emitted by the real tracer the harness generates goals |shape(theta) - vertex| <= eps about
   THESE definitions and closes them with the interval tactic (kernel-checked enclosures).
   Every emitted vertex is a sample of the shape function at a parameter in (0, 1], the last one at 1
   (C12_keeps_last), the first move starts at the current position (C01_tracks); the theorems below are about the
   shape functions at every real parameter.
   PARTIAL: splines (scipy CubicSpline) are not modelled -- oracle search only; binary64 evaluation of the shape
   functions is tied by the certified samples (eps = 1e-9 relative), not proved.
   Axioms: the standard library's real numbers (see Print Assumptions below). *)
From Coq Require Import Reals ZArith QArith List Lra.
From GS Require Import model.TracerR proofs.TracerRProofs model.Num model.Builder proofs.TrackProofs proofs.HooksProofs proofs.ModeProofs
  model.TracerQ proofs.TracerQProofs.
Open Scope R_scope.

(* arc (and circle, arc_radius through arc): starts at the current position *)
Theorem C10_arc_start : forall d ox oy oz tx ty h cx cy,
  arc_x d ox oy tx ty cx cy 0 = ox /\ arc_y d ox oy tx ty cx cy 0 = oy /\ arc_z oz h 0 = oz.
Proof. exact arc_start. Qed.
Print Assumptions C10_arc_start.

(* ends on the target: the end point misses the target by exactly the difference of the two radii, in the
   direction of the target (the implementation accepts requests with |r - rt| <= 1e-10 rt) *)
Theorem C10_arc_end : forall d ox oy oz tx ty h cx cy,
  arc_x d ox oy tx ty cx cy 1 - tx = (arc_r ox oy cx cy - arc_rt tx ty cx cy) * cos (a_end tx ty cx cy) /\
  arc_y d ox oy tx ty cx cy 1 - ty = (arc_r ox oy cx cy - arc_rt tx ty cx cy) * sin (a_end tx ty cx cy) /\
  arc_z oz h 1 = oz + h.
Proof. exact arc_end. Qed.

Theorem C10_arc_end_exact : forall d ox oy oz tx ty h cx cy, arc_r ox oy cx cy = arc_rt tx ty cx cy ->
  arc_x d ox oy tx ty cx cy 1 = tx /\ arc_y d ox oy tx ty cx cy 1 = ty /\ arc_z oz h 1 = oz + h.
Proof. exact arc_end_exact. Qed.

(* constant radius about the given centre, at every parameter *)
Theorem C10_arc_const_radius : forall d ox oy tx ty cx cy th,
  Rsqr (arc_x d ox oy tx ty cx cy th - cx) + Rsqr (arc_y d ox oy tx ty cx cy th - cy) = Rsqr (arc_r ox oy cx cy).
Proof. exact arc_const_radius. Qed.

(* monotone in the selected direction, through a sweep of at most one turn congruent to the angle from start to target *)
Theorem C10_arc_sweep : forall d ox oy tx ty cx cy,
  0 < dsign d * arc_total d ox oy tx ty cx cy <= 2 * PI /\
  (exists k : Z, arc_total d ox oy tx ty cx cy = a_end tx ty cx cy - a_start ox oy cx cy + 2 * IZR k * PI) /\
  forall th1 th2, th1 < th2 ->
    0 < dsign d * (arc_angle d ox oy tx ty cx cy th2 - arc_angle d ox oy tx ty cx cy th1).
Proof. exact arc_sweep. Qed.
Print Assumptions C10_arc_sweep.

(* Z linear in the angle *)
Theorem C10_arc_z_linear : forall d ox oy oz tx ty h cx cy th, arc_total d ox oy tx ty cx cy <> 0 ->
  arc_z oz h th = oz + h * (arc_angle d ox oy tx ty cx cy th - a_start ox oy cx cy) / arc_total d ox oy tx ty cx cy.
Proof. exact arc_z_linear. Qed.

(* a circle is exactly one full turn *)
Theorem C10_circle_full_turn : forall d ox oy cx cy, arc_total d ox oy ox oy cx cy = full_turn d.
Proof. exact circle_full_turn. Qed.

(* arc_radius: the centre it chooses is at distance |radius| from start and target ... *)
Theorem C10_arcR_equidistant : forall d ox oy tx ty rad, 0 < ar_dist ox oy tx ty -> ar_dist ox oy tx ty / 2 <= Rabs rad ->
  arc_r ox oy (ar_cx d ox oy tx ty rad) (ar_cy d ox oy tx ty rad) = Rabs rad /\
  arc_rt tx ty (ar_cx d ox oy tx ty rad) (ar_cy d ox oy tx ty rad) = Rabs rad.
Proof. exact arcR_equidistant. Qed.

(* ... and the sign of the radius selects the minor or the major arc, in either direction *)
Theorem C10_arcR_minor_major : forall d ox oy tx ty rad, 0 < ar_dist ox oy tx ty -> ar_dist ox oy tx ty / 2 <= Rabs rad ->
  let A := arc_total d ox oy tx ty (ar_cx d ox oy tx ty rad) (ar_cy d ox oy tx ty rad) in
  (0 < rad -> dsign d * A <= PI) /\ (rad < 0 -> PI <= dsign d * A).
Proof. exact arcR_minor_major. Qed.
Print Assumptions C10_arcR_minor_major.

(* helix / spiral / thread: start, exact end, linearly varying radius, requested number of turns, monotone angle *)
Theorem C10_helix_ends : forall d ox oy tx ty cx cy turns,
  (hx_x d ox oy tx ty cx cy turns 0 = ox /\ hx_y d ox oy tx ty cx cy turns 0 = oy) /\
  (hx_x d ox oy tx ty cx cy turns 1 = tx /\ hx_y d ox oy tx ty cx cy turns 1 = ty).
Proof. intros. split; [apply helix_start|apply helix_end]. Qed.

Theorem C10_helix_radius : forall d ox oy tx ty cx cy turns th,
  Rsqr (hx_x d ox oy tx ty cx cy turns th - cx) + Rsqr (hx_y d ox oy tx ty cx cy turns th - cy) = Rsqr (hx_radius ox oy tx ty cx cy th) /\
  hx_radius ox oy tx ty cx cy th = (1 - th) * arc_r ox oy cx cy + th * arc_rt tx ty cx cy.
Proof. exact helix_radius. Qed.

Theorem C10_helix_turns : forall d ox oy tx ty cx cy turns,
  2 * PI * (IZR turns - 1) < dsign d * hx_total d ox oy tx ty cx cy turns <= 2 * PI * IZR turns.
Proof. exact helix_turns. Qed.
Print Assumptions C10_helix_turns.

Theorem C10_helix_monotone : forall d ox oy tx ty cx cy turns, (1 <= turns)%Z -> forall th1 th2, th1 < th2 ->
  0 < dsign d * (hx_angle d ox oy tx ty cx cy turns th2 - hx_angle d ox oy tx ty cx cy turns th1).
Proof. exact helix_angle_monotone. Qed.

Theorem C10_helix_z_linear : forall d ox oy oz tx ty h cx cy turns th, hx_total d ox oy tx ty cx cy turns <> 0 ->
  arc_z oz h th = oz + h * (hx_angle d ox oy tx ty cx cy turns th - a_start ox oy cx cy) / hx_total d ox oy tx ty cx cy turns.
Proof. exact helix_z_linear. Qed.

Theorem C10_spiral_radius : forall ox oy tx ty th, hx_radius ox oy tx ty ox oy th = th * arc_rt tx ty ox oy.
Proof. exact spiral_radius. Qed.

(* threads keep a constant radius (with the centre of the repaired thread(): the midpoint) *)
Theorem C10_thread_radius : forall ox oy tx ty th,
  hx_radius ox oy tx ty (th_cx ox tx) (th_cy oy ty) th = arc_r ox oy (th_cx ox tx) (th_cy oy ty).
Proof. exact thread_radius. Qed.

(* polylines (and every emitted vertex of every shape): the absolute vertex handed to move() after
   to_distance_mode is the tracked target, in either distance mode -- exact rationals *)
Theorem C10_vertex_exact : forall s v, tf s = aff_id ->
  let '(mv, tg) := transform_move s (to_distance_mode s v) in peq tg (resolve v).
Proof. exact vertex_reached. Qed.
Print Assumptions C10_vertex_exact.

(* splines: gscrib's own part.  The interpolant (scipy CubicSpline, not modelled) is built on the current position followed
   by the given points in their order, every point kept -- a later return to an earlier point included --, only immediate
   repetitions merged: the given list is exactly the control list with some elements repeated in place *)
Theorem C10_spline_controls : forall (A : Type) (eqb : A -> A -> bool), (forall a b, eqb a b = true <-> a = b) ->
  forall origin pts,
  hd_error (spline_controls A eqb origin pts) = Some origin /\
  expands A (spline_controls A eqb origin pts) (origin :: pts) /\
  (forall pre a b post, spline_controls A eqb origin pts = pre ++ a :: b :: post -> a <> b).
Proof. exact spline_controls_spec. Qed.

(* non-vacuity: a quarter circle from (10,0) about the origin, counter-clockwise: sweep PI/2 *)
Example C10_nonvacuous : arc_total CCW 10 0 0 10 0 0 = PI / 2 /\ arc_r 10 0 0 0 = arc_rt 0 10 0 0.
Proof.
  split.
  - unfold arc_total, a_end, a_start. replace (10 - 0) with 10 by ring. replace (0 - 0) with 0 by ring.
    rewrite atan2_x0_ypos by lra. rewrite (atan2_xpos 0 10) by lra. replace (0 / 10) with 0 by field. rewrite atan_0.
    rewrite enforce_ccw_keep; [ring|]. pose proof PI_RGT_0. lra.
  - unfold arc_r, arc_rt, hypot. f_equal. ring.
Qed.
