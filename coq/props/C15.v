(* C15  Streamed print jobs arrive complete, in order and checksummed.
   Model: model/Sender.v -- printcore's stop-and-wait sender (_sendnext / _listen / _send / startprint), a Marlin-style
   line-number + checksum firmware and FIFO channels, as a transition system whose runs are ALL interleavings of the
   print thread, the firmware and the read thread, with an arbitrary good/corrupted flag on every transmission.
   PARTIAL: (1) each _sendnext call and each line handled by _listen is one atomic step in the completeness theorems;
   SAFETY is additionally proved when the two unlocked variables shared by the threads (clear, resendfrom) are overwritten
   with arbitrary values at arbitrary moments (C15_safety_racy), which covers every bytecode-level race on them; (2) unconditional completeness under corruption is FALSE for the faithful model and for the code (C15_refuted_tail,
   C15_refuted_m110: the two known findings); what is proved is completeness on a clean link and, with corruption, completeness
   unless a Resend is read after the print thread stopped (C15_complete_unless_late_resend);
   (3) frame_bytes is compared byte-for-byte with the wire on every run; what a *corrupted* frame parses to is not modelled
   beyond C15_xor_detects_single (the protocol level only needs: rejected). *)
From Coq Require Import ZArith NArith Bool List.
From GS Require Import model.Sender model.JobLines model.ResendLine proofs.SenderProofs proofs.FrameProofs proofs.SenderLive proofs.SenderRacy
  proofs.JobLinesProofs proofs.ResendProofs proofs.SenderCheck.
Import ListNotations.
Open Scope Z_scope.

(* SAFETY, for every job, every corruption pattern (any subset of transmissions, the reset and resent lines included)
   and every interleaving: the firmware's accepted log is always a contiguous, in-order, duplicate-free slice of the
   job's commands, and a prefix of them when the reset transmission itself got through *)
Theorem C15_safety : forall (C : Type) job boot g ls s, 0 <= boot -> run C job ls (init C boot g) = Some s ->
  exists lo, 0 <= lo /\ accepted C (fw C s) = slice C (cmds_of C job) lo (length (accepted C (fw C s))) /\
    (g = true -> to_fw C s = [] -> lo = 0).
Proof. exact safety. Qed.
Print Assumptions C15_safety.

(* SAFETY under races: the read thread writes only `clear` and `resendfrom`; let the environment overwrite both with
   arbitrary values between any two steps (an over-approximation of every bytecode-level interleaving of the two
   threads on these unlocked variables): the accepted log is still a contiguous, in-order, duplicate-free slice *)
Theorem C15_safety_racy : forall (C : Type) job boot g ls s, 0 <= boot -> rrun C job ls (init C boot g) = Some s ->
  exists lo, 0 <= lo /\ accepted C (fw C s) = slice C (cmds_of C job) lo (length (accepted C (fw C s))) /\
    (g = true -> to_fw C s = [] -> lo = 0).
Proof. exact safety_racy. Qed.

(* numbering: in every reachable state the next new line number is the number of commands sent so far, every stored
   line k is command k of the job, and every uncorrupted frame on the wire carries (k, command k) *)
Theorem C15_numbering : forall (C : Type) job boot g ls s, 0 <= boot -> run C job ls (init C boot g) = Some s ->
  Inv C job g s.
Proof. intros C job boot g ls s Hb Hr. exact (inv_run C job g ls _ _ (inv_init C job boot g Hb) Hr). Qed.

(* a resend request makes transmission restart from the requested line *)
Theorem C15_resend : forall (C : Type) job s n c good, clear C (snd_ C s) = true -> printing C (snd_ C s) = true ->
  resendfrom C (snd_ C s) = n -> 0 <= n < lineno C (snd_ C s) -> lookup C n (sentl C (snd_ C s)) = Some c ->
  exists s', step C job (LSend good) s = Some s' /\
    to_fw C s' = to_fw C s ++ [{| fpay := PJob n c; fgood := good |}] /\ resendfrom C (snd_ C s') = n + 1.
Proof. exact resend_served. Qed.

(* WINDOW: frames on the wire + replies on their way + the sender's clear flag never exceed 1 + the number of rejections so
   far: stop-and-wait on a clean link, one line further ahead per rejection (each is answered by Resend AND ok) *)
Theorem C15_window : forall (C : Type) job boot g ls s rej, run_rej C job ls (init C boot g) 0 = Some (s, rej) ->
  (length (to_fw C s) <= pot C s /\ pot C s <= 1 + rej)%nat.
Proof. exact window. Qed.

(* COMPLETENESS, characterised -- for every corruption pattern of the job lines (any subset of transmissions, repeated
   corruption of resent lines included), every interleaving and firmware latency, provided the reset got through:
   once the print has ended and the wire is drained the firmware has accepted every command of the job exactly once and in
   order, UNLESS a Resend request was read after the print thread had stopped (resendfrom is then left set).  So that late
   Resend (recorded finding b; the other recorded finding is the corrupted reset) is the only way to lose lines. *)
Theorem C15_complete_unless_late_resend : forall (C : Type) job boot ls s, 0 <= boot ->
  run C job ls (init C boot true) = Some s -> quiescent C s -> resendfrom C (snd_ C s) = -1 ->
  accepted C (fw C s) = cmds_of C job.
Proof. exact complete_unless_late_resend. Qed.
Print Assumptions C15_complete_unless_late_resend.

(* ... and the same holds when the reset transmission itself is corrupted, provided the firmware boots expecting N0
   (then the reset is redundant).  Together: a job can only end incomplete through a Resend read after the print thread
   stopped, or through a corrupted reset on a firmware that boots expecting another number (C15_refuted_m110). *)
Theorem C15_complete_unless_late_resend_boot0 : forall (C : Type) job g ls s,
  run C job ls (init C 0 g) = Some s -> quiescent C s -> resendfrom C (snd_ C s) = -1 ->
  accepted C (fw C s) = cmds_of C job.
Proof. exact complete_unless_late_resend_boot0. Qed.

(* COMPLETENESS on a clean link, for every interleaving (arbitrary firmware latency) and boot state *)
Theorem C15_complete_clean : forall (C : Type) job boot ls s, 0 <= boot -> Forall clean_label ls ->
  run C job ls (init C boot true) = Some s -> quiescent C s -> accepted C (fw C s) = cmds_of C job.
Proof. exact complete_clean. Qed.
Print Assumptions C15_complete_clean.

(* THE TIE, partly as a theorem.  The correspondence run accepts an observed wire trace when check_trace does.  Whatever it
   accepts starts with the reset, its sender half is an execution of the model sender against the observed reply stream
   ([srun]: each transmission is the next thing the model's _sendnext writes once the reader has handled some prefix of the
   replies observed so far -- the reader may lag), the replies observed are in order a prefix of the model firmware's
   reactions to the observed frames, and the accepted log returned is the model firmware's.  (Unlike C16 this stops short of
   a run of the closed transition system: that one delivers a rejection's Resend and ok in one step, the wire in two.) *)
Theorem C15_accepted_trace_sender_run : forall job boot evs acc, check_trace job boot evs = (true, acc) ->
  exists g evs', evs = ETx PReset g :: evs' /\
    (exists x', srun job evs' ({| lineno := 0; resendfrom := -1; qi := 0; clear := false; printing := true; sentl := [] |}, 0%nat) [] x') /\
    is_prefix (rx_of evs) (snd (fw_stream {| expected := boot; accepted := [] |} evs)) = true /\
    acc = accepted nat (fst (fw_stream {| expected := boot; accepted := [] |} evs)).
Proof. exact check_trace_sound. Qed.
Print Assumptions C15_accepted_trace_sender_run.

(* JOB LINES ("every non-comment line of the job").  model/JobLines.v: what _sendnext transmits for a job line -- nothing for
   a host command (;@...), otherwise the line with the matches of gcoder.gcode_strip_comment_exp removed and surrounding
   whitespace stripped, nothing if that is empty.  For every line without a line break: no ';' survives (every ;-comment is
   removed to the end of the line); if the line has no parenthesis either, what is kept is exactly the text before the first
   ';' ; and whatever is transmitted is non-empty and starts and ends with a non-blank character. *)
Theorem C15_job_no_semicolon : forall l, ~ In NL l -> ~ In SEMI (strip_job_comments l).
Proof. exact no_semicolon_left. Qed.
Theorem C15_job_plain_line : forall l, ~ In NL l -> ~ In LP l -> strip_job_comments l = before_semi l.
Proof. exact plain_line_before_semi. Qed.
Theorem C15_job_command_trimmed : forall raw t, job_command raw = Some t ->
  t <> [] /\ (match t with c :: _ => is_ws c = false | [] => True end) /\
  (match rev t with c :: _ => is_ws c = false | [] => True end).
Proof. exact job_command_trimmed. Qed.
Print Assumptions C15_job_command_trimmed.

(* "G1 X7 (inline note) Y3 ; c" -> "G1 X7  Y3";  "  ;@pause" and "(only a note)" -> nothing;  an unbalanced "(" stays *)
Example C15_job_lines_nonvacuous :
  job_commands [[71;49;32;88;55;32;40;110;41;32;89;51;32;59;32;99]; [32;32;59;64;112]; [40;110;111;116;101;41]; [71;52;32;40]]%N =
    [[71;49;32;88;55;32;32;89;51]; [71;52;32;40]]%N.
Proof. vm_compute. reflexivity. Qed.

(* RESEND REQUESTS AS TEXT.  model/ResendLine.v: how _listen reads a resend request -- a line starting with "resend" (any case)
   or "rs"; "N:", "N" and ":" become blanks; the first word int() accepts is the requested line.  For each of the formats
   firmwares use ("Resend: k", "Resend:k", "rs k", "rs Nk ...", "Resend: N:k", "resend k", "RESEND: k"), EVERY line number k
   and anything after it that starts with a separator: the request read is exactly k. *)
Theorem C15_resend_formats : forall h0 s k tail, In (h0, s) resend_heads ->
  match tail with [] => True | c :: _ => rsep c = true end ->
  resend_request (h0 ++ s :: dec_Z k ++ tail) = Some k.
Proof. exact resend_request_formats. Qed.
Print Assumptions C15_resend_formats.

(* "rs N2 Expected checksum 67" -> 2;  "ok T:210" is not a request;  "Resend: 5.0 6" -> 6 *)
Example C15_resend_nonvacuous :
  resend_request [114;115;32;78;50;32;69;120;112;101;99;116;101;100;32;99;104;101;99;107;115;117;109;32;54;55]%N = Some 2 /\
  resend_request [111;107;32;84;58;50;49;48]%N = None /\
  resend_request [82;101;115;101;110;100;58;32;53;46;48;32;54]%N = Some 6.
Proof. vm_compute. repeat split. Qed.

(* the XOR checksum detects the replacement of any single byte of the numbered prefix *)
Theorem C15_xor_detects_single : forall pre b b' post, b <> b' -> checksum (pre ++ b :: post) <> checksum (pre ++ b' :: post).
Proof. exact xor_detects_single. Qed.

(* WIRE FORMAT: every transmission N<k> <command>*<xor> is read back by the firmware as exactly (k, command) with a
   matching checksum, for every line number (the reset's -1 included) and every command text *)
Theorem C15_frame_roundtrip : forall (k : Z) (cmd : list N), fw_parse (frame_bytes k cmd) = Some (k, cmd, true).
Proof. exact frame_roundtrip. Qed.
Print Assumptions C15_frame_roundtrip.

(* completeness under corruption is false: the faithful model loses the last line / the first line *)
Theorem C15_refuted_tail : exists s, run nat job3 tail_sched (init nat 0 true) = Some s /\
  printing nat (snd_ nat s) = false /\ to_fw nat s = [] /\ to_host nat s = [] /\
  accepted nat (fw nat s) = [10%nat; 11%nat] /\ resendfrom nat (snd_ nat s) = 2.
Proof. exact refuted_tail. Qed.
Theorem C15_refuted_m110 : let '(s, ls) := drive nat job3 false [] 200 1 (init nat 1 false) in
  printing nat (snd_ nat s) = false /\ to_fw nat s = [] /\ to_host nat s = [] /\ accepted nat (fw nat s) = [11%nat; 12%nat].
Proof. exact refuted_m110. Qed.
Print Assumptions C15_refuted_tail.

(* non-vacuity: a job with a comment line, two corrupted transmissions (one of them a resent line), slow firmware:
   a run of the system that ends quiescent with the whole job accepted; and the frame of line 3 "G1 X1" *)
Example C15_nonvacuous :
  (let '(s, ls) := drive nat [Some 10%nat; None; Some 11%nat; Some 12%nat; Some 13%nat] true [2%nat; 4%nat] 300 1 (init nat 0 true) in
   (accepted nat (fw nat s), printing nat (snd_ nat s), to_fw nat s, to_host nat s)) = ([10%nat; 11%nat; 12%nat; 13%nat], false, [], []) /\
  frame_bytes 3 [71; 49; 32; 88; 49]%N = [78; 51; 32; 71; 49; 32; 88; 49; 42; 57; 56]%N.
Proof. vm_compute. repeat split. Qed.
