(* C12  Interpolation honours the configured resolution.
   Model: model/TracerQ.v (PathTracer.parametric's sample count and PathTracer._filter_segments of
   geometry/tracer.py, on the list of distances between consecutive samples, exact rationals).
   "Length" below is travelled length along the sampled polyline -- what the mechanism controls; the
   chord between the two kept vertices is never longer, and for a circle of radius r an arc of
   length s has chord 2 r sin(s / 2r): C12_chord / C12_sagitta bound chord and chord error from s.
   PARTIAL: the theorems are about the rational model of the filter; the implementation runs it in binary64
   (tied by the correspondence on dyadic inputs, where binary64 is exact; C12_filter_robust shows that the bounds
   survive any run whose comparisons are only correct up to an accumulated error delta, and C12_filter_float that under
   the standard model of floating-point rounding the implementation's run is such a run with delta = (2K+1) u res); the halving
   clause is proved under an explicit hypothesis on the two sampled polylines (C12_halving). *)
From Coq Require Import ZArith QArith Qabs Qround Bool List Reals.
From GS Require Import gen.GenTables model.TracerQ proofs.TracerQProofs proofs.ChordProofs proofs.TracerRobust proofs.TracerFloat.
Import ListNotations.
Open Scope Q_scope.

(* For EVERY list of sample distances (hence every shape, every sampling) and every resolution:
   no emitted segment has travelled more than 0.9 res + the largest sample spacing; every emitted segment
   except the last (and the first, origin -> first sample, which is not in this list) has travelled
   more than 0.9 res; nothing is lost: the segment lengths add up to the sampled path. *)
Theorem C12_filter : forall res dmax ds, 0 < res -> Forall (fun d => 0 <= d /\ d <= dmax) ds -> ds <> [] ->
  Forall (fun T => T <= (9 # 10) * res + dmax) (segments res ds) /\
  all_but_last (fun T => (9 # 10) * res < T) (segments res ds) /\
  qsum (segments res ds) == qsum ds.
Proof. exact filter_bounds. Qed.
Print Assumptions C12_filter.

(* the requested end of the curve is always emitted *)
Theorem C12_keeps_last : forall res ds rem, ds <> [] -> last (mask_loop res rem ds) false = true.
Proof. exact keeps_last. Qed.

(* the segment count is proportional to path length / resolution *)
Theorem C12_count : forall res dmax ds, 0 < res -> 0 <= dmax -> Forall (fun d => 0 <= d /\ d <= dmax) ds -> ds <> [] ->
  let n := inject_Z (Z.of_nat (length (segments res ds))) in
  qsum ds <= n * ((9 # 10) * res + dmax) /\ (n - 1) * ((9 # 10) * res) <= qsum ds.
Proof. exact count_bounds. Qed.
Print Assumptions C12_count.

(* the oversampling: a path at least one resolution long is sampled every res/10 .. res/9 of length *)
Theorem C12_sampling : forall len res, 0 < res -> res <= len ->
  let n := inject_Z (nsegments len res) in 0 < n /\ n * res <= 10 * len /\ 9 * len <= n * res.
Proof. exact sample_spacing. Qed.

(* constant-speed shapes (samples at most len/n apart): no segment longer than 91/90 res *)
Theorem C12_const_speed : forall len res ds, 0 < res -> res <= len ->
  Forall (fun d => 0 <= d /\ d * inject_Z (nsegments len res) <= len) ds -> ds <> [] ->
  Forall (fun T => T <= (91 # 90) * res) (segments res ds).
Proof. exact const_speed_upper. Qed.
Print Assumptions C12_const_speed.

(* halving the resolution never yields fewer segments, for any two sample sets such that the finer
   polyline is not drastically shorter than the coarser one *)
Theorem C12_halving : forall res dmax2 ds1 ds2, 0 < res -> 0 <= dmax2 ->
  Forall (fun d => 0 <= d) ds1 -> ds1 <> [] ->
  Forall (fun d => 0 <= d /\ d <= dmax2) ds2 -> ds2 <> [] ->
  qsum ds1 * ((9 # 10) * (res / 2) + dmax2) < qsum ds2 * ((9 # 10) * res) ->
  (length (segments res ds1) <= length (segments (res / 2) ds2))%nat.
Proof. exact halving_never_fewer. Qed.
Print Assumptions C12_halving.

(* ROBUSTNESS to inexact arithmetic: the implementation tracks `remaining` in binary64.  rmask res delta describes every
   run of the filter in which each comparison `remaining < tolerance` is decided correctly whenever the exact value is
   at least delta away from the threshold and either way otherwise (delta = the accumulated rounding error of one
   accumulation window: at most about a dozen subtractions, i.e. about 2e-15 res in binary64 -- that bound itself is not
   proved here).  All bounds survive with delta of slack; the exact filter is the case delta = 0. *)
Theorem C12_filter_robust : forall res delta dmax ds m, 0 < res -> 0 <= delta ->
  rmask res delta res ds m -> Forall (fun d => 0 <= d /\ d <= dmax) ds -> ds <> [] ->
  let S := seg_loop 0 m ds in
  Forall (fun T => T <= (9 # 10) * res + delta + dmax) S /\
  all_but_last (fun T => (9 # 10) * res - delta < T) S /\
  qsum S == qsum ds.
Proof. exact filter_bounds_robust. Qed.
Theorem C12_exact_is_robust : forall res ds rem, rmask res 0 rem ds (mask_loop res rem ds).
Proof. exact exact_is_rmask. Qed.
Print Assumptions C12_filter_robust.

(* ... and under the STANDARD MODEL of floating-point arithmetic the implementation's run is such a run.  [fmask rnd] is the
   filter with a rounding after every `remaining -= distance` and a rounded threshold.  For EVERY rounding function of relative
   error at most u (|rnd x - x| <= u |x|: round-to-nearest without underflow; u = 2^-53 for binary64), every resolution, every
   list of distances not larger than the resolution, and K = the longest accumulation window (constant-speed shapes: K <= 11
   by C12_sampling): all bounds hold with delta = (2 K + 1) u res -- about 2.6e-15 res in binary64 with K = 11.  That binary64
   satisfies the standard model is the textbook property of IEEE-754 (not re-proved here; inputs within the normal range). *)
Theorem C12_filter_float : forall rnd u res that K dmax ds, 0 <= u -> (forall x, Qabs (rnd x - x) <= u * Qabs x) ->
  0 < res -> (0 < K)%nat -> 2 * inject_Z (Z.of_nat K) * u <= 1 # 20 ->
  Qabs (that - res / filter_tolerance_div) <= u * res ->
  Forall (fun d => 0 <= d /\ d <= dmax) ds -> dmax <= res -> ds <> [] ->
  windows_le K 0 (fmask rnd res that res ds) ->
  let delta := (2 * inject_Z (Z.of_nat K) + 1) * (u * res) in
  let S := seg_loop 0 (fmask rnd res that res ds) ds in
  Forall (fun T => T <= (9 # 10) * res + delta + dmax) S /\
  all_but_last (fun T => (9 # 10) * res - delta < T) S /\
  qsum S == qsum ds.
Proof. exact float_filter_bounds. Qed.
Print Assumptions C12_filter_float.

(* the window length K: for the exact filter, distances of at least dmin and K dmin > 0.9 res bound every accumulation window
   by K subtractions -- constant-speed sampling every res/10 .. res/9 of length (C12_sampling) gives K = 10 *)
Theorem C12_window_length : forall res dmin K, 0 < res -> 0 < dmin -> (9 # 10) * res < inject_Z (Z.of_nat K) * dmin ->
  forall ds, Forall (fun d => dmin <= d) ds -> windows_le K 0 (mask_loop res res ds).
Proof. exact exact_windows_top. Qed.

Theorem C12_float_exact : forall res ds rem, fmask (fun x => x) res (res / filter_tolerance_div) rem ds = mask_loop res rem ds.
Proof. exact fmask_exact. Qed.

(* from travelled (arc) length to chord length and chord error, on a circle of radius r (real numbers; standard-library
   axioms of the reals, see Print Assumptions): a segment spanning arc length s <= 2 r has chord between
   s (1 - s^2 / 24 r^2) and s, and its chord error (sagitta) is at most s^2 / 8 r *)
Theorem C12_chord : forall r s : R, (0 < r)%R -> (0 <= s <= 2 * r)%R ->
  (s * (1 - s ^ 2 / (24 * r ^ 2)) <= 2 * r * sin (s / (2 * r)) <= s)%R.
Proof. exact chord_bounds. Qed.
Theorem C12_sagitta : forall r s : R, (0 < r)%R -> (0 <= s <= 2 * r)%R -> (r * (1 - cos (s / (2 * r))) <= s ^ 2 / (8 * r))%R.
Proof. exact sagitta_bound. Qed.
Print Assumptions C12_chord.

(* non-vacuity: 29 samples 1/10 apart at resolution 1, then 59 samples 1/20 apart at resolution 1/2 *)
Example C12_nonvacuous :
  map Qred (segments 1 (repeat (1 # 10) 29)) = [1; 1; (9 # 10)] /\
  length (segments (1 # 2) (repeat (1 # 20) 59)) = 6%nat /\ nsegments 3 1 = 30%Z /\
  qsum (repeat (1 # 10) 29) * ((9 # 10) * (1 / 2) + (1 # 20)) < qsum (repeat (1 # 20) 59) * ((9 # 10) * 1).
Proof. vm_compute. repeat split. Qed.
