(* C13: transform states are saved, restored and inverted exactly. *)
From Coq Require Import ZArith QArith Bool List Lia Lqa.
From GS Require Import model.Num model.Builder model.Transformer.
Import ListNotations.
Open Scope Q_scope.

Ltac projs := cbn [vx vy vz a11 a12 a13 a21 a22 a23 a31 a32 a33 t1 t2 t3].

Definition veq (p q : v3) : Prop := vx p == vx q /\ vy p == vy q /\ vz p == vz q.

(* ---------------------------------------------------------------- matrix algebra *)
Lemma amul_app A B p : veq (app3 (amul A B) p) (app3 A (app3 B p)).
Proof. unfold veq, app3, amul, mat. projs. rewrite !Qred_correct. repeat split; ring. Qed.

Lemma veq_refl p : veq p p. Proof. repeat split; reflexivity. Qed.
Lemma veq_trans a b c : veq a b -> veq b c -> veq a c.
Proof. intros (A1 & A2 & A3) (B1 & B2 & B3). repeat split; etransitivity; eassumption. Qed.
Lemma app3_veq m p q : veq p q -> veq (app3 m p) (app3 m q).
Proof. intros (A & B & C). unfold veq, app3. projs. rewrite A, B, C. repeat split; reflexivity. Qed.

(* reverse after apply is the identity for every invertible transform *)
Theorem ainv_left m p : ~ det m == 0 -> veq (app3 (ainv m) (app3 m p)) p.
Proof.
  intros Hd. unfold veq, app3, ainv, mat, det in *. projs. repeat split; field; exact Hd.
Qed.

Theorem ainv_right m p : ~ det m == 0 -> veq (app3 m (app3 (ainv m) p)) p.
Proof.
  intros Hd. unfold veq, app3, ainv, mat, det in *. projs. repeat split; field; exact Hd.
Qed.

(* a transformation chained about a pivot leaves the pivot fixed when it is linear
   (rotation, scaling, reflection: no translation part) *)
Definition linear (M : affine) : Prop := t1 M == 0 /\ t2 M == 0 /\ t3 M == 0.

Theorem pivot_fixed P M : linear M -> veq (app3 (amul (a_trans P) (amul M (a_trans (vneg P)))) P) P.
Proof.
  intros (H1 & H2 & H3). unfold veq, app3, amul, a_trans, vneg, mat. projs. rewrite !Qred_correct.
  repeat split; [rewrite H1|rewrite H2|rewrite H3]; ring.
Qed.

Lemma rot_linear ax c s : linear (a_rot ax c s). Proof. destruct ax; repeat split; reflexivity. Qed.
Lemma scale_linear a b c : linear (a_scale a b c). Proof. repeat split; reflexivity. Qed.
Lemma reflect_linear n : linear (a_reflect n). Proof. repeat split; reflexivity. Qed.

(* determinants: the reachable transforms are invertible *)
Lemma det_amul A B : det (amul A B) == det A * det B.
Proof. unfold det, amul, mat. projs. rewrite !Qred_correct. ring. Qed.
Lemma det_trans p : det (a_trans p) == 1. Proof. unfold det, a_trans, mat. projs. ring. Qed.
Lemma det_scale a b c : det (a_scale a b c) == a * b * c. Proof. unfold det, a_scale, mat. projs. ring. Qed.
Lemma det_rot ax c s : det (a_rot ax c s) == c * c + s * s.
Proof. destruct ax; unfold det, a_rot, mat; projs; ring. Qed.
Lemma det_reflect n : ~ vx n * vx n + vy n * vy n + vz n * vz n == 0 -> det (a_reflect n) == - (1).
Proof. intros H. unfold det, a_reflect, mat. projs. field. exact H. Qed.

Lemma det_chain P M C : det (chain P M C) == det M * det C.
Proof. unfold chain. rewrite !det_amul, !det_trans. ring. Qed.

(* ---------------------------------------------------------------- named states *)
Lemma nget_nset k v l k' : nget k' (nset k v l) = if Nat.eqb k' k then Some v else nget k' l.
Proof.
  induction l as [|[k0 v0] l IH]; cbn [nset nget]; [destruct (Nat.eqb k' k); reflexivity|].
  destruct (Nat.eqb_spec k k0) as [->|Hne]; cbn [nget].
  - destruct (Nat.eqb k' k0); reflexivity.
  - destruct (Nat.eqb_spec k' k0) as [->|Hne'].
    + destruct (Nat.eqb_spec k0 k); [congruence|reflexivity].
    + exact IH.
Qed.

Lemma nget_ndel k l k' : k' <> k -> nget k' (ndel k l) = nget k' l.
Proof.
  intros Hne. induction l as [|[k0 v0] l IH]; cbn [ndel nget]; [reflexivity|].
  destruct (Nat.eqb_spec k k0) as [->|Hk]; cbn [nget].
  - destruct (Nat.eqb_spec k' k0); [congruence|reflexivity].
  - destruct (Nat.eqb k' k0); [reflexivity|exact IH].
Qed.

Definition touches_name (n : nat) (o : top) : bool :=
  match o with Save (Some m) => Nat.eqb m n | Delete m => Nat.eqb m n | _ => false end.

Lemma tstep_named n s o : touches_name n o = false -> nget n (named (fst (tstep s o))) = nget n (named s).
Proof.
  destruct o; cbn [tstep touches_name]; intros H; try reflexivity.
  - destruct fs as [|a [|b [|c [|d fs]]]]; try reflexivity; repeat match goal with |- context [if ?b then _ else _] => destruct b end; reflexivity.
  - destruct (qz (vx n0) && qz (vy n0) && qz (vz n0)); reflexivity.
  - destruct name as [m|]; [|reflexivity]. cbn [fst named]. rewrite nget_nset.
    destruct (Nat.eqb_spec n m) as [->|]; [rewrite Nat.eqb_refl in H; discriminate|reflexivity].
  - destruct name as [m|]; [destruct (nget m (named s))|destruct (stack s)]; reflexivity.
  - destruct (nget name (named s)); [|reflexivity]. cbn [fst named]. apply nget_ndel.
    intros ->. rewrite Nat.eqb_refl in H. discriminate.
  - destruct (nget name (named s)); reflexivity.
  - destruct (ctxs s) as [|[c st] cs]; reflexivity.
Qed.

Definition trun_from (s : tstate) (ops : list top) : tstate := fold_left (fun s o => fst (tstep s o)) ops s.

(* a named state is an immutable snapshot: whatever is done in between (including restoring it and
   editing the transform afterwards), restoring the name yields the value that was saved *)
Theorem named_immutable n ops : forall s, forallb (fun o => negb (touches_name n o)) ops = true ->
  nget n (named (trun_from s ops)) = nget n (named s).
Proof.
  induction ops as [|o ops IH]; intros s H; [reflexivity|]. cbn [forallb] in H. apply andb_prop in H as [H1 H2].
  cbn [trun_from fold_left]. fold (trun_from (fst (tstep s o)) ops). rewrite (IH _ H2). apply tstep_named.
  now apply negb_true_iff.
Qed.

Corollary restore_named_yields_saved n ops s : forallb (fun o => negb (touches_name n o)) ops = true ->
  let s1 := fst (tstep s (Save (Some n))) in
  let s2 := trun_from s1 ops in
  tstep s2 (Restore (Some n)) = (mkts (cur s) (stack s2) (named s2) (ctxs s2), None).
Proof.
  intros H. cbn zeta. cbn [tstep]. rewrite (named_immutable n ops _ H). cbn [fst tstep named].
  rewrite nget_nset, Nat.eqb_refl. reflexivity.
Qed.

(* ---------------------------------------------------------------- stack order *)
(* operations that leave the stack alone *)
Definition no_stack (o : top) : bool :=
  match o with Save None | Restore None | EnterCurrent | EnterNamed _ | ExitCtx => false | _ => true end.

Lemma tstep_no_stack s o : no_stack o = true -> stack (fst (tstep s o)) = stack s /\ ctxs (fst (tstep s o)) = ctxs s.
Proof.
  destruct o; cbn [tstep no_stack]; intros H; try discriminate; try (split; reflexivity).
  - destruct fs as [|a [|b [|c [|d fs]]]]; try (split; reflexivity);
      repeat match goal with |- context [if ?b then _ else _] => destruct b end; split; reflexivity.
  - destruct (qz (vx n) && qz (vy n) && qz (vz n)); split; reflexivity.
  - destruct name; [split; reflexivity|discriminate].
  - destruct name as [m|]; [|discriminate]. destruct (nget m (named s)); split; reflexivity.
  - destruct (nget name (named s)); split; reflexivity.
Qed.

(* well-bracketed use of save_state()/restore_state() without a name *)
Inductive balanced : list top -> Prop :=
| bal_nil : balanced []
| bal_op o ops : no_stack o = true -> balanced ops -> balanced (o :: ops)
| bal_pair a b : balanced a -> balanced b -> balanced (Save None :: a ++ Restore None :: b).

Lemma trun_from_app s a b : trun_from s (a ++ b) = trun_from (trun_from s a) b.
Proof. unfold trun_from. apply fold_left_app. Qed.

Lemma balanced_stack ops : balanced ops -> forall s, stack (trun_from s ops) = stack s /\ ctxs (trun_from s ops) = ctxs s.
Proof.
  induction 1 as [|o ops Ho _ IH|a b _ IHa _ IHb]; intros s.
  - split; reflexivity.
  - cbn [trun_from fold_left]. fold (trun_from (fst (tstep s o)) ops).
    destruct (IH (fst (tstep s o))) as [A B]. destruct (tstep_no_stack s o Ho) as [C D]. split; congruence.
  - cbn [trun_from fold_left]. fold (trun_from (fst (tstep s (Save None))) (a ++ Restore None :: b)).
    rewrite trun_from_app. cbn [trun_from fold_left].
    set (s1 := fst (tstep s (Save None))). set (s2 := trun_from s1 a).
    fold (trun_from (fst (tstep s2 (Restore None))) b).
    destruct (IHa s1) as [A A']. fold s2 in A, A'.
    assert (Hs2 : stack s2 = cur s :: stack s) by (rewrite A; reflexivity).
    cbn [tstep]. rewrite Hs2. cbn [fst].
    destruct (IHb (mkts (cur s) (stack s) (named s2) (ctxs s2))) as [B B']. cbn [stack ctxs] in *.
    split; [exact B|]. rewrite B', A'. reflexivity.
Qed.

(* restore_state() after save_state() and any well-bracketed activity returns exactly the saved
   transform and the saved stack: stack (LIFO) order *)
Theorem save_restore_lifo s ops : balanced ops ->
  let s2 := trun_from (fst (tstep s (Save None))) ops in
  cur (fst (tstep s2 (Restore None))) = cur s /\ stack (fst (tstep s2 (Restore None))) = stack s /\
  snd (tstep s2 (Restore None)) = None.
Proof.
  intros Hb. cbn zeta. set (s1 := fst (tstep s (Save None))).
  destruct (balanced_stack ops Hb s1) as [A _]. remember (trun_from s1 ops) as s2 eqn:E2.
  assert (Hs1 : stack s1 = cur s :: stack s) by reflexivity.
  cbn [tstep]. rewrite A, Hs1. cbn. auto.
Qed.

(* ---------------------------------------------------------------- context managers *)
Definition no_ctx (o : top) : bool :=
  match o with EnterCurrent | EnterNamed _ | ExitCtx => false | _ => true end.

Lemma tstep_no_ctx s o : no_ctx o = true -> ctxs (fst (tstep s o)) = ctxs s.
Proof.
  destruct o; cbn [tstep no_ctx]; intros H; try discriminate; try reflexivity.
  - destruct fs as [|a [|b [|c [|d fs]]]]; try reflexivity;
      repeat match goal with |- context [if ?b then _ else _] => destruct b end; reflexivity.
  - destruct (qz (vx n) && qz (vy n) && qz (vz n)); reflexivity.
  - destruct name; reflexivity.
  - destruct name as [m|]; [destruct (nget m (named s))|destruct (stack s)]; reflexivity.
  - destruct (nget name (named s)); reflexivity.
Qed.

(* bodies: anything (edits, saves, restores -- also failing ones, also popping entries pushed before
   the context), with properly nested inner current_transform() contexts *)
Inductive body : list top -> Prop :=
| body_nil : body []
| body_op o ops : no_ctx o = true -> body ops -> body (o :: ops)
| body_cur a b : body a -> body b -> body (EnterCurrent :: a ++ ExitCtx :: b).

Lemma body_ctxs ops : body ops -> forall s, ctxs (trun_from s ops) = ctxs s.
Proof.
  induction 1 as [|o ops Ho _ IH|a b _ IHa _ IHb]; intros s.
  - reflexivity.
  - cbn [trun_from fold_left]. fold (trun_from (fst (tstep s o)) ops). rewrite IH. now apply tstep_no_ctx.
  - cbn [trun_from fold_left]. fold (trun_from (fst (tstep s EnterCurrent)) (a ++ ExitCtx :: b)).
    rewrite trun_from_app. cbn [trun_from fold_left].
    set (s2 := trun_from (fst (tstep s EnterCurrent)) a). fold (trun_from (fst (tstep s2 ExitCtx)) b).
    rewrite IHb. cbn [tstep]. unfold s2. rewrite IHa. reflexivity.
Qed.

(* current_transform(): on exit -- normal or through an exception, the generator's finally runs
   either way -- the transform and the stack are exactly those of the entry *)
Theorem current_transform_restores s ops : body ops ->
  let s2 := trun_from (fst (tstep s EnterCurrent)) ops in
  let s3 := fst (tstep s2 ExitCtx) in
  cur s3 = cur s /\ stack s3 = stack s /\ ctxs s3 = ctxs s.
Proof.
  intros Hb. cbn zeta. set (s1 := fst (tstep s EnterCurrent)).
  pose proof (body_ctxs ops Hb s1) as Hc. remember (trun_from s1 ops) as s2 eqn:E2.
  assert (Hs1 : ctxs s1 = (cur s, stack s) :: ctxs s) by reflexivity.
  cbn [tstep]. rewrite Hc, Hs1. cbn. auto.
Qed.

(* named_transform(name) for an existing name: inside, the named snapshot is current; on exit the
   entry transform and stack are back *)
Theorem named_transform_restores s n t ops : body ops -> nget n (named s) = Some t ->
  let s1 := fst (tstep s (EnterNamed n)) in
  let s2 := trun_from s1 ops in
  let s3 := fst (tstep s2 ExitCtx) in
  cur s1 = t /\ cur s3 = cur s /\ stack s3 = stack s /\ ctxs s3 = ctxs s.
Proof.
  intros Hb Hn. cbn zeta. set (s1 := fst (tstep s (EnterNamed n))).
  assert (Hs1 : s1 = mkts t (stack s) (named s) ((cur s, stack s) :: ctxs s)) by (unfold s1; cbn [tstep]; now rewrite Hn).
  pose proof (body_ctxs ops Hb s1) as Hc. remember (trun_from s1 ops) as s2 eqn:E2.
  split; [now rewrite Hs1|]. cbn [tstep]. rewrite Hc, Hs1. cbn. auto.
Qed.

(* ---------------------------------------------------------------- reachable transforms are invertible *)
Definition op_ok (o : top) : Prop :=
  match o with
  | Rotate _ c s => c * c + s * s == 1
  | _ => True
  end.

Lemma qz_false q : qz q = false -> ~ q == 0.
Proof. unfold qz. intros H E. apply Qeq_bool_iff in E. congruence. Qed.

Definition inv1 (t : tf1) : Prop := ~ det (t_m t) == 0.
Definition Invertible (s : tstate) : Prop :=
  inv1 (cur s) /\ Forall inv1 (stack s) /\ Forall (fun kv => inv1 (snd kv)) (named s) /\
  Forall (fun c => inv1 (fst c) /\ Forall inv1 (snd c)) (ctxs s).

Lemma with_m_det s M : ~ det M == 0 -> inv1 (cur s) -> inv1 (cur (with_m s M)).
Proof.
  unfold inv1. intros HM Hc. unfold with_m. cbn [cur t_m]. rewrite det_chain. intros E.
  apply Qmult_integral in E. tauto.
Qed.

Lemma nget_forall P k : forall l t, Forall (fun kv => P (snd kv)) l -> nget k l = Some t -> P t.
Proof.
  induction l as [|[k0 v0] l IH]; intros t Hf; cbn [nget]; [discriminate|].
  inversion Hf as [|? ? H1 H2]; subst. destruct (Nat.eqb k k0); [intros E; injection E as <-; exact H1|now apply IH].
Qed.
Lemma nset_forall (P : tf1 -> Prop) k v : forall l, P v -> Forall (fun kv => P (snd kv)) l ->
  Forall (fun kv => P (snd kv)) (nset k v l).
Proof.
  induction l as [|[k0 v0] l IH]; intros Hv Hf; cbn [nset]; [repeat constructor; exact Hv|].
  inversion Hf as [|? ? H1 H2]; subst. destruct (Nat.eqb k k0); constructor; auto.
Qed.
Lemma ndel_forall (P : tf1 -> Prop) k : forall l, Forall (fun kv => P (snd kv)) l ->
  Forall (fun kv => P (snd kv)) (ndel k l).
Proof.
  induction l as [|[k0 v0] l IH]; intros Hf; cbn [ndel]; [constructor|].
  inversion Hf as [|? ? H1 H2]; subst. destruct (Nat.eqb k k0); [exact H2|constructor; auto].
Qed.

Lemma with_m_inv s M : ~ det M == 0 -> Invertible s -> Invertible (with_m s M).
Proof. intros HM (A & B & C & D). split; [now apply with_m_det|]. cbn. auto. Qed.

Theorem tstep_invertible s o : op_ok o -> Invertible s -> Invertible (fst (tstep s o)).
Proof.
  intros Ho HI. pose proof HI as (A & B & C & D). destruct o; cbn [tstep op_ok] in *.
  - apply with_m_inv; [|exact HI]. rewrite det_trans. discriminate.
  - destruct fs as [|a [|b [|c [|d fs]]]]; try exact HI.
    + destruct (qz a) eqn:Ea; [exact HI|]. apply with_m_inv; [|exact HI]. rewrite det_scale.
      apply qz_false in Ea. intros E. apply Qmult_integral in E as [E|E]; [apply Qmult_integral in E as [E|E]|]; contradiction.
    + destruct (qz a) eqn:Ea; [exact HI|]. destruct (qz b) eqn:Eb; [exact HI|]. cbn [orb].
      apply with_m_inv; [|exact HI]. rewrite det_scale. apply qz_false in Ea. apply qz_false in Eb.
      intros E. apply Qmult_integral in E as [E|E]; [apply Qmult_integral in E as [E|E]; contradiction|discriminate E].
    + destruct (qz a) eqn:Ea; [exact HI|]. destruct (qz b) eqn:Eb; [exact HI|]. destruct (qz c) eqn:Ec; [exact HI|]. cbn [orb].
      apply with_m_inv; [|exact HI]. rewrite det_scale. apply qz_false in Ea. apply qz_false in Eb. apply qz_false in Ec.
      intros E. apply Qmult_integral in E as [E|E]; [apply Qmult_integral in E as [E|E]|]; contradiction.
  - apply with_m_inv; [|exact HI]. rewrite det_rot, Ho. discriminate.
  - destruct (qz (vx n) && qz (vy n) && qz (vz n)) eqn:En; [exact HI|]. apply with_m_inv; [|exact HI].
    assert (Hd : ~ vx n * vx n + vy n * vy n + vz n * vz n == 0).
    { intros E. assert (Hx : vx n == 0 /\ vy n == 0 /\ vz n == 0) by (repeat split; nra).
      destruct Hx as (X & Y & Z). unfold qz in En. rewrite (proj2 (Qeq_bool_iff _ _) X), (proj2 (Qeq_bool_iff _ _) Y),
        (proj2 (Qeq_bool_iff _ _) Z) in En. discriminate. }
    rewrite (det_reflect n Hd). discriminate.
  - split; [exact A|]. cbn. auto.
  - destruct name as [m|]; cbn [fst].
    + split; [exact A|]. cbn. repeat split; auto. now apply nset_forall.
    + split; [exact A|]. cbn. repeat split; auto.
  - destruct name as [m|].
    + destruct (nget m (named s)) as [t|] eqn:E; [|exact HI]. cbn [fst]. split; [|cbn; auto].
      cbn. exact (nget_forall inv1 m _ t C E).
    + destruct (stack s) as [|t st] eqn:E; [exact HI|]. cbn [fst]. inversion B; subst. split; [assumption|]. cbn. auto.
  - destruct (nget name (named s)); [|exact HI]. cbn [fst]. split; [exact A|]. cbn. repeat split; auto. now apply ndel_forall.
  - cbn [fst]. split; [exact A|]. cbn. repeat split; auto.
  - destruct (nget name (named s)) as [t|] eqn:E; [|exact HI]. cbn [fst]. split; [cbn; exact (nget_forall inv1 name _ t C E)|].
    cbn. repeat split; auto.
  - destruct (ctxs s) as [|[c st] cs] eqn:E; [exact HI|]. cbn [fst]. inversion D as [|? ? [H1 H2] H3]; subst.
    split; [exact H1|]. cbn. auto.
Qed.

Lemma Invertible0 : Invertible ts0.
Proof. split; [unfold inv1; cbn; discriminate|]. cbn. auto. Qed.

Theorem reachable_invertible ops : Forall op_ok ops -> Invertible (trun ops).
Proof.
  unfold trun. generalize Invertible0. generalize ts0. induction ops as [|o ops IH]; intros s HI Ho; [exact HI|].
  inversion Ho; subst. cbn [fold_left]. apply IH; [now apply tstep_invertible|assumption].
Qed.

(* reverse_transform undoes apply_transform in every reachable state *)
Theorem reverse_apply ops p : Forall op_ok ops -> veq (t_reverse (trun ops) (t_apply (trun ops) p)) p.
Proof.
  intros H. destruct (reachable_invertible ops H) as [A _]. unfold t_reverse, t_apply. now apply ainv_left.
Qed.
