(* C01: the emitted program reproduces the tracked position (no transform active). *)
From Coq Require Import ZArith QArith Qabs Bool List String Lia Lqa.
From GS Require Import gen.GenTables model.Num model.Builder model.Interp proofs.Tables proofs.FlagsProofs
  proofs.NumProofs proofs.InterlockProofs proofs.AtomicProofs proofs.BoundsProofs proofs.MirrorProofs.
Import ListNotations.
Open Scope string_scope.
Open Scope list_scope.

Local Arguments instr : simpl never.
Local Arguments i_move : simpl never.
Local Arguments i_offset : simpl never.
Local Arguments i_home : simpl never.
Local Arguments i_probe : simpl never.
Local Arguments i_units : simpl never.
Local Arguments i_dmode : simpl never.
Local Arguments i_emode : simpl never.
Local Arguments i_fmode : simpl never.
Local Arguments i_spin : simpl never.
Local Arguments i_power : simpl never.
Local Arguments i_swap : simpl never.
Local Arguments i_coolant : simpl never.
Local Arguments i_fan : simpl never.
Local Arguments i_bed : simpl never.
Local Arguments i_hotend : simpl never.
Local Arguments i_chamber : simpl never.
Local Arguments i_plane : simpl never.
Local Arguments i_sleep : simpl never.
Local Arguments i_query : simpl never.
Local Arguments i_halt : simpl never.
Local Arguments round_dp : simpl never.

(* ---------------------------------------------------------------- the agreement relation *)
Definition eps (dp : nat) : Q := half_unit dp.

(* machine coordinate known => builder coordinate known and within n * eps of it, where n is the
   number of rounded words the machine coordinate is the sum of (1 + relative words since the last
   absolute word or G92) *)
Definition ax_agree (dp : nat) (c : axis_st) (b : option Q) : Prop :=
  match c with
  | None => True
  | Some (v, n) => exists q, b = Some q /\ (Qabs (v - q) <= inject_Z (Z.of_nat n) * eps dp)%Q
  end.

Definition Agree (dp : nat) (s : st) (p : pmach) : Prop :=
  p_rel p = (match dm s with Relative => true | Absolute => false end) /\
  ax_agree dp (p_x p) (px (pos s)) /\ ax_agree dp (p_y p) (py (pos s)) /\ ax_agree dp (p_z p) (pz (pos s)).

Lemma eps_pos dp : (0 < eps dp)%Q. Proof. apply half_unit_pos. Qed.

(* an absolute word: the machine takes the rounded value, the builder the requested one *)
Lemma agree_abs dp m t c : (m == t)%Q -> ax_agree dp (upd_abs (Some (round_dp dp m)) c) (Some t).
Proof.
  intros E. unfold upd_abs, ax_agree. exists t. split; [reflexivity|].
  change (inject_Z (Z.of_nat 1)) with 1%Q. rewrite Qmult_1_l, <- E. apply round_dp_err.
Qed.

(* no word on this axis, the builder keeps (or resolves) the same number *)
Lemma agree_keep dp c b t : ax_agree dp c b -> (forall q, b = Some q -> (t == q)%Q) -> ax_agree dp c (Some t).
Proof.
  destruct c as [[v n]|]; unfold ax_agree; [|auto]. intros (q & -> & H) Ht. exists t. split; [reflexivity|].
  rewrite (Ht q eq_refl). exact H.
Qed.

(* a relative word *)
Lemma agree_rel dp m d c b t : ax_agree dp c b -> (m == d)%Q -> (forall q, b = Some q -> (t == q + d)%Q) ->
  ax_agree dp (upd_rel (Some (round_dp dp m)) c) (Some t).
Proof.
  destruct c as [[v n]|]; unfold upd_rel, ax_agree; [|auto]. intros (q & -> & H) Em Ht. exists t. split; [reflexivity|].
  rewrite (Ht q eq_refl). pose proof (round_dp_err dp m) as Hr.
  rewrite Nat2Z.inj_succ. unfold Z.succ. rewrite inject_Z_plus.
  assert (Hd : (v + round_dp dp m - (q + d) == (v - q) + (round_dp dp m - m))%Q) by (rewrite <- Em; ring).
  rewrite Hd. eapply Qle_trans; [apply Qabs_triangle|]. unfold eps in *.
  change (inject_Z 1) with 1%Q. lra.
Qed.

(* ---------------------------------------------------------------- identity transform *)
Lemma q3_x x y z : (q3 1 0 0 0 x y z == x)%Q. Proof. unfold q3. rewrite Qred_correct. ring. Qed.
Lemma q3_y x y z : (q3 0 1 0 0 x y z == y)%Q. Proof. unfold q3. rewrite Qred_correct. ring. Qed.
Lemma q3_z x y z : (q3 0 0 1 0 x y z == z)%Q. Proof. unfold q3. rewrite Qred_correct. ring. Qed.

Definition cur1 (b : option Q) : Q := res1 b.

(* what _transform_move yields on one axis, with the identity transform *)
Definition axis_spec (rel : bool) (b req mv tg : option Q) : Prop :=
  match req with
  | Some v => (exists m, mv = Some m /\ (m == v)%Q) /\
              (exists t, tg = Some t /\ (t == (if rel then res1 b + v else v))%Q)
  | None => mv = None /\ ((exists t, tg = Some t /\ (t == res1 b)%Q) \/ tg = b)
  end.

Lemma qeqb_true a b : (a == b)%Q -> qeqb a b = true. Proof. intros H. now apply qeqb_eq. Qed.

Lemma neq1_same a b : (a == b)%Q -> neq1 (Some a) (Some b) = false.
Proof. intros H. unfold neq1. cbn [res1]. now rewrite (qeqb_true a b H). Qed.

Lemma transform_move_id s p : tf s = aff_id ->
  let rel := match dm s with Relative => true | Absolute => false end in
  let '(mv, tg) := transform_move s p in
  axis_spec rel (px (pos s)) (px p) (px mv) (px tg) /\
  axis_spec rel (py (pos s)) (py p) (py mv) (py tg) /\
  axis_spec rel (pz (pos s)) (pz p) (pz mv) (pz tg).
Proof.
  intros Ht. unfold transform_move, to_absolute. rewrite Ht. unfold aff_apply, aff_id.
  cbn [a11 a12 a13 a21 a22 a23 a31 a32 a33 t1 t2 t3].
  destruct (dm s); cbn [px py pz resolve replace padd psub lift2]; (split; [|split]).
  all: unfold axis_spec;
    match goal with |- match ?r with Some _ => _ | None => _ end => destruct r as [v|] end;
    cbn [rep1 res1 comb1 lift2].
  all: try (split; (eexists; split; [reflexivity|]); cbn [res1];
            rewrite ?qsub_eq, ?q3_x, ?q3_y, ?q3_z, ?qadd_eq; try ring; try reflexivity).
  all: split;
    [ rewrite neq1_same by (rewrite ?q3_x, ?q3_y, ?q3_z, ?qadd_eq; cbn [res1]; ring); reflexivity
    | left; eexists; split; [reflexivity|]; cbn [res1]; rewrite ?qadd_eq; try ring; try reflexivity ].
Qed.

(* ---------------------------------------------------------------- one axis of one motion line *)
Lemma axis_step dp (rel : bool) c b req mv tg : ax_agree dp c b -> axis_spec rel b req mv tg ->
  ax_agree dp ((if rel then upd_rel else upd_abs) (option_map (round_dp dp) mv) c) tg.
Proof.
  intros Ha Hs. unfold axis_spec in Hs. destruct req as [v|].
  - destruct Hs as ((m & -> & Em) & (t & -> & Et)). cbn [option_map]. destruct rel.
    + eapply agree_rel; [exact Ha|exact Em|]. intros q ->. cbn [res1] in Et. exact Et.
    + apply agree_abs. now rewrite Em, Et.
  - destruct Hs as (-> & [(t & -> & Et)| ->]); cbn [option_map].
    + assert (Hk : ax_agree dp c (Some t)).
      { eapply agree_keep; [exact Ha|]. intros q ->. exact Et. }
      destruct rel; [destruct c as [[? ?]|]|]; exact Hk.
    + destruct rel; [destruct c as [[? ?]|]|]; exact Ha.
Qed.

Ltac streq := repeat match goal with |- context [String.eqb ?a ?b] =>
  let v := eval vm_compute in (String.eqb a b) in change (String.eqb a b) with v end.

Lemma wget_axes dp hd mv ps : fst hd = "G" -> params_ok ps ->
  wget "X" (hd :: axis_words dp mv ++ pwords dp ps) = option_map (round_dp dp) (px mv) /\
  wget "Y" (hd :: axis_words dp mv ++ pwords dp ps) = option_map (round_dp dp) (py mv) /\
  wget "Z" (hd :: axis_words dp mv ++ pwords dp ps) = option_map (round_dp dp) (pz mv).
Proof.
  intros Hhd Hp. destruct hd as [hk hv]. cbn in Hhd. subst hk.
  pose proof (pget_reserved ps "X" Hp eq_refl) as HX. pose proof (pget_reserved ps "Y" Hp eq_refl) as HY.
  pose proof (pget_reserved ps "Z" Hp eq_refl) as HZ.
  unfold axis_words. destruct (px mv), (py mv), (pz mv); cbn [wget fst snd app option_map]; streq; cbn iota;
    rewrite ?wget_pwords, ?HX, ?HY, ?HZ; repeat split; reflexivity.
Qed.

Lemma motion_line_agree dp s p s' hd mv tg ps req : Agree dp s p -> fst hd = "G" -> params_ok ps ->
  isq 90 (Some (snd hd)) = false -> isq 91 (Some (snd hd)) = false ->
  isq 0 (Some (snd hd)) || isq 1 (Some (snd hd)) = true ->
  (let rel := match dm s with Relative => true | Absolute => false end in
   axis_spec rel (px (pos s)) (px req) (px mv) (px tg) /\
   axis_spec rel (py (pos s)) (py req) (py mv) (py tg) /\
   axis_spec rel (pz (pos s)) (pz req) (pz mv) (pz tg)) ->
  pos s' = tg -> dm s' = dm s ->
  Agree dp s' (pinterp_line p (hd :: axis_words dp mv ++ pwords dp ps)).
Proof.
  intros (Hrel & Hx & Hy & Hz) Hhd Hp H90 H91 H01 (Sx & Sy & Sz) Hpos Hdm.
  unfold pinterp_line. destruct (wget_axes dp hd mv ps Hhd Hp) as (Wx & Wy & Wz). rewrite Wx, Wy, Wz.
  assert (Hg : wget "G" (hd :: axis_words dp mv ++ pwords dp ps) = Some (snd hd)).
  { destruct hd as [hk hv]. cbn in Hhd. subst hk. reflexivity. }
  rewrite Hg, H90, H91, H01. unfold Agree. rewrite Hpos, Hdm, Hrel.
  destruct (dm s); cbn [p_rel p_x p_y p_z]; (split; [reflexivity|]); repeat split.
  - exact (axis_step dp false _ _ _ _ _ Hx Sx).
  - exact (axis_step dp false _ _ _ _ _ Hy Sy).
  - exact (axis_step dp false _ _ _ _ _ Hz Sz).
  - exact (axis_step dp true _ _ _ _ _ Hx Sx).
  - exact (axis_step dp true _ _ _ _ _ Hy Sy).
  - exact (axis_step dp true _ _ _ _ _ Hz Sz).
Qed.

Lemma pinterp_lines_nil p : pinterp_lines p [] = p. Proof. reflexivity. Qed.
Lemma pinterp_lines_one p l : pinterp_lines p [l] = pinterp_line p l. Proof. reflexivity. Qed.
Lemma pinterp_lines_cons p l ls : pinterp_lines p (l :: ls) = pinterp_lines (pinterp_line p l) ls.
Proof. reflexivity. Qed.
Lemma pinterp_lines_app p a b : pinterp_lines p (a ++ b) = pinterp_lines (pinterp_lines p a) b.
Proof. unfold pinterp_lines. apply fold_left_app. Qed.

Lemma move_head_pm k : fst (i_move k) = "G" /\ isq 90 (Some (snd (i_move k))) = false /\
  isq 91 (Some (snd (i_move k))) = false /\ isq 0 (Some (snd (i_move k))) || isq 1 (Some (snd (i_move k))) = true.
Proof. destruct k; [rewrite i_move_linear|rewrite i_move_rapid]; repeat split; reflexivity. Qed.

(* the fields Agree looks at *)
Definition same_track (s s' : st) : Prop := pos s' = pos s /\ dm s' = dm s /\ tf s' = tf s.
Lemma Agree_same dp s s' p : same_track s s' -> Agree dp s p -> Agree dp s' p.
Proof. intros (A & B & C). unfold Agree. now rewrite A, B. Qed.

Ltac failedA HC HA :=
  destruct HC as [HC|[HC _]]; [discriminate HC|cbn [st_of fail ok] in HC; rewrite ?HC; exact HA].

Lemma track_same_track s ps : same_track s (fst (track s ps)).
Proof. destruct (track_frame s ps) as ((A & _ & B & _) & C & _). repeat split; assumption. Qed.

(* _prepare_move .. write for a move whose vector and target come from _transform_move *)
Lemma do_move_agree dp k s r mv tg ps p req : params_ok ps -> hooks_ok2 s -> tf s = aff_id -> Agree dp s p ->
  (let rel := match dm s with Relative => true | Absolute => false end in
   axis_spec rel (px (pos s)) (px req) (px mv) (px tg) /\
   axis_spec rel (py (pos s)) (py req) (py mv) (py tg) /\
   axis_spec rel (pz (pos s)) (pz req) (pz mv) (pz tg)) ->
  clean s (do_move dp k s r mv tg ps) ->
  Agree dp (st_of (do_move dp k s r mv tg ps)) (pinterp_lines p (lines_of (do_move dp k s r mv tg ps))) /\
  tf (st_of (do_move dp k s r mv tg ps)) = aff_id.
Proof.
  intros Hp Hh Htf HA Hspec. unfold do_move.
  set (hk := match k, hooks s with
             | Linear, _ :: _ => run_hooks s (hooks s) (resolve (pos s)) (to_absolute s mv) ps
             | _, _ => (ps, []) end).
  assert (Hk : params_ok (fst hk)).
  { unfold hk. destruct k; [|exact Hp]. destruct (hooks s) eqn:E; [exact Hp|].
    rewrite <- E. apply run_hooks_ok; [rewrite E; unfold hooks_ok2 in Hh; rewrite E in Hh; exact Hh|exact Hp]. }
  destruct hk as [ps1 calls]. cbn [fst] in Hk.
  pose proof (track_same_track s ps1) as (T1 & T2 & T3).
  destruct (track s ps1) as [s1 [e1|]]; cbn [fst] in *.
  - intros HC. cbn [st_of lines_of]. rewrite pinterp_lines_nil. split; [failedA HC HA|congruence].
  - destruct (req_finite r && params_finite ps1); cbn [negb].
    + unfold update_axes. destruct (within _ _); cbn [ok st_of lines_of err_of].
      * intros _. split; [|cbn; congruence]. rewrite pinterp_lines_one. unfold move_line.
        destruct (move_head_pm k) as (H1 & H2 & H3 & H4).
        eapply (motion_line_agree dp s p _ (i_move k) mv tg ps1 req); eauto.
      * intros HC. rewrite pinterp_lines_nil. split; [failedA HC HA|cbn; congruence].
    + intros HC. cbn [st_of lines_of]. rewrite pinterp_lines_nil. split; [failedA HC HA|congruence].
Qed.

(* ---------------------------------------------------------------- absolute-bypass moves, G92, G28, G38.x *)
Lemma bypass_spec s r :
  axis_spec false (px (pos s)) (px (req_point r)) (px (req_point r)) (px (replace (pos s) (req_point r))) /\
  axis_spec false (py (pos s)) (py (req_point r)) (py (req_point r)) (py (replace (pos s) (req_point r))) /\
  axis_spec false (pz (pos s)) (pz (req_point r)) (pz (req_point r)) (pz (replace (pos s) (req_point r))).
Proof.
  unfold axis_spec, replace. cbn [px py pz].
  repeat split; match goal with |- match ?x with _ => _ end => destruct x end; cbn [rep1];
    try (split; eexists; split; reflexivity); (split; [reflexivity|now right]).
Qed.

Lemma g92_line_agree dp s p r ps s' : Agree dp s p -> params_ok ps ->
  pos s' = replace (pos s) (req_point r) -> dm s' = dm s ->
  Agree dp s' (pinterp_line p (W "G" 92 :: axis_words dp (req_point r) ++ pwords dp ps)).
Proof.
  intros (Hrel & Hx & Hy & Hz) Hp Hpos Hdm. unfold pinterp_line.
  destruct (wget_axes dp (W "G" 92) (req_point r) ps eq_refl Hp) as (Wx & Wy & Wz). rewrite Wx, Wy, Wz.
  change (wget "G" (W "G" 92 :: axis_words dp (req_point r) ++ pwords dp ps)) with (Some (inject_Z 92)).
  change (isq 90 (Some (inject_Z 92))) with false. change (isq 91 (Some (inject_Z 92))) with false.
  change (isq 0 (Some (inject_Z 92))) with false. change (isq 1 (Some (inject_Z 92))) with false.
  change (isq 92 (Some (inject_Z 92))) with true. cbn [orb].
  destruct (bypass_spec s r) as (Sx & Sy & Sz).
  unfold Agree. rewrite Hpos, Hdm. cbn [p_rel p_x p_y p_z]. split; [exact Hrel|]. repeat split.
  - exact (axis_step dp false _ _ _ _ _ Hx Sx).
  - exact (axis_step dp false _ _ _ _ _ Hy Sy).
  - exact (axis_step dp false _ _ _ _ _ Hz Sz).
Qed.

Lemma mask_agree dp c b w : ax_agree dp c b -> ax_agree dp (upd_mask w c) (mask1 b w).
Proof. destruct w; cbn; auto. Qed.

Lemma g28_line_agree dp s p r ps s' : Agree dp s p -> params_ok ps ->
  pos s' = mask (pos s) (if is_unknown (req_point r) then zero else req_point r) -> dm s' = dm s ->
  Agree dp s' (pinterp_line p (W "G" 28 :: axis_words dp (req_point r) ++ pwords dp ps)).
Proof.
  intros (Hrel & Hx & Hy & Hz) Hp Hpos Hdm. revert Hpos. generalize (req_point r). intros q Hpos.
  unfold pinterp_line.
  destruct (wget_axes dp (W "G" 28) q ps eq_refl Hp) as (Wx & Wy & Wz). rewrite Wx, Wy, Wz.
  change (wget "G" (W "G" 28 :: axis_words dp q ++ pwords dp ps)) with (Some (inject_Z 28)).
  change (isq 90 (Some (inject_Z 28))) with false. change (isq 91 (Some (inject_Z 28))) with false.
  change (isq 0 (Some (inject_Z 28))) with false. change (isq 1 (Some (inject_Z 28))) with false.
  change (isq 92 (Some (inject_Z 28))) with false. change (isq 28 (Some (inject_Z 28))) with true. cbn [orb].
  unfold Agree. rewrite Hpos, Hdm. unfold is_unknown, mask.
  destruct q as [[x|] [y|] [z|]];
    cbn [option_map p_rel p_x p_y p_z px py pz zero upd_mask mask1]; (split; [exact Hrel|]); repeat split;
    try exact I; assumption.
Qed.

Lemma probe_line_agree dp s p pm mv tg ps s' req : Agree dp s p -> params_ok ps ->
  (let rel := match dm s with Relative => true | Absolute => false end in
   axis_spec rel (px (pos s)) (px req) (px mv) (px tg) /\
   axis_spec rel (py (pos s)) (py req) (py mv) (py tg) /\
   axis_spec rel (pz (pos s)) (pz req) (pz mv) (pz tg)) ->
  pos s' = mask tg mv -> dm s' = dm s ->
  Agree dp s' (pinterp_line p (i_probe pm :: axis_words dp mv ++ pwords dp ps)).
Proof.
  intros (Hrel & Hx & Hy & Hz) Hp (Sx & Sy & Sz) Hpos Hdm. unfold pinterp_line.
  destruct (wget_axes dp (i_probe pm) mv ps (proj1 (i_probe_g pm)) Hp) as (Wx & Wy & Wz). rewrite Wx, Wy, Wz.
  assert (Hg : wget "G" (i_probe pm :: axis_words dp mv ++ pwords dp ps) = Some (snd (i_probe pm))).
  { pose proof (proj1 (i_probe_g pm)) as Hf. destruct (i_probe pm) as [hk hv]. cbn in Hf. subst hk. reflexivity. }
  rewrite Hg. rewrite !probe_isq by (cbn; auto 20). rewrite probe_is_probe. cbn [orb].
  unfold Agree. rewrite Hpos, Hdm. cbn [p_rel p_x p_y p_z mask px py pz]. split; [exact Hrel|].
  assert (Hax : forall c b req0 mv0 tg0 rel, ax_agree dp c b -> axis_spec rel b req0 mv0 tg0 ->
            ax_agree dp (upd_mask (option_map (round_dp dp) mv0) c) (mask1 tg0 mv0)).
  { intros c b req0 mv0 tg0 rel Ha Hs. unfold axis_spec in Hs. destruct req0 as [v|].
    - destruct Hs as ((m & -> & _) & _). exact I.
    - destruct Hs as (-> & [(t & -> & Et)| ->]); cbn [option_map upd_mask mask1]; [|exact Ha].
      eapply agree_keep; [exact Ha|]. intros q ->. exact Et. }
  repeat split; eapply Hax; eauto.
Qed.

(* lines that do not concern the position machine *)
Definition pm_neutral (l : line) : Prop := forall p, pinterp_line p l = p.

Lemma neutral_noG l : wget "G" l = None -> pm_neutral l.
Proof. intros H p. unfold pinterp_line. rewrite H. reflexivity. Qed.

Lemma neutral_G n rest : ~ In n [90; 91; 0; 1; 92; 28]%Z -> (n < 38 \/ 39 <= n)%Z -> pm_neutral (W "G" n :: rest).
Proof.
  intros Hn Hr p. unfold pinterp_line, W. cbn [wget fst snd]. change (String.eqb "G" "G") with true. cbn iota.
  assert (Hq : forall k, k <> n -> isq k (Some (inject_Z n)) = false).
  { intros k Hk. unfold isq, Qeq_bool, inject_Z, Zeq_bool. cbn [Qnum Qden]. rewrite !Z.mul_1_r.
    destruct (Z.compare_spec n k); [congruence|reflexivity|reflexivity]. }
  cbn in Hn. rewrite !Hq by (intros E; subst n; apply Hn; auto 10).
  assert (Hp : is_probe_q (Some (inject_Z n)) = false).
  { unfold is_probe_q, Qle_bool, inject_Z. cbn [Qnum Qden]. rewrite !Z.mul_1_r.
    destruct Hr; [replace (n <=? 38)%Z with true by (symmetry; apply Z.leb_le; lia); reflexivity|].
    replace (39 <=? n)%Z with true by (symmetry; apply Z.leb_le; lia). now rewrite andb_false_r. }
  rewrite Hp. reflexivity.
Qed.

Lemma neutral_lines p ls : Forall pm_neutral ls -> pinterp_lines p ls = p.
Proof. induction 1 as [|l ls Hl _ IH]; [reflexivity|]. rewrite pinterp_lines_cons, Hl. exact IH. Qed.

Lemma wget_M_tail dp c ps k : params_ok ps -> reserved k = true -> k <> "M" -> wget k (W "M" c :: pwords dp ps) = None.
Proof.
  intros Hp Hk Hne. unfold W. cbn [wget fst snd]. destruct (String.eqb_spec "M" k); [congruence|].
  rewrite wget_pwords, (pget_reserved ps k Hp Hk). reflexivity.
Qed.

(* ---------------------------------------------------------------- one step *)
Definition cmd_ok1 (c : cmd) : Prop :=
  cmd_ok3 c /\ match c with SetTransform _ => False | _ => True end.

Lemma set_distance_agree dp s d p : Agree dp s p ->
  Agree dp (fst (set_distance s d)) (pinterp_line p (snd (set_distance s d))) /\
  tf (fst (set_distance s d)) = tf s.
Proof.
  intros (Hrel & Hx & Hy & Hz). unfold set_distance. cbn [fst snd]. rewrite i_dmode_g. split; [|reflexivity].
  destruct d; unfold pinterp_line; cbn; unfold Agree; cbn; auto.
Qed.

Lemma poly_go_agree dp ps : params_ok ps -> forall pts s acc calls p0, hooks_ok2 s -> tf s = aff_id ->
  Agree dp s (pinterp_lines p0 acc) -> err_of (poly_go dp ps pts s acc calls) = None ->
  Agree dp (st_of (poly_go dp ps pts s acc calls)) (pinterp_lines p0 (lines_of (poly_go dp ps pts s acc calls))) /\
  tf (st_of (poly_go dp ps pts s acc calls)) = aff_id.
Proof.
  intros Hp. induction pts as [|pt pts IH]; intros s acc calls p0 Hh Htf HA; cbn [poly_go]; [intros _; auto|].
  pose proof (transform_move_id s (to_distance_mode s pt) Htf) as Hspec.
  destruct (transform_move s (to_distance_mode s pt)) as [mv tg].
  match goal with |- context [do_move ?a ?b ?c ?d ?f ?g ?h] =>
    pose proof (do_move_agree a b c d f g h (pinterp_lines p0 acc) (to_distance_mode s pt) Hp Hh Htf HA Hspec) as Hd;
    pose proof (do_move_hooks a b c d f g h) as Hk;
    destruct (do_move a b c d f g h) as [[[s1 ls] cs] e1] end.
  cbn [st_of lines_of err_of] in *. destruct e1; [discriminate|]. intros He.
  destruct (Hd (or_introl eq_refl)) as [HA1 Htf1].
  apply IH; [unfold hooks_ok2; rewrite Hk; exact Hh|exact Htf1| |exact He].
  rewrite pinterp_lines_app. exact HA1.
Qed.

(* every call outside the motion API leaves position, mode and transform alone and emits only
   lines the position machine ignores *)
Lemma neutral_M c rest : wget "G" rest = None -> pm_neutral (W "M" c :: rest).
Proof. intros H. apply neutral_noG. unfold W. cbn [wget fst snd]. change (String.eqb "M" "G") with false. exact H. Qed.

Theorem step_agree dp s c p : cmd_ok1 c -> hooks_ok2 s -> tf s = aff_id -> Agree dp s p ->
  clean s (step1 dp s c) ->
  Agree dp (st_of (step1 dp s c)) (pinterp_lines p (lines_of (step1 dp s c))) /\
  tf (st_of (step1 dp s c)) = aff_id.
Proof.
  intros [Hc Hnt] Hh Htf HA.
  assert (Hneutral : forall r : res, same_track s (st_of r) -> Forall pm_neutral (lines_of r) ->
            Agree dp (st_of r) (pinterp_lines p (lines_of r)) /\ tf (st_of r) = aff_id).
  { intros r Hs Hl. rewrite (neutral_lines p _ Hl). split; [now apply (Agree_same dp s)|].
    destruct Hs as (_ & _ & ->). exact Htf. }
  assert (Hfail : forall s1 e, clean s (fail s1 [] e) ->
            Agree dp (st_of (fail s1 [] e)) (pinterp_lines p (lines_of (fail s1 [] e))) /\ tf (st_of (fail s1 [] e)) = aff_id).
  { intros s1 e HC. cbn [fail st_of lines_of]. rewrite pinterp_lines_nil.
    destruct HC as [HC|[HC _]]; [discriminate HC|]. cbn in HC. rewrite HC. auto. }
  destruct c; cbn [cmd_ok3] in Hc; cbn [step1]; try contradiction.
  - (* Move *) pose proof (transform_move_id s (req_point r) Htf) as Hspec.
    destruct (transform_move s (req_point r)) as [mv tg]. eapply do_move_agree; eauto.
  - (* MoveAbs *) destruct (dm s) eqn:Ed.
    + pose proof (bypass_spec s r) as Hspec.
      match goal with |- context [do_move ?a ?b ?c ?d ?f ?g ?h] =>
        pose proof (do_move_agree a b c d f g h p (req_point r) Hc Hh Htf HA) as Hd;
        destruct (do_move a b c d f g h) as [[[s1 ls] cs] e1] end.
      cbn [st_of lines_of err_of app] in *. apply Hd. rewrite Ed. exact Hspec.
    + destruct (set_distance_agree dp s Absolute p HA) as [H0 Ht0].
      destruct (set_distance s Absolute) as [s0 l0] eqn:E0. cbn [fst snd] in *.
      assert (Hh0 : hooks_ok2 s0) by (unfold set_distance in E0; injection E0 as <- _; exact Hh).
      assert (Hp0 : pos s0 = pos s /\ dm s0 = Absolute) by (unfold set_distance in E0; injection E0 as <- _; split; reflexivity).
      destruct Hp0 as [Hp0 Hd0].
      pose proof (bypass_spec s0 r) as Hspec. rewrite Hp0 in Hspec.
      match goal with |- context [do_move ?a ?b ?c ?d ?f ?g ?h] =>
        pose proof (do_move_agree a b c d f g h (pinterp_line p l0) (req_point r) Hc Hh0 (eq_trans Ht0 Htf) H0) as Hd;
        destruct (do_move a b c d f g h) as [[[s1 ls] cs] e1] end.
      rewrite Hp0, Hd0 in Hd. specialize (Hd Hspec).
      pose proof (set_distance_agree dp s1 Relative) as H2.
      destruct (set_distance s1 Relative) as [s2 l2]. cbn [fst snd st_of lines_of err_of] in *.
      intros [He|[_ Hl]]; [|destruct ls; discriminate Hl].
      destruct (Hd (or_introl He)) as [HA1 Htf1]. destruct (H2 _ HA1) as [HA2 Ht2].
      cbn [app]. rewrite pinterp_lines_cons, pinterp_lines_app, pinterp_lines_one. split; [exact HA2|congruence].
  - (* SetAxis *) destruct (negb _); [apply Hfail|]. unfold update_axes.
    destruct (within _ _); cbn [ok fail st_of lines_of err_of]; [|apply Hfail].
    intros _. rewrite pinterp_lines_one, i_offset_eq. split; [|exact Htf].
    apply (g92_line_agree dp s); auto.
  - (* Home *) destruct (negb _); [apply Hfail|]. unfold update_axes.
    destruct (within _ _); cbn [ok fail st_of lines_of err_of]; [|apply Hfail].
    intros _. rewrite pinterp_lines_one, i_home_eq. split; [|exact Htf].
    apply (g28_line_agree dp s); auto.
  - (* Probe *) destruct m as [pm|]; [|apply Hfail].
    pose proof (transform_move_id s (req_point r) Htf) as Hspec.
    destruct (transform_move s (req_point r)) as [mv tg].
    destruct (negb (within _ _)); [apply Hfail|]. destruct (negb (req_finite r && _)); [apply Hfail|].
    unfold update_axes. destruct (within _ _); [|apply Hfail].
    match goal with |- context [track ?a ?b] => set (s1 := a) end.
    pose proof (track_same_track s1 ps) as (T1 & T2 & T3).
    destruct (track s1 ps) as [s2 [e1|]]; cbn [fst] in *; [apply Hfail|].
    intros _. cbn [ok st_of lines_of]. rewrite pinterp_lines_one. unfold move_line. split; [|cbn; rewrite T3; exact Htf].
    eapply (probe_line_agree dp s p pm mv tg ps _ (req_point r)); eauto; cbn; rewrite ?T1, ?T2; reflexivity.
  - (* Polyline *) intros [He|[Hs Hl]].
    + apply poly_go_agree; auto.
    + rewrite Hs, Hl. auto.
  - (* SetDistance *) destruct m as [d|]; [|apply Hfail]. intros _.
    destruct (set_distance_agree dp s d p HA) as [H0 Ht0]. destruct (set_distance s d). cbn in *. split; [exact H0|congruence].
  - (* EnterAbs *) intros _. destruct (dm s) eqn:Ed; cbn [ok st_of lines_of].
    + rewrite pinterp_lines_nil. split; [|exact Htf]. apply (Agree_same dp s); [repeat split|exact HA].
    + destruct (set_distance_agree dp s Absolute p HA) as [H0 Ht0]. destruct (set_distance s Absolute) as [s1 l].
      cbn [fst snd ok st_of lines_of] in *. rewrite pinterp_lines_one. split; [|cbn; congruence].
      apply (Agree_same dp s1); [repeat split|exact H0].
  - (* EnterRel *) intros _. destruct (dm s) eqn:Ed; cbn [ok st_of lines_of].
    + destruct (set_distance_agree dp s Relative p HA) as [H0 Ht0]. destruct (set_distance s Relative) as [s1 l].
      cbn [fst snd ok st_of lines_of] in *. rewrite pinterp_lines_one. split; [|cbn; congruence].
      apply (Agree_same dp s1); [repeat split|exact H0].
    + rewrite pinterp_lines_nil. split; [|exact Htf]. apply (Agree_same dp s); [repeat split|exact HA].
  - (* ExitMode *) intros _. destruct (modes s) as [|pr rest]; [cbn; auto|].
    assert (H0 : Agree dp (set_modes s rest) p) by (apply (Agree_same dp s); [repeat split|exact HA]).
    destruct pr, (dm s) eqn:Ed; try (cbn; split; [exact H0|exact Htf]).
    + destruct (set_distance_agree dp (set_modes s rest) Absolute p H0) as [H1 Ht1].
      destruct (set_distance (set_modes s rest) Absolute) as [s1 l]. cbn in *. split; [exact H1|congruence].
    + destruct (set_distance_agree dp (set_modes s rest) Relative p H0) as [H1 Ht1].
      destruct (set_distance (set_modes s rest) Relative) as [s1 l]. cbn in *. split; [exact H1|congruence].
  - destruct m as [d|]; [|apply Hfail]. intros _. apply Hneutral; [repeat split|].
    constructor; [|constructor]. rewrite i_emode_m. now apply neutral_M.
  - destruct m as [d|]; [|apply Hfail]. intros _. apply Hneutral; [repeat split|].
    constructor; [|constructor]. rewrite i_fmode_g. destruct d; apply neutral_G; cbn; intuition lia.
  - destruct m as [d|]; [|apply Hfail]. intros _. apply Hneutral; [repeat split|].
    constructor; [|constructor]. rewrite i_units_g. destruct d; apply neutral_G; cbn; intuition lia.
  - destruct m as [d|]; [|apply Hfail]. intros _. apply Hneutral; [repeat split|].
    constructor; [|constructor]. rewrite i_plane_g. destruct d; apply neutral_G; cbn; intuition lia.
  - destruct m; [|apply Hfail]. intros _. apply Hneutral; [repeat split|constructor].
  - destruct m; [|apply Hfail]. intros _. apply Hneutral; [repeat split|constructor].
  - (* SetFeed *) unfold try_feed. destruct (negb (in_range _ _)); [apply Hfail|]. destruct (xlt x (Fin 0)); [apply Hfail|].
    destruct (xfinite x); [|apply Hfail]. intros _. apply Hneutral; [repeat split|].
    constructor; [|constructor]. now apply neutral_noG.
  - (* SetPower *) unfold try_power. destruct (negb (in_range _ _)); [apply Hfail|]. destruct (xlt x (Fin 0)); [apply Hfail|].
    destruct (xfinite x); [|apply Hfail]. intros _. apply Hneutral; [repeat split|].
    constructor; [|constructor]. now apply neutral_noG.
  - (* SetFan *) destruct (fan <? 0)%Z; [apply Hfail|]. destruct (_ || _); [apply Hfail|].
    destruct (xfinite speed); [|apply Hfail]. intros _. apply Hneutral; [repeat split|].
    constructor; [|constructor]. rewrite i_fan_m. now apply neutral_M.
  - destruct (negb (xfinite x)); [apply Hfail|]. destruct (in_range _ _); [|apply Hfail].
    intros _. apply Hneutral; [repeat split|]. constructor; [|constructor]. rewrite i_bed_m. now apply neutral_M.
  - destruct (negb (xfinite x)); [apply Hfail|]. destruct (in_range _ _); [|apply Hfail].
    intros _. apply Hneutral; [repeat split|]. constructor; [|constructor]. rewrite i_hotend_m. now apply neutral_M.
  - destruct (negb (xfinite x)); [apply Hfail|]. destruct (in_range _ _); [|apply Hfail].
    intros _. apply Hneutral; [repeat split|]. constructor; [|constructor]. rewrite i_chamber_m. now apply neutral_M.
  - (* Sleep *) destruct (xlt x (Fin 0)); [apply Hfail|]. destruct (xfinite x); [|apply Hfail].
    intros _. apply Hneutral; [repeat split|]. constructor; [|constructor]. rewrite i_sleep_g.
    apply neutral_G; cbn; intuition lia.
  - (* ToolOn *) destruct m as [sm|]; [|apply Hfail]. destruct sm; [apply Hfail| |];
    (destruct (tool_on s); [apply Hfail|]; unfold try_power; destruct (negb (in_range _ _)); [apply Hfail|];
     destruct (xlt x (Fin 0)); [apply Hfail|]; destruct (xfinite x); [|apply Hfail];
     intros _; apply Hneutral; [repeat split|]; constructor; [|constructor]; rewrite i_spin_m; now apply neutral_noG).
  - intros _. apply Hneutral; [repeat split|]. constructor; [|constructor]. rewrite i_spin_m. now apply neutral_M.
  - (* PowerOn *) destruct m as [pm|]; [|apply Hfail]. destruct pm; [apply Hfail| |];
    (destruct (tool_on s); [apply Hfail|]; unfold try_power; destruct (negb (in_range _ _)); [apply Hfail|];
     destruct (xlt x (Fin 0)); [apply Hfail|]; destruct (xfinite x); [|apply Hfail];
     intros _; apply Hneutral; [repeat split|]; constructor; [|constructor]; rewrite i_power_m; now apply neutral_noG).
  - intros _. apply Hneutral; [repeat split|]. constructor; [|constructor]. rewrite i_power_m. now apply neutral_M.
  - (* ToolChange *) destruct m as [sm|]; [|apply Hfail].
    assert (Hgen : forall sm', sm' <> SwapOff ->
      let r := (if negb (in_range (b_toolnum (bnd s)) (Fin (inject_Z n))) then fail s [] ValueErr
        else if (n <? 1)%Z then fail s [] ValueErr else if tool_on s then fail s [] ToolStateErr
        else if cool_on s then fail s [] CoolantStateErr
        else ok (written (set_swapm (set_toolnum s n) sm')) [[("T", inject_Z n); i_swap sm']]) in
      clean s r -> Agree dp (st_of r) (pinterp_lines p (lines_of r)) /\ tf (st_of r) = aff_id).
    { intros sm' Hne. cbn zeta. destruct (negb _); [apply Hfail|]. destruct (n <? 1)%Z; [apply Hfail|].
      destruct (tool_on s); [apply Hfail|]. destruct (cool_on s); [apply Hfail|].
      intros _. apply Hneutral; [repeat split|]. constructor; [|constructor].
      rewrite i_swap_m by exact Hne. now apply neutral_noG. }
    destruct sm; [apply Hfail| |]; apply Hgen; discriminate.
  - (* CoolantOn *) destruct m as [cm|]; [|apply Hfail]. destruct cm; [apply Hfail| |];
    (destruct (cool_on s); [apply Hfail|]; intros _; apply Hneutral; [repeat split|];
     constructor; [|constructor]; rewrite i_coolant_m; now apply neutral_M).
  - intros _. apply Hneutral; [repeat split|]. constructor; [|constructor]. rewrite i_coolant_m. now apply neutral_M.
  - (* Halt *) destruct Hc as [Hp Hnot]. destruct m as [h|]; [|apply Hfail].
    assert (Hgen : forall h', h' <> HaltOff -> clean s (halt_cmd dp s h' ps) ->
      Agree dp (st_of (halt_cmd dp s h' ps)) (pinterp_lines p (lines_of (halt_cmd dp s h' ps))) /\
      tf (st_of (halt_cmd dp s h' ps)) = aff_id).
    { intros h' Hne. unfold halt_cmd, try_halt. destruct (tool_on s); [apply Hfail|]. destruct (cool_on s); [apply Hfail|].
      assert (Hfin : forall s2, same_track s s2 ->
        clean s (if negb (params_finite ps) then fail s2 [] ValueErr else ok (written s2) [i_halt h' :: pwords dp ps]) ->
        Agree dp (st_of (if negb (params_finite ps) then fail s2 [] ValueErr else ok (written s2) [i_halt h' :: pwords dp ps]))
          (pinterp_lines p (lines_of (if negb (params_finite ps) then fail s2 [] ValueErr else ok (written s2) [i_halt h' :: pwords dp ps]))) /\
        tf (st_of (if negb (params_finite ps) then fail s2 [] ValueErr else ok (written s2) [i_halt h' :: pwords dp ps])) = aff_id).
      { intros s2 Hs2. destruct (negb (params_finite ps)); [apply Hfail|]. intros _.
        apply Hneutral; [destruct Hs2 as (A & B & C); repeat split; assumption|].
        constructor; [|constructor]. rewrite i_halt_m by exact Hne. apply neutral_M.
        rewrite wget_pwords, (pget_reserved ps "G" Hp eq_refl). reflexivity. }
      destruct (match pget "S" ps with Some t => Some t | None => pget "R" ps end) as [t|].
      - destruct h'; try (apply Hfin; repeat split); try congruence;
          (destruct (in_range _ _); [apply Hfin; repeat split|apply Hfail]).
      - apply Hfin. repeat split. }
    destruct h; try (apply Hgen; discriminate). apply Hfail.
  - (* EmergencyHalt *) intros _. apply Hneutral.
    + unfold halt_cmd, try_halt. cbn. destruct reset; cbn; repeat split.
    + unfold halt_cmd, try_halt.
      cbn [tool_on cool_on written coolant_off tool_off set_haltm set_spinm set_tool_on set_tpower set_powerm
           set_coolm set_cool_on pget params_finite forallb negb ok fail err_of lines_of st_of app pwords map].
      rewrite i_spin_m, i_coolant_m.
      repeat (constructor; [first [now apply neutral_M | now apply neutral_noG]|]).
      destruct reset; rewrite i_halt_m by discriminate; (constructor; [now apply neutral_M|constructor]).
  - destruct m as [q|]; [|apply Hfail]. intros _. apply Hneutral; [repeat split|].
    constructor; [|constructor]. rewrite i_query_m. now apply neutral_M.
  - intros _. apply Hneutral; [repeat split|]. constructor; [now apply neutral_noG|constructor].
  - destruct valid_key; [|apply Hfail]. intros _. apply Hneutral; [repeat split|].
    constructor; [now apply neutral_noG|constructor].
  - (* SetBounds *) intros _.
    match goal with |- Agree dp (st_of ?R) _ /\ _ => assert (Hl : lines_of R = [] /\ same_track s (st_of R)) end.
    { destruct n; cbn; try (split; [reflexivity|repeat split]);
        try (destruct slo; try (split; [reflexivity|repeat split]); destruct shi; try (split; [reflexivity|repeat split]);
             destruct (qleb _ _); cbn; split; try reflexivity; repeat split).
      destruct (ge_point lo hi); cbn; split; try reflexivity; repeat split. }
    destruct Hl as [Hl Hs]. apply Hneutral; [exact Hs|]. rewrite Hl. constructor.
  - intros _. destruct (existsb _ _); cbn; (split; [apply (Agree_same dp s); [repeat split|exact HA]|exact Htf]).
  - intros _. cbn. split; [|exact Htf]. apply (Agree_same dp s); [repeat split|exact HA].
Qed.

(* ---------------------------------------------------------------- all histories, every prefix *)
Theorem history_agree dp cs : forall s p, Forall cmd_ok1 cs -> hooks_ok2 s -> tf s = aff_id -> Agree dp s p ->
  clean_run dp s cs -> Agree dp (final dp s cs) (pinterp_lines p (output dp s cs)).
Proof.
  induction cs as [|c cs IH]; intros s p Hc Hh Htf HA Hr; [exact HA|].
  inversion Hc as [|? ? H1 H2]; subst. destruct Hr as [Hcl Hr].
  rewrite output_cons, final_cons, pinterp_lines_app.
  destruct (step_agree dp s c p H1 Hh Htf HA Hcl) as [HA1 Htf1].
  apply IH; [exact H2| |exact Htf1|exact HA1|exact Hr].
  destruct H1 as [H1 _]. now destruct (step_scalars dp s c H1 Hh).
Qed.

Lemma Agree_init dp : Agree dp init pmach0.
Proof. unfold Agree. cbn. auto. Qed.

Corollary history_agree_prefix dp cs1 cs2 : Forall cmd_ok1 (cs1 ++ cs2) -> clean_run dp init (cs1 ++ cs2) ->
  Agree dp (final dp init cs1) (pinterp_lines pmach0 (output dp init cs1)).
Proof.
  intros Hc Hr. apply history_agree; [now apply Forall_app in Hc as [H _]|constructor|reflexivity|apply Agree_init|].
  clear Hc. revert Hr. generalize init. induction cs1 as [|c cs1 IH]; intros s Hr; [exact I|].
  destruct Hr as [A B]. split; [exact A|now apply IH].
Qed.
