(* C15: safety does not depend on the atomicity of _sendnext / _listen with respect to the two variables the read
   thread shares with the print thread.  The read thread only ever writes `clear` and `resendfrom`; here the environment
   may overwrite both with ARBITRARY values at any moment (between any two steps), which over-approximates every
   bytecode-level interleaving of the two threads on these unlocked variables.  lineno, sentlines and queueindex are
   written by the print thread only. *)
From Coq Require Import ZArith Bool List Lia.
From GS Require Import model.Sender proofs.SenderProofs.
Import ListNotations.
Open Scope Z_scope.

Section Racy.
  Variable C : Type.
  Notation sys := (sys C).

  Definition havoc (s : sys) (c : bool) (r : Z) : sys :=
    {| snd_ := {| lineno := lineno C (snd_ C s); resendfrom := r; qi := qi C (snd_ C s); clear := c;
                  printing := printing C (snd_ C s); sentl := sentl C (snd_ C s) |};
       fw := fw C s; to_fw := to_fw C s; to_host := to_host C s |}.

  Inductive rlabel := RStep (l : label) | RHavoc (c : bool) (r : Z).

  Definition rstep (job : list (option C)) (l : rlabel) (s : sys) : option sys :=
    match l with
    | RStep l' => step C job l' s
    | RHavoc c r => Some (havoc s c r)
    end.

  Fixpoint rrun (job : list (option C)) (ls : list rlabel) (s : sys) : option sys :=
    match ls with
    | [] => Some s
    | l :: ls' => match rstep job l s with Some s' => rrun job ls' s' | None => None end
    end.

  Lemma inv_havoc job g s c r : Inv C job g s -> Inv C job g (havoc s c r).
  Proof. intros [A B D E F G]. constructor; cbn; assumption. Qed.

  Lemma inv_rrun job g : forall ls s s', Inv C job g s -> rrun job ls s = Some s' -> Inv C job g s'.
  Proof.
    induction ls as [|l ls IH]; intros s s' Hi H; cbn in H; [injection H as <-; exact Hi|].
    destruct l as [l'|c r]; cbn in H.
    - destruct (step C job l' s) as [s1|] eqn:E; [|discriminate]. eapply IH; [eapply inv_step; eauto|exact H].
    - eapply IH; [apply inv_havoc; exact Hi|exact H].
  Qed.

  (* SAFETY under races: as C15_safety, for every run in which `clear` and `resendfrom` are additionally overwritten with
     arbitrary values at arbitrary moments *)
  Theorem safety_racy job boot g ls s : 0 <= boot -> rrun job ls (init C boot g) = Some s ->
    exists lo, 0 <= lo /\ accepted C (fw C s) = slice C (cmds_of C job) lo (length (accepted C (fw C s))) /\
      (g = true -> to_fw C s = [] -> lo = 0).
  Proof.
    intros Hb Hr. pose proof (inv_rrun job g ls _ _ (inv_init C job boot g Hb) Hr) as [_ _ _ Hex [Hs Hle] Hrs].
    exists (expected C (fw C s) - Z.of_nat (length (accepted C (fw C s)))). split; [lia|]. split; [exact Hs|].
    intros Eg Hempty. destruct Hrs as [(rest & E & _)|[_ Hg]]; [rewrite Hempty in E; discriminate|]. rewrite (Hg Eg). lia.
  Qed.
End Racy.
