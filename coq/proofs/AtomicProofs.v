(* C05: which rejected calls are atomic, and exactly what the others may leave behind. *)
From Coq Require Import ZArith QArith Bool List String Lia.
From GS Require Import gen.GenTables model.Num model.Builder model.Interp proofs.Tables proofs.FlagsProofs
  proofs.InterlockProofs.
Import ListNotations.
Open Scope string_scope.
Open Scope list_scope.

Ltac ifs := repeat match goal with |- context [if ?b then _ else _] => destruct b eqn:? end.

(* the calls that are atomic from every state, whatever their arguments *)
Definition always_atomic (c : cmd) : bool :=
  match c with
  | SetDistance _ | EnterAbs | EnterRel | ExitMode | SetExtrusion _ | SetFeedMode _ | SetUnits _
  | SetPlane _ | SetTimeUnits _ | SetTempUnits _ | SetFan _ _ | SetBedT _ | SetHotendT _ | SetChamberT _
  | Sleep _ | ToolOff | PowerOff | ToolChange _ _ | CoolantOn _ | CoolantOff | EmergencyHalt _ | Query _
  | Comment | Annotate _ | SetBounds _ _ _ _ _ | AddHook _ | RemoveHook _ | SetTransform _ => true
  | _ => false
  end.

Definition rejected (r : res) : Prop := err_of r <> None.
Definition no_effect (s : st) (r : res) : Prop := st_of r = s /\ lines_of r = [].

Lemma set_distance_none s d : err_of (let '(s1, l) := set_distance s d in ok s1 [l]) = None.
Proof. reflexivity. Qed.

Theorem atomic_always dp s c : always_atomic c = true -> rejected (step1 dp s c) -> no_effect s (step1 dp s c).
Proof.
  unfold rejected, no_effect. intros Ha Hr. destruct c; try discriminate Ha; cbn [step1] in *.
  - destruct m; [exfalso; apply Hr; reflexivity|split; reflexivity].
  - destruct (dm s); exfalso; apply Hr; reflexivity.
  - destruct (dm s); exfalso; apply Hr; reflexivity.
  - destruct (modes s) as [|p rest]; [exfalso; apply Hr; reflexivity|].
    destruct p, (dm s); exfalso; apply Hr; reflexivity.
  - destruct m; [exfalso; apply Hr; reflexivity|split; reflexivity].
  - destruct m; [exfalso; apply Hr; reflexivity|split; reflexivity].
  - destruct m; [exfalso; apply Hr; reflexivity|split; reflexivity].
  - destruct m; [exfalso; apply Hr; reflexivity|split; reflexivity].
  - destruct m; [exfalso; apply Hr; reflexivity|split; reflexivity].
  - destruct m; [exfalso; apply Hr; reflexivity|split; reflexivity].
  - ifs; try (split; reflexivity); exfalso; apply Hr; reflexivity.
  - ifs; try (split; reflexivity); exfalso; apply Hr; reflexivity.
  - ifs; try (split; reflexivity); exfalso; apply Hr; reflexivity.
  - ifs; try (split; reflexivity); exfalso; apply Hr; reflexivity.
  - ifs; try (split; reflexivity); exfalso; apply Hr; reflexivity.
  - exfalso; apply Hr; reflexivity.
  - exfalso; apply Hr; reflexivity.
  - destruct m as [sm|]; [|split; reflexivity].
    destruct sm; ifs; try (split; reflexivity); exfalso; apply Hr; reflexivity.
  - destruct m as [cm|]; [|split; reflexivity].
    destruct cm; ifs; try (split; reflexivity); exfalso; apply Hr; reflexivity.
  - exfalso; apply Hr; reflexivity.
  - exfalso. apply Hr. clear Hr.
    set (s3 := written (written (coolant_off (written (tool_off s))))).
    pose proof (halt_cmd_err dp s3 (if reset then HEndReset else HPause) []) as Hh.
    destruct (halt_cmd dp s3 (if reset then HEndReset else HPause) []) as [[[s4 ls] calls] e4] eqn:E.
    cbn [err_of] in *. destruct e4 as [e|]; [|reflexivity].
    destruct (Hh e eq_refl) as [[_ Ht]|[[_ [Hc _]]|He]]; [discriminate Ht|discriminate Hc|].
    (* a ValueError is impossible too: no parameters *)
    exfalso. subst e. unfold halt_cmd, try_halt in E. cbn in E. destruct reset; cbn in E; discriminate E.
  - destruct m; [exfalso; apply Hr; reflexivity|split; reflexivity].
  - exfalso; apply Hr; reflexivity.
  - destruct valid_key; [exfalso; apply Hr; reflexivity|split; reflexivity].
  - destruct n; try (split; reflexivity);
      try (destruct slo; try (split; reflexivity); destruct shi; try (split; reflexivity);
           destruct (qleb _ _); [split; reflexivity|exfalso; apply Hr; reflexivity]).
    destruct (ge_point lo hi); [split; reflexivity|exfalso; apply Hr; reflexivity].
  - destruct (existsb _ _); exfalso; apply Hr; reflexivity.
  - exfalso; apply Hr; reflexivity.
  - exfalso; apply Hr; reflexivity.
Qed.

(* ---------------------------------------------------------------- frames *)
(* every field outside {pos, cparams, feed, tpower, haltm} is unchanged *)
Definition frame_move (s s' : st) : Prop :=
  dm s' = dm s /\ modes s' = modes s /\ tf s' = tf s /\ hooks s' = hooks s /\ spos s' = spos s /\
  sdm s' = sdm s /\ bnd s' = bnd s /\ toolnum s' = toolnum s /\ spinm s' = spinm s /\ powerm s' = powerm s /\
  coolm s' = coolm s /\ swapm s' = swapm s /\ em s' = em s /\ fm s' = fm s /\ lu s' = lu s /\ tu s' = tu s /\
  ku s' = ku s /\ pl s' = pl s /\ tool_on s' = tool_on s /\ cool_on s' = cool_on s /\
  t_hotend s' = t_hotend s /\ t_bed s' = t_bed s /\ t_chamber s' = t_chamber s.

Lemma frame_move_refl s : frame_move s s. Proof. repeat split. Qed.
Lemma frame_move_trans a b c : frame_move a b -> frame_move b c -> frame_move a c.
Proof. unfold frame_move. intuition congruence. Qed.

Lemma track_frame s ps : frame_move s (fst (track s ps)) /\ pos (fst (track s ps)) = pos s
  /\ cparams (fst (track s ps)) = cparams s /\ haltm (fst (track s ps)) = haltm s.
Proof.
  unfold track, try_feed, try_power.
  destruct (pget "F" ps); destruct (pget "S" ps); ifs; cbn; repeat split.
Qed.

(* a rejected move: nothing emitted; only position / remembered parameters / feed / power may differ *)
Lemma do_move_rejected dp k s r mv t ps : rejected (do_move dp k s r mv t ps) ->
  lines_of (do_move dp k s r mv t ps) = [] /\ frame_move s (st_of (do_move dp k s r mv t ps))
  /\ haltm (st_of (do_move dp k s r mv t ps)) = haltm s.
Proof.
  unfold rejected, do_move.
  destruct (match k, hooks s with
            | Linear, _ :: _ => run_hooks s (hooks s) (resolve (pos s)) (to_absolute s mv) ps
            | _, _ => (ps, []) end) as [ps1 calls].
  pose proof (track_frame s ps1) as (Hf & Hp & Hc & Hh).
  destruct (track s ps1) as [s1 [e1|]]; cbn [fst] in *.
  - intros _. cbn. auto.
  - destruct (negb _); [intros _; cbn; auto|].
    unfold update_axes. destruct (within _ _); cbn; [intros H; exfalso; apply H; reflexivity|].
    intros _. split; [reflexivity|]. split; [|exact Hh].
    eapply frame_move_trans; [exact Hf|]. repeat split.
Qed.

(* ... and when it is rejected before anything was committed, nothing at all changes *)
Lemma do_move_atomic_when dp k s r mv t ps :
  hooks s = [] \/ k = Rapid -> pget "F" ps = None -> pget "S" ps = None -> b_axes (bnd s) = None ->
  rejected (do_move dp k s r mv t ps) -> no_effect s (do_move dp k s r mv t ps).
Proof.
  intros Hk HF HS Hb. unfold rejected, no_effect, do_move.
  assert (E : (match k, hooks s with
            | Linear, _ :: _ => run_hooks s (hooks s) (resolve (pos s)) (to_absolute s mv) ps
            | _, _ => (ps, []) end) = (ps, [])).
  { destruct Hk as [->| ->]; [destruct k|]; reflexivity. }
  rewrite E. unfold track. rewrite HF, HS.
  destruct (negb _); [intros _; split; reflexivity|].
  unfold update_axes. rewrite Hb. cbn. intros H. exfalso. apply H. reflexivity.
Qed.

(* ---------------------------------------------------------------- the leaky calls, one by one *)
Definition mode_pair : list line := [[i_dmode Absolute]; [i_dmode Relative]].

Theorem move_rejected dp s k r ps : rejected (step1 dp s (Move k r ps)) ->
  lines_of (step1 dp s (Move k r ps)) = [] /\ frame_move s (st_of (step1 dp s (Move k r ps)))
  /\ haltm (st_of (step1 dp s (Move k r ps))) = haltm s.
Proof.
  cbn [step1]. destruct (transform_move s (req_point r)) as [mv t]. apply do_move_rejected.
Qed.

Theorem move_abs_rejected dp s k r ps : sdm s = dm s -> rejected (step1 dp s (MoveAbs k r ps)) ->
  (lines_of (step1 dp s (MoveAbs k r ps)) = [] \/ lines_of (step1 dp s (MoveAbs k r ps)) = mode_pair)
  /\ frame_move s (st_of (step1 dp s (MoveAbs k r ps))).
Proof.
  intros Hsd. cbn [step1]. destruct (dm s) eqn:Ed.
  - match goal with |- context [do_move ?a ?b ?c ?d ?f ?g ?h] =>
      pose proof (do_move_rejected a b c d f g h) as Hd; destruct (do_move a b c d f g h) as [[[s1 ls] cs] e1] end.
    cbn [err_of lines_of st_of rejected] in *. intros H. destruct (Hd H) as (-> & Hf & _). split; [now left|exact Hf].
  - unfold set_distance.
    match goal with |- context [do_move ?a ?b ?c ?d ?f ?g ?h] =>
      pose proof (do_move_rejected a b c d f g h) as Hd; destruct (do_move a b c d f g h) as [[[s1 ls] cs] e1] end.
    cbn [err_of lines_of st_of rejected] in *. intros H. destruct (Hd H) as (-> & Hf & _).
    split; [right; reflexivity|].
    unfold frame_move in *. cbn in *. rewrite Ed, Hsd. intuition congruence.
Qed.

(* every field outside {pos, cparams} *)
Definition frame_pos (s s' : st) : Prop := frame_move s s' /\ feed s' = feed s /\ tpower s' = tpower s /\ haltm s' = haltm s.

Theorem set_axis_rejected dp s r ps : rejected (step1 dp s (SetAxis r ps)) ->
  lines_of (step1 dp s (SetAxis r ps)) = [] /\ frame_pos s (st_of (step1 dp s (SetAxis r ps))).
Proof.
  cbn [step1]. unfold rejected. destruct (negb _); [intros _; cbn; repeat split|].
  unfold update_axes. destruct (within _ _); cbn; [intros H; exfalso; apply H; reflexivity|].
  intros _. repeat split.
Qed.

Theorem home_rejected dp s r ps : rejected (step1 dp s (Home r ps)) ->
  lines_of (step1 dp s (Home r ps)) = [] /\ frame_pos s (st_of (step1 dp s (Home r ps))).
Proof.
  cbn [step1]. unfold rejected. destruct (negb _); [intros _; cbn; repeat split|].
  unfold update_axes. destruct (within _ _); cbn; [intros H; exfalso; apply H; reflexivity|].
  intros _. repeat split.
Qed.

(* probe: position (both copies), remembered parameters, feed, power *)
Definition frame_probe (s s' : st) : Prop :=
  dm s' = dm s /\ modes s' = modes s /\ tf s' = tf s /\ hooks s' = hooks s /\
  sdm s' = sdm s /\ bnd s' = bnd s /\ toolnum s' = toolnum s /\ spinm s' = spinm s /\ powerm s' = powerm s /\
  coolm s' = coolm s /\ swapm s' = swapm s /\ haltm s' = haltm s /\ em s' = em s /\ fm s' = fm s /\
  lu s' = lu s /\ tu s' = tu s /\ ku s' = ku s /\ pl s' = pl s /\ tool_on s' = tool_on s /\
  cool_on s' = cool_on s /\ t_hotend s' = t_hotend s /\ t_bed s' = t_bed s /\ t_chamber s' = t_chamber s.

Theorem probe_rejected dp s m r ps : rejected (step1 dp s (Probe m r ps)) ->
  lines_of (step1 dp s (Probe m r ps)) = [] /\ frame_probe s (st_of (step1 dp s (Probe m r ps))).
Proof.
  cbn [step1]. unfold rejected. destruct m as [pm|]; [|intros _; cbn; repeat split].
  destruct (transform_move s (req_point r)) as [mv t].
  destruct (negb (within _ _)); [intros _; cbn; repeat split|].
  destruct (negb (req_finite r && _)); [intros _; cbn; repeat split|].
  unfold update_axes. destruct (within _ _); [|intros _; cbn; repeat split].
  match goal with |- context [track ?a ?b] =>
    pose proof (track_frame a b) as (Hf & Hp & Hc & Hh); destruct (track a b) as [s2 [e1|]] end;
    cbn [fst] in *; [|intros H; exfalso; apply H; reflexivity].
  intros _. split; [reflexivity|]. unfold frame_move, frame_probe in *. cbn in *. intuition congruence.
Qed.

(* tool_on / power_on: power, mode and the active flag *)
Definition frame_tool (s s' : st) : Prop :=
  pos s' = pos s /\ cparams s' = cparams s /\ dm s' = dm s /\ modes s' = modes s /\ tf s' = tf s /\
  hooks s' = hooks s /\ spos s' = spos s /\ sdm s' = sdm s /\ bnd s' = bnd s /\ toolnum s' = toolnum s /\
  feed s' = feed s /\ coolm s' = coolm s /\ swapm s' = swapm s /\ haltm s' = haltm s /\ em s' = em s /\
  fm s' = fm s /\ lu s' = lu s /\ tu s' = tu s /\ ku s' = ku s /\ pl s' = pl s /\ cool_on s' = cool_on s /\
  t_hotend s' = t_hotend s /\ t_bed s' = t_bed s /\ t_chamber s' = t_chamber s.

Theorem tool_on_rejected dp s m x : rejected (step1 dp s (ToolOn m x)) ->
  lines_of (step1 dp s (ToolOn m x)) = [] /\ frame_tool s (st_of (step1 dp s (ToolOn m x))) /\
  powerm (st_of (step1 dp s (ToolOn m x))) = powerm s /\
  (xfinite x = true -> st_of (step1 dp s (ToolOn m x)) = s).
Proof.
  cbn [step1]. unfold rejected, try_power. destruct m as [sm|]; [|intros _; cbn; repeat split].
  destruct sm; [intros _; cbn; repeat split| |];
    (destruct (tool_on s); [intros _; cbn; repeat split|];
     destruct (negb (in_range _ _)); [intros _; cbn; repeat split|];
     destruct (xlt x (Fin 0)); [intros _; cbn; repeat split|];
     destruct (xfinite x); [intros H; exfalso; apply H; reflexivity|];
     intros _; cbn; repeat split; discriminate).
Qed.

Theorem power_on_rejected dp s m x : rejected (step1 dp s (PowerOn m x)) ->
  lines_of (step1 dp s (PowerOn m x)) = [] /\ frame_tool s (st_of (step1 dp s (PowerOn m x))) /\
  spinm (st_of (step1 dp s (PowerOn m x))) = spinm s /\
  (xfinite x = true -> st_of (step1 dp s (PowerOn m x)) = s).
Proof.
  cbn [step1]. unfold rejected, try_power. destruct m as [pm|]; [|intros _; cbn; repeat split].
  destruct pm; [intros _; cbn; repeat split| |];
    (destruct (tool_on s); [intros _; cbn; repeat split|];
     destruct (negb (in_range _ _)); [intros _; cbn; repeat split|];
     destruct (xlt x (Fin 0)); [intros _; cbn; repeat split|];
     destruct (xfinite x); [intros H; exfalso; apply H; reflexivity|];
     intros _; cbn; repeat split; discriminate).
Qed.

(* set_feed_rate / set_tool_power: atomic for every finite value *)
Theorem set_feed_rejected dp s x : rejected (step1 dp s (SetFeed x)) ->
  lines_of (step1 dp s (SetFeed x)) = [] /\
  (xfinite x = true -> st_of (step1 dp s (SetFeed x)) = s) /\
  (st_of (step1 dp s (SetFeed x)) = s \/ st_of (step1 dp s (SetFeed x)) = set_feed s x).
Proof.
  cbn [step1]. unfold rejected, try_feed. destruct (negb (in_range _ _)); [intros _; cbn; auto|].
  destruct (xlt x (Fin 0)); [intros _; cbn; auto|].
  destruct (xfinite x); [intros H; exfalso; apply H; reflexivity|]. intros _. cbn. repeat split; auto. discriminate.
Qed.

Theorem set_power_rejected dp s x : rejected (step1 dp s (SetPower x)) ->
  lines_of (step1 dp s (SetPower x)) = [] /\
  (xfinite x = true -> st_of (step1 dp s (SetPower x)) = s) /\
  (st_of (step1 dp s (SetPower x)) = s \/ st_of (step1 dp s (SetPower x)) = set_tpower s x).
Proof.
  cbn [step1]. unfold rejected, try_power. destruct (negb (in_range _ _)); [intros _; cbn; auto|].
  destruct (xlt x (Fin 0)); [intros _; cbn; auto|].
  destruct (xfinite x); [intros H; exfalso; apply H; reflexivity|]. intros _. cbn. repeat split; auto. discriminate.
Qed.

(* halt: the halt mode and the three target temperatures; atomic when an interlock rejects it *)
Definition frame_halt (s s' : st) : Prop :=
  pos s' = pos s /\ cparams s' = cparams s /\ dm s' = dm s /\ modes s' = modes s /\ tf s' = tf s /\
  hooks s' = hooks s /\ spos s' = spos s /\ sdm s' = sdm s /\ bnd s' = bnd s /\ toolnum s' = toolnum s /\
  tpower s' = tpower s /\ feed s' = feed s /\ spinm s' = spinm s /\ powerm s' = powerm s /\ coolm s' = coolm s /\
  swapm s' = swapm s /\ em s' = em s /\ fm s' = fm s /\ lu s' = lu s /\ tu s' = tu s /\ ku s' = ku s /\
  pl s' = pl s /\ tool_on s' = tool_on s /\ cool_on s' = cool_on s.

Theorem halt_rejected dp s m ps : rejected (step1 dp s (Halt m ps)) ->
  lines_of (step1 dp s (Halt m ps)) = [] /\ frame_halt s (st_of (step1 dp s (Halt m ps))) /\
  (err_of (step1 dp s (Halt m ps)) <> Some ValueErr -> st_of (step1 dp s (Halt m ps)) = s).
Proof.
  cbn [step1]. unfold rejected. destruct m as [h|]; [|intros _; cbn; repeat split; congruence].
  assert (Hh : forall h', rejected (halt_cmd dp s h' ps) ->
    lines_of (halt_cmd dp s h' ps) = [] /\ frame_halt s (st_of (halt_cmd dp s h' ps)) /\
    (err_of (halt_cmd dp s h' ps) <> Some ValueErr -> st_of (halt_cmd dp s h' ps) = s)).
  { intros h'. unfold rejected, halt_cmd, try_halt.
    destruct (tool_on s); [intros _; cbn; repeat split|].
    destruct (cool_on s); [intros _; cbn; repeat split|].
    destruct (match pget "S" ps with Some t => Some t | None => pget "R" ps end); destruct h'; cbn;
      ifs; cbn; intros H; try (exfalso; apply H; reflexivity); repeat split; congruence. }
  destruct h; try apply Hh. intros _. cbn. repeat split; congruence.
Qed.

(* ---------------------------------------------------------------- the leaks are real (model witnesses) *)
Definition box := SetBounds BAxes (mkpt (Some 0) (Some 0) (Some 0)) (mkpt (Some 20) (Some 20) (Some 20)) (Fin 0) (Fin 0).
Definition rq x := mkreq (Some x) None None.

Example leak_move_bounds :
  let s := final 5 init [box] in
  let r := step1 5 s (Move Linear (rq (Fin 100)) [("F", Fin 1234)]) in
  err_of r = Some ValueErr /\ lines_of r = [] /\ px (pos (st_of r)) = Some 100 /\ feed (st_of r) = Fin 1234 /\
  px (spos (st_of r)) = Some 0.
Proof. vm_compute. repeat split. Qed.

Example leak_move_abs_modes :
  let s := final 5 init [SetDistance (Member Relative)] in
  let r := step1 5 s (MoveAbs Linear (rq (Fin 1)) [("F", Fin (-1))]) in
  err_of r = Some ValueErr /\ lines_of r = mode_pair.
Proof. vm_compute. repeat split. Qed.

Example leak_tool_on_inf :
  let r := step1 5 init (ToolOn (Member SpinCW) PInf) in
  err_of r = Some ValueErr /\ lines_of r = [] /\ tool_on (st_of r) = true.
Proof. vm_compute. repeat split. Qed.

Example leak_probe_feed :
  let s := final 5 init [Move Linear (mkreq (Some (Fin 1)) (Some (Fin 1)) (Some (Fin 1))) []] in
  let r := step1 5 s (Probe (Member PTowards) (mkreq None None (Some (Fin (-5)))) [("F", Fin (-1))]) in
  err_of r = Some ValueErr /\ lines_of r = [] /\ pz (pos (st_of r)) = None /\ pz (pos s) = Some 1.
Proof. vm_compute. repeat split. Qed.

Example leak_halt_temperature :
  let s := final 5 init [SetBounds BBed unknown unknown (Fin 0) (Fin 120)] in
  let r := step1 5 s (Halt (Member HWaitBed) [("S", Fin 600)]) in
  err_of r = Some ValueErr /\ lines_of r = [] /\ haltm (st_of r) = HWaitBed.
Proof. vm_compute. repeat split. Qed.

Example leak_set_feed_nan :
  let r := step1 5 init (SetFeed NaN) in err_of r = Some ValueErr /\ feed (st_of r) = NaN.
Proof. vm_compute. repeat split. Qed.

(* ---------------------------------------------------------------- reachable states: both mode copies agree *)
Definition modes_agree (s : st) : Prop := sdm s = dm s.

Lemma track_dm s ps : dm (fst (track s ps)) = dm s /\ sdm (fst (track s ps)) = sdm s.
Proof. destruct (track_frame s ps) as ((A & _ & _ & _ & _ & B & _) & _). auto. Qed.

Lemma do_move_dm dp k s r mv t ps :
  dm (st_of (do_move dp k s r mv t ps)) = dm s /\ sdm (st_of (do_move dp k s r mv t ps)) = sdm s.
Proof.
  unfold do_move.
  destruct (match k, hooks s with
            | Linear, _ :: _ => run_hooks s (hooks s) (resolve (pos s)) (to_absolute s mv) ps
            | _, _ => (ps, []) end) as [ps1 calls].
  pose proof (track_dm s ps1) as [A B]. destruct (track s ps1) as [s1 [e1|]]; cbn [fst] in *; [cbn; auto|].
  destruct (negb _); [cbn; auto|]. unfold update_axes. destruct (within _ _); cbn; auto.
Qed.

Lemma poly_go_dm dp ps : forall pts s acc calls,
  dm (st_of (poly_go dp ps pts s acc calls)) = dm s /\ sdm (st_of (poly_go dp ps pts s acc calls)) = sdm s.
Proof.
  induction pts as [|p pts IH]; intros s acc calls; cbn [poly_go]; [cbn; auto|].
  destruct (transform_move s (to_distance_mode s p)) as [mv t].
  match goal with |- context [do_move ?a ?b ?c ?d ?f ?g ?h] =>
    pose proof (do_move_dm a b c d f g h) as [A B]; destruct (do_move a b c d f g h) as [[[s1 ls] cs] e1] end.
  cbn [st_of] in *. destruct e1; [cbn; auto|]. destruct (IH s1 (acc ++ ls) (calls ++ cs)) as [C D].
  split; congruence.
Qed.

Lemma halt_cmd_dm dp s h ps :
  dm (st_of (halt_cmd dp s h ps)) = dm s /\ sdm (st_of (halt_cmd dp s h ps)) = sdm s.
Proof.
  unfold halt_cmd, try_halt. destruct (tool_on s); [cbn; auto|]. destruct (cool_on s); [cbn; auto|].
  destruct (match pget "S" ps with Some t => Some t | None => pget "R" ps end); destruct h; cbn; ifs; cbn; auto.
Qed.

Lemma step_modes_agree dp s c : modes_agree s -> modes_agree (st_of (step1 dp s c)).
Proof.
  unfold modes_agree. intros H. destruct c; cbn [step1].
  - destruct (transform_move s (req_point r)) as [mv t].
    destruct (do_move_dm dp k s r mv t ps). congruence.
  - destruct (dm s) eqn:Ed.
    + match goal with |- context [do_move ?a ?b ?c ?d ?f ?g ?h] =>
        pose proof (do_move_dm a b c d f g h) as [A B]; destruct (do_move a b c d f g h) as [[[s1 ls] cs] e1] end.
      cbn in *. congruence.
    + unfold set_distance.
      match goal with |- context [do_move ?a ?b ?c ?d ?f ?g ?h] =>
        destruct (do_move a b c d f g h) as [[[s1 ls] cs] e1] end. reflexivity.
  - destruct (negb _); [exact H|]. unfold update_axes. destruct (within _ _); cbn; exact H.
  - destruct (negb _); [exact H|]. unfold update_axes. destruct (within _ _); cbn; exact H.
  - destruct m; [|exact H]. destruct (transform_move s (req_point r)) as [mv t].
    destruct (negb (within _ _)); [exact H|]. destruct (negb (req_finite r && _)); [exact H|].
    unfold update_axes. destruct (within _ _); [|exact H].
    match goal with |- context [track ?a ?b] =>
      pose proof (track_dm a b) as [A B]; destruct (track a b) as [s2 [e1|]] end; cbn in *; congruence.
  - destruct (poly_go_dm dp ps pts s [] []). congruence.
  - destruct m; [reflexivity|exact H].
  - destruct (dm s) eqn:Ed; cbn; rewrite ?Ed; first [exact H|reflexivity].
  - destruct (dm s) eqn:Ed; cbn; rewrite ?Ed; first [exact H|reflexivity].
  - destruct (modes s) as [|p rest]; [exact H|]. destruct p, (dm s) eqn:Ed; cbn; rewrite ?Ed; first [exact H|reflexivity].
  - destruct m; exact H.
  - destruct m; exact H.
  - destruct m; exact H.
  - destruct m; exact H.
  - destruct m; exact H.
  - destruct m; exact H.
  - unfold try_feed. ifs; exact H.
  - unfold try_power. ifs; exact H.
  - ifs; exact H.
  - ifs; exact H.
  - ifs; exact H.
  - ifs; exact H.
  - ifs; exact H.
  - destruct m as [sm|]; [|exact H]. destruct sm; unfold try_power; ifs; exact H.
  - exact H.
  - destruct m as [pm|]; [|exact H]. destruct pm; unfold try_power; ifs; exact H.
  - exact H.
  - destruct m as [sm|]; [|exact H]. destruct sm; ifs; exact H.
  - destruct m as [cm|]; [|exact H]. destruct cm; ifs; exact H.
  - exact H.
  - destruct m as [h|]; [|exact H]. destruct h; try exact H;
      match goal with |- context [halt_cmd ?a ?b ?c ?d] => destruct (halt_cmd_dm a b c d) as [A B] end;
      rewrite A, B; exact H.
  - match goal with |- context [halt_cmd ?a ?b ?c ?d] =>
      pose proof (halt_cmd_dm a b c d) as [A B]; destruct (halt_cmd a b c d) as [[[s4 ls] cs] e4] end.
    cbn in *. congruence.
  - destruct m; exact H.
  - exact H.
  - destruct valid_key; exact H.
  - destruct n; try exact H; try (destruct slo; try exact H; destruct shi; try exact H; destruct (qleb _ _); exact H).
    destruct (ge_point lo hi); exact H.
  - destruct (existsb _ _); exact H.
  - exact H.
  - exact H.
Qed.

Theorem reachable_modes_agree dp cs : forall s, modes_agree s -> modes_agree (final dp s cs).
Proof.
  induction cs as [|c cs IH]; intros s H; [exact H|]. rewrite final_cons. apply IH. now apply step_modes_agree.
Qed.
