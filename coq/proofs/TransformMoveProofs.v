(* C04: what _transform_move emits under an arbitrary affine transform. *)
From Coq Require Import ZArith QArith Bool List String Lia.
From GS Require Import model.Num model.Builder proofs.NumProofs.
Import ListNotations.
Open Scope Q_scope.

Definition img (s : st) (p : point) : point := aff_apply (tf s) p.

(* one axis of the move vector against the images of the current position (o) and of the target (t) *)
Definition axis_image (rel : bool) (req mv o t : option Q) : Prop :=
  match mv with
  | Some m => m == (if rel then res1 t - res1 o else res1 t)              (* the word carries the image *)
  | None => req = None /\ res1 t == res1 o                                  (* not mentioned: need not change *)
  end.

Lemma comb1_spec req o t m : match comb1 req o t m with
                             | Some v => m = Some v
                             | None => (req = None /\ res1 o == res1 t) \/ m = None
                             end.
Proof.
  unfold comb1, neq1. destruct req; [destruct m; auto|].
  destruct (qeqb (res1 o) (res1 t)) eqn:E; cbn [negb]; [|destruct m; auto].
  left. split; [reflexivity|]. now apply qeqb_eq.
Qed.

(* For EVERY transform, state and request: each mentioned axis carries the image of the target
   (absolute mode) or the image of the displacement (relative mode: image of target minus image of
   the current position -- the linear part applied to the displacement); each axis that is not
   mentioned was not requested and its machine coordinate does not have to change. *)
Theorem transform_move_image s p :
  let rel := match dm s with Relative => true | Absolute => false end in
  let '(mv, tg) := transform_move s p in
  let o := img s (resolve (pos s)) in let t := img s tg in
  tg = to_absolute s p /\
  axis_image rel (px p) (px mv) (px o) (px t) /\
  axis_image rel (py p) (py mv) (py o) (py t) /\
  axis_image rel (pz p) (pz mv) (pz o) (pz t).
Proof.
  unfold transform_move, img. cbn zeta. split; [reflexivity|].
  set (o := aff_apply (tf s) (resolve (pos s))). set (t := aff_apply (tf s) (to_absolute s p)).
  destruct (dm s); cbn [px py pz]; repeat split;
    match goal with |- axis_image _ ?r (comb1 ?r ?a ?b ?m) _ _ =>
      pose proof (comb1_spec r a b m) as H; destruct (comb1 r a b m) eqn:E end;
    unfold axis_image;
    try (unfold psub, lift2 in H; cbn [px py pz] in H; injection H as <-; rewrite ?qsub_eq; reflexivity);
    try (unfold t, aff_apply in H; cbn [px py pz] in H; injection H as <-; reflexivity);
    try (destruct H as [[Hr He]|H]; [split; [exact Hr|symmetry; exact He]|
         unfold psub, lift2, t, o, aff_apply in H; cbn [px py pz] in H; discriminate H]).
Qed.

(* the affine image of a displacement is the linear image: relative words do not depend on the
   translation part of the transform *)
Lemma image_difference m a b :
  res1 (px (aff_apply m a)) - res1 (px (aff_apply m b)) ==
    a11 m * (res1 (px a) - res1 (px b)) + a12 m * (res1 (py a) - res1 (py b)) + a13 m * (res1 (pz a) - res1 (pz b)) /\
  res1 (py (aff_apply m a)) - res1 (py (aff_apply m b)) ==
    a21 m * (res1 (px a) - res1 (px b)) + a22 m * (res1 (py a) - res1 (py b)) + a23 m * (res1 (pz a) - res1 (pz b)) /\
  res1 (pz (aff_apply m a)) - res1 (pz (aff_apply m b)) ==
    a31 m * (res1 (px a) - res1 (px b)) + a32 m * (res1 (py a) - res1 (py b)) + a33 m * (res1 (pz a) - res1 (pz b)).
Proof. unfold aff_apply, q3. cbn [px py pz res1]. rewrite !Qred_correct. repeat split; ring. Qed.

(* consequence: a machine sitting at the image of the tracked position is, after executing the
   (unrounded) move, at the image of the new tracked position -- on every axis *)
Definition exec_axis (rel : bool) (mv : option Q) (m : Q) : Q :=
  match mv with Some v => if rel then m + v else v | None => m end.

Theorem machine_follows s p mx my mz :
  let rel := match dm s with Relative => true | Absolute => false end in
  let '(mv, tg) := transform_move s p in
  let o := img s (resolve (pos s)) in let t := img s tg in
  mx == res1 (px o) -> my == res1 (py o) -> mz == res1 (pz o) ->
  exec_axis rel (px mv) mx == res1 (px t) /\ exec_axis rel (py mv) my == res1 (py t) /\
  exec_axis rel (pz mv) mz == res1 (pz t).
Proof.
  cbn zeta. pose proof (transform_move_image s p) as H. destruct (transform_move s p) as [mv tg].
  cbn zeta in H. destruct H as (_ & Hx & Hy & Hz). intros Ex Ey Ez.
  unfold axis_image, exec_axis in *.
  destruct (px mv), (py mv), (pz mv), (dm s); cbn in *;
    repeat match goal with H : _ /\ _ |- _ => destruct H end; repeat split;
    rewrite ?Ex, ?Ey, ?Ez; try (rewrite Hx || rewrite Hy || rewrite Hz); try ring;
    try (symmetry; assumption); try assumption.
Qed.

(* ---------------- whole histories under a fixed transform ---------------- *)
Lemma aff_apply_resolve m p : aff_apply m (resolve p) = aff_apply m p.
Proof. unfold aff_apply, resolve. cbn [px py pz res1]. reflexivity. Qed.

(* the machine executes the (unrounded) words of one move after the other; the builder tracks the targets *)
Fixpoint play (s : st) (m : Q * Q * Q) (reqs : list point) : st * (Q * Q * Q) :=
  match reqs with
  | [] => (s, m)
  | p :: rest =>
      let rel := match dm s with Relative => true | Absolute => false end in
      let '(mv, tg) := transform_move s p in
      let '(mx, my, mz) := m in
      play (set_pos s tg) (exec_axis rel (px mv) mx, exec_axis rel (py mv) my, exec_axis rel (pz mv) mz) rest
  end.

(* for every affine transform, every start position, either distance mode and EVERY sequence of (partial) requests:
   a machine that starts at transform(tracked position) is at transform(tracked position) after every move *)
Theorem history_follows : forall reqs s mx my mz,
  mx == res1 (px (img s (resolve (pos s)))) -> my == res1 (py (img s (resolve (pos s)))) ->
  mz == res1 (pz (img s (resolve (pos s)))) ->
  let '(s', (mx', my', mz')) := play s (mx, my, mz) reqs in
  mx' == res1 (px (img s' (resolve (pos s')))) /\ my' == res1 (py (img s' (resolve (pos s')))) /\
  mz' == res1 (pz (img s' (resolve (pos s')))) /\ tf s' = tf s /\ dm s' = dm s.
Proof.
  induction reqs as [|p rest IH]; intros s mx my mz Ex Ey Ez; cbn [play]; [repeat split; assumption|].
  pose proof (machine_follows s p mx my mz) as H. cbn zeta in H.
  destruct (transform_move s p) as [mv tg]. destruct (H Ex Ey Ez) as (Hx & Hy & Hz).
  set (rel := match dm s with Relative => true | Absolute => false end) in *.
  specialize (IH (set_pos s tg) (exec_axis rel (px mv) mx) (exec_axis rel (py mv) my) (exec_axis rel (pz mv) mz)).
  assert (Ei : img (set_pos s tg) (resolve (pos (set_pos s tg))) = img s tg).
  { unfold img. cbn [set_pos tf pos]. apply aff_apply_resolve. }
  rewrite Ei in IH. specialize (IH Hx Hy Hz).
  destruct (play (set_pos s tg) _ rest) as [s' [[mx' my'] mz']].
  destruct IH as (A & B & C0 & D & E). repeat split; try assumption.
Qed.
