(* C20 + C01: the (origin, target) a hook receives for a linear move are the positions the emitted
   program puts the machine at before and after that move. *)
From Coq Require Import ZArith QArith Bool List String Lia.
From GS Require Import gen.GenTables model.Num model.Builder model.Interp proofs.Tables proofs.FlagsProofs
  proofs.NumProofs proofs.InterlockProofs proofs.AtomicProofs proofs.BoundsProofs proofs.MirrorProofs
  proofs.TrackProofs proofs.HooksProofs.
Import ListNotations.
Open Scope string_scope.
Open Scope list_scope.

Lemma final_app dp s a b : final dp s (a ++ b) = final dp (final dp s a) b.
Proof. unfold final. apply fold_left_app. Qed.

Lemma output_app dp : forall a s b, output dp s (a ++ b) = output dp s a ++ output dp (final dp s a) b.
Proof.
  induction a as [|c a IH]; intros s b; [reflexivity|].
  cbn [app]. rewrite !output_cons, final_cons, IH, app_assoc. reflexivity.
Qed.

Lemma clean_run_app dp : forall a s b, clean_run dp s (a ++ b) -> clean_run dp s a /\ clean_run dp (final dp s a) b.
Proof.
  induction a as [|c a IH]; intros s b H; [split; [exact I|exact H]|].
  cbn [app clean_run] in H. destruct H as [H1 H2]. destruct (IH _ _ H2) as [A B].
  split; [split; assumption|]. rewrite final_cons. exact B.
Qed.

Theorem history_agree_full dp cs : forall s p, Forall cmd_ok1 cs -> hooks_ok2 s -> tf s = aff_id -> Agree dp s p ->
  clean_run dp s cs ->
  Agree dp (final dp s cs) (pinterp_lines p (output dp s cs)) /\ tf (final dp s cs) = aff_id /\ hooks_ok2 (final dp s cs).
Proof.
  induction cs as [|c cs IH]; intros s p Hc Hh Htf HA Hr; [auto|].
  inversion Hc as [|? ? H1 H2]; subst. destruct Hr as [Hcl Hr].
  rewrite output_cons, final_cons, pinterp_lines_app.
  destruct (step_agree dp s c p H1 Hh Htf HA Hcl) as [HA1 Htf1].
  apply IH; [exact H2| |exact Htf1|exact HA1|exact Hr].
  destruct H1 as [H1 _]. now destruct (step_scalars dp s c H1 Hh).
Qed.

Lemma do_move_accepted_pos dp k s r mv tg ps : err_of (do_move dp k s r mv tg ps) = None ->
  pos (st_of (do_move dp k s r mv tg ps)) = tg.
Proof.
  unfold do_move.
  destruct (match k, hooks s with
            | Linear, _ :: _ => run_hooks s (hooks s) (resolve (pos s)) (to_absolute s mv) ps
            | _, _ => (ps, []) end) as [ps1 calls].
  destruct (track s ps1) as [s1 [e1|]]; [discriminate|]. destruct (negb _); [discriminate|].
  unfold update_axes. destruct (within _ _); [|discriminate]. reflexivity.
Qed.

Definition call_ok (before after : point) (c : hookcall) : Prop :=
  match c with HookCall _ o t => o = resolve before /\ peq t after end.

Theorem hook_sees_program_move dp cs1 r ps cs2 :
  let c := Move Linear r ps in
  Forall cmd_ok1 (cs1 ++ c :: cs2) -> clean_run dp init (cs1 ++ c :: cs2) ->
  let s := final dp init cs1 in
  let s' := final dp init (cs1 ++ [c]) in
  err_of (step1 dp s c) = None ->
  Agree dp s (pinterp_lines pmach0 (output dp init cs1)) /\
  Agree dp s' (pinterp_lines pmach0 (output dp init (cs1 ++ [c]))) /\
  Forall (call_ok (pos s) (pos s')) (calls_of (step1 dp s c)) /\
  List.length (calls_of (step1 dp s c)) = List.length (hooks s).
Proof.
  cbn zeta. intros Hc Hr He.
  apply Forall_app in Hc as [Hc1 Hc2]. inversion Hc2 as [|? ? Hcc _]; subst.
  destruct (clean_run_app dp cs1 init _ Hr) as [Hr1 Hr2]. destruct Hr2 as [Hcl _].
  assert (HA0 : Agree dp init pmach0) by (unfold Agree; cbn; repeat split; exact I).
  destruct (history_agree_full dp cs1 init pmach0 Hc1 (Forall_nil _) eq_refl HA0 Hr1) as (HA & Htf & Hh).
  set (s := final dp init cs1) in *.
  destruct (step_agree dp s (Move Linear r ps) _ Hcc Hh Htf HA Hcl) as [HA1 _].
  assert (Hs' : final dp init (cs1 ++ [Move Linear r ps]) = st_of (step1 dp s (Move Linear r ps))).
  { rewrite final_app. fold s. unfold final. cbn [fold_left]. destruct (step1 dp s (Move Linear r ps)) as [[[a b] c0] d]. reflexivity. }
  split; [exact HA|]. split.
  { rewrite Hs', output_app, pinterp_lines_app. fold s. rewrite output_cons. cbn [output run map concat]. rewrite app_nil_r. exact HA1. }
  rewrite Hs'. cbn [step1] in *.
  pose proof (hook_target_is_tracked s (req_point r) Htf) as Ht.
  destruct (transform_move s (req_point r)) as [mv tg].
  rewrite (do_move_accepted_pos dp Linear s r mv tg ps He), (do_move_calls dp Linear s r mv tg ps).
  split; [|now rewrite map_length].
  apply Forall_forall. intros call Hin. apply in_map_iff in Hin as (h & <- & _). split; [reflexivity|exact Ht].
Qed.
