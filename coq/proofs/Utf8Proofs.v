From Coq Require Import List NArith Bool Lia ZArith ZifyBool ZifyN.
From GS Require Import model.Utf8.
Import ListNotations.
Open Scope N_scope.
Ltac Zify.zify_post_hook ::= Z.to_euclidean_division_equations.

Local Arguments N.mul : simpl never.
Local Arguments N.add : simpl never.
Local Arguments N.sub : simpl never.
Local Arguments N.div : simpl never.
Local Arguments N.modulo : simpl never.
Local Arguments N.ltb : simpl never.
Local Arguments N.leb : simpl never.

Lemma encode1_length c : (1 <= length (encode1 c) <= 4)%nat.
Proof. unfold encode1. repeat destruct (_ <? _); cbn; lia. Qed.

(* one code point followed by anything: the decoder reads exactly that code point back *)
Lemma decode_step c rest f : scalar c = true -> (length (encode1 c ++ rest) <= S f)%nat ->
  decode_fuel (S f) (encode1 c ++ rest) = option_map (cons c) (decode_fuel f rest).
Proof.
  intros Hs Hlen. unfold scalar in Hs. unfold encode1.
  destruct (c <? 0x80) eqn:E1.
  - cbn [app decode_fuel]. rewrite E1. reflexivity.
  - destruct (c <? 0x800) eqn:E2.
    + cbn [app decode_fuel].
      replace (0xC0 + c / 64 <? 0x80) with false by lia.
      replace (0xC0 + c / 64 <? 0xC2) with false by lia.
      replace (0xC0 + c / 64 <? 0xE0) with true by lia.
      unfold cont. replace ((0x80 <=? 0x80 + c mod 64) && (0x80 + c mod 64 <? 0xC0)) with true by lia.
      replace ((0xC0 + c / 64 - 0xC0) * 64 + (0x80 + c mod 64 - 0x80)) with c by lia. reflexivity.
    + destruct (c <? 0x10000) eqn:E3.
      * cbn [app decode_fuel].
        replace (0xE0 + c / 4096 <? 0x80) with false by lia.
        replace (0xE0 + c / 4096 <? 0xC2) with false by lia.
        replace (0xE0 + c / 4096 <? 0xE0) with false by lia.
        replace (0xE0 + c / 4096 <? 0xF0) with true by lia.
        replace ((0xE0 + c / 4096 - 0xE0) * 4096 + (0x80 + (c / 64) mod 64 - 0x80) * 64 + (0x80 + c mod 64 - 0x80)) with c by lia.
        unfold cont, scalar.
        replace ((0x80 <=? 0x80 + (c / 64) mod 64) && (0x80 + (c / 64) mod 64 <? 0xC0)) with true by lia.
        replace ((0x80 <=? 0x80 + c mod 64) && (0x80 + c mod 64 <? 0xC0)) with true by lia.
        replace (0x800 <=? c) with true by lia. rewrite Hs. reflexivity.
      * cbn [app decode_fuel].
        replace (0xF0 + c / 262144 <? 0x80) with false by lia.
        replace (0xF0 + c / 262144 <? 0xC2) with false by lia.
        replace (0xF0 + c / 262144 <? 0xE0) with false by lia.
        replace (0xF0 + c / 262144 <? 0xF0) with false by lia.
        replace (0xF0 + c / 262144 <? 0xF5) with true by lia.
        replace ((0xF0 + c / 262144 - 0xF0) * 262144 + (0x80 + (c / 4096) mod 64 - 0x80) * 4096 +
                 (0x80 + (c / 64) mod 64 - 0x80) * 64 + (0x80 + c mod 64 - 0x80)) with c by lia.
        unfold cont.
        replace ((0x80 <=? 0x80 + (c / 4096) mod 64) && (0x80 + (c / 4096) mod 64 <? 0xC0)) with true by lia.
        replace ((0x80 <=? 0x80 + (c / 64) mod 64) && (0x80 + (c / 64) mod 64 <? 0xC0)) with true by lia.
        replace ((0x80 <=? 0x80 + c mod 64) && (0x80 + c mod 64 <? 0xC0)) with true by lia.
        replace (0x10000 <=? c) with true by lia. replace (c <? 0x110000) with true by lia. reflexivity.
Qed.

Lemma decode_fuel_nil f : decode_fuel f [] = Some []. Proof. destruct f; reflexivity. Qed.

Lemma decode_fuel_encode cs : forall f, Forall (fun c => scalar c = true) cs -> (length (encode cs) <= f)%nat ->
  decode_fuel f (encode cs) = Some cs.
Proof.
  induction cs as [|c cs IH]; intros f Hs Hlen; [apply decode_fuel_nil|].
  inversion Hs as [|? ? H1 H2]; subst. unfold encode in *. cbn [flat_map] in *.
  pose proof (encode1_length c) as Hl. rewrite app_length in Hlen.
  destruct f as [|f]; [lia|]. rewrite decode_step by (rewrite ?app_length; auto; lia).
  rewrite IH by (auto; lia). reflexivity.
Qed.

Theorem roundtrip cs : Forall (fun c => scalar c = true) cs -> decode (encode cs) = Some cs.
Proof. intros Hs. unfold decode. now apply decode_fuel_encode. Qed.

Theorem text_write_same cs : Forall (fun c => scalar c = true) cs -> text_write (encode cs) = Some (encode cs).
Proof. intros Hs. unfold text_write. now rewrite roundtrip. Qed.

(* the decoder is strict: whatever it accepts is the encoding of what it returns *)
Lemma decode_fuel_sound : forall f bs cs, decode_fuel f bs = Some cs ->
  encode cs = bs /\ Forall (fun c => scalar c = true) cs.
Proof.
  induction f as [|f IH]; intros bs cs H.
  - destruct bs; [|discriminate]. injection H as <-. split; [reflexivity|constructor].
  - destruct bs as [|b0 r0]; [injection H as <-; split; [reflexivity|constructor]|].
    cbn [decode_fuel] in H.
    destruct (b0 <? 0x80) eqn:E0.
    { destruct (decode_fuel f r0) as [cs'|] eqn:Ed; [|discriminate]. injection H as <-.
      destruct (IH _ _ Ed) as [A B]. split.
      - unfold encode in *. cbn [flat_map]. rewrite A. unfold encode1. rewrite E0. reflexivity.
      - constructor; [unfold scalar; lia|exact B]. }
    destruct (b0 <? 0xC2) eqn:E1; [discriminate|].
    destruct (b0 <? 0xE0) eqn:E2.
    { destruct r0 as [|b1 r1]; [discriminate|]. destruct (cont b1) eqn:C1; [|discriminate].
      destruct (decode_fuel f r1) as [cs'|] eqn:Ed; [|discriminate]. injection H as <-.
      destruct (IH _ _ Ed) as [A B]. unfold cont in C1. split.
      - unfold encode in *. cbn [flat_map]. rewrite A. unfold encode1.
        set (c := (b0 - 0xC0) * 64 + (b1 - 0x80)).
        replace (c <? 0x80) with false by (unfold c; lia). replace (c <? 0x800) with true by (unfold c; lia).
        cbn [app]. f_equal; [unfold c; lia|]. f_equal. unfold c; lia.
      - constructor; [unfold scalar; lia|exact B]. }
    destruct (b0 <? 0xF0) eqn:E3.
    { destruct r0 as [|b1 [|b2 r2]]; try discriminate.
      set (c := (b0 - 0xE0) * 4096 + (b1 - 0x80) * 64 + (b2 - 0x80)) in *.
      destruct (cont b1 && cont b2 && (0x800 <=? c) && scalar c) eqn:C; [|discriminate].
      destruct (decode_fuel f r2) as [cs'|] eqn:Ed; [|discriminate]. injection H as <-.
      destruct (IH _ _ Ed) as [A B]. unfold cont in C.
      apply andb_prop in C as [C Cs]. apply andb_prop in C as [C C8]. apply andb_prop in C as [C1 C2]. split.
      - unfold encode in *. cbn [flat_map]. rewrite A. unfold encode1.
        replace (c <? 0x80) with false by lia. replace (c <? 0x800) with false by lia.
        replace (c <? 0x10000) with true by (unfold c; lia).
        cbn [app]. f_equal; [unfold c; lia|]. f_equal; [unfold c; lia|]. f_equal. unfold c; lia.
      - constructor; [exact Cs|exact B]. }
    destruct (b0 <? 0xF5) eqn:E4; [|discriminate].
    destruct r0 as [|b1 [|b2 [|b3 r3]]]; try discriminate.
    set (c := (b0 - 0xF0) * 262144 + (b1 - 0x80) * 4096 + (b2 - 0x80) * 64 + (b3 - 0x80)) in *.
    destruct (cont b1 && cont b2 && cont b3 && (0x10000 <=? c) && (c <? 0x110000)) eqn:C; [|discriminate].
    destruct (decode_fuel f r3) as [cs'|] eqn:Ed; [|discriminate]. injection H as <-.
    destruct (IH _ _ Ed) as [A B]. unfold cont in C.
    apply andb_prop in C as [C Chi]. apply andb_prop in C as [C Clo]. apply andb_prop in C as [C C3].
    apply andb_prop in C as [C1 C2]. split.
    + unfold encode in *. cbn [flat_map]. rewrite A. unfold encode1.
      replace (c <? 0x80) with false by lia. replace (c <? 0x800) with false by lia.
      replace (c <? 0x10000) with false by lia.
      cbn [app]. f_equal; [unfold c; lia|]. f_equal; [unfold c; lia|]. f_equal; [unfold c; lia|]. f_equal. unfold c; lia.
    + constructor; [unfold scalar; lia|exact B].
Qed.

Theorem decode_sound bs cs : decode bs = Some cs -> encode cs = bs /\ Forall (fun c => scalar c = true) cs.
Proof. apply decode_fuel_sound. Qed.

(* a text stream never alters what it is given: either the bytes are rejected or they are kept as they are *)
Theorem text_write_identity line out : text_write line = Some out -> out = line.
Proof.
  unfold text_write. destruct (decode line) as [cs|] eqn:E; [|discriminate]. intros H. injection H as <-.
  now destruct (decode_sound _ _ E).
Qed.
