(* C07: the reported state mirrors the modal reading of the emitted program. *)
From Coq Require Import ZArith QArith Bool List String Lia.
From GS Require Import gen.GenTables model.Num model.Builder model.Interp proofs.Tables proofs.FlagsProofs
  proofs.NumProofs proofs.InterlockProofs proofs.AtomicProofs proofs.BoundsProofs.
Import ListNotations.
Open Scope string_scope.
Open Scope list_scope.

Local Arguments instr : simpl never.
Local Arguments i_move : simpl never.
Local Arguments i_offset : simpl never.
Local Arguments i_home : simpl never.
Local Arguments i_probe : simpl never.
Local Arguments i_units : simpl never.
Local Arguments i_dmode : simpl never.
Local Arguments i_emode : simpl never.
Local Arguments i_fmode : simpl never.
Local Arguments i_spin : simpl never.
Local Arguments i_power : simpl never.
Local Arguments i_swap : simpl never.
Local Arguments i_coolant : simpl never.
Local Arguments i_fan : simpl never.
Local Arguments i_bed : simpl never.
Local Arguments i_hotend : simpl never.
Local Arguments i_chamber : simpl never.
Local Arguments i_plane : simpl never.
Local Arguments i_sleep : simpl never.
Local Arguments i_query : simpl never.
Local Arguments i_halt : simpl never.
Local Arguments round_dp : simpl never.

Definition rq (dp : nat) (x : xnum) : Q := round_dp dp (xq x).

(* ---------------------------------------------------------------- reading words *)
Lemma wget_pwords dp k ps : wget k (pwords dp ps) = option_map (rq dp) (pget k ps).
Proof.
  unfold pwords. induction ps as [|[k' x] ps IH]; cbn; [reflexivity|].
  rewrite String.eqb_sym. destruct (String.eqb k k'); [reflexivity|exact IH].
Qed.

Lemma wget_app_none k a b : wget k a = None -> wget k (a ++ b) = wget k b.
Proof.
  induction a as [|w a IH]; cbn; [reflexivity|]. destruct (String.eqb (fst w) k); [discriminate|exact IH].
Qed.

Lemma wget_axis dp p k : k <> "X" -> k <> "Y" -> k <> "Z" -> wget k (axis_words dp p) = None.
Proof.
  intros HX HY HZ. unfold axis_words. destruct (px p), (py p), (pz p); cbn [app wget fst snd];
    repeat match goal with |- context [String.eqb ?a k] =>
      destruct (String.eqb_spec a k); [congruence|] end; reflexivity.
Qed.

Lemma pget_reserved ps k : params_ok ps -> reserved k = true -> pget k ps = None.
Proof.
  intros [_ Hr] Hk. induction ps as [|[k' x] ps IH]; cbn; [reflexivity|].
  inversion Hr as [|? ? H1 H2]; subst. cbn in H1.
  destruct (String.eqb_spec k k') as [->|Hne]; [congruence|]. now apply IH.
Qed.

(* the words after the head of a motion / G92 / G28 line *)
Lemma wget_tail dp mv ps k : k <> "X" -> k <> "Y" -> k <> "Z" ->
  wget k (axis_words dp mv ++ pwords dp ps) = option_map (rq dp) (pget k ps).
Proof.
  intros HX HY HZ. rewrite wget_app_none by now apply wget_axis. apply wget_pwords.
Qed.

Lemma mach_eta m : mkmach (m_tool m) (m_start m) (m_S m) (m_cool m) (m_T m) (m_F m) (m_rel m) (m_em m)
  (m_fm m) (m_lu m) (m_pl m) (m_bed m) (m_hot m) (m_cha m) = m.
Proof. now destruct m. Qed.

Lemma keep_none o : keep None o = o. Proof. reflexivity. Qed.
Lemma isq_none n : isq n None = false. Proof. reflexivity. Qed.

(* a line led by a G word that is neither a motion nor a modal code changes nothing but F/S rules *)
Lemma interp_motion dp m hd mv ps : fst hd = "G" -> params_ok ps ->
  isq 0 (Some (snd hd)) || isq 1 (Some (snd hd)) || is_probe_q (Some (snd hd)) = true ->
  (forall n, In n [90; 91; 93; 94; 95; 20; 21; 17; 18; 19]%Z -> isq n (Some (snd hd)) = false) ->
  interp_line m (hd :: axis_words dp mv ++ pwords dp ps) =
  mkmach (m_tool m) (m_start m) (keep (option_map (rq dp) (pget "S" ps)) (m_S m)) (m_cool m) (m_T m)
         (keep (option_map (rq dp) (pget "F" ps)) (m_F m)) (m_rel m) (m_em m) (m_fm m) (m_lu m) (m_pl m)
         (m_bed m) (m_hot m) (m_cha m).
Proof.
  intros Hhd Hp Hmot Hn. destruct hd as [hk hv]. cbn in Hhd. subst hk. unfold interp_line.
  cbn [wget fst snd]. change (String.eqb "G" "G") with true. change (String.eqb "G" "M") with false.
  change (String.eqb "G" "S") with false. change (String.eqb "G" "R") with false.
  change (String.eqb "G" "T") with false. change (String.eqb "G" "F") with false. cbn iota.
  rewrite !wget_tail by discriminate.
  rewrite (pget_reserved ps "M" Hp eq_refl), (pget_reserved ps "T" Hp eq_refl). cbn [option_map].
  rewrite !isq_none. cbn [snd] in Hmot, Hn. rewrite Hmot.
  rewrite !Hn by (cbn; auto 12). cbn [orb keep]. reflexivity.
Qed.

(* G92 / G28 lines: nothing modal *)
Lemma interp_g_other dp m n mv ps : params_ok ps -> (n = 92 \/ n = 28)%Z ->
  interp_line m (W "G" n :: axis_words dp mv ++ pwords dp ps) = m.
Proof.
  intros Hp Hn. unfold interp_line, W. cbn [wget fst snd].
  change (String.eqb "G" "G") with true. change (String.eqb "G" "M") with false.
  change (String.eqb "G" "S") with false. change (String.eqb "G" "R") with false.
  change (String.eqb "G" "T") with false. change (String.eqb "G" "F") with false. cbn iota.
  rewrite !wget_tail by discriminate.
  rewrite (pget_reserved ps "M" Hp eq_refl), (pget_reserved ps "T" Hp eq_refl). cbn [option_map].
  rewrite !isq_none. destruct Hn as [-> | ->]; cbn; apply mach_eta.
Qed.

(* a line led by an M word with free parameters (halt / wait commands) *)
Lemma interp_M_line dp m c ps : params_ok ps ->
  interp_line m (W "M" c :: pwords dp ps) =
  let mm := Some (inject_Z c) in
  let starts := isq 3 mm || isq 4 mm in
  let temp := keep (option_map (rq dp) (pget "S" ps)) (option_map (rq dp) (pget "R" ps)) in
  mkmach
    (if starts then true else if isq 5 mm then false else m_tool m)
    (if isq 3 mm then 3 else if isq 4 mm then 4 else if isq 5 mm then 0 else m_start m)%Z
    (if starts then keep (option_map (rq dp) (pget "S" ps)) (m_S m) else m_S m)
    (if isq 7 mm then 7 else if isq 8 mm then 8 else if isq 9 mm then 0 else m_cool m)%Z
    (m_T m) (m_F m) (m_rel m)
    (if isq 82 mm then Some 82 else if isq 83 mm then Some 83 else m_em m)%Z
    (m_fm m) (m_lu m) (m_pl m)
    (if isq 140 mm || isq 190 mm then keep temp (m_bed m) else m_bed m)
    (if isq 104 mm || isq 109 mm then keep temp (m_hot m) else m_hot m)
    (if isq 141 mm || isq 191 mm then keep temp (m_cha m) else m_cha m).
Proof.
  intros Hp. unfold interp_line, W. cbn [wget fst snd].
  change (String.eqb "M" "G") with false. change (String.eqb "M" "M") with true.
  change (String.eqb "M" "S") with false. change (String.eqb "M" "R") with false.
  change (String.eqb "M" "T") with false. change (String.eqb "M" "F") with false. cbn iota.
  rewrite !wget_pwords.
  rewrite (pget_reserved ps "G" Hp eq_refl), (pget_reserved ps "T" Hp eq_refl). cbn [option_map].
  rewrite !isq_none. cbn [orb is_probe_q keep]. reflexivity.
Qed.

(* ---------------------------------------------------------------- the mirror relation *)
Definition spin_code (x : spin) : Z := match x with SpinCW => 3 | SpinCCW => 4 | SpinOff => 0 end.
Definition power_code (x : power) : Z := match x with PowConst => 3 | PowDyn => 4 | PowOff => 0 end.
Definition cool_code (x : coolant) : Z := match x with CoolMist => 7 | CoolFlood => 8 | CoolOff => 0 end.
Definition em_code (x : emode) : Z := match x with EAbsolute => 82 | ERelative => 83 end.
Definition fm_code (x : fmode) : Z := match x with InvTime => 93 | PerMinute => 94 | PerRev => 95 end.
Definition lu_code (x : units) : Z := match x with Inches => 20 | Millimeters => 21 end.
Definition pl_code (x : plane) : Z := match x with XY => 17 | ZX => 18 | YZ => 19 end.

(* "never mentioned in the program, and the state still has its documented default" or
   "the program's last word is the (rounded) state value" *)
Definition mir_q (dp : nat) (mv : option Q) (sv def : xnum) : Prop :=
  (mv = None /\ sv = def) \/ mv = Some (rq dp sv).
Definition mir_z (mv : option Z) (code def : Z) : Prop := (mv = None /\ code = def) \/ mv = Some code.

Record Mirror (dp : nat) (s : st) (m : mach) : Prop := {
  mi_tool : m_tool m = tool_on s;
  mi_off : tool_on s = false -> spinm s = SpinOff /\ powerm s = PowOff;
  mi_start : tool_on s = true ->
    (powerm s = PowOff /\ spinm s <> SpinOff /\ m_start m = spin_code (spinm s)) \/
    (spinm s = SpinOff /\ powerm s <> PowOff /\ m_start m = power_code (powerm s));
  mi_power : tool_on s = true -> m_S m = Some (rq dp (tpower s));
  mi_cool : m_cool m = cool_code (coolm s) /\ (cool_on s = true <-> coolm s <> CoolOff);
  mi_T : (m_T m = None /\ toolnum s = 0%Z) \/ m_T m = Some (inject_Z (toolnum s));
  mi_F : mir_q dp (m_F m) (feed s) (Fin 0);
  mi_rel : m_rel m = (match dm s with Relative => true | Absolute => false end) /\ sdm s = dm s;
  mi_em : mir_z (m_em m) (em_code (em s)) 82;
  mi_fm : mir_z (m_fm m) (fm_code (fm s)) 94;
  mi_lu : mir_z (m_lu m) (lu_code (lu s)) 21;
  mi_pl : mir_z (m_pl m) (pl_code (pl s)) 17;
  mi_bed : mir_q dp (m_bed m) (t_bed s) NInf;
  mi_hot : mir_q dp (m_hot m) (t_hotend s) NInf;
  mi_cha : mir_q dp (m_cha m) (t_chamber s) NInf }.

Lemma Mirror_init dp : Mirror dp init mach0.
Proof.
  destruct defaults_ok as (_ & Ht & Hp & Hf & _).
  constructor; cbn; try rewrite Ht; try rewrite Hf; try (left; split; reflexivity); try tauto; try discriminate;
    try (split; [reflexivity|]; split; [discriminate|congruence]); try (split; reflexivity).
Qed.

(* the fields the relation looks at *)
Definition same_view (s s' : st) : Prop :=
  tool_on s' = tool_on s /\ spinm s' = spinm s /\ powerm s' = powerm s /\ tpower s' = tpower s /\
  coolm s' = coolm s /\ cool_on s' = cool_on s /\ toolnum s' = toolnum s /\ feed s' = feed s /\
  dm s' = dm s /\ sdm s' = sdm s /\ em s' = em s /\ fm s' = fm s /\ lu s' = lu s /\ pl s' = pl s /\
  t_bed s' = t_bed s /\ t_hotend s' = t_hotend s /\ t_chamber s' = t_chamber s.

Lemma Mirror_view dp s s' m : same_view s s' -> Mirror dp s m -> Mirror dp s' m.
Proof.
  intros (A1 & A2 & A3 & A4 & A5 & A6 & A7 & A8 & A9 & A10 & A11 & A12 & A13 & A14 & A15 & A16 & A17) [].
  constructor; rewrite ?A1, ?A2, ?A3, ?A4, ?A5, ?A6, ?A7, ?A8, ?A9, ?A10, ?A11, ?A12, ?A13, ?A14, ?A15, ?A16, ?A17;
    assumption.
Qed.

Lemma same_view_refl s : same_view s s. Proof. repeat split. Qed.

(* what a successful parameter tracking does to the view *)
Lemma track_view s ps s1 : track s ps = (s1, None) ->
  feed s1 = match pget "F" ps with Some f => f | None => feed s end /\
  tpower s1 = match pget "S" ps with Some p => p | None => tpower s end /\
  tool_on s1 = tool_on s /\ spinm s1 = spinm s /\ powerm s1 = powerm s /\ coolm s1 = coolm s /\
  cool_on s1 = cool_on s /\ toolnum s1 = toolnum s /\ dm s1 = dm s /\ sdm s1 = sdm s /\ em s1 = em s /\
  fm s1 = fm s /\ lu s1 = lu s /\ pl s1 = pl s /\ t_bed s1 = t_bed s /\ t_hotend s1 = t_hotend s /\
  t_chamber s1 = t_chamber s.
Proof.
  unfold track, try_feed, try_power.
  destruct (pget "F" ps) as [f|]; destruct (pget "S" ps) as [p|];
    repeat match goal with |- context [if ?b then _ else _] => destruct b end; cbn; intros H; try discriminate;
    injection H as <-; cbn; repeat split.
Qed.

(* a motion line (move / rapid / probe head) mirrors a tracked parameter update *)
Lemma Mirror_motion dp s m s1 s' hd mv ps : Mirror dp s m -> track s ps = (s1, None) ->
  params_ok ps -> params_finite ps = true -> same_view s1 s' ->
  fst hd = "G" ->
  isq 0 (Some (snd hd)) || isq 1 (Some (snd hd)) || is_probe_q (Some (snd hd)) = true ->
  (forall n, In n [90; 91; 93; 94; 95; 20; 21; 17; 18; 19]%Z -> isq n (Some (snd hd)) = false) ->
  Mirror dp s' (interp_line m (hd :: axis_words dp mv ++ pwords dp ps)).
Proof.
  intros HM Ht Hp Hfin Hv Hhd Hmot Hn. rewrite interp_motion by assumption.
  apply (Mirror_view dp s1 s' _ Hv).
  destruct (track_view s ps s1 Ht) as (Af & Ap & A1 & A2 & A3 & A4 & A5 & A6 & A7 & A8 & A9 & A10 & A11 & A12 & A13 & A14 & A15).
  destruct HM. constructor; cbn [m_tool m_start m_S m_cool m_T m_F m_rel m_em m_fm m_lu m_pl m_bed m_hot m_cha];
    rewrite ?A1, ?A2, ?A3, ?A4, ?A5, ?A6, ?A7, ?A8, ?A9, ?A10, ?A11, ?A12, ?A13, ?A14, ?A15; try assumption.
  - intros Ho. rewrite Ap. destruct (pget "S" ps); cbn; [reflexivity|]. now apply mi_power0.
  - rewrite Af. unfold mir_q in *. destruct (pget "F" ps); cbn; [right; reflexivity|exact mi_F0].
Qed.

(* ---------------------------------------------------------------- clean steps *)
(* a step that is not a C05 leak: it succeeded, or it was rejected without any effect *)
Definition clean (s : st) (r : res) : Prop := err_of r = None \/ (st_of r = s /\ lines_of r = []).

Lemma interp_lines_nil m : interp_lines m [] = m. Proof. reflexivity. Qed.
Lemma interp_lines_one m l : interp_lines m [l] = interp_line m l. Proof. reflexivity. Qed.
Lemma interp_lines_cons m l ls : interp_lines m (l :: ls) = interp_lines (interp_line m l) ls.
Proof. reflexivity. Qed.
Lemma interp_lines_app m a b : interp_lines m (a ++ b) = interp_lines (interp_lines m a) b.
Proof. unfold interp_lines. apply fold_left_app. Qed.
Lemma interp_empty m : interp_line m [] = m.
Proof. unfold interp_line. cbn. apply mach_eta. Qed.

Ltac failed HC HM :=
  destruct HC as [HC|[HC _]]; [discriminate HC|cbn [st_of fail ok] in HC; rewrite ?HC; exact HM].

Lemma move_head_ok k : fst (i_move k) = "G" /\
  isq 0 (Some (snd (i_move k))) || isq 1 (Some (snd (i_move k))) || is_probe_q (Some (snd (i_move k))) = true /\
  (forall n, In n [90; 91; 93; 94; 95; 20; 21; 17; 18; 19]%Z -> isq n (Some (snd (i_move k))) = false).
Proof.
  destruct k; [rewrite i_move_linear|rewrite i_move_rapid]; (split; [reflexivity|]; split; [reflexivity|]);
    intros n H; cbn in H; repeat (destruct H as [<-|H]; [reflexivity|]); contradiction.
Qed.

Lemma probe_head_ok p : fst (i_probe p) = "G" /\
  isq 0 (Some (snd (i_probe p))) || isq 1 (Some (snd (i_probe p))) || is_probe_q (Some (snd (i_probe p))) = true /\
  (forall n, In n [90; 91; 93; 94; 95; 20; 21; 17; 18; 19]%Z -> isq n (Some (snd (i_probe p))) = false).
Proof.
  split; [apply (i_probe_g p)|]. split; [rewrite probe_is_probe; now rewrite !orb_true_r|].
  intros n H. apply probe_isq. cbn in *. intuition.
Qed.

Lemma do_move_mirror dp k s r mv target ps m : params_ok ps -> hooks_ok2 s -> Mirror dp s m ->
  clean s (do_move dp k s r mv target ps) ->
  Mirror dp (st_of (do_move dp k s r mv target ps)) (interp_lines m (lines_of (do_move dp k s r mv target ps))).
Proof.
  intros Hp Hh HM. unfold do_move.
  set (hk := match k, hooks s with
             | Linear, _ :: _ => run_hooks s (hooks s) (resolve (pos s)) (to_absolute s mv) ps
             | _, _ => (ps, []) end).
  assert (Hk : params_ok (fst hk)).
  { unfold hk. destruct k; [|exact Hp]. destruct (hooks s) eqn:E; [exact Hp|].
    rewrite <- E. apply run_hooks_ok; [rewrite E; unfold hooks_ok2 in Hh; rewrite E in Hh; exact Hh|exact Hp]. }
  destruct hk as [ps1 calls]. cbn [fst] in Hk.
  destruct (track s ps1) as [s1 [e1|]] eqn:Et.
  - intros HC. cbn [st_of lines_of]. rewrite interp_lines_nil. failed HC HM.
  - destruct (req_finite r && params_finite ps1) eqn:Efin; cbn [negb].
    + apply andb_prop in Efin as [_ Efin]. unfold update_axes.
      destruct (within _ _); cbn [ok st_of lines_of err_of].
      * intros _. rewrite interp_lines_one. unfold move_line.
        destruct (move_head_ok k) as (H1 & H2 & H3).
        eapply Mirror_motion; eauto. repeat split.
      * intros HC. rewrite interp_lines_nil. failed HC HM.
    + intros HC. cbn [st_of lines_of]. rewrite interp_lines_nil. failed HC HM.
Qed.

Lemma do_move_hooks dp k s r mv target ps : hooks (st_of (do_move dp k s r mv target ps)) = hooks s.
Proof.
  unfold do_move.
  destruct (match k, hooks s with
            | Linear, _ :: _ => run_hooks s (hooks s) (resolve (pos s)) (to_absolute s mv) ps
            | _, _ => (ps, []) end) as [ps1 calls].
  pose proof (track_frame s ps1) as ((_ & _ & _ & Hhk & _) & _).
  destruct (track s ps1) as [s1 [e1|]]; cbn [fst] in Hhk; [exact Hhk|].
  destruct (negb _); [exact Hhk|]. unfold update_axes. destruct (within _ _); exact Hhk.
Qed.

(* G90 / G91 *)
Lemma set_distance_mirror dp s d m : Mirror dp s m ->
  Mirror dp (fst (set_distance s d)) (interp_line m (snd (set_distance s d))).
Proof.
  intros []. unfold set_distance. cbn [fst snd]. rewrite i_dmode_g.
  destruct d; unfold interp_line; cbn; constructor; cbn; try assumption; try (split; reflexivity).
Qed.

Lemma set_distance_hooks s d : hooks (fst (set_distance s d)) = hooks s. Proof. reflexivity. Qed.

Lemma poly_go_mirror dp ps : params_ok ps -> forall pts s acc calls m0, hooks_ok2 s ->
  Mirror dp s (interp_lines m0 acc) -> err_of (poly_go dp ps pts s acc calls) = None ->
  Mirror dp (st_of (poly_go dp ps pts s acc calls)) (interp_lines m0 (lines_of (poly_go dp ps pts s acc calls))).
Proof.
  intros Hp. induction pts as [|p pts IH]; intros s acc calls m0 Hh HM; cbn [poly_go]; [intros _; exact HM|].
  destruct (transform_move s (to_distance_mode s p)) as [mv t].
  match goal with |- context [do_move ?a ?b ?c ?d ?f ?g ?h] =>
    pose proof (do_move_mirror a b c d f g h (interp_lines m0 acc) Hp Hh HM) as Hd;
    pose proof (do_move_hooks a b c d f g h) as Hk;
    destruct (do_move a b c d f g h) as [[[s1 ls] cs] e1] end.
  cbn [st_of lines_of err_of] in *. destruct e1; [discriminate|]. intros He.
  apply IH; [unfold hooks_ok2; rewrite Hk; exact Hh| |exact He].
  rewrite interp_lines_app. apply Hd. now left.
Qed.

Lemma poly_go_fail_lines dp ps : forall pts s acc calls,
  lines_of (poly_go dp ps pts s acc calls) = [] -> acc = [].
Proof.
  induction pts as [|p pts IH]; intros s acc calls; cbn [poly_go]; [cbn; auto|].
  destruct (transform_move s (to_distance_mode s p)) as [mv t].
  match goal with |- context [do_move ?a ?b ?c ?d ?f ?g ?h] => destruct (do_move a b c d f g h) as [[[s1 ls] cs] e1] end.
  destruct e1; [cbn; intros H; now apply app_eq_nil in H|]. intros H. apply IH in H. now apply app_eq_nil in H.
Qed.

Ltac conc := unfold interp_line; cbn.

Theorem step_mirror dp s c m : cmd_ok3 c -> hooks_ok2 s -> Mirror dp s m -> clean s (step1 dp s c) ->
  Mirror dp (st_of (step1 dp s c)) (interp_lines m (lines_of (step1 dp s c))).
Proof.
  intros Hc Hh HM. destruct c; cbn [cmd_ok3] in Hc; cbn [step1].
  - (* Move *) destruct (transform_move s (req_point r)) as [mv t]. now apply do_move_mirror.
  - (* MoveAbs *) destruct (dm s) eqn:Ed.
    + match goal with |- context [do_move ?a ?b ?c ?d ?f ?g ?h] =>
        pose proof (do_move_mirror a b c d f g h m Hc Hh HM) as Hd;
        destruct (do_move a b c d f g h) as [[[s1 ls] cs] e1] end.
      cbn [st_of lines_of err_of app] in *. exact Hd.
    + pose proof (set_distance_mirror dp s Absolute m HM) as H0.
      destruct (set_distance s Absolute) as [s0 l0] eqn:E0. cbn [fst snd] in H0.
      assert (Hh0 : hooks_ok2 s0) by (unfold set_distance in E0; injection E0 as <- _; exact Hh).
      match goal with |- context [do_move ?a ?b ?c ?d ?f ?g ?h] =>
        pose proof (do_move_mirror a b c d f g h (interp_line m l0) Hc Hh0 H0) as Hd;
        destruct (do_move a b c d f g h) as [[[s1 ls] cs] e1] end.
      pose proof (set_distance_mirror dp s1 Relative) as H2.
      destruct (set_distance s1 Relative) as [s2 l2]. cbn [fst snd st_of lines_of err_of] in *.
      intros [He|[_ Hl]]; [|destruct ls; discriminate Hl].
      cbn [app]. rewrite interp_lines_cons, interp_lines_app, interp_lines_one. apply H2. apply Hd. now left.
  - (* SetAxis *) destruct (negb _); [intros HC; rewrite interp_lines_nil; failed HC HM|].
    unfold update_axes. destruct (within _ _); cbn [ok fail st_of lines_of err_of].
    + intros _. rewrite interp_lines_one, i_offset_eq, interp_g_other by auto.
      eapply Mirror_view; [|exact HM]. repeat split.
    + intros HC. rewrite interp_lines_nil. failed HC HM.
  - (* Home *) destruct (negb _); [intros HC; rewrite interp_lines_nil; failed HC HM|].
    unfold update_axes. destruct (within _ _); cbn [ok fail st_of lines_of err_of].
    + intros _. rewrite interp_lines_one, i_home_eq, interp_g_other by auto.
      eapply Mirror_view; [|exact HM]. repeat split.
    + intros HC. rewrite interp_lines_nil. failed HC HM.
  - (* Probe *) destruct m0 as [pm|]; [|intros HC; rewrite interp_lines_nil; failed HC HM].
    destruct (transform_move s (req_point r)) as [mv t].
    destruct (negb (within _ _)); [intros HC; rewrite interp_lines_nil; failed HC HM|].
    destruct (req_finite r && params_finite ps) eqn:Efin; cbn [negb]; [|intros HC; rewrite interp_lines_nil; failed HC HM].
    apply andb_prop in Efin as [_ Efin]. unfold update_axes.
    destruct (within _ _); [|intros HC; rewrite interp_lines_nil; failed HC HM].
    match goal with |- context [track ?a ?b] => set (s1 := a) end. destruct (track s1 ps) as [s2 [e1|]] eqn:Et.
    + intros HC. cbn [fail st_of lines_of]. rewrite interp_lines_nil. failed HC HM.
    + intros _. cbn [ok st_of lines_of]. rewrite interp_lines_one. unfold move_line.
      destruct (probe_head_ok pm) as (H1 & H2 & H3).
      assert (HM1 : Mirror dp s1 m) by (eapply Mirror_view; [|exact HM]; repeat split).
      eapply Mirror_motion; eauto. repeat split.
  - (* Polyline *) intros [He|[Hs Hl]].
    + apply poly_go_mirror; auto.
    + rewrite Hs, Hl. exact HM.
  - (* SetDistance *) destruct m0 as [d|]; [|intros HC; rewrite interp_lines_nil; failed HC HM].
    intros _. pose proof (set_distance_mirror dp s d m HM) as H0. destruct (set_distance s d). exact H0.
  - (* EnterAbs *) intros _. destruct (dm s) eqn:Ed; cbn [ok st_of lines_of].
    + rewrite interp_lines_nil. eapply Mirror_view; [|exact HM]. repeat split.
    + pose proof (set_distance_mirror dp s Absolute m HM) as H0. destruct (set_distance s Absolute) as [s1 l].
      cbn [fst snd ok st_of lines_of] in *. rewrite interp_lines_one. eapply Mirror_view; [|exact H0]. repeat split.
  - (* EnterRel *) intros _. destruct (dm s) eqn:Ed; cbn [ok st_of lines_of].
    + pose proof (set_distance_mirror dp s Relative m HM) as H0. destruct (set_distance s Relative) as [s1 l].
      cbn [fst snd ok st_of lines_of] in *. rewrite interp_lines_one. eapply Mirror_view; [|exact H0]. repeat split.
    + rewrite interp_lines_nil. eapply Mirror_view; [|exact HM]. repeat split.
  - (* ExitMode *) intros _. destruct (modes s) as [|p rest]; [exact HM|].
    assert (H0 : Mirror dp (set_modes s rest) m) by (eapply Mirror_view; [|exact HM]; repeat split).
    destruct p, (dm s) eqn:Ed; try exact H0.
    + pose proof (set_distance_mirror dp (set_modes s rest) Absolute m H0) as H1.
      destruct (set_distance (set_modes s rest) Absolute) as [s1 l]. exact H1.
    + pose proof (set_distance_mirror dp (set_modes s rest) Relative m H0) as H1.
      destruct (set_distance (set_modes s rest) Relative) as [s1 l]. exact H1.
  - (* SetExtrusion *) destruct m0 as [d|]; [|intros HC; rewrite interp_lines_nil; failed HC HM].
    intros _. cbn [ok st_of lines_of]. rewrite interp_lines_one, i_emode_m. destruct HM.
    destruct d; conc; constructor; cbn; try assumption; right; reflexivity.
  - (* SetFeedMode *) destruct m0 as [d|]; [|intros HC; rewrite interp_lines_nil; failed HC HM].
    intros _. cbn [ok st_of lines_of]. rewrite interp_lines_one, i_fmode_g. destruct HM.
    destruct d; conc; constructor; cbn; try assumption; right; reflexivity.
  - (* SetUnits *) destruct m0 as [d|]; [|intros HC; rewrite interp_lines_nil; failed HC HM].
    intros _. cbn [ok st_of lines_of]. rewrite interp_lines_one, i_units_g. destruct HM.
    destruct d; conc; constructor; cbn; try assumption; right; reflexivity.
  - (* SetPlane *) destruct m0 as [d|]; [|intros HC; rewrite interp_lines_nil; failed HC HM].
    intros _. cbn [ok st_of lines_of]. rewrite interp_lines_one, i_plane_g. destruct HM.
    destruct d; conc; constructor; cbn; try assumption; right; reflexivity.
  - destruct m0; intros _; cbn; (eapply Mirror_view; [|exact HM]; repeat split).
  - destruct m0; intros _; cbn; (eapply Mirror_view; [|exact HM]; repeat split).
  - (* SetFeed *) unfold try_feed. destruct (negb (in_range _ _)); [intros HC; rewrite interp_lines_nil; failed HC HM|].
    destruct (xlt x (Fin 0)); [intros HC; rewrite interp_lines_nil; failed HC HM|].
    destruct (xfinite x); cbn [ok fail st_of lines_of err_of].
    + intros _. rewrite interp_lines_one. destruct HM. conc. constructor; cbn; try assumption. right. reflexivity.
    + intros HC. rewrite interp_lines_nil. failed HC HM.
  - (* SetPower *) unfold try_power. destruct (negb (in_range _ _)); [intros HC; rewrite interp_lines_nil; failed HC HM|].
    destruct (xlt x (Fin 0)); [intros HC; rewrite interp_lines_nil; failed HC HM|].
    destruct (xfinite x); cbn [ok fail st_of lines_of err_of].
    + intros _. rewrite interp_lines_one. destruct HM. conc. constructor; cbn; try assumption. intros _. reflexivity.
    + intros HC. rewrite interp_lines_nil. failed HC HM.
  - (* SetFan *) destruct (fan <? 0)%Z; [intros HC; rewrite interp_lines_nil; failed HC HM|].
    destruct (_ || _); [intros HC; rewrite interp_lines_nil; failed HC HM|].
    destruct (xfinite speed); [|intros HC; rewrite interp_lines_nil; failed HC HM].
    intros _. cbn [ok st_of lines_of]. rewrite interp_lines_one, i_fan_m. destruct HM.
    conc. constructor; cbn; assumption.
  - (* SetBedT *) destruct (negb (xfinite x)); [intros HC; rewrite interp_lines_nil; failed HC HM|].
    destruct (in_range _ _); [|intros HC; rewrite interp_lines_nil; failed HC HM].
    intros _. cbn [ok st_of lines_of]. rewrite interp_lines_one, i_bed_m. destruct HM.
    conc. constructor; cbn; try assumption. right. reflexivity.
  - (* SetHotendT *) destruct (negb (xfinite x)); [intros HC; rewrite interp_lines_nil; failed HC HM|].
    destruct (in_range _ _); [|intros HC; rewrite interp_lines_nil; failed HC HM].
    intros _. cbn [ok st_of lines_of]. rewrite interp_lines_one, i_hotend_m. destruct HM.
    conc. constructor; cbn; try assumption. right. reflexivity.
  - (* SetChamberT *) destruct (negb (xfinite x)); [intros HC; rewrite interp_lines_nil; failed HC HM|].
    destruct (in_range _ _); [|intros HC; rewrite interp_lines_nil; failed HC HM].
    intros _. cbn [ok st_of lines_of]. rewrite interp_lines_one, i_chamber_m. destruct HM.
    conc. constructor; cbn; try assumption. right. reflexivity.
  - (* Sleep *) destruct (xlt x (Fin 0)); [intros HC; rewrite interp_lines_nil; failed HC HM|].
    destruct (xfinite x); [|intros HC; rewrite interp_lines_nil; failed HC HM].
    intros _. cbn [ok st_of lines_of]. rewrite interp_lines_one, i_sleep_g. destruct HM.
    conc. constructor; cbn; assumption.
  - (* ToolOn *) destruct m0 as [sm|]; [|intros HC; rewrite interp_lines_nil; failed HC HM].
    destruct sm; [intros HC; rewrite interp_lines_nil; failed HC HM| |];
    (destruct (tool_on s) eqn:Eto; [intros HC; rewrite interp_lines_nil; failed HC HM|];
     unfold try_power; destruct (negb (in_range _ _)); [intros HC; rewrite interp_lines_nil; failed HC HM|];
     destruct (xlt x (Fin 0)); [intros HC; rewrite interp_lines_nil; failed HC HM|];
     destruct (xfinite x); cbn [ok fail st_of lines_of err_of];
     [ intros _; rewrite interp_lines_one, i_spin_m; destruct HM as [? Hoff ? ? ? ? ? ? ? ? ? ? ? ? ?];
       destruct (Hoff Eto) as [Hsp Hpw];
       conc; constructor; cbn; try assumption; try discriminate; try reflexivity;
       intros _; left; repeat split; [exact Hpw|discriminate]
     | intros HC; rewrite interp_lines_nil; failed HC HM ]).
  - (* ToolOff *) intros _. cbn [ok st_of lines_of]. rewrite interp_lines_one, i_spin_m. destruct HM.
    conc. constructor; cbn; try assumption; try discriminate; try reflexivity. intros _. split; reflexivity.
  - (* PowerOn *) destruct m0 as [pm|]; [|intros HC; rewrite interp_lines_nil; failed HC HM].
    destruct pm; [intros HC; rewrite interp_lines_nil; failed HC HM| |];
    (destruct (tool_on s) eqn:Eto; [intros HC; rewrite interp_lines_nil; failed HC HM|];
     unfold try_power; destruct (negb (in_range _ _)); [intros HC; rewrite interp_lines_nil; failed HC HM|];
     destruct (xlt x (Fin 0)); [intros HC; rewrite interp_lines_nil; failed HC HM|];
     destruct (xfinite x); cbn [ok fail st_of lines_of err_of];
     [ intros _; rewrite interp_lines_one, i_power_m; destruct HM as [? Hoff ? ? ? ? ? ? ? ? ? ? ? ? ?];
       destruct (Hoff Eto) as [Hsp Hpw];
       conc; constructor; cbn; try assumption; try discriminate; try reflexivity;
       intros _; right; repeat split; [exact Hsp|discriminate]
     | intros HC; rewrite interp_lines_nil; failed HC HM ]).
  - (* PowerOff *) intros _. cbn [ok st_of lines_of]. rewrite interp_lines_one, i_power_m. destruct HM.
    conc. constructor; cbn; try assumption; try discriminate; try reflexivity. intros _. split; reflexivity.
  - (* ToolChange *) destruct m0 as [sm|]; [|intros HC; rewrite interp_lines_nil; failed HC HM].
    assert (Hgen : forall sm', sm' <> SwapOff ->
      let r := (if negb (in_range (b_toolnum (bnd s)) (Fin (inject_Z n))) then fail s [] ValueErr
        else if (n <? 1)%Z then fail s [] ValueErr else if tool_on s then fail s [] ToolStateErr
        else if cool_on s then fail s [] CoolantStateErr
        else ok (written (set_swapm (set_toolnum s n) sm')) [[("T", inject_Z n); i_swap sm']]) in
      clean s r -> Mirror dp (st_of r) (interp_lines m (lines_of r))).
    { intros sm' Hne. cbn zeta. destruct (negb _); [intros HC; rewrite interp_lines_nil; failed HC HM|].
      destruct (n <? 1)%Z; [intros HC; rewrite interp_lines_nil; failed HC HM|].
      destruct (tool_on s); [intros HC; rewrite interp_lines_nil; failed HC HM|].
      destruct (cool_on s); [intros HC; rewrite interp_lines_nil; failed HC HM|].
      intros _. cbn [ok st_of lines_of]. rewrite interp_lines_one, i_swap_m by exact Hne. destruct HM.
      conc. constructor; cbn; try assumption. right. reflexivity. }
    destruct sm; [intros HC; rewrite interp_lines_nil; failed HC HM| |]; apply Hgen; discriminate.
  - (* CoolantOn *) destruct m0 as [cm|]; [|intros HC; rewrite interp_lines_nil; failed HC HM].
    destruct cm; [intros HC; rewrite interp_lines_nil; failed HC HM| |];
    (destruct (cool_on s); [intros HC; rewrite interp_lines_nil; failed HC HM|];
     intros _; cbn [ok st_of lines_of]; rewrite interp_lines_one, i_coolant_m; destruct HM;
     conc; constructor; cbn; try assumption; split; [reflexivity|split; [discriminate|reflexivity]]).
  - (* CoolantOff *) intros _. cbn [ok st_of lines_of]. rewrite interp_lines_one, i_coolant_m. destruct HM.
    conc. constructor; cbn; try assumption. split; [reflexivity|]. split; [discriminate|congruence].
  - (* Halt *) destruct Hc as [Hp Hnot]. destruct m0 as [h|]; [|intros HC; rewrite interp_lines_nil; failed HC HM].
    assert (Hgen : forall h', h' <> HaltOff -> clean s (halt_cmd dp s h' ps) ->
      Mirror dp (st_of (halt_cmd dp s h' ps)) (interp_lines m (lines_of (halt_cmd dp s h' ps)))).
    { intros h' Hne. unfold halt_cmd, try_halt.
      destruct (tool_on s); [intros HC; rewrite interp_lines_nil; failed HC HM|].
      destruct (cool_on s); [intros HC; rewrite interp_lines_nil; failed HC HM|].
      set (temp := match pget "S" ps with Some t => Some t | None => pget "R" ps end).
      assert (Htemp : keep (option_map (rq dp) (pget "S" ps)) (option_map (rq dp) (pget "R" ps)) = option_map (rq dp) temp).
      { unfold temp. destruct (pget "S" ps); reflexivity. }
      assert (Hfin : forall (s2 : st), Mirror dp (written s2) (interp_line m (i_halt h' :: pwords dp ps)) ->
        clean s (if negb (params_finite ps) then fail s2 [] ValueErr else ok (written s2) [i_halt h' :: pwords dp ps]) ->
        Mirror dp (st_of (if negb (params_finite ps) then fail s2 [] ValueErr else ok (written s2) [i_halt h' :: pwords dp ps]))
          (interp_lines m (lines_of (if negb (params_finite ps) then fail s2 [] ValueErr else ok (written s2) [i_halt h' :: pwords dp ps])))).
      { intros s2 H2. destruct (negb (params_finite ps)); [intros HC; rewrite interp_lines_nil; failed HC HM|].
        intros _. exact H2. }
      destruct HM as [? ? ? ? ? ? ? ? ? ? ? ? Hbed Hhot Hcha].
      destruct temp as [t|] eqn:Et; unfold temp in Et; rewrite ?Et.
      - destruct h'; try congruence;
          try (apply Hfin; rewrite i_halt_m by discriminate; rewrite interp_M_line by exact Hp; cbn;
               constructor; cbn; assumption).
        + destruct (in_range _ _); [|intros HC; rewrite interp_lines_nil; cbn [fail st_of] in *;
            destruct HC as [HC|[HC _]]; [discriminate HC|cbn in HC; rewrite HC; constructor; assumption]].
          apply Hfin. rewrite i_halt_m by discriminate. rewrite interp_M_line by exact Hp. rewrite Htemp.
          cbn. constructor; cbn; try assumption. right. reflexivity.
        + destruct (in_range _ _); [|intros HC; rewrite interp_lines_nil; cbn [fail st_of] in *;
            destruct HC as [HC|[HC _]]; [discriminate HC|cbn in HC; rewrite HC; constructor; assumption]].
          apply Hfin. rewrite i_halt_m by discriminate. rewrite interp_M_line by exact Hp. rewrite Htemp.
          cbn. constructor; cbn; try assumption. right. reflexivity.
        + destruct (in_range _ _); [|intros HC; rewrite interp_lines_nil; cbn [fail st_of] in *;
            destruct HC as [HC|[HC _]]; [discriminate HC|cbn in HC; rewrite HC; constructor; assumption]].
          apply Hfin. rewrite i_halt_m by discriminate. rewrite interp_M_line by exact Hp. rewrite Htemp.
          cbn. constructor; cbn; try assumption. right. reflexivity.
      - apply Hfin. rewrite i_halt_m by exact Hne. rewrite interp_M_line by exact Hp. rewrite Htemp.
        destruct h'; try congruence; cbn; constructor; cbn; assumption. }
    destruct h; try (apply Hgen; discriminate). intros HC. rewrite interp_lines_nil. failed HC HM.
  - (* EmergencyHalt *) intros _. unfold halt_cmd, try_halt.
    cbn [tool_on cool_on written coolant_off tool_off set_haltm set_spinm set_tool_on set_tpower set_powerm
         set_coolm set_cool_on pget params_finite forallb negb ok fail err_of lines_of st_of app pwords map].
    rewrite i_spin_m, i_coolant_m. destruct HM.
    destruct reset; rewrite i_halt_m by discriminate; unfold interp_lines; cbn [fold_left]; conc;
      constructor; cbn; try assumption; try discriminate; try reflexivity;
      try (intros _; split; reflexivity); try (split; [reflexivity|split; [discriminate|congruence]]).
  - (* Query *) destruct m0 as [q|]; [|intros HC; rewrite interp_lines_nil; failed HC HM].
    intros _. cbn [ok st_of lines_of]. rewrite interp_lines_one, i_query_m. destruct HM.
    destruct q; conc; constructor; cbn; assumption.
  - (* Comment *) intros _. cbn [ok st_of lines_of]. rewrite interp_lines_one, interp_empty.
    eapply Mirror_view; [|exact HM]. repeat split.
  - (* Annotate *) destruct valid_key; [|intros HC; rewrite interp_lines_nil; failed HC HM].
    intros _. cbn [ok st_of lines_of]. rewrite interp_lines_one, interp_empty.
    eapply Mirror_view; [|exact HM]. repeat split.
  - (* SetBounds *) intros HC.
    match goal with |- Mirror dp (st_of ?R) (interp_lines m (lines_of ?R)) =>
      assert (Hl : lines_of R = []); [|assert (Hv : same_view s (st_of R))] end.
    { destruct n; cbn; try reflexivity; try (destruct slo; try reflexivity; destruct shi; try reflexivity;
        destruct (qleb _ _); reflexivity). destruct (ge_point lo hi); reflexivity. }
    { destruct n; cbn; try apply same_view_refl; try (destruct slo; try apply same_view_refl; destruct shi;
        try apply same_view_refl; destruct (qleb _ _); cbn; repeat split).
      destruct (ge_point lo hi); cbn; repeat split. }
    rewrite Hl, interp_lines_nil. eapply Mirror_view; [exact Hv|exact HM].
  - (* AddHook *) intros _. destruct (existsb _ _); cbn; [exact HM|]. eapply Mirror_view; [|exact HM]. repeat split.
  - (* RemoveHook *) intros _. cbn. eapply Mirror_view; [|exact HM]. repeat split.
  - (* SetTransform *) intros _. cbn. eapply Mirror_view; [|exact HM]. repeat split.
Qed.

(* ---------------------------------------------------------------- all histories *)
Fixpoint clean_run (dp : nat) (s : st) (cs : list cmd) : Prop :=
  match cs with
  | [] => True
  | c :: cs' => clean s (step1 dp s c) /\ clean_run dp (st_of (step1 dp s c)) cs'
  end.

Theorem history_mirror dp cs : forall s m, Forall cmd_ok3 cs -> hooks_ok2 s -> Mirror dp s m ->
  clean_run dp s cs -> Mirror dp (final dp s cs) (interp_lines m (output dp s cs)).
Proof.
  induction cs as [|c cs IH]; intros s m Hc Hh HM Hr; [exact HM|].
  inversion Hc as [|? ? H1 H2]; subst. destruct Hr as [Hcl Hr].
  rewrite output_cons, final_cons, interp_lines_app.
  apply IH; [exact H2| |now apply step_mirror|exact Hr].
  now destruct (step_scalars dp s c H1 Hh).
Qed.

(* the same statement for every prefix: "after every call" *)
Corollary history_mirror_prefix dp cs1 cs2 : Forall cmd_ok3 (cs1 ++ cs2) -> clean_run dp init (cs1 ++ cs2) ->
  Mirror dp (final dp init cs1) (interp_lines mach0 (output dp init cs1)).
Proof.
  intros Hc Hr. apply history_mirror; [now apply Forall_app in Hc as [H _]|constructor|apply Mirror_init|].
  clear Hc. revert Hr. generalize init. induction cs1 as [|c cs1 IH]; intros s Hr; [exact I|].
  destruct Hr as [A B]. split; [exact A|now apply IH].
Qed.
