(* C12: the resolution filter, on arbitrary distance lists (hence for every shape). *)
From Coq Require Import ZArith QArith Qround Bool List Lia Lqa.
From GS Require Import gen.GenTables model.TracerQ.
Import ListNotations.
Open Scope Q_scope.

Fixpoint all_but_last (P : Q -> Prop) (l : list Q) : Prop :=
  match l with
  | [] => True
  | [_] => True
  | x :: l' => P x /\ all_but_last P l'
  end.

Lemma mask_len res : forall ds rem, length (mask_loop res rem ds) = length ds.
Proof.
  induction ds as [|d ds IH]; intros rem; [reflexivity|]. cbn [mask_loop].
  destruct ds as [|d2 ds]; [reflexivity|]. destruct (Qlt_le_dec (rem - d) (res / filter_tolerance_div)); cbn [length]; now rewrite IH.
Qed.

(* the heart: with acc the length travelled since the last kept sample and rem = res - acc *)
Lemma seg_loop_spec res dmax : 0 < res -> forall ds acc rem,
  rem == res - acc -> 0 <= acc -> acc <= (9 # 10) * res ->
  Forall (fun d => 0 <= d /\ d <= dmax) ds -> ds <> [] ->
  let S := seg_loop acc (mask_loop res rem ds) ds in
  Forall (fun T => T <= (9 # 10) * res + dmax) S /\
  all_but_last (fun T => (9 # 10) * res < T) S /\
  qsum S == acc + qsum ds /\ S <> [].
Proof.
  intros Hres. induction ds as [|d ds IH]; intros acc rem Hrem Ha0 Ha Hd Hne; [congruence|].
  inversion Hd as [|? ? [Hd0 Hdm] Hd']; subst. cbn zeta. cbn [mask_loop].
  destruct ds as [|d2 ds].
  - (* the last distance: forced keep *)
    cbn [seg_loop qsum]. repeat split; try (constructor; [lra|constructor]); try lra; try discriminate.
  - destruct (Qlt_le_dec (rem - d) (res / filter_tolerance_div)) as [Hlt|Hge]; cbn [seg_loop].
    + (* kept: reset *)
      assert (H10 : res / filter_tolerance_div == (1 # 10) * res) by (unfold filter_tolerance_div; field).
      destruct (IH 0 res ltac:(lra) ltac:(lra) ltac:(lra) Hd' ltac:(discriminate)) as (A & B & C & D).
      cbn zeta in A, B, C, D.
      set (S := seg_loop 0 (mask_loop res res (d2 :: ds)) (d2 :: ds)) in *.
      repeat split.
      * constructor; [lra|exact A].
      * destruct S as [|s S']; [congruence|]. cbn [all_but_last]. split; [rewrite H10 in Hlt; lra|exact B].
      * cbn [qsum]. rewrite C. cbn [qsum]. ring.
      * discriminate.
    + assert (H10 : res / filter_tolerance_div == (1 # 10) * res) by (unfold filter_tolerance_div; field).
      destruct (IH (acc + d) (rem - d) ltac:(lra) ltac:(lra) ltac:(rewrite H10 in Hge; lra) Hd' ltac:(discriminate)) as (A & B & C & D).
      cbn zeta in A, B, C, D. repeat split; auto. rewrite C. cbn [qsum]. ring.
Qed.

(* C12, filter: for every list of sample distances (all in [0, dmax]) and every resolution:
   every emitted segment has travelled length <= 0.9 res + dmax; every emitted segment except the
   last one (and the first one, origin -> first sample, which is not in this list) has travelled
   length > 0.9 res; the lengths add up to the whole path (nothing is lost) *)
Theorem filter_bounds res dmax ds : 0 < res -> Forall (fun d => 0 <= d /\ d <= dmax) ds -> ds <> [] ->
  Forall (fun T => T <= (9 # 10) * res + dmax) (segments res ds) /\
  all_but_last (fun T => (9 # 10) * res < T) (segments res ds) /\
  qsum (segments res ds) == qsum ds.
Proof.
  intros Hres Hd Hne. unfold segments, keep_mask.
  destruct (seg_loop_spec res dmax Hres ds 0 res ltac:(lra) ltac:(lra) ltac:(lra) Hd Hne) as (A & B & C & _).
  cbn zeta in *. repeat split; auto. rewrite C. ring.
Qed.

(* the final sample (the requested end of the curve) is always kept, and so is the first one *)
Theorem keeps_last res : forall ds rem, ds <> [] -> last (mask_loop res rem ds) false = true.
Proof.
  induction ds as [|d ds IH]; intros rem Hne; [congruence|]. cbn [mask_loop].
  destruct ds as [|d2 ds]; [reflexivity|].
  assert (Hm : forall r, last (mask_loop res r (d2 :: ds)) false = true) by (intros r; apply IH; discriminate).
  assert (Hn : forall r, mask_loop res r (d2 :: ds) <> []).
  { intros r E. apply (f_equal (@length bool)) in E. rewrite mask_len in E. discriminate. }
  destruct (Qlt_le_dec (rem - d) (res / filter_tolerance_div)).
  - specialize (Hm res). specialize (Hn res). destruct (mask_loop res res (d2 :: ds)); [congruence|exact Hm].
  - specialize (Hm (rem - d)). specialize (Hn (rem - d)). destruct (mask_loop res (rem - d) (d2 :: ds)); [congruence|exact Hm].
Qed.

(* count: between total/(0.9 res + dmax) and total/(0.9 res) + 1 segments *)
Lemma qsum_upper b l : Forall (fun T => T <= b) l -> qsum l <= inject_Z (Z.of_nat (length l)) * b.
Proof.
  induction 1 as [|x l Hx _ IH]; cbn [qsum length]; [change (inject_Z (Z.of_nat 0)) with 0; rewrite Qmult_0_l; apply Qle_refl|].
  rewrite Nat2Z.inj_succ. unfold Z.succ. rewrite inject_Z_plus. change (inject_Z 1) with 1.
  setoid_replace ((inject_Z (Z.of_nat (length l)) + 1) * b) with (inject_Z (Z.of_nat (length l)) * b + b) by ring. lra.
Qed.

Lemma qsum_lower b : 0 <= b -> forall l, all_but_last (fun T => b < T) l -> Forall (fun T => 0 <= T) l ->
  (inject_Z (Z.of_nat (length l)) - 1) * b <= qsum l.
Proof.
  intros Hb. induction l as [|x l IH]; intros Ha Hp; cbn [qsum length]; [change (inject_Z (Z.of_nat 0)) with 0; setoid_replace ((0 - 1) * b) with (- b) by ring; lra|].
  inversion Hp as [|? ? Hx Hp']; subst. destruct l as [|y l].
  - change (inject_Z (Z.of_nat 1)) with 1. setoid_replace ((1 - 1) * b) with 0 by ring. cbn [qsum]. lra.
  - cbn [all_but_last] in Ha. destruct Ha as [Hxb Ha]. specialize (IH Ha Hp').
    rewrite Nat2Z.inj_succ. unfold Z.succ. rewrite inject_Z_plus. change (inject_Z 1) with 1.
    cbn [qsum] in *. set (N := inject_Z (Z.of_nat (length (y :: l)))) in *.
    setoid_replace ((N + 1 - 1) * b) with ((N - 1) * b + b) by ring. lra.
Qed.

Theorem count_bounds res dmax ds : 0 < res -> 0 <= dmax -> Forall (fun d => 0 <= d /\ d <= dmax) ds -> ds <> [] ->
  let n := inject_Z (Z.of_nat (length (segments res ds))) in
  qsum ds <= n * ((9 # 10) * res + dmax) /\ (n - 1) * ((9 # 10) * res) <= qsum ds.
Proof.
  intros Hres Hdm Hd Hne. cbn zeta. destruct (filter_bounds res dmax ds Hres Hd Hne) as (A & B & C).
  rewrite <- C. split.
  - now apply qsum_upper.
  - apply qsum_lower; [lra|exact B|].
    (* segment lengths are non-negative *)
    clear A B C. unfold segments, keep_mask.
    assert (Hgen : forall ds acc rem, 0 <= acc -> Forall (fun d => 0 <= d /\ d <= dmax) ds ->
              Forall (fun T => 0 <= T) (seg_loop acc (mask_loop res rem ds) ds)).
    { clear. induction ds as [|d ds IH]; intros acc rem Ha Hd; [constructor|].
      inversion Hd as [|? ? [Hd0 _] Hd']; subst. cbn [mask_loop]. destruct ds as [|d2 ds].
      - cbn. constructor; [lra|constructor].
      - destruct (Qlt_le_dec (rem - d) (res / filter_tolerance_div)); cbn [seg_loop].
        + constructor; [lra|]. apply IH; [lra|exact Hd'].
        + apply IH; [lra|exact Hd']. }
    apply Hgen; [lra|exact Hd].
Qed.

(* halving the resolution: whatever the two sample sets are (any shape, any sampling), if the finer
   run's sampled polyline is not much shorter than the coarser one's -- T1 (0.45 res + dmax2) < 0.9 res T2,
   which holds as soon as T2 >= T1 and the finer samples are closer than 0.45 res -- then the finer run
   emits at least as many segments *)
Theorem halving_never_fewer res dmax2 ds1 ds2 : 0 < res -> 0 <= dmax2 ->
  Forall (fun d => 0 <= d) ds1 -> ds1 <> [] ->
  Forall (fun d => 0 <= d /\ d <= dmax2) ds2 -> ds2 <> [] ->
  qsum ds1 * ((9 # 10) * (res / 2) + dmax2) < qsum ds2 * ((9 # 10) * res) ->
  (length (segments res ds1) <= length (segments (res / 2) ds2))%nat.
Proof.
  intros Hres Hdm H1 Hn1 H2 Hn2 Hlt.
  assert (Hres2 : 0 < res / 2) by (apply Qlt_shift_div_l; lra).
  (* a bound valid for ds1: take dmax1 = its total *)
  assert (Hb1 : Forall (fun d => 0 <= d /\ d <= qsum ds1) ds1).
  { clear - H1. induction H1 as [|x l Hx Hl IH]; [constructor|]. cbn [qsum]. constructor.
    - split; [exact Hx|]. assert (0 <= qsum l) by (clear - Hl; induction Hl as [|y l Hy _ IH]; cbn [qsum]; lra). lra.
    - eapply Forall_impl; [|exact IH]. cbn beta. intros a [Ha0 Ha]. split; lra. }
  assert (HT1 : 0 <= qsum ds1) by (clear - H1; induction H1 as [|y l Hy _ IH]; cbn [qsum]; lra).
  destruct (count_bounds res (qsum ds1) ds1 Hres HT1 Hb1 Hn1) as [_ L1].
  destruct (count_bounds (res / 2) dmax2 ds2 Hres2 Hdm H2 Hn2) as [U2 _].
  cbn zeta in L1, U2.
  destruct (Nat.le_gt_cases (length (segments res ds1)) (length (segments (res / 2) ds2))) as [Hle|Hgt]; [exact Hle|exfalso].
  apply Nat.le_succ_l in Hgt. apply Nat2Z.inj_le in Hgt. rewrite Nat2Z.inj_succ in Hgt. unfold Z.succ in Hgt.
  rewrite Zle_Qle in Hgt. rewrite inject_Z_plus in Hgt. change (inject_Z 1) with 1 in Hgt.
  set (c1 := inject_Z (Z.of_nat (length (segments res ds1)))) in *.
  set (c2 := inject_Z (Z.of_nat (length (segments (res / 2) ds2)))) in *.
  set (T1 := qsum ds1) in *. set (T2 := qsum ds2) in *.
  set (a := (9 # 10) * res) in *. set (m := (9 # 10) * (res / 2) + dmax2) in *.
  assert (Ha : 0 < a) by (unfold a; lra).
  assert (Hm : 0 < m) by (unfold m; lra).
  assert (Hc2 : 0 <= c2) by (unfold c2; change 0 with (inject_Z 0); rewrite <- Zle_Qle; lia).
  assert (E1 : c2 * a <= T1) by nra.
  assert (E2 : c2 * a * m <= T1 * m) by nra.
  assert (E3 : T2 * a <= c2 * m * a) by nra.
  nra.
Qed.

(* the oversampling count: for a path at least one resolution long, the parameter step corresponds to
   between res/10 and res/9 of path length *)
Theorem sample_spacing len res : 0 < res -> res <= len ->
  let n := inject_Z (nsegments len res) in
  0 < n /\ n * res <= 10 * len /\ 9 * len <= n * res.
Proof.
  intros Hres Hlen. cbn zeta. unfold nsegments, min_samples, oversampling.
  set (q := 10 * len / res).
  assert (Hq : q * res == 10 * len) by (unfold q; field; lra).
  assert (Hq10 : 10 <= q).
  { apply Qle_shift_div_l; [exact Hres|]. lra. }
  assert (Hf : (10 <= Qfloor q)%Z).
  { change 10%Z with (Qfloor 10). apply Qfloor_resp_le. exact Hq10. }
  rewrite Z.max_r by lia.
  pose proof (Qfloor_le q) as Hlo. pose proof (Qlt_floor q) as Hhi.
  rewrite inject_Z_plus in Hhi. change (inject_Z 1) with 1 in Hhi.
  assert (Hn10 : 10 <= inject_Z (Qfloor q)) by (change 10 with (inject_Z 10); rewrite <- Zle_Qle; exact Hf).
  set (n := inject_Z (Qfloor q)) in *.
  repeat split; [lra| |]; nra.
Qed.

(* constant-speed shapes: consecutive samples are at most len/n apart (a chord is not longer than its
   arc), so no emitted segment is longer than 91/90 of the resolution *)
Theorem const_speed_upper len res ds : 0 < res -> res <= len ->
  Forall (fun d => 0 <= d /\ d * inject_Z (nsegments len res) <= len) ds -> ds <> [] ->
  Forall (fun T => T <= (91 # 90) * res) (segments res ds).
Proof.
  intros Hres Hlen Hd Hne. destruct (sample_spacing len res Hres Hlen) as (Hn & _ & H9). cbn zeta in *.
  set (n := inject_Z (nsegments len res)) in *.
  assert (Hd' : Forall (fun d => 0 <= d /\ d <= res / 9) ds).
  { eapply Forall_impl; [|exact Hd]. cbn beta. intros d [H0 H1]. split; [exact H0|].
    apply Qle_shift_div_l; [lra|]. nra. }
  destruct (filter_bounds res (res / 9) ds Hres Hd' Hne) as (A & _ & _).
  eapply Forall_impl; [|exact A]. cbn beta. intros T HT.
  assert (E : (9 # 10) * res + res / 9 == (91 # 90) * res) by field. rewrite <- E. exact HT.
Qed.

(* ---------------- spline control points ---------------- *)
Section SplineControlsThm.
  Variable A : Type.
  Variable eqb : A -> A -> bool.
  Hypothesis eqb_spec : forall a b, eqb a b = true <-> a = b.

  (* full is obtained from short by repeating elements in place *)
  Inductive expands : list A -> list A -> Prop :=
  | ex_nil : expands [] []
  | ex_next x c f : expands c f -> expands (x :: c) (x :: f)
  | ex_rep x c f : expands (x :: c) (x :: f) -> expands (x :: c) (x :: x :: f).

  Lemma controls_go_expands : forall pts lastc, expands (lastc :: controls_go A eqb lastc pts) (lastc :: pts).
  Proof.
    induction pts as [|p pts IH]; intros lastc; cbn [controls_go]; [constructor; constructor|].
    destruct (eqb p lastc) eqn:E.
    - apply eqb_spec in E. subst p. apply ex_rep. apply IH.
    - apply ex_next. apply IH.
  Qed.

  Lemma controls_go_nodup : forall pts lastc,
    match controls_go A eqb lastc pts with x :: _ => x <> lastc | [] => True end /\
    (forall pre a b post, controls_go A eqb lastc pts = pre ++ a :: b :: post -> a <> b).
  Proof.
    induction pts as [|p pts IH]; intros lastc; cbn [controls_go]; [split; [exact I|intros [|? ?] ? ? ? H; discriminate]|].
    destruct (eqb p lastc) eqn:E; [apply IH|].
    assert (Hne : p <> lastc) by (intros ->; assert (eqb lastc lastc = true) by (apply eqb_spec; reflexivity); congruence).
    split; [exact Hne|]. destruct (IH p) as [Hh Ht]. intros pre a b post H. destruct pre as [|x pre]; cbn in H.
    - injection H as <- H. rewrite H in Hh. intros ->. apply Hh. reflexivity.
    - injection H as _ H. apply (Ht pre a b post H).
  Qed.

  (* the interpolant is built on: the current position first, then the given points in their order, every point kept
     (a later return to an earlier point included), only immediate repetitions merged: the given list is exactly the
     control list with some elements repeated in place, and no two neighbouring controls are equal *)
  Theorem spline_controls_spec origin pts :
    hd_error (spline_controls A eqb origin pts) = Some origin /\
    expands (spline_controls A eqb origin pts) (origin :: pts) /\
    (forall pre a b post, spline_controls A eqb origin pts = pre ++ a :: b :: post -> a <> b).
  Proof.
    unfold spline_controls. split; [reflexivity|]. split; [apply controls_go_expands|].
    destruct (controls_go_nodup pts origin) as [Hh Ht]. intros pre a b post H. destruct pre as [|x pre]; cbn in H.
    - injection H as <- H. rewrite H in Hh. intros ->. apply Hh. reflexivity.
    - injection H as _ H. apply (Ht pre a b post H).
  Qed.
End SplineControlsThm.
