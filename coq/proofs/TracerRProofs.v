(* C10: the closed-form shapes over the reals. *)
From Coq Require Import Reals Lra Psatz ZArith Lia.
From GS Require Import model.TracerR.
Open Scope R_scope.

(* ---------- polar coordinates: hypot * (cos, sin) (atan2 y x) = (x, y), for all x y ---------- *)
Lemma polar_pos x y : 0 < x ->
  sqrt (x*x + y*y) * cos (atan (y/x)) = x /\ sqrt (x*x + y*y) * sin (atan (y/x)) = y.
Proof.
  intros Hx.
  rewrite cos_atan, sin_atan. unfold Rsqr.
  assert (H1 : 1 + y / x * (y / x) = (x*x + y*y) / (x*x)) by (field; lra).
  rewrite H1.
  assert (Hxx : 0 < x*x) by nra.
  assert (Hs : 0 <= x*x + y*y) by nra.
  rewrite sqrt_div_alt by exact Hxx.
  assert (Hsx : sqrt (x*x) = x) by (apply sqrt_square; lra).
  rewrite Hsx.
  assert (Hpos : 0 < sqrt (x*x + y*y)) by (apply sqrt_lt_R0; nra).
  split; field; split; lra.
Qed.

Lemma polar x y : hypot x y * cos (atan2 y x) = x /\ hypot x y * sin (atan2 y x) = y.
Proof.
  unfold atan2, hypot.
  destruct (Rlt_dec 0 x) as [Hx|Hx]; [apply polar_pos; exact Hx|].
  destruct (Rlt_dec x 0) as [Hx'|Hx'].
  - assert (Hq : y / x = (- y) / (- x)) by (field; lra).
    destruct (polar_pos (-x) (-y) ltac:(lra)) as [Hc Hs].
    replace ((-x)*(-x) + (-y)*(-y)) with (x*x + y*y) in Hc, Hs by ring.
    rewrite <- Hq in Hc, Hs.
    destruct (Rle_dec 0 y).
    + rewrite cos_plus, sin_plus, cos_PI, sin_PI. split; nra.
    + unfold Rminus. rewrite cos_plus, sin_plus, cos_neg, sin_neg, cos_PI, sin_PI. split; nra.
  - assert (x = 0) by lra. subst x.
    replace (0*0 + y*y) with (Rsqr y) by (unfold Rsqr; ring).
    rewrite sqrt_Rsqr_abs.
    destruct (Rlt_dec 0 y).
    + rewrite cos_PI2, sin_PI2, Rabs_pos_eq by lra. split; ring.
    + destruct (Rlt_dec y 0).
      * rewrite cos_neg, sin_neg, cos_PI2, sin_PI2, Rabs_left by lra. split; ring.
      * assert (y = 0) by lra. subst y. rewrite Rabs_R0, cos_0, sin_0. split; ring.
Qed.

Lemma hypot_nonneg x y : 0 <= hypot x y.
Proof. unfold hypot. apply sqrt_pos. Qed.

Lemma hypot_sqr x y : hypot x y * hypot x y = x * x + y * y.
Proof. unfold hypot. apply sqrt_sqrt. nra. Qed.

(* ---------- range of atan2: (-PI, PI] ---------- *)
Lemma atan_pos z : 0 < z -> 0 < atan z.
Proof. intros H. rewrite <- atan_0. apply atan_increasing. exact H. Qed.
Lemma atan_neg z : z < 0 -> atan z < 0.
Proof. intros H. rewrite <- atan_0. apply atan_increasing. exact H. Qed.

Lemma atan2_range y x : - PI < atan2 y x <= PI.
Proof.
  pose proof PI_RGT_0 as Hpi. unfold atan2.
  destruct (Rlt_dec 0 x) as [Hx|Hx].
  - pose proof (atan_bound (y / x)). lra.
  - destruct (Rlt_dec x 0) as [Hx'|Hx'].
    + destruct (Rle_dec 0 y) as [Hy|Hy].
      * pose proof (atan_bound (y / x)) as Hb.
        destruct (Req_dec y 0) as [E|E].
        -- subst y. replace (0 / x) with 0 by (field; lra). rewrite atan_0. lra.
        -- assert (y / x < 0).
           { unfold Rdiv. assert (/ x < 0) by (apply Rinv_lt_0_compat; exact Hx'). nra. }
           pose proof (atan_neg _ H). lra.
      * pose proof (atan_bound (y / x)) as Hb.
        assert (0 < y / x).
        { unfold Rdiv. assert (/ x < 0) by (apply Rinv_lt_0_compat; exact Hx'). nra. }
        pose proof (atan_pos _ H). lra.
    + destruct (Rlt_dec 0 y); [lra|]. destruct (Rlt_dec y 0); lra.
Qed.

(* ---------- Direction.enforce ---------- *)
(* the enforced sweep has the sign of the direction, is at most one turn, and differs from the raw
   difference by a whole number of turns *)
Lemma enforce_ccw a : - (2 * PI) < a < 2 * PI ->
  0 < enforce CCW a <= 2 * PI /\ (enforce CCW a = a \/ enforce CCW a = a + 2 * PI).
Proof. intros H. unfold enforce. destruct (Rle_dec a 0); split; try lra; auto. Qed.

Lemma enforce_cw a : - (2 * PI) < a < 2 * PI ->
  - (2 * PI) <= enforce CW a < 0 /\ (enforce CW a = a \/ enforce CW a = a - 2 * PI).
Proof. intros H. unfold enforce. destruct (Rle_dec 0 a); split; try lra; auto. Qed.

Definition dsign (d : dir) : R := match d with CW => -1 | CCW => 1 end.

Lemma enforce_spec d a : - (2 * PI) < a < 2 * PI ->
  0 < dsign d * enforce d a <= 2 * PI /\
  exists k : Z, enforce d a = a + 2 * IZR k * PI.
Proof.
  intros H. destruct d; cbn [dsign].
  - destruct (enforce_cw a H) as [Hr [E|E]]; (split; [lra|]); [exists 0%Z|exists (-1)%Z]; rewrite E; simpl; lra.
  - destruct (enforce_ccw a H) as [Hr [E|E]]; (split; [lra|]); [exists 0%Z|exists 1%Z]; rewrite E; simpl; lra.
Qed.

Lemma cos_sin_period_Z x (k : Z) :
  cos (x + 2 * IZR k * PI) = cos x /\ sin (x + 2 * IZR k * PI) = sin x.
Proof.
  destruct (Z_le_gt_dec 0 k) as [Hk|Hk].
  - rewrite <- (Z2Nat.id k Hk), <- INR_IZR_INZ. split; [apply cos_period | apply sin_period].
  - assert (Hk' : (0 <= - k)%Z) by lia.
    pose proof (cos_period (x + 2 * IZR k * PI) (Z.to_nat (- k))) as Hc.
    pose proof (sin_period (x + 2 * IZR k * PI) (Z.to_nat (- k))) as Hs.
    rewrite INR_IZR_INZ, (Z2Nat.id _ Hk'), opp_IZR in Hc, Hs.
    replace (x + 2 * IZR k * PI + 2 * - IZR k * PI) with x in Hc, Hs by ring.
    split; congruence.
Qed.

Lemma diff_range y0 x0 y1 x1 : - (2 * PI) < atan2 y1 x1 - atan2 y0 x0 < 2 * PI.
Proof. pose proof (atan2_range y0 x0). pose proof (atan2_range y1 x1). lra. Qed.

(* ---------- arc / circle ---------- *)
Section ArcThm.
  Variables (d : dir) (ox oy oz tx ty h cx cy : R).
  Notation ax := (arc_x d ox oy tx ty cx cy).
  Notation ay := (arc_y d ox oy tx ty cx cy).
  Notation az := (arc_z oz h).
  Notation A := (arc_total d ox oy tx ty cx cy).
  Notation r := (arc_r ox oy cx cy).
  Notation rt := (arc_rt tx ty cx cy).

  (* starts at the current position *)
  Theorem arc_start : ax 0 = ox /\ ay 0 = oy /\ az 0 = oz.
  Proof.
    unfold arc_x, arc_y, arc_z, arc_angle, arc_r, a_start. rewrite Rmult_0_r, Rplus_0_r.
    destruct (polar (ox - cx) (oy - cy)) as [Hc Hs]. rewrite Hc, Hs. repeat split; lra.
  Qed.

  (* ends on the target: exactly when the two radii are equal, and otherwise off by exactly the
     difference of the radii (the implementation accepts a relative difference of 1e-10) *)
  Theorem arc_end :
    ax 1 - tx = (r - rt) * cos (a_end tx ty cx cy) /\
    ay 1 - ty = (r - rt) * sin (a_end tx ty cx cy) /\ az 1 = oz + h.
  Proof.
    unfold arc_x, arc_y, arc_z, arc_angle, arc_total.
    destruct (enforce_spec d _ (diff_range (oy - cy) (ox - cx) (ty - cy) (tx - cx))) as [_ [k Hk]].
    fold (a_start ox oy cx cy) (a_end tx ty cx cy) in Hk. rewrite Hk.
    replace (a_start ox oy cx cy + (a_end tx ty cx cy - a_start ox oy cx cy + 2 * IZR k * PI) * 1)
      with (a_end tx ty cx cy + 2 * IZR k * PI) by ring.
    destruct (cos_sin_period_Z (a_end tx ty cx cy) k) as [Hpc Hps]. rewrite Hpc, Hps.
    destruct (polar (tx - cx) (ty - cy)) as [Hc Hs]. fold (arc_rt tx ty cx cy) (a_end tx ty cx cy) in Hc, Hs.
    repeat split; nra.
  Qed.

  Corollary arc_end_exact : r = rt -> ax 1 = tx /\ ay 1 = ty /\ az 1 = oz + h.
  Proof. intros E. destruct arc_end as (Hx & Hy & Hz). rewrite E in Hx, Hy. repeat split; lra. Qed.

  Corollary arc_end_error : Rsqr (ax 1 - tx) + Rsqr (ay 1 - ty) = Rsqr (r - rt).
  Proof.
    destruct arc_end as (Hx & Hy & _). rewrite Hx, Hy. unfold Rsqr.
    pose proof (sin2_cos2 (a_end tx ty cx cy)) as H. unfold Rsqr in H.
    set (u := r - rt) in *. set (c := cos (a_end tx ty cx cy)) in *. set (s := sin (a_end tx ty cx cy)) in *.
    replace (u * c * (u * c) + u * s * (u * s)) with (u * u * (s * s + c * c)) by ring. rewrite H. ring.
  Qed.

  (* every point of the curve is at the start radius from the centre *)
  Theorem arc_const_radius th : Rsqr (ax th - cx) + Rsqr (ay th - cy) = Rsqr r.
  Proof.
    unfold arc_x, arc_y, Rsqr. pose proof (sin2_cos2 (arc_angle d ox oy tx ty cx cy th)) as H. unfold Rsqr in H.
    set (c := cos (arc_angle d ox oy tx ty cx cy th)) in *. set (s := sin (arc_angle d ox oy tx ty cx cy th)) in *.
    replace ((cx + r * c - cx) * (cx + r * c - cx) + (cy + r * s - cy) * (cy + r * s - cy)) with (r * r * (s * s + c * c)) by ring.
    rewrite H. ring.
  Qed.

  (* the polar angle is affine in the parameter, advances in the selected direction through a sweep of at
     most one turn, congruent to the angle between start and target *)
  Theorem arc_sweep :
    0 < dsign d * A <= 2 * PI /\
    (exists k : Z, A = a_end tx ty cx cy - a_start ox oy cx cy + 2 * IZR k * PI) /\
    forall th1 th2, th1 < th2 ->
      0 < dsign d * (arc_angle d ox oy tx ty cx cy th2 - arc_angle d ox oy tx ty cx cy th1).
  Proof.
    destruct (enforce_spec d _ (diff_range (oy - cy) (ox - cx) (ty - cy) (tx - cx))) as [Hr Hk].
    fold (a_start ox oy cx cy) (a_end tx ty cx cy) in Hr, Hk. fold A in Hr, Hk.
    repeat split; try lra; [exact Hk|]. intros th1 th2 Hlt. unfold arc_angle. fold A.
    replace (a_start ox oy cx cy + A * th2 - (a_start ox oy cx cy + A * th1)) with (A * (th2 - th1)) by ring.
    destruct d; cbn [dsign] in *; nra.
  Qed.

  (* z is linear in the angle *)
  Theorem arc_z_linear th : A <> 0 ->
    az th = oz + h * (arc_angle d ox oy tx ty cx cy th - a_start ox oy cx cy) / A.
  Proof. intros HA. unfold arc_z, arc_angle. field. exact HA. Qed.
End ArcThm.

(* a circle is the arc whose target is the current position: exactly one full turn *)
Theorem circle_full_turn d ox oy cx cy : arc_total d ox oy ox oy cx cy = full_turn d.
Proof.
  unfold arc_total, a_end, a_start, enforce, full_turn.
  replace (atan2 (oy - cy) (ox - cx) - atan2 (oy - cy) (ox - cx)) with 0 by ring.
  destruct d; [destruct (Rle_dec 0 0)|destruct (Rle_dec 0 0)]; lra.
Qed.

(* ---------- arc_radius ---------- *)
Lemma sin_sign_le_PI B : 0 < B < 2 * PI -> 0 <= sin B -> B <= PI.
Proof. intros [H0 H2] Hs. destruct (Rle_dec B PI) as [|Hn]; [assumption|]. pose proof (sin_lt_0 B ltac:(lra) H2). lra. Qed.
Lemma sin_sign_ge_PI B : 0 < B < 2 * PI -> sin B <= 0 -> PI <= B.
Proof. intros [H0 H2] Hs. destruct (Rle_dec PI B) as [|Hn]; [assumption|]. pose proof (sin_gt_0 B H0 ltac:(lra)). lra. Qed.

Lemma sin_dsign d x : sin (dsign d * x) = dsign d * sin x.
Proof. destruct d; cbn [dsign]; [replace (-1 * x) with (- x) by ring; rewrite sin_neg|replace (1 * x) with x by ring]; ring. Qed.

Section ArcRadiusThm.
  Variables (d : dir) (ox oy tx ty rad : R).
  Notation D := (ar_dist ox oy tx ty).
  Notation Hh := (ar_height ox oy tx ty rad).
  Notation s := (ar_side d rad).
  Notation cx := (ar_cx d ox oy tx ty rad).
  Notation cy := (ar_cy d ox oy tx ty rad).
  Hypothesis HD : 0 < D.
  Hypothesis Hrad : D / 2 <= Rabs rad.

  Let vx := tx - ox.
  Let vy := ty - oy.
  Let k := s * Hh / D.

  Lemma ar_D2 : D * D = vx * vx + vy * vy.
  Proof. unfold ar_dist. apply hypot_sqr. Qed.

  Lemma ar_H2 : Hh * Hh = rad * rad - D * D / 4.
  Proof.
    unfold ar_height. rewrite sqrt_sqrt.
    - assert (Rabs rad * Rabs rad = rad * rad) by (unfold Rabs; destruct (Rcase_abs rad); ring). lra.
    - assert (0 <= D / 2) by lra. nra.
  Qed.

  Lemma ar_s2 : s * s = 1.
  Proof. unfold ar_side. destruct d; destruct (Rlt_dec 0 rad); ring. Qed.

  Lemma ar_k2 : k * k * (D * D) = Hh * Hh.
  Proof. unfold k. pose proof ar_s2. field_simplify; [|lra]. nra. Qed.

  Lemma ar_do : ox - cx = - vx / 2 - k * vy /\ oy - cy = - vy / 2 + k * vx.
  Proof. unfold ar_cx, ar_cy, k, vx, vy. split; field; lra. Qed.
  Lemma ar_dt : tx - cx = vx / 2 - k * vy /\ ty - cy = vy / 2 + k * vx.
  Proof. unfold ar_cx, ar_cy, k, vx, vy. split; field; lra. Qed.

  (* the chosen centre is at distance |radius| from both the start and the target *)
  Theorem arcR_equidistant :
    arc_r ox oy cx cy = Rabs rad /\ arc_rt tx ty cx cy = Rabs rad.
  Proof.
    unfold arc_r, arc_rt, hypot. destruct ar_do as [E1 E2]. destruct ar_dt as [E3 E4]. rewrite E1, E2, E3, E4.
    pose proof ar_D2 as HD2. pose proof ar_H2 as HH2. pose proof ar_k2 as HK2.
    assert (Hsq : rad * rad = Rabs rad * Rabs rad) by (unfold Rabs; destruct (Rcase_abs rad); ring).
    assert (E : forall a, a = rad * rad -> sqrt a = Rabs rad).
    { intros a ->. rewrite Hsq. apply sqrt_square. apply Rabs_pos. }
    split; apply E; nra.
  Qed.

  Lemma ar_cross : (ox - cx) * (ty - cy) - (oy - cy) * (tx - cx) = - (k * (D * D)).
  Proof. destruct ar_do as [E1 E2]. destruct ar_dt as [E3 E4]. rewrite E1, E2, E3, E4, ar_D2. field. Qed.

  Notation A := (arc_total d ox oy tx ty cx cy).

  Lemma ar_rad_pos : 0 < Rabs rad.
  Proof. lra. Qed.

  (* sin of the sweep, scaled: rad^2 sin A = cross (o - c) (t - c) *)
  Lemma ar_sinA : rad * rad * sin A = - (k * (D * D)).
  Proof.
    destruct (enforce_spec d _ (diff_range (oy - cy) (ox - cx) (ty - cy) (tx - cx))) as [_ [z Hz]].
    fold (a_start ox oy cx cy) (a_end tx ty cx cy) in Hz. unfold arc_total. rewrite Hz.
    destruct (cos_sin_period_Z (a_end tx ty cx cy - a_start ox oy cx cy) z) as [_ Hs]. rewrite Hs.
    rewrite sin_minus.
    destruct (polar (ox - cx) (oy - cy)) as [Hc0 Hs0]. destruct (polar (tx - cx) (ty - cy)) as [Hc1 Hs1].
    destruct arcR_equidistant as [Er Et]. unfold arc_r in Er. unfold arc_rt in Et. rewrite Er in Hc0, Hs0. rewrite Et in Hc1, Hs1.
    fold (a_start ox oy cx cy) in Hc0, Hs0. fold (a_end tx ty cx cy) in Hc1, Hs1.
    rewrite <- ar_cross.
    assert (Hsq : rad * rad = Rabs rad * Rabs rad) by (unfold Rabs; destruct (Rcase_abs rad); ring).
    rewrite Hsq, <- Hc0, <- Hs0, <- Hc1, <- Hs1. ring.
  Qed.

  Lemma ar_not_full : dsign d * A < 2 * PI.
  Proof.
    destruct (arc_sweep d ox oy tx ty cx cy) as [[H0 H2] _].
    destruct (Rlt_dec (dsign d * A) (2 * PI)) as [|Hn]; [assumption|exfalso].
    assert (HA : dsign d * A = 2 * PI) by lra.
    pose proof (diff_range (oy - cy) (ox - cx) (ty - cy) (tx - cx)) as Hdr.
    fold (a_start ox oy cx cy) (a_end tx ty cx cy) in Hdr.
    assert (Hdiff : a_end tx ty cx cy = a_start ox oy cx cy).
    { unfold arc_total in HA. destruct d; cbn [dsign] in HA.
      - destruct (enforce_cw _ Hdr) as [_ [E|E]]; fold (a_start ox oy cx cy) (a_end tx ty cx cy) in E; rewrite E in HA; lra.
      - destruct (enforce_ccw _ Hdr) as [_ [E|E]]; fold (a_start ox oy cx cy) (a_end tx ty cx cy) in E; rewrite E in HA; lra. }
    destruct (polar (ox - cx) (oy - cy)) as [Hc0 Hs0]. destruct (polar (tx - cx) (ty - cy)) as [Hc1 Hs1].
    destruct arcR_equidistant as [Er Et]. unfold arc_r in Er. unfold arc_rt in Et. rewrite Er in Hc0, Hs0. rewrite Et in Hc1, Hs1.
    fold (a_start ox oy cx cy) in Hc0, Hs0. fold (a_end tx ty cx cy) in Hc1, Hs1. rewrite Hdiff in Hc1, Hs1.
    assert (Evx : vx = 0) by (unfold vx; lra). assert (Evy : vy = 0) by (unfold vy; lra).
    pose proof ar_D2 as HD2. rewrite Evx, Evy in HD2. nra.
  Qed.

  Lemma ar_dsign_side : dsign d * (- s) = if Rlt_dec 0 rad then 1 else -1.
  Proof. unfold ar_side. destruct d; cbn [dsign]; destruct (Rlt_dec 0 rad); ring. Qed.

  (* the sign of the radius selects the minor (positive) or the major (negative) arc *)
  Theorem arcR_minor_major :
    (0 < rad -> dsign d * A <= PI) /\ (rad < 0 -> PI <= dsign d * A).
  Proof.
    destruct (arc_sweep d ox oy tx ty cx cy) as [[H0 _] _]. pose proof ar_not_full as H2.
    pose proof ar_sinA as HS. pose proof ar_dsign_side as Hds.
    assert (HH : 0 <= Hh) by (unfold ar_height; apply sqrt_pos).
    assert (Hk : k * (D * D) = s * Hh * D) by (unfold k; field; lra).
    assert (HsB : rad * rad * sin (dsign d * A) = dsign d * (- s) * (Hh * D)).
    { rewrite sin_dsign. replace (rad * rad * (dsign d * sin A)) with (dsign d * (rad * rad * sin A)) by ring.
      rewrite HS, Hk. ring. }
    assert (HHD : 0 <= Hh * D) by nra.
    split; intros Hr.
    - destruct (Rlt_dec 0 rad) as [_|]; [|lra]. rewrite Hds in HsB.
      apply sin_sign_le_PI; [lra|]. assert (0 < rad * rad) by nra.
      destruct (Rle_dec 0 (sin (dsign d * A))) as [|Hn]; [assumption|]. assert (sin (dsign d * A) < 0) by lra. nra.
    - destruct (Rlt_dec 0 rad) as [|_]; [lra|]. rewrite Hds in HsB.
      apply sin_sign_ge_PI; [lra|]. assert (0 < rad * rad) by nra.
      destruct (Rle_dec (sin (dsign d * A)) 0) as [|Hn]; [assumption|]. assert (0 < sin (dsign d * A)) by lra. nra.
  Qed.
End ArcRadiusThm.

(* ---------- helix / spiral / thread ---------- *)
Lemma full_turn_dsign d : full_turn d = dsign d * (2 * PI).
Proof. destruct d; cbn; ring. Qed.

Section HelixThm.
  Variables (d : dir) (ox oy tx ty cx cy : R) (turns : Z).
  Hypothesis Hturns : (1 <= turns)%Z.
  Notation hxx := (hx_x d ox oy tx ty cx cy turns).
  Notation hyy := (hx_y d ox oy tx ty cx cy turns).
  Notation T := (hx_total d ox oy tx ty cx cy turns).
  Notation rad := (hx_radius ox oy tx ty cx cy).

  Theorem helix_start : hxx 0 = ox /\ hyy 0 = oy.
  Proof.
    unfold hx_x, hx_y, hx_radius, hx_angle. rewrite !Rmult_0_r, !Rplus_0_r.
    destruct (polar (ox - cx) (oy - cy)) as [Hc Hs]. unfold arc_r, a_start. rewrite Hc, Hs. split; lra.
  Qed.

  Lemma helix_total_cong : exists k : Z, T = a_end tx ty cx cy - a_start ox oy cx cy + 2 * IZR k * PI.
  Proof.
    destruct (enforce_spec d _ (diff_range (oy - cy) (ox - cx) (ty - cy) (tx - cx))) as [_ [k Hk]].
    fold (a_start ox oy cx cy) (a_end tx ty cx cy) in Hk. unfold hx_total. rewrite Hk.
    destruct d; cbn [full_turn].
    - exists (k - (turns - 1))%Z. rewrite !minus_IZR. simpl. ring.
    - exists (k + (turns - 1))%Z. rewrite plus_IZR, minus_IZR. simpl. ring.
  Qed.

  (* ends exactly on the target, whatever the two radii are *)
  Theorem helix_end : hxx 1 = tx /\ hyy 1 = ty.
  Proof.
    unfold hx_x, hx_y, hx_radius, hx_angle. destruct helix_total_cong as [k Hk]. rewrite Hk.
    replace (a_start ox oy cx cy + (a_end tx ty cx cy - a_start ox oy cx cy + 2 * IZR k * PI) * 1)
      with (a_end tx ty cx cy + 2 * IZR k * PI) by ring.
    destruct (cos_sin_period_Z (a_end tx ty cx cy) k) as [Hpc Hps]. rewrite Hpc, Hps.
    destruct (polar (tx - cx) (ty - cy)) as [Hc Hs]. fold (arc_rt tx ty cx cy) (a_end tx ty cx cy) in Hc, Hs.
    replace (arc_r ox oy cx cy + (arc_rt tx ty cx cy - arc_r ox oy cx cy) * 1) with (arc_rt tx ty cx cy) by ring.
    split; lra.
  Qed.

  (* the distance from the centre varies linearly with the parameter from |o - c| to |t - c| *)
  Theorem helix_radius th : Rsqr (hxx th - cx) + Rsqr (hyy th - cy) = Rsqr (rad th) /\
    rad th = (1 - th) * arc_r ox oy cx cy + th * arc_rt tx ty cx cy.
  Proof.
    split; [|unfold hx_radius; ring].
    unfold hx_x, hx_y, Rsqr. pose proof (sin2_cos2 (hx_angle d ox oy tx ty cx cy turns th)) as H. unfold Rsqr in H.
    set (c := cos (hx_angle d ox oy tx ty cx cy turns th)) in *. set (s := sin (hx_angle d ox oy tx ty cx cy turns th)) in *.
    replace ((cx + rad th * c - cx) * (cx + rad th * c - cx) + (cy + rad th * s - cy) * (cy + rad th * s - cy))
      with (rad th * rad th * (s * s + c * c)) by ring.
    rewrite H. ring.
  Qed.

  (* the requested number of turns: more than turns - 1 and at most turns full revolutions, in the selected sense *)
  Theorem helix_turns : 2 * PI * (IZR turns - 1) < dsign d * T <= 2 * PI * IZR turns.
  Proof.
    destruct (enforce_spec d _ (diff_range (oy - cy) (ox - cx) (ty - cy) (tx - cx))) as [Hr _].
    unfold hx_total. rewrite full_turn_dsign.
    assert (Hd2 : dsign d * dsign d = 1) by (destruct d; cbn; ring).
    fold (a_start ox oy cx cy) (a_end tx ty cx cy) in Hr.
    set (E := enforce d (a_end tx ty cx cy - a_start ox oy cx cy)) in *.
    replace (dsign d * (E + dsign d * (2 * PI) * (IZR turns - 1)))
      with (dsign d * E + (dsign d * dsign d) * (2 * PI * (IZR turns - 1))) by ring.
    rewrite Hd2. lra.
  Qed.

  Theorem helix_angle_monotone th1 th2 : th1 < th2 ->
    0 < dsign d * (hx_angle d ox oy tx ty cx cy turns th2 - hx_angle d ox oy tx ty cx cy turns th1).
  Proof.
    intros Hlt. pose proof helix_turns as [Hlo _]. unfold hx_angle.
    assert (0 <= IZR turns - 1) by (apply IZR_le in Hturns; lra). pose proof PI_RGT_0.
    replace (a_start ox oy cx cy + T * th2 - (a_start ox oy cx cy + T * th1)) with (T * (th2 - th1)) by ring.
    assert (0 < dsign d * T) by nra. nra.
  Qed.
End HelixThm.

(* spiral = helix about the current position: the radius grows linearly from 0 *)
Theorem spiral_radius ox oy tx ty th : hx_radius ox oy tx ty ox oy th = th * arc_rt tx ty ox oy.
Proof.
  unfold hx_radius, arc_r, hypot. replace ((ox - ox) * (ox - ox) + (oy - oy) * (oy - oy)) with 0 by ring. rewrite sqrt_0. ring.
Qed.

(* thread = helix about the midpoint of start and target: the radius is constant *)
Theorem thread_radius ox oy tx ty th :
  hx_radius ox oy tx ty (th_cx ox tx) (th_cy oy ty) th = arc_r ox oy (th_cx ox tx) (th_cy oy ty).
Proof.
  unfold hx_radius. assert (E : arc_rt tx ty (th_cx ox tx) (th_cy oy ty) = arc_r ox oy (th_cx ox tx) (th_cy oy ty)).
  { unfold arc_rt, arc_r, hypot, th_cx, th_cy. f_equal. field. }
  rewrite E. ring.
Qed.

(* ---------- branch lemmas: used by the generated, interval-certified sample files ---------- *)
Lemma atan2_xpos y x : 0 < x -> atan2 y x = atan (y / x).
Proof. intros H. unfold atan2. destruct (Rlt_dec 0 x); [reflexivity|lra]. Qed.
Lemma atan2_xneg_ynonneg y x : x < 0 -> 0 <= y -> atan2 y x = atan (y / x) + PI.
Proof. intros H Hy. unfold atan2. destruct (Rlt_dec 0 x); [lra|]. destruct (Rlt_dec x 0); [|lra]. destruct (Rle_dec 0 y); [reflexivity|lra]. Qed.
Lemma atan2_xneg_yneg y x : x < 0 -> y < 0 -> atan2 y x = atan (y / x) - PI.
Proof. intros H Hy. unfold atan2. destruct (Rlt_dec 0 x); [lra|]. destruct (Rlt_dec x 0); [|lra]. destruct (Rle_dec 0 y); [lra|reflexivity]. Qed.
Lemma atan2_x0_ypos y : 0 < y -> atan2 y 0 = PI / 2.
Proof. intros H. unfold atan2. destruct (Rlt_dec 0 0); [lra|]. destruct (Rlt_dec 0 y); [reflexivity|lra]. Qed.
Lemma atan2_x0_yneg y : y < 0 -> atan2 y 0 = - (PI / 2).
Proof. intros H. unfold atan2. destruct (Rlt_dec 0 0); [lra|]. destruct (Rlt_dec 0 y); [lra|]. destruct (Rlt_dec y 0); [reflexivity|lra]. Qed.
Lemma atan2_00 : atan2 0 0 = 0.
Proof. unfold atan2. destruct (Rlt_dec 0 0); [lra|]. destruct (Rlt_dec 0 0); lra. Qed.

Lemma enforce_ccw_keep a : 0 < a -> enforce CCW a = a.
Proof. intros H. unfold enforce. destruct (Rle_dec a 0); lra. Qed.
Lemma enforce_ccw_flip a : a <= 0 -> enforce CCW a = a + 2 * PI.
Proof. intros H. unfold enforce. destruct (Rle_dec a 0); lra. Qed.
Lemma enforce_cw_keep a : a < 0 -> enforce CW a = a.
Proof. intros H. unfold enforce. destruct (Rle_dec 0 a); lra. Qed.
Lemma enforce_cw_flip a : 0 <= a -> enforce CW a = a - 2 * PI.
Proof. intros H. unfold enforce. destruct (Rle_dec 0 a); lra. Qed.
Lemma atan2_xzero_ypos y x : x = 0 -> 0 < y -> atan2 y x = PI / 2.
Proof. intros -> H. apply atan2_x0_ypos. exact H. Qed.
Lemma atan2_xzero_yneg y x : x = 0 -> y < 0 -> atan2 y x = - (PI / 2).
Proof. intros -> H. apply atan2_x0_yneg. exact H. Qed.
Lemma atan2_zero_zero y x : x = 0 -> y = 0 -> atan2 y x = 0.
Proof. intros -> ->. apply atan2_00. Qed.
Lemma ar_side_cw_pos rad : 0 < rad -> ar_side CW rad = 1.
Proof. intros H. unfold ar_side. destruct (Rlt_dec 0 rad); lra. Qed.
Lemma ar_side_cw_neg rad : rad <= 0 -> ar_side CW rad = -1.
Proof. intros H. unfold ar_side. destruct (Rlt_dec 0 rad); lra. Qed.
Lemma ar_side_ccw_pos rad : 0 < rad -> ar_side CCW rad = -1.
Proof. intros H. unfold ar_side. destruct (Rlt_dec 0 rad); lra. Qed.
Lemma ar_side_ccw_neg rad : rad <= 0 -> ar_side CCW rad = 1.
Proof. intros H. unfold ar_side. destruct (Rlt_dec 0 rad); lra. Qed.

(* helix / spiral / thread: z is linear in the swept angle as well (z uses the same arc_z) *)
Theorem helix_z_linear d ox oy oz tx ty h cx cy turns th : hx_total d ox oy tx ty cx cy turns <> 0 ->
  arc_z oz h th = oz + h * (hx_angle d ox oy tx ty cx cy turns th - a_start ox oy cx cy) / hx_total d ox oy tx ty cx cy turns.
Proof. intros HT. unfold arc_z, hx_angle. field. exact HT. Qed.
