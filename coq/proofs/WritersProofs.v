(* C14: every writer receives every line once, in order; file content after flush/teardown. *)
From Coq Require Import List NArith Bool PeanoNat Lia.
From GS Require Import model.Writers.
Import ListNotations.

Lemma lookup_update id i f l :
  lookup id (update i f l) = if Nat.eqb i id then option_map f (lookup id l) else lookup id l.
Proof.
  induction l as [|[j w] l IH]; cbn [update lookup]; [destruct (Nat.eqb i id); reflexivity|].
  destruct (Nat.eqb_spec j i) as [->|Hji].
  - cbn [lookup]. destruct (Nat.eqb_spec i id) as [->|Hne]; [reflexivity|]. reflexivity.
  - cbn [lookup]. destruct (Nat.eqb_spec j id) as [->|Hjd].
    + destruct (Nat.eqb_spec i id) as [->|]; [congruence|reflexivity].
    + exact IH.
Qed.

Lemma mem_in id l : mem id l = true <-> In id l.
Proof.
  unfold mem. rewrite existsb_exists. split.
  - intros (x & Hx & E). apply Nat.eqb_eq in E. now subst.
  - intros H. exists id. split; [exact H|apply Nat.eqb_refl].
Qed.

Lemma lookup_apply_all f : forall ids l id, NoDup ids ->
  lookup id (apply_all f ids l) = if mem id ids then option_map f (lookup id l) else lookup id l.
Proof.
  unfold apply_all. induction ids as [|i ids IH]; intros l id Hn; cbn [fold_left]; [reflexivity|].
  inversion Hn as [|? ? Hni Hn']; subst. rewrite IH by exact Hn'. rewrite lookup_update.
  unfold mem. cbn [existsb]. rewrite (Nat.eqb_sym id i).
  destruct (Nat.eqb_spec i id) as [->|Hne]; cbn [orb].
  - destruct (existsb (Nat.eqb id) ids) eqn:E; [|reflexivity].
    exfalso. apply Hni. now apply mem_in.
  - reflexivity.
Qed.

Definition log_of (id : nat) (c : core) : list bytes :=
  match lookup id (ws c) with Some w => w_log w | None => [] end.

Definition Inv (c : core) : Prop := NoDup (reg c) /\ forall id, In id (reg c) -> lookup id (ws c) <> None.

Lemma lookup_app_none id l k : lookup id l = None -> lookup id (l ++ [(id, k)]) = Some k.
Proof. induction l as [|[j w] l IH]; cbn; [now rewrite Nat.eqb_refl|]. destruct (Nat.eqb j id); [discriminate|exact IH]. Qed.
Lemma lookup_app_some id l x w : lookup id l = Some w -> lookup id (l ++ x) = Some w.
Proof. induction l as [|[j w'] l IH]; cbn; [discriminate|]. destruct (Nat.eqb j id); auto. Qed.
Lemma lookup_app_other id i l k : i <> id -> lookup id (l ++ [(i, k)]) = lookup id l.
Proof.
  intros H. induction l as [|[j w'] l IH]; cbn; [destruct (Nat.eqb_spec i id); congruence|].
  destruct (Nat.eqb j id); auto.
Qed.

Lemma NoDup_snoc {A} (l : list A) k : NoDup l -> ~ In k l -> NoDup (l ++ [k]).
Proof.
  induction l as [|a l IH]; cbn; intros Hn Hk; [repeat constructor; auto|].
  inversion Hn as [|? ? Ha Hl]; subst. constructor.
  - intros Hin. apply in_app_or in Hin as [Hin|[->|[]]]; [contradiction|]. apply Hk. now left.
  - apply IH; [exact Hl|]. intros Hin. apply Hk. now right.
Qed.

Lemma NoDup_filter {A} (f : A -> bool) l : NoDup l -> NoDup (filter f l).
Proof.
  induction 1 as [|a l Ha Hl IH]; cbn; [constructor|]. destruct (f a); [|exact IH].
  constructor; [|exact IH]. intros Hin. apply filter_In in Hin. tauto.
Qed.

Lemma step_inv c o : Inv c -> Inv (step c o).
Proof.
  intros [Hn Hl]. destruct o; cbn [step].
  - destruct (mem id (reg c)) eqn:Em; cbn [reg ws].
    + split; [exact Hn|]. intros i Hi. specialize (Hl i Hi). destruct (lookup id (ws c)); [exact Hl|]. cbn [ws reg] in *.
      destruct (lookup i (ws c)) eqn:E; [|congruence]. erewrite lookup_app_some by eassumption. discriminate.
    + split.
      * apply NoDup_snoc; [exact Hn|]. intros Hin. apply mem_in in Hin. congruence.
      * intros i Hi. apply in_app_or in Hi as [Hi|[<-|[]]].
        -- specialize (Hl i Hi). destruct (lookup id (ws c)); [exact Hl|]. cbn [ws reg] in *.
           destruct (lookup i (ws c)) eqn:E; [|congruence]. erewrite lookup_app_some by eassumption. discriminate.
        -- destruct (lookup id (ws c)) eqn:E; cbn [ws reg] in *; [rewrite E; discriminate|]. rewrite lookup_app_none by exact E. discriminate.
  - split; [now apply NoDup_filter|]. cbn [reg ws]. intros i Hi. apply filter_In in Hi. apply Hl. tauto.
  - split; [exact Hn|]. cbn [reg ws]. intros i Hi. rewrite lookup_apply_all by exact Hn.
    specialize (Hl i Hi). destruct (mem i (reg c)); destruct (lookup i (ws c)); cbn; congruence.
  - split; [exact Hn|]. cbn [reg ws]. intros i Hi. rewrite lookup_apply_all by exact Hn.
    specialize (Hl i Hi). destruct (mem i (reg c)); destruct (lookup i (ws c)); cbn; congruence.
  - split; [constructor|]. cbn. intros i [].
Qed.

Lemma wwrite_log w l : w_log (wwrite w l) = w_log w ++ [l].
Proof. unfold wwrite, connect. destruct (w_open w); [reflexivity|]. destruct (w_kind w); reflexivity. Qed.
Lemma wflush_log w : w_log (wflush w) = w_log w.
Proof. unfold wflush. destruct (w_open w); reflexivity. Qed.

Lemma mem_filter id i l : mem id (filter (fun j => negb (Nat.eqb j i)) l) = mem id l && negb (Nat.eqb i id).
Proof.
  unfold mem. induction l as [|a l IH]; cbn [filter existsb]; [reflexivity|].
  destruct (Nat.eqb_spec a i) as [->|Hai]; cbn [negb].
  - rewrite IH. destruct (Nat.eqb_spec id i) as [->|Hne].
    + rewrite Nat.eqb_refl. cbn. now rewrite andb_false_r.
    + cbn [orb]. reflexivity.
  - cbn [existsb]. rewrite IH. destruct (Nat.eqb_spec id a) as [->|Hne]; cbn [orb]; [|reflexivity].
    destruct (Nat.eqb_spec i a); [congruence|]. reflexivity.
Qed.

(* every writer's log grows by exactly the lines emitted while it is registered *)
Theorem delivery_from ops : forall c id, Inv c ->
  log_of id (fold_left step ops c) = log_of id c ++ expected id (mem id (reg c)) ops.
Proof.
  induction ops as [|o ops IH]; intros c id HI; cbn [fold_left expected]; [now rewrite app_nil_r|].
  rewrite (IH (step c o) id (step_inv c o HI)). destruct HI as [Hn Hl]. destruct o; cbn [step reg ws expected].
  - (* AddWriter *)
    assert (Hlog : log_of id (if mem id0 (reg c)
                    then mkcore (reg c) (match lookup id0 (ws c) with Some _ => ws c | None => ws c ++ [(id0, fresh k)] end)
                    else mkcore (reg c ++ [id0]) (match lookup id0 (ws c) with Some _ => ws c | None => ws c ++ [(id0, fresh k)] end))
                   = log_of id c).
    { unfold log_of. destruct (mem id0 (reg c)); cbn [ws]; destruct (lookup id0 (ws c)) eqn:E; try reflexivity;
        (destruct (Nat.eqb_spec id0 id) as [->|Hne];
         [rewrite E, (lookup_app_none _ _ _ E); reflexivity|rewrite lookup_app_other by exact Hne; reflexivity]). }
    rewrite Hlog. f_equal. f_equal.
    destruct (mem id0 (reg c)) eqn:Em; cbn [reg].
    + destruct (Nat.eqb_spec id0 id) as [->|Hne]; [rewrite Em; reflexivity|now rewrite orb_false_r].
    + unfold mem. rewrite existsb_app. cbn [existsb]. rewrite orb_false_r, (Nat.eqb_sym id id0). reflexivity.
  - (* RemoveWriter *)
    unfold log_of. cbn [ws]. f_equal. f_equal. apply mem_filter.
  - (* Emit *)
    unfold log_of. cbn [ws]. rewrite lookup_apply_all by exact Hn.
    destruct (mem id (reg c)) eqn:Em.
    + apply mem_in in Em. specialize (Hl id Em). destruct (lookup id (ws c)) as [w|]; [|congruence].
      cbn [option_map]. rewrite wwrite_log, <- app_assoc. reflexivity.
    + destruct (lookup id (ws c)); reflexivity.
  - (* Flush *)
    unfold log_of. cbn [ws]. rewrite lookup_apply_all by exact Hn.
    destruct (mem id (reg c)); destruct (lookup id (ws c)); cbn [option_map]; rewrite ?wflush_log; reflexivity.
  - (* Teardown *)
    unfold log_of. cbn [ws]. rewrite lookup_apply_all by exact Hn.
    destruct (mem id (reg c)); destruct (lookup id (ws c)); cbn; reflexivity.
Qed.

Lemma Inv0 : Inv core0. Proof. split; [constructor|intros i []]. Qed.

Theorem delivery ops id : log_of id (run ops) = expected id false ops.
Proof. unfold run. rewrite (delivery_from ops core0 id Inv0). reflexivity. Qed.

(* ---------------------------------------------------------------- file content *)
Definition WInv (w : wst) : Prop :=
  w_content w = concat (w_epoch w) /\ (w_open w = false -> w_durable w = w_content w) /\
  (w_kind w <> KPath -> w_durable w = w_content w).

Lemma WInv_fresh k : WInv (fresh k). Proof. repeat split. Qed.
Lemma WInv_write w l : WInv w -> WInv (wwrite w l).
Proof.
  intros (A & B & C). unfold wwrite, connect. destruct (w_open w) eqn:Eo; cbn.
  - repeat split; cbn; try discriminate.
    + rewrite A, concat_app. cbn. now rewrite app_nil_r.
    + intros Hk. destruct (w_kind w); congruence.
  - destruct (w_kind w) eqn:Ek; cbn; repeat split; cbn; try discriminate; try congruence;
      try (rewrite A, concat_app; cbn; now rewrite app_nil_r); try (now rewrite app_nil_r).
Qed.
Lemma WInv_flush w : WInv w -> WInv (wflush w).
Proof. intros (A & B & C). unfold wflush. destruct (w_open w) eqn:E; [|repeat split; auto]. repeat split; cbn; auto. Qed.
Lemma WInv_disconnect w : WInv w -> WInv (wdisconnect w).
Proof.
  intros (A & B & C). unfold wdisconnect. repeat split; cbn; auto.
  - intros _. destruct (w_open w) eqn:E; auto.
  - intros Hk. destruct (w_open w) eqn:E; auto.
Qed.

Definition AllW (c : core) : Prop := forall id w, lookup id (ws c) = Some w -> WInv w.

Lemma lookup_app_inv id l k w : lookup id (l ++ [k]) = Some w -> lookup id l = Some w \/ (lookup id l = None /\ k = (fst k, w)).
Proof.
  induction l as [|[j w'] l IH]; cbn.
  - destruct k as [i k]. cbn. destruct (Nat.eqb i id); [intros H; injection H as ->; auto|discriminate].
  - destruct (Nat.eqb j id); auto.
Qed.

Lemma step_allw c o : Inv c -> AllW c -> AllW (step c o).
Proof.
  intros [Hn Hl] HA. destruct o; cbn [step]; intros i w Hw.
  - assert (Hws : lookup i (match lookup id (ws c) with Some _ => ws c | None => ws c ++ [(id, fresh k)] end) = Some w)
      by (destruct (mem id (reg c)); exact Hw).
    destruct (lookup id (ws c)); [now apply (HA i)|].
    apply lookup_app_inv in Hws as [H|[_ H]]; [now apply (HA i)|]. cbn in H. injection H as <-. apply WInv_fresh.
  - now apply (HA i).
  - cbn [ws] in Hw. rewrite lookup_apply_all in Hw by exact Hn.
    destruct (mem i (reg c)); destruct (lookup i (ws c)) as [w0|] eqn:E; cbn in Hw; try discriminate;
      injection Hw as <-; [apply WInv_write|]; now apply (HA i).
  - cbn [ws] in Hw. rewrite lookup_apply_all in Hw by exact Hn.
    destruct (mem i (reg c)); destruct (lookup i (ws c)) as [w0|] eqn:E; cbn in Hw; try discriminate;
      injection Hw as <-; [apply WInv_flush|]; now apply (HA i).
  - cbn [ws] in Hw. rewrite lookup_apply_all in Hw by exact Hn.
    destruct (mem i (reg c)); destruct (lookup i (ws c)) as [w0|] eqn:E; cbn in Hw; try discriminate;
      injection Hw as <-; [apply WInv_disconnect|]; now apply (HA i).
Qed.

Lemma run_invs ops : forall c, Inv c -> AllW c -> Inv (fold_left step ops c) /\ AllW (fold_left step ops c).
Proof.
  induction ops as [|o ops IH]; intros c HI HA; cbn [fold_left]; [auto|].
  apply IH; [now apply step_inv|now apply step_allw].
Qed.

(* after flush(): every registered, open writer's visible content is the concatenation of the lines
   it received since it was (re)connected *)
Theorem flush_content ops id w : let c := step (run ops) Flush in
  In id (reg c) -> lookup id (ws c) = Some w -> w_open w = true -> w_durable w = concat (w_epoch w).
Proof.
  cbn zeta. destruct (run_invs ops core0 Inv0) as [HI HA]; [intros i w0 H; cbn in H; discriminate|].
  fold (run ops) in *. cbn [step reg ws]. intros Hin Hw Ho. destruct HI as [Hn Hl].
  rewrite lookup_apply_all in Hw by exact Hn. apply mem_in in Hin. rewrite Hin in Hw.
  destruct (lookup id (ws (run ops))) as [w0|] eqn:E; [|discriminate]. cbn in Hw. injection Hw as <-.
  destruct (HA id w0 E) as (A & _). unfold wflush in *. destruct (w_open w0) eqn:Eo; [cbn; exact A|congruence].
Qed.

(* after teardown(): no writer is registered; every writer that was registered is disconnected and
   its visible content is the concatenation of the lines of its last connection *)
Theorem teardown_spec ops id w : let c0 := run ops in let c := step c0 Teardown in
  reg c = [] /\
  (In id (reg c0) -> lookup id (ws c) = Some w ->
     w_open w = false /\ w_durable w = concat (w_epoch w) /\
     exists w0, lookup id (ws c0) = Some w0 /\ w_disconnects w = S (w_disconnects w0)).
Proof.
  cbn zeta. split; [reflexivity|]. destruct (run_invs ops core0 Inv0) as [HI HA]; [intros i w0 H; cbn in H; discriminate|].
  fold (run ops) in *. cbn [step reg ws]. intros Hin Hw. destruct HI as [Hn Hl].
  rewrite lookup_apply_all in Hw by exact Hn. apply mem_in in Hin. rewrite Hin in Hw.
  destruct (lookup id (ws (run ops))) as [w0|] eqn:E; [|discriminate]. cbn in Hw. injection Hw as <-.
  destruct (HA id w0 E) as (A & B & C). split; [reflexivity|]. split.
  - unfold wdisconnect. cbn. destruct (w_open w0) eqn:Eo; [exact A|]. rewrite (B eq_refl). exact A.
  - exists w0. split; reflexivity.
Qed.
