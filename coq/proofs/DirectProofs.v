(* C16: order, synchrony from a quiescent start, error surfacing, quiescence when idle, and the stale-ok witness. *)
From Coq Require Import ZArith Bool List Lia.
From GS Require Import model.Direct.
Import ListNotations.

Section Proofs.
  Variable S : Type.
  Notation st := (st S).

  Definition is_term (x : line) : bool := match x with LOk | LErr => true | _ => false end.
  Definition nterm (l : list line) : nat := length (filter is_term l).
  Lemma nterm_app a b : nterm (a ++ b) = (nterm a + nterm b)%nat.
  Proof. unfold nterm. rewrite filter_app, app_length. reflexivity. Qed.

  Lemma skipn_cons_nth {A} (l : list A) : forall r x rest, skipn r l = x :: rest -> firstn (Datatypes.S r) l = firstn r l ++ [x] /\ skipn (Datatypes.S r) l = rest.
  Proof.
    induction l as [|y l IH]; intros [|r] x rest H; cbn in *; try discriminate.
    - injection H as -> ->. split; reflexivity.
    - destruct (IH r x rest H) as [HA HB]. split; [f_equal; exact HA|exact HB].
  Qed.

  (* ---------------- order: exactly once, in call order, unmodified ---------------- *)
  Record OInv (stmts : list S) (s : st) : Prop := {
    o_todo : todo S s = skipn (length (outcomes S s)) stmts;
    o_calls : calls S s = (length (outcomes S s) + match ph S s with Idle => 0 | Waiting => 1 end)%nat;
    o_recv : received S s ++ queue S s = firstn (calls S s) stmts
  }.

  Lemma oinv_init stmts k : OInv stmts (init S stmts k).
  Proof. constructor; reflexivity. Qed.

  Lemma oinv_step stmts l s s' : OInv stmts s -> step S l s = Some s' -> OInv stmts s'.
  Proof.
    intros [Ht Hc Hr] H. destruct s as [td p a sd q dp fd rc oc tm cl sp te]. cbn in *.
    destruct l; cbn in H.
    - destruct p; [|discriminate]. destruct td as [|x rest]; [discriminate|]. injection H as <-. cbn.
      symmetry in Ht. destruct (skipn_cons_nth _ _ _ _ Ht) as [A B].
      constructor; cbn; auto; try lia. rewrite app_assoc, Hr. subst cl. rewrite Nat.add_0_r. symmetry. exact A.
    - destruct p; [discriminate|]. destruct a; [|discriminate]. destruct td as [|x rest]; [discriminate|]. injection H as <-. cbn.
      symmetry in Ht. destruct (skipn_cons_nth _ _ _ _ Ht) as [A B].
      constructor; cbn; rewrite ?app_length; cbn.
      + rewrite Nat.add_1_r. symmetry. exact B.
      + lia.
      + exact Hr.
    - destruct q as [|x rest]; [discriminate|]. injection H as <-. constructor; cbn; auto. rewrite <- app_assoc. exact Hr.
    - destruct dp as [|x rest]; [discriminate|]. injection H as <-. constructor; cbn; auto.
    - injection H as <-. constructor; cbn; auto.
    - injection H as <-. constructor; cbn; auto.
    - destruct fd as [|[| | |] rest]; [discriminate| | | |]; injection H as <-; constructor; cbn; auto.
  Qed.

  (* in every reachable state, whatever the device does: what the device has received, followed by what is still queued,
     is exactly the statements written so far, in call order, each once *)
  Theorem order stmts k ls s : run S ls (init S stmts k) = Some s ->
    received S s ++ queue S s = firstn (calls S s) stmts.
  Proof.
    intros H. assert (OInv stmts s) as [_ _ Hr]; [|exact Hr].
    revert H. generalize (oinv_init stmts k). generalize (init S stmts k).
    induction ls as [|l ls IH]; intros s0 Hi H; cbn in H; [injection H as <-; exact Hi|].
    destruct (step S l s0) as [s1|] eqn:E; [|discriminate]. apply (IH s1); [eapply oinv_step; eauto|exact H].
  Qed.

  (* ---------------- order does not depend on how the caller and the reader race on the flags ---------------- *)
  Definition havoc (s : st) (a sd : bool) : st :=
    {| todo := todo S s; ph := ph S s; ack := a; stored := sd; queue := queue S s; dev_pending := dev_pending S s;
       from_dev := from_dev S s; received := received S s; outcomes := outcomes S s; termd := termd S s; calls := calls S s;
       stamps := stamps S s; temitted := temitted S s |}.
  Inductive rlabel := RStep (l : label) | RHavoc (a sd : bool).
  Fixpoint rrun (ls : list rlabel) (s : st) : option st :=
    match ls with
    | [] => Some s
    | RStep l :: ls' => match step S l s with Some s' => rrun ls' s' | None => None end
    | RHavoc a sd :: ls' => rrun ls' (havoc s a sd)
    end.

  (* delivery order, exactly once, unmodified: also when the acknowledgement flag and the stored error are overwritten
     with arbitrary values at arbitrary moments (every race between write() and the reader callback on them) *)
  Theorem order_racy stmts k ls s : rrun ls (init S stmts k) = Some s ->
    received S s ++ queue S s = firstn (calls S s) stmts.
  Proof.
    intros H. assert (OInv stmts s) as [_ _ Hr]; [|exact Hr].
    revert H. generalize (oinv_init stmts k). generalize (init S stmts k).
    induction ls as [|l ls IH]; intros s0 Hi H; cbn in H; [injection H as <-; exact Hi|].
    destruct l as [l'|a sd].
    - destruct (step S l' s0) as [s1|] eqn:E; [|discriminate]. apply (IH s1); [eapply oinv_step; eauto|exact H].
    - apply (IH (havoc s0 a sd)); [|exact H]. destruct Hi as [A B D]. constructor; cbn; assumption.
  Qed.

  (* ---------------- synchrony from a quiescent start, no unsolicited error lines ---------------- *)
  Record SInv (s : st) : Prop := {
    s_calls : calls S s = (length (queue S s) + length (received S s))%nat;
    s_recv : length (received S s) = (length (dev_pending S s) + nterm (from_dev S s) + termd S s)%nat;
    s_phase : match ph S s with
              | Idle => calls S s = length (outcomes S s) /\ termd S s = length (outcomes S s)
              | Waiting => calls S s = Datatypes.S (length (outcomes S s)) /\ (length (outcomes S s) <= termd S s)%nat /\
                           (ack S s = true -> termd S s = Datatypes.S (length (outcomes S s)))
              end
  }.

  (* the one schedule constraint of the synchrony theorems: an UNSOLICITED error line is handled by the reader while no
     write() is waiting (between statements); handled during a wait it releases that write early, by design of the code *)
  Definition guard (l : label) (s : st) : bool :=
    match l, from_dev S s, ph S s with
    | Read, LAlarm :: _, Waiting => false
    | _, _, _ => true
    end.
  Fixpoint grun (ls : list label) (s : st) : option st :=
    match ls with
    | [] => Some s
    | l :: ls' => if guard l s then (match step S l s with Some s' => grun ls' s' | None => None end) else None
    end.

  Lemma grun_inv (P : st -> Prop) : (forall l s s', guard l s = true -> P s -> step S l s = Some s' -> P s') ->
    forall ls s0 s, P s0 -> grun ls s0 = Some s -> P s.
  Proof.
    intros Hstep. induction ls as [|l ls IH]; intros s0 s H0 H; cbn in H; [injection H as <-; exact H0|].
    destruct (guard l s0) eqn:G; [|discriminate]. destruct (step S l s0) as [s1|] eqn:E; [|discriminate].
    apply (IH s1 s); [eapply Hstep; eauto|exact H].
  Qed.
  Lemma grun_run : forall ls s0 s, grun ls s0 = Some s -> run S ls s0 = Some s.
  Proof.
    induction ls as [|l ls IH]; intros s0 s H; cbn in *; [exact H|].
    destruct (guard l s0); [|discriminate]. destruct (step S l s0) as [s1|]; [apply IH; exact H|discriminate].
  Qed.

  Lemma sinv_step l s s' : guard l s = true -> SInv s -> step S l s = Some s' -> SInv s'.
  Proof.
    intros Hl [Hc Hr Hp] H. destruct s as [td p a sd q dp fd rc oc tm cl sp te]. cbn in *.
    destruct l; cbn in H.
    - destruct p; [|discriminate]. destruct td as [|x rest]; [discriminate|]. injection H as <-.
      constructor; cbn; rewrite ?app_length; cbn; try lia; try (destruct Hp; repeat split; try lia; discriminate).
    - destruct p; [discriminate|]. destruct a; [|discriminate]. destruct td as [|x rest]; [discriminate|]. injection H as <-.
      destruct Hp as (A & B & C). specialize (C eq_refl). constructor; cbn; rewrite ?app_length; cbn; try lia.
    - destruct q as [|x rest]; [discriminate|]. injection H as <-. constructor; cbn in *; rewrite ?app_length; cbn; try lia. exact Hp.
    - destruct dp as [|x rest]; [discriminate|]. injection H as <-. constructor; cbn -[nterm] in *; rewrite ?nterm_app; try exact Hp; try lia.
      destruct err; unfold nterm in *; cbn in *; lia.
    - injection H as <-. constructor; cbn -[nterm] in *; rewrite ?nterm_app; try exact Hp; unfold nterm in *; cbn in *; lia.
    - injection H as <-. constructor; cbn -[nterm] in *; rewrite ?nterm_app; try exact Hp; unfold nterm in *; cbn in *; lia.
    - destruct fd as [|[| | |] rest]; [discriminate| | | |]; injection H as <-; constructor; cbn in *; try lia; unfold nterm in *; cbn in *; try lia.
      + destruct p; [lia|]. destruct Hp as (A & B & C). repeat split; try lia.
      + destruct p; [lia|]. destruct Hp as (A & B & C). repeat split; try lia.
      + exact Hp.
      + (* an unsolicited error line: only handled while idle *)
        destruct p; [exact Hp|discriminate].
  Qed.

  Lemma sinv_init stmts : SInv (init S stmts 0).
  Proof. constructor; cbn; auto. Qed.

  (* SYNCHRONY: from a quiescent start and for every device behaviour without unsolicited error lines (any latency,
     any unsolicited status lines, error replies at any position): every write() that has returned or raised had the
     terminator of its own statement handled first; and whenever no write() is in progress, everything written has
     been sent and acknowledged -- which is what disconnect(wait=True) waits for *)
  Theorem sync stmts ls s : grun ls (init S stmts 0) = Some s ->
    (length (outcomes S s) <= termd S s)%nat /\
    (ph S s = Idle -> termd S s = length (outcomes S s) /\ queue S s = [] /\ dev_pending S s = [] /\ nterm (from_dev S s) = 0%nat /\
                      length (received S s) = length (outcomes S s)).
  Proof.
    intros H. assert (SInv s) as [Hc Hr Hp] by (exact (grun_inv SInv sinv_step ls _ s (sinv_init stmts) H)).
    destruct (ph S s) eqn:P.
    - destruct Hp as [A B]. split; [lia|]. intros _. split; [exact B|].
      assert (length (queue S s) = 0 /\ length (dev_pending S s) = 0 /\ nterm (from_dev S s) = 0)%nat as (Q & D & F) by lia.
      repeat split; try lia; [destruct (queue S s); [reflexivity|discriminate]|destruct (dev_pending S s); [reflexivity|discriminate]].
    - destruct Hp as (A & B & C). split; [exact B|]. intros E. discriminate.
  Qed.

  (* the step at which write() returns: the acknowledgement it consumes is the one of its own statement *)
  Theorem return_after_own_ack stmts ls s s' : grun ls (init S stmts 0) = Some s ->
    step S Return s = Some s' -> termd S s = Datatypes.S (length (outcomes S s)) /\ length (received S s) = Datatypes.S (length (outcomes S s)).
  Proof.
    intros H Hs. assert (SInv s) as [Hc Hr Hp] by (exact (grun_inv SInv sinv_step ls _ s (sinv_init stmts) H)).
    cbn in Hs. destruct (ph S s); [discriminate|]. destruct (ack S s) eqn:A; [|discriminate]. destruct Hp as (P1 & P2 & P3).
    specialize (P3 eq_refl). split; [exact P3|]. lia.
  Qed.

  (* ---------------- without quiescence: how early can a write return? ---------------- *)
  Record GInv (k : nat) (s : st) : Prop := {
    g_calls : calls S s = (length (queue S s) + length (received S s))%nat;
    g_recv : (length (received S s) + k = length (dev_pending S s) + nterm (from_dev S s) + termd S s)%nat;
    g_phase : match ph S s with
              | Idle => calls S s = length (outcomes S s) /\ (length (outcomes S s) <= termd S s)%nat
              | Waiting => calls S s = Datatypes.S (length (outcomes S s)) /\ (length (outcomes S s) <= termd S s)%nat /\
                           (ack S s = true -> (Datatypes.S (length (outcomes S s)) <= termd S s)%nat)
              end
  }.

  Lemma ginv_init stmts k : GInv k (init S stmts k).
  Proof.
    constructor; cbn; auto. unfold nterm. induction k as [|k IH]; [reflexivity|]. cbn. cbn in IH. lia.
  Qed.

  Lemma ginv_step k l s s' : guard l s = true -> GInv k s -> step S l s = Some s' -> GInv k s'.
  Proof.
    intros Hl [Hc Hr Hp] H. destruct s as [td p a sd q dp fd rc oc tm cl sp te]. cbn in *.
    destruct l; cbn in H.
    - destruct p; [|discriminate]. destruct td as [|x rest]; [discriminate|]. injection H as <-.
      constructor; cbn; rewrite ?app_length; cbn; try lia; try (destruct Hp; repeat split; try lia; discriminate).
    - destruct p; [discriminate|]. destruct a; [|discriminate]. destruct td as [|x rest]; [discriminate|]. injection H as <-.
      destruct Hp as (A & B & C0). specialize (C0 eq_refl). constructor; cbn; rewrite ?app_length; cbn; try lia.
    - destruct q as [|x rest]; [discriminate|]. injection H as <-. constructor; cbn in *; rewrite ?app_length; cbn; try lia. exact Hp.
    - destruct dp as [|x rest]; [discriminate|]. injection H as <-. constructor; cbn -[nterm] in *; rewrite ?nterm_app; try exact Hp; try lia.
      destruct err; unfold nterm in *; cbn in *; lia.
    - injection H as <-. constructor; cbn -[nterm] in *; rewrite ?nterm_app; try exact Hp; unfold nterm in *; cbn in *; lia.
    - injection H as <-. constructor; cbn -[nterm] in *; rewrite ?nterm_app; try exact Hp; unfold nterm in *; cbn in *; lia.
    - destruct fd as [|[| | |] rest]; [discriminate| | | |]; injection H as <-; constructor; cbn in *; try lia; unfold nterm in *; cbn in *; try lia.
      + destruct p; [lia|]. destruct Hp as (A & B & C0). repeat split; try lia.
      + destruct p; [lia|]. destruct Hp as (A & B & C0). repeat split; try lia.
      + exact Hp.
      + destruct p; [exact Hp|discriminate].
  Qed.

  (* with k acknowledgements still on their way when the first write() starts (k = 1: the trailing M110 of the start-up
     print), completed writes still never outnumber handled acknowledgements -- but k of those belong to nobody, so write
     number i may return as soon as the acknowledgement of statement i - k has been handled: at most k statements early,
     never more *)
  Theorem sync_stale stmts k ls s : grun ls (init S stmts k) = Some s ->
    (length (outcomes S s) <= termd S s)%nat /\
    (length (received S s) + k = length (dev_pending S s) + nterm (from_dev S s) + termd S s)%nat.
  Proof.
    intros H. assert (GInv k s) as [Hc Hr Hp] by (exact (grun_inv (GInv k) (ginv_step k) ls _ s (ginv_init stmts k) H)).
    split; [|exact Hr]. destruct (ph S s); [destruct Hp; lia|destruct Hp as (A & B & C0); lia].
  Qed.

  (* ---------------- errors surface ---------------- *)
  Lemma stored_kept l s s' : step S l s = Some s' -> stored S s = true -> l <> Return -> stored S s' = true.
  Proof.
    intros H Hs Hl. destruct s as [td p a sd q dp fd rc oc tm cl sp te]. cbn in *. subst sd.
    destruct l; cbn in H; try congruence.
    - destruct p; [|discriminate]. destruct td; [discriminate|]. injection H as <-. reflexivity.
    - destruct q; [discriminate|]. injection H as <-. reflexivity.
    - destruct dp; [discriminate|]. injection H as <-. reflexivity.
    - injection H as <-. reflexivity.
    - injection H as <-. reflexivity.
    - destruct fd as [|[| | |] rest]; [discriminate| | | |]; injection H as <-; reflexivity.
  Qed.

  (* a line starting with error / alarm / !! handled by the reader (a reply or unsolicited, whatever else happens in
     between) makes the next write() that completes raise: it is never dropped and never attributed to nobody *)
  Theorem error_surfaces s1 s2 rest ls s3 s4 :
    (from_dev S s1 = LErr :: rest \/ from_dev S s1 = LAlarm :: rest) -> step S Read s1 = Some s2 ->
    run S ls s2 = Some s3 -> ~ In Return ls -> step S Return s3 = Some s4 ->
    exists pre, outcomes S s4 = pre ++ [Raised].
  Proof.
    intros Hf Hr Hrun Hnr Hret.
    assert (Hs2 : stored S s2 = true).
    { destruct s1 as [td p a sd q dp fd rc oc tm cl sp te]. cbn in *. destruct Hf as [->| ->]; injection Hr as <-; reflexivity. }
    assert (Hs3 : stored S s3 = true).
    { clear Hret Hr Hf. revert s2 Hs2 Hrun. induction ls as [|l ls IH]; intros s2 Hs2 Hrun; cbn in Hrun; [injection Hrun as <-; exact Hs2|].
      destruct (step S l s2) as [sx|] eqn:E; [|discriminate].
      apply (IH ltac:(intros X; apply Hnr; right; exact X) sx); [|exact Hrun].
      eapply stored_kept; eauto. intros ->. apply Hnr. left. reflexivity. }
    destruct s3 as [td p a sd q dp fd rc oc tm cl sp te]. cbn in *. subst sd.
    destruct p; [discriminate|]. destruct a; [|discriminate]. destruct td; [discriminate|]. injection Hret as <-. cbn. eexists. reflexivity.
  Qed.

  (* and conversely a write() only raises when an error line was handled since the previous write completed *)
  Theorem raises_only_on_error s s' : step S Return s = Some s' -> stored S s = false ->
    exists pre, outcomes S s' = pre ++ [Returned].
  Proof.
    intros H Hs. destruct s as [td p a sd q dp fd rc oc tm cl sp te]. cbn in *. subst sd.
    destruct p; [discriminate|]. destruct a; [|discriminate]. destruct td; [discriminate|]. injection H as <-. cbn. eexists. reflexivity.
  Qed.
  (* ---------------- readings are available when write() returns ---------------- *)
  Fixpoint wf (t : nat) (ls : list line) (ss : list nat) : Prop :=
    match ls, ss with
    | [], [] => True
    | l :: ls', k0 :: ss' => k0 = t /\ wf (if is_term l then Datatypes.S t else t) ls' ss'
    | _, _ => False
    end.

  Lemma wf_app : forall ls ss t l, wf t ls ss -> wf t (ls ++ [l]) (ss ++ [(t + nterm ls)%nat]).
  Proof.
    induction ls as [|x ls IH]; intros [|k0 ss] t l H; cbn in H; try contradiction.
    - cbn. split; [unfold nterm; cbn; lia|exact I].
    - destruct H as [-> H]. cbn [app wf]. split; [reflexivity|].
      replace (t + nterm (x :: ls))%nat with ((if is_term x then Datatypes.S t else t) + nterm ls)%nat
        by (unfold nterm; destruct x; cbn; lia).
      apply IH. exact H.
  Qed.

  Lemma wf_ge : forall ls ss t, wf t ls ss -> Forall (fun k0 => (t <= k0)%nat) ss.
  Proof.
    induction ls as [|x ls IH]; intros [|k0 ss] t H; cbn in H; try contradiction; [constructor|].
    destruct H as [-> H]. constructor; [lia|]. eapply Forall_impl; [|apply (IH _ _ H)]. cbn. intros a Ha. destruct x; cbn in Ha; lia.
  Qed.

  Lemma wf_init k : forall t, wf t (repeat LOk k) (seq t k).
  Proof. induction k as [|k IH]; intros t; cbn; [exact I|]. split; [reflexivity|apply IH]. Qed.

  Record RInv (s : st) : Prop := {
    r_wf : wf (termd S s) (from_dev S s) (stamps S s);
    r_emit : temitted S s = (termd S s + nterm (from_dev S s))%nat
  }.

  Lemma rinv_init stmts k : RInv (init S stmts k).
  Proof.
    constructor; cbn; [apply wf_init|]. unfold nterm. induction k as [|k IH]; [reflexivity|]. cbn. cbn in IH. lia.
  Qed.

  Lemma rinv_step l s s' : RInv s -> step S l s = Some s' -> RInv s'.
  Proof.
    intros [Hw He] H. destruct s as [td p a sd q dp fd rc oc tm cl sp te]. cbn in *.
    destruct l; cbn in H.
    - destruct p; [|discriminate]. destruct td; [discriminate|]. injection H as <-. constructor; assumption.
    - destruct p; [discriminate|]. destruct a; [|discriminate]. destruct td; [discriminate|]. injection H as <-. constructor; assumption.
    - destruct q; [discriminate|]. injection H as <-. constructor; assumption.
    - destruct dp; [discriminate|]. injection H as <-. constructor; cbn -[nterm].
      + rewrite He. apply wf_app. exact Hw.
      + rewrite nterm_app, He. destruct err; unfold nterm; cbn; lia.
    - injection H as <-. constructor; cbn -[nterm].
      + rewrite He. apply wf_app. exact Hw.
      + rewrite nterm_app, He. unfold nterm; cbn; lia.
    - injection H as <-. constructor; cbn -[nterm].
      + rewrite He. apply wf_app. exact Hw.
      + rewrite nterm_app, He. unfold nterm; cbn; lia.
    - destruct fd as [|[| | |] rest]; [discriminate| | | |]; injection H as <-; destruct sp as [|k0 sp]; cbn in Hw; try contradiction;
        destruct Hw as [_ Hw]; constructor; cbn; try exact Hw; unfold nterm in *; cbn in *; lia.
  Qed.

  (* READINGS: from a quiescent start, without unsolicited error lines: when write() number i returns, every line still on
     its way to the reader was emitted by the device AFTER the terminator of statement i -- so every line the device
     sent before acknowledging (a reading requested by the statement, or the ok line itself) has been handled *)
  Theorem readings_available stmts ls s s' : grun ls (init S stmts 0) = Some s ->
    step S Return s = Some s' -> Forall (fun k0 => (Datatypes.S (length (outcomes S s)) <= k0)%nat) (stamps S s).
  Proof.
    intros H Hs. destruct (return_after_own_ack stmts ls s s' H Hs) as [Ht _]. apply grun_run in H.
    assert (RInv s) as [Hw _].
    { clear Hs Ht. revert H. generalize (rinv_init stmts 0). generalize (init S stmts 0).
      induction ls as [|l ls IH]; intros s0 Hi H; cbn in H; [injection H as <-; exact Hi|].
      destruct (step S l s0) as [s1|] eqn:E; [|discriminate]. apply (IH s1); [eapply rinv_step; eauto|exact H]. }
    rewrite <- Ht. eapply wf_ge. exact Hw.
  Qed.
End Proofs.

(* an unsolicited error line handled DURING a wait releases that write() before its own statement is acknowledged (the
   schedule the guard of the synchrony theorems excludes): the device has not answered yet, write() has already raised *)
Theorem refuted_alarm_during_wait : exists s, run nat [CallWrite; Send; DevAlarm; Read; Return] (init nat [7%nat] 0) = Some s /\
  outcomes nat s = [Raised] /\ termd nat s = 0%nat /\ dev_pending nat s = [7%nat].
Proof. eexists. vm_compute. repeat split. Qed.

(* ---------------- without quiescence synchrony is FALSE (known finding: the ok of the trailing M110) ---------------- *)
Theorem refuted_stale_ok : exists s, run nat [CallWrite; Read; Return] (init nat [7%nat] 1) = Some s /\
  outcomes nat s = [Returned] /\ received nat s = [] /\ queue nat s = [7%nat].
Proof. eexists. vm_compute. repeat split. Qed.
