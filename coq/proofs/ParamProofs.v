(* C07, remembered move parameters: get_parameter(k) is the last k word of a move / G92 / G28 line. *)
From Coq Require Import ZArith QArith Bool List String Lia.
From GS Require Import gen.GenTables model.Num model.Builder model.Interp model.InterpParams proofs.Tables
  proofs.FlagsProofs proofs.NumProofs proofs.InterlockProofs proofs.AtomicProofs proofs.BoundsProofs
  proofs.HooksProofs proofs.MirrorProofs.
Import ListNotations.
Open Scope string_scope.
Open Scope list_scope.

Local Arguments instr : simpl never.
Local Arguments i_move : simpl never.
Local Arguments i_offset : simpl never.
Local Arguments i_home : simpl never.
Local Arguments i_probe : simpl never.
Local Arguments i_units : simpl never.
Local Arguments i_dmode : simpl never.
Local Arguments i_emode : simpl never.
Local Arguments i_fmode : simpl never.
Local Arguments i_spin : simpl never.
Local Arguments i_power : simpl never.
Local Arguments i_swap : simpl never.
Local Arguments i_coolant : simpl never.
Local Arguments i_fan : simpl never.
Local Arguments i_bed : simpl never.
Local Arguments i_hotend : simpl never.
Local Arguments i_chamber : simpl never.
Local Arguments i_plane : simpl never.
Local Arguments i_sleep : simpl never.
Local Arguments i_query : simpl never.
Local Arguments i_halt : simpl never.
Local Arguments round_dp : simpl never.

(* what the state remembers for letter k, as the word a line would carry *)
Definition remembered (dp : nat) (k : string) (s : st) : option Q := option_map (rq dp) (cget k (cparams s)).
Definition PM (dp : nat) (k : string) (s : st) (m : option Q) : Prop := m = remembered dp k s.

Lemma param_lines_nil k m : param_lines k m [] = m. Proof. reflexivity. Qed.
Lemma param_lines_one k m l : param_lines k m [l] = param_line k m l. Proof. reflexivity. Qed.
Lemma param_lines_cons k m l ls : param_lines k m (l :: ls) = param_lines k (param_line k m l) ls.
Proof. reflexivity. Qed.
Lemma param_lines_app k m a b : param_lines k m (a ++ b) = param_lines k (param_lines k m a) b.
Proof. unfold param_lines. apply fold_left_app. Qed.

Definition quiet (l : line) : Prop := carries_params l = false.
Lemma param_lines_quiet k m ls : Forall quiet ls -> param_lines k m ls = m.
Proof.
  revert m. induction ls as [|l ls IH]; intros m H; [reflexivity|]. inversion H as [|? ? H1 H2]; subst.
  rewrite param_lines_cons. unfold param_line at 1. rewrite H1. now apply IH.
Qed.

(* a line led by a G word: only that word decides whether it carries parameters *)
Lemma carries_head hd rest : fst hd = "G" ->
  carries_params (hd :: rest) =
  (isq 0 (Some (snd hd)) || isq 1 (Some (snd hd)) || is_probe_q (Some (snd hd)) || isq 92 (Some (snd hd))
   || isq 28 (Some (snd hd))).
Proof. destruct hd as [a b]. cbn. intros ->. reflexivity. Qed.

Lemma param_carrying dp k m hd mv ps : fst hd = "G" -> reserved k = false -> carries_params (hd :: axis_words dp mv ++ pwords dp ps) = true ->
  param_line k m (hd :: axis_words dp mv ++ pwords dp ps) = keep (option_map (rq dp) (pget k ps)) m.
Proof.
  intros Hhd Hk Hc. unfold param_line. rewrite Hc. destruct (reserved_not k Hk) as (HG & _ & _ & HX & HY & HZ).
  destruct hd as [a b]. cbn in Hhd. subst a. cbn [wget fst].
  destruct (String.eqb_spec "G" k); [congruence|]. now rewrite wget_tail.
Qed.

Lemma move_carries dp k mv ps : carries_params (i_move k :: axis_words dp mv ++ pwords dp ps) = true.
Proof. destruct k; [rewrite i_move_linear|rewrite i_move_rapid]; reflexivity. Qed.
Lemma probe_carries dp p mv ps : carries_params (i_probe p :: axis_words dp mv ++ pwords dp ps) = true.
Proof.
  rewrite carries_head by apply (i_probe_g p). rewrite probe_is_probe. now rewrite !orb_true_r.
Qed.

(* remember + the frame of everything else that happens in an accepted move *)
Lemma PM_remember dp k s r ps s' m : params_ok ps -> reserved k = false -> PM dp k s m ->
  cparams s' = cparams (remember s r ps) ->
  PM dp k s' (keep (option_map (rq dp) (pget k ps)) m).
Proof.
  intros Hp Hk HM Hc. unfold PM, remembered in *. rewrite Hc, (remembered_params s r ps k Hp Hk).
  destruct (pget k ps); cbn; [reflexivity|exact HM].
Qed.

Lemma PM_same dp k s s' m : cparams s' = cparams s -> PM dp k s m -> PM dp k s' m.
Proof. unfold PM, remembered. now intros ->. Qed.

Ltac failedp HC HM :=
  destruct HC as [HC|[HC _]]; [discriminate HC|cbn [st_of fail ok] in HC; rewrite ?HC; exact HM].

Lemma do_move_pm dp k0 k s r mv target ps m : params_ok ps -> hooks_ok2 s -> reserved k0 = false ->
  PM dp k0 s m -> clean s (do_move dp k s r mv target ps) ->
  PM dp k0 (st_of (do_move dp k s r mv target ps)) (param_lines k0 m (lines_of (do_move dp k s r mv target ps))).
Proof.
  intros Hp Hh Hk HM. unfold do_move.
  set (hk := match k, hooks s with
             | Linear, _ :: _ => run_hooks s (hooks s) (resolve (pos s)) (to_absolute s mv) ps
             | _, _ => (ps, []) end).
  assert (Hk1 : params_ok (fst hk)).
  { unfold hk. destruct k; [|exact Hp]. destruct (hooks s) eqn:E; [exact Hp|].
    rewrite <- E. apply run_hooks_ok; [rewrite E; unfold hooks_ok2 in Hh; rewrite E in Hh; exact Hh|exact Hp]. }
  destruct hk as [ps1 calls]. cbn [fst] in Hk1.
  pose proof (track_frame s ps1) as (_ & _ & Hcp & _).
  destruct (track s ps1) as [s1 [e1|]] eqn:Et; cbn [fst] in Hcp.
  - intros HC. cbn [st_of lines_of]. rewrite param_lines_nil. failedp HC HM.
  - destruct (req_finite r && params_finite ps1) eqn:Efin; cbn [negb].
    + unfold update_axes. destruct (within _ _); cbn [ok st_of lines_of err_of].
      * intros _. rewrite param_lines_one. unfold move_line.
        rewrite param_carrying; [| destruct k; [rewrite i_move_linear|rewrite i_move_rapid]; reflexivity | exact Hk | apply move_carries].
        eapply (PM_remember dp k0 s1 r ps1); [exact Hk1|exact Hk|now apply (PM_same dp k0 s)|reflexivity].
      * intros HC. rewrite param_lines_nil. failedp HC HM.
    + intros HC. cbn [st_of lines_of]. rewrite param_lines_nil. failedp HC HM.
Qed.

Lemma poly_go_pm dp k0 ps : params_ok ps -> reserved k0 = false -> forall pts s acc calls m0, hooks_ok2 s ->
  PM dp k0 s (param_lines k0 m0 acc) -> err_of (poly_go dp ps pts s acc calls) = None ->
  PM dp k0 (st_of (poly_go dp ps pts s acc calls)) (param_lines k0 m0 (lines_of (poly_go dp ps pts s acc calls))).
Proof.
  intros Hp Hk. induction pts as [|p pts IH]; intros s acc calls m0 Hh HM; cbn [poly_go]; [intros _; exact HM|].
  destruct (transform_move s (to_distance_mode s p)) as [mv t].
  match goal with |- context [do_move ?a ?b ?c ?d ?f ?g ?h] =>
    pose proof (do_move_pm a k0 b c d f g h (param_lines k0 m0 acc) Hp Hh Hk HM) as Hd;
    pose proof (do_move_hooks a b c d f g h) as Hhk;
    destruct (do_move a b c d f g h) as [[[s1 ls] cs] e1] end.
  cbn [st_of lines_of err_of] in *. destruct e1; [discriminate|]. intros He.
  apply IH; [unfold hooks_ok2; rewrite Hhk; exact Hh| |exact He].
  rewrite param_lines_app. apply Hd. now left.
Qed.

(* lines that carry no move parameters *)
Lemma quiet_M dp c ps : params_ok ps -> quiet (W "M" c :: pwords dp ps).
Proof.
  intros Hp. unfold quiet, carries_params, W. cbn [wget fst]. change (String.eqb "M" "G") with false. cbn iota.
  rewrite wget_pwords, (pget_reserved ps "G" Hp eq_refl). reflexivity.
Qed.
Lemma quiet_dmode d : quiet [i_dmode d]. Proof. rewrite i_dmode_g. destruct d; reflexivity. Qed.

Lemma set_distance_pm dp k0 s d m : PM dp k0 s m ->
  PM dp k0 (fst (set_distance s d)) (param_line k0 m (snd (set_distance s d))).
Proof.
  intros HM. unfold set_distance. cbn [fst snd]. unfold param_line. rewrite (quiet_dmode d). exact HM.
Qed.

(* every call that is not a move, a G92, a G28 or a probe: the remembered parameters stay, and no
   emitted line carries move parameters -- also when the call is rejected half-way (C05 leaks
   of these calls never touch the parameters) *)
Definition other_cmd (c : cmd) : Prop :=
  match c with Move _ _ _ | MoveAbs _ _ _ | SetAxis _ _ | Home _ _ | Probe _ _ _ | Polyline _ _ => False | _ => True end.

Ltac quietline :=
  rewrite ?i_emode_m, ?i_fmode_g, ?i_units_g, ?i_plane_g, ?i_fan_m, ?i_bed_m, ?i_hotend_m, ?i_chamber_m,
          ?i_sleep_g, ?i_spin_m, ?i_power_m, ?i_coolant_m, ?i_query_m, ?i_dmode_g;
  repeat match goal with |- context [match ?d with _ => _ end] => is_var d; destruct d end;
  repeat constructor.

Lemma halt_cmd_other dp s h ps : params_ok ps -> h <> HaltOff ->
  cparams (st_of (halt_cmd dp s h ps)) = cparams s /\ Forall quiet (lines_of (halt_cmd dp s h ps)).
Proof.
  intros Hp Hne. unfold halt_cmd, try_halt.
  destruct (tool_on s); [split; [reflexivity|constructor]|].
  destruct (cool_on s); [split; [reflexivity|constructor]|].
  destruct (match pget "S" ps with Some t => Some t | None => pget "R" ps end); destruct h; try congruence;
    ifs; cbn [fail ok st_of lines_of cparams written set_haltm set_t_bed set_t_hotend set_t_chamber];
    (split; [reflexivity|]); try constructor; try constructor;
    rewrite i_halt_m by discriminate; now apply quiet_M.
Qed.

Lemma step_other dp s c : other_cmd c -> cmd_ok3 c ->
  cparams (st_of (step1 dp s c)) = cparams s /\ Forall quiet (lines_of (step1 dp s c)).
Proof.
  intros Ho Hc. destruct c; try contradiction; cbn [step1]; cbn [cmd_ok3] in Hc.
  - (* SetDistance *) destruct m as [d|]; [|split; [reflexivity|constructor]].
    unfold set_distance. cbn. split; [reflexivity|]. constructor; [apply quiet_dmode|constructor].
  - (* EnterAbs *) destruct (dm s); unfold set_distance; cbn; (split; [reflexivity|]); repeat constructor; apply quiet_dmode.
  - (* EnterRel *) destruct (dm s); unfold set_distance; cbn; (split; [reflexivity|]); repeat constructor; apply quiet_dmode.
  - (* ExitMode *) destruct (modes s) as [|p rest]; [split; [reflexivity|constructor]|].
    destruct p, (dm s); unfold set_distance; cbn; (split; [reflexivity|]); repeat constructor; apply quiet_dmode.
  - destruct m as [d|]; cbn; (split; [reflexivity|]); quietline.
  - destruct m as [d|]; cbn; (split; [reflexivity|]); quietline.
  - destruct m as [d|]; cbn; (split; [reflexivity|]); quietline.
  - destruct m as [d|]; cbn; (split; [reflexivity|]); quietline.
  - destruct m as [d|]; cbn; (split; [reflexivity|]); quietline.
  - destruct m as [d|]; cbn; (split; [reflexivity|]); quietline.
  - (* SetFeed *) unfold try_feed. ifs; cbn; (split; [reflexivity|]); quietline.
  - (* SetPower *) unfold try_power. ifs; cbn; (split; [reflexivity|]); quietline.
  - (* SetFan *) ifs; cbn; (split; [reflexivity|]); quietline.
  - ifs; cbn; (split; [reflexivity|]); quietline.
  - ifs; cbn; (split; [reflexivity|]); quietline.
  - ifs; cbn; (split; [reflexivity|]); quietline.
  - (* Sleep *) ifs; cbn; (split; [reflexivity|]); quietline.
  - (* ToolOn *) unfold try_power. destruct m as [sm|]; [destruct sm|]; ifs; cbn; (split; [reflexivity|]); quietline.
  - (* ToolOff *) cbn. split; [reflexivity|]. quietline.
  - (* PowerOn *) unfold try_power. destruct m as [pm|]; [destruct pm|]; ifs; cbn; (split; [reflexivity|]); quietline.
  - (* PowerOff *) cbn. split; [reflexivity|]. quietline.
  - (* ToolChange *) destruct m as [sm|]; [destruct sm|]; ifs; cbn; (split; [reflexivity|]); try constructor;
      try constructor; rewrite i_swap_m by discriminate; reflexivity.
  - (* CoolantOn *) destruct m as [cm|]; [destruct cm|]; ifs; cbn; (split; [reflexivity|]); quietline.
  - (* CoolantOff *) cbn. split; [reflexivity|]. quietline.
  - (* Halt *) destruct Hc as [Hp _]. destruct m as [h|]; [|split; [reflexivity|constructor]].
    destruct h; try (apply halt_cmd_other; [exact Hp|discriminate]). split; [reflexivity|constructor].
  - (* EmergencyHalt *)
    match goal with |- context [halt_cmd ?a ?b ?c ?d] =>
      pose proof (halt_cmd_other a b c d) as Hh; destruct (halt_cmd a b c d) as [[[s4 ls] cs] e] end.
    cbn [st_of lines_of] in *. destruct Hh as [H1 H2].
    { split; [constructor|constructor]. } { destruct reset; discriminate. }
    split; [rewrite H1; reflexivity|]. rewrite i_spin_m, i_coolant_m. repeat constructor. exact H2.
  - (* Query *) destruct m as [q|]; cbn; (split; [reflexivity|]); quietline.
  - (* Comment *) cbn. split; [reflexivity|]. repeat constructor.
  - (* Annotate *) destruct valid_key; cbn; (split; [reflexivity|]); repeat constructor.
  - (* SetBounds *) destruct n; cbn; try (split; [reflexivity|constructor]);
      try (destruct slo; try (split; [reflexivity|constructor]); destruct shi; try (split; [reflexivity|constructor]);
           destruct (qleb _ _); cbn; split; try reflexivity; constructor).
    destruct (ge_point lo hi); cbn; split; try reflexivity; constructor.
  - (* AddHook *) destruct (existsb _ _); cbn; split; try reflexivity; constructor.
  - cbn. split; [reflexivity|constructor].
  - cbn. split; [reflexivity|constructor].
Qed.

Lemma g_other_carries dp n mv ps : (n = 92 \/ n = 28)%Z -> carries_params (W "G" n :: axis_words dp mv ++ pwords dp ps) = true.
Proof. intros [-> | ->]; reflexivity. Qed.

Theorem step_pm dp k0 s c m : cmd_ok3 c -> hooks_ok2 s -> reserved k0 = false -> PM dp k0 s m ->
  clean s (step1 dp s c) ->
  PM dp k0 (st_of (step1 dp s c)) (param_lines k0 m (lines_of (step1 dp s c))).
Proof.
  intros Hc Hh Hk HM.
  assert (Hother : other_cmd c -> clean s (step1 dp s c) ->
    PM dp k0 (st_of (step1 dp s c)) (param_lines k0 m (lines_of (step1 dp s c)))).
  { intros Ho _. destruct (step_other dp s c Ho Hc) as [H1 H2]. rewrite param_lines_quiet by exact H2.
    now apply (PM_same dp k0 s). }
  destruct c; try (apply Hother; exact I); clear Hother; cbn [cmd_ok3] in Hc; cbn [step1].
  - (* Move *) destruct (transform_move s (req_point r)) as [mv t]. now apply do_move_pm.
  - (* MoveAbs *) destruct (dm s) eqn:Ed.
    + match goal with |- context [do_move ?a ?b ?c ?d ?f ?g ?h] =>
        pose proof (do_move_pm a k0 b c d f g h m Hc Hh Hk HM) as Hd;
        destruct (do_move a b c d f g h) as [[[s1 ls] cs] e1] end.
      cbn [st_of lines_of err_of app] in *. exact Hd.
    + pose proof (set_distance_pm dp k0 s Absolute m HM) as H0.
      destruct (set_distance s Absolute) as [s0 l0] eqn:E0. cbn [fst snd] in H0.
      assert (Hh0 : hooks_ok2 s0) by (unfold set_distance in E0; injection E0 as <- _; exact Hh).
      match goal with |- context [do_move ?a ?b ?c ?d ?f ?g ?h] =>
        pose proof (do_move_pm a k0 b c d f g h (param_line k0 m l0) Hc Hh0 Hk H0) as Hd;
        destruct (do_move a b c d f g h) as [[[s1 ls] cs] e1] end.
      pose proof (set_distance_pm dp k0 s1 Relative) as H2.
      destruct (set_distance s1 Relative) as [s2 l2]. cbn [fst snd st_of lines_of err_of] in *.
      intros [He|[_ Hl]]; [|destruct ls; discriminate Hl].
      cbn [app]. rewrite param_lines_cons, param_lines_app, param_lines_one. apply H2. apply Hd. now left.
  - (* SetAxis *) destruct (negb _); [intros HC; rewrite param_lines_nil; failedp HC HM|].
    unfold update_axes. destruct (within _ _); cbn [ok fail st_of lines_of err_of].
    + intros _. rewrite param_lines_one, i_offset_eq.
      rewrite param_carrying; [|reflexivity|exact Hk|apply g_other_carries; auto].
      eapply (PM_remember dp k0 s r ps); [exact Hc|exact Hk|exact HM|reflexivity].
    + intros HC. rewrite param_lines_nil. failedp HC HM.
  - (* Home *) destruct (negb _); [intros HC; rewrite param_lines_nil; failedp HC HM|].
    unfold update_axes. destruct (within _ _); cbn [ok fail st_of lines_of err_of].
    + intros _. rewrite param_lines_one, i_home_eq.
      rewrite param_carrying; [|reflexivity|exact Hk|apply g_other_carries; auto].
      eapply (PM_remember dp k0 s r ps); [exact Hc|exact Hk|exact HM|reflexivity].
    + intros HC. rewrite param_lines_nil. failedp HC HM.
  - (* Probe *) destruct m0 as [pm|]; [|intros HC; rewrite param_lines_nil; failedp HC HM].
    destruct (transform_move s (req_point r)) as [mv t].
    destruct (negb (within _ _)); [intros HC; rewrite param_lines_nil; failedp HC HM|].
    destruct (req_finite r && params_finite ps) eqn:Efin; cbn [negb]; [|intros HC; rewrite param_lines_nil; failedp HC HM].
    unfold update_axes.
    destruct (within _ _); [|intros HC; rewrite param_lines_nil; failedp HC HM].
    match goal with |- context [track ?a ?b] => set (s1 := a) end.
    pose proof (track_frame s1 ps) as (_ & _ & Hcp & _).
    destruct (track s1 ps) as [s2 [e1|]] eqn:Et; cbn [fst] in Hcp.
    + intros HC. cbn [fail st_of lines_of]. rewrite param_lines_nil. failedp HC HM.
    + intros _. cbn [ok st_of lines_of]. rewrite param_lines_one. unfold move_line.
      rewrite param_carrying; [|apply (i_probe_g pm)|exact Hk|apply probe_carries].
      eapply (PM_remember dp k0 s r ps); [exact Hc|exact Hk|exact HM|]. cbn [written cparams set_haltm]. rewrite Hcp. reflexivity.
  - (* Polyline *) intros [He|[Hs Hl]].
    + apply poly_go_pm; auto.
    + rewrite Hs, Hl. exact HM.
Qed.

Lemma PM_init dp k : PM dp k init None.
Proof. unfold PM, remembered. cbn. destruct (String.eqb k "X"), (String.eqb k "Y"), (String.eqb k "Z"); reflexivity. Qed.

Theorem history_pm dp k0 cs : reserved k0 = false -> forall s m, Forall cmd_ok3 cs -> hooks_ok2 s -> PM dp k0 s m ->
  clean_run dp s cs -> PM dp k0 (final dp s cs) (param_lines k0 m (output dp s cs)).
Proof.
  intros Hk. induction cs as [|c cs IH]; intros s m Hc Hh HM Hr; [exact HM|].
  inversion Hc as [|? ? H1 H2]; subst. destruct Hr as [Hcl Hr].
  rewrite output_cons, final_cons, param_lines_app.
  apply IH; [exact H2| |now apply step_pm|exact Hr].
  now destruct (step_scalars dp s c H1 Hh).
Qed.

Corollary history_pm_prefix dp k0 cs1 cs2 : reserved k0 = false -> Forall cmd_ok3 (cs1 ++ cs2) -> clean_run dp init (cs1 ++ cs2) ->
  param_lines k0 None (output dp init cs1) = remembered dp k0 (final dp init cs1).
Proof.
  intros Hk Hc Hr. apply (history_pm dp k0 cs1 Hk init None); [now apply Forall_app in Hc as [H _]|constructor|apply PM_init|].
  clear Hc. revert Hr. generalize init. induction cs1 as [|c cs1 IH]; intros s Hr; [exact I|].
  destruct Hr as [A B]. split; [exact A|now apply IH].
Qed.
