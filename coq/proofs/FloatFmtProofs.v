(* C08 (numbers): the digits chosen by the model of numpy's printer are faithful. *)
From Coq Require Import ZArith QArith Qround Qabs Bool List Lia Lqa.
From GS Require Import model.Num model.FloatFmt.
Import ListNotations.
Open Scope Q_scope.

Lemma pow10q_pos k : 0 < pow10q k.
Proof.
  destruct k as [|p|p]; unfold pow10q; [reflexivity| |reflexivity].
  change 0 with (inject_Z 0). rewrite <- Zlt_Qlt. apply Z.pow_pos_nonneg; lia.
Qed.

Lemma pow2q_pos e : 0 < pow2q e.
Proof.
  destruct e as [|p|p]; unfold pow2q; [reflexivity| |reflexivity].
  change 0 with (inject_Z 0). rewrite <- Zlt_Qlt. apply Z.pow_pos_nonneg; lia.
Qed.

Lemma mhigh_pos f : 0 < mhigh f.
Proof. unfold mhigh. pose proof (pow2q_pos (f_e f)). apply Qlt_shift_div_l; lra. Qed.
Lemma mlow_pos f : 0 < mlow f.
Proof. unfold mlow. pose proof (pow2q_pos (f_e f)). destruct (f_low_half f); apply Qlt_shift_div_l; lra. Qed.

Lemma le_or_lt_le c a b : le_or_lt c a b = true -> a <= b.
Proof.
  unfold le_or_lt. destruct c; intros H.
  - now apply Qle_bool_iff.
  - apply negb_true_iff in H. apply Qlt_le_weak. apply Qnot_le_lt. intros Hle.
    apply Qle_bool_iff in Hle. congruence.
Qed.

(* the printed magnitude *)
Definition dval (r : dres) : Q := inject_Z (d_q r) / pow10q (d_k r).

(* faithful: inside the rounding interval of the float, or (only when the cut-off at dp digits
   was reached) within half a unit of the dp-th decimal place *)
Definition faithful (f : flt) (dp : Z) (r : dres) : Prop :=
  (fval f - mlow f <= dval r /\ dval r <= fval f + mhigh f) \/
  (d_k r = dp /\ Qabs (dval r - fval f) <= (1 # 2) / pow10q dp).

Lemma step_k_spec f dp k r : step_k f dp k = Some r -> d_k r = k /\ faithful f dp r.
Proof.
  unfold step_k.
  set (v := fval f). set (sc := pow10q k). set (t := v * sc). set (d := Qfloor t).
  set (lo := inject_Z d / sc). set (hi := inject_Z (d + 1) / sc).
  assert (Hsc : 0 < sc) by apply pow10q_pos.
  assert (Hfl : inject_Z d <= t) by apply Qfloor_le.
  assert (Hfu : t < inject_Z (d + 1)) by apply Qlt_floor.
  assert (Hlo : lo <= v).
  { unfold lo. apply Qle_shift_div_r; [exact Hsc|exact Hfl]. }
  assert (Hhi : v < hi).
  { unfold hi. apply Qlt_shift_div_l; [exact Hsc|exact Hfu]. }
  pose proof (mhigh_pos f) as Hmh. pose proof (mlow_pos f) as Hml.
  destruct (le_or_lt (Z.even (f_m f)) (v - lo) (mlow f)) eqn:Elow;
  destruct (le_or_lt (Z.even (f_m f)) (hi - v) (mhigh f)) eqn:Ehigh; cbn [orb negb Bool.eqb].
  - (* both acceptable *)
    apply le_or_lt_le in Elow. apply le_or_lt_le in Ehigh.
    intros H. injection H as <-. split; [reflexivity|]. left. unfold dval. cbn [d_q d_k]. fold sc. fold v.
    destruct (t - inject_Z d ?= 1 # 2); [destruct (Z.even d)| |]; fold lo; fold hi; split; lra.
  - apply le_or_lt_le in Elow. intros H. injection H as <-. split; [reflexivity|]. left.
    unfold dval. cbn [d_q d_k]. fold sc. fold v. fold lo. split; lra.
  - apply le_or_lt_le in Ehigh. intros H. injection H as <-. split; [reflexivity|]. left.
    unfold dval. cbn [d_q d_k]. fold sc. fold v. fold hi. split; lra.
  - (* neither: only at the cut-off *)
    destruct (Z.eqb_spec k dp) as [->|Hne]; [|discriminate].
    intros H. injection H as <-. split; [reflexivity|]. right. split; [reflexivity|].
    unfold dval. cbn [d_q d_k]. fold sc. fold v.
    assert (Hinj : inject_Z (d + 1) == inject_Z d + 1) by (rewrite inject_Z_plus; reflexivity).
    assert (Hgen : forall z : Z, Qabs (inject_Z z - t) <= 1 # 2 -> Qabs (inject_Z z / sc - v) <= (1 # 2) / sc).
    { intros z Hz. setoid_replace (inject_Z z / sc - v) with ((inject_Z z - t) / sc)
        by (unfold t; field; lra).
      unfold Qdiv. rewrite Qabs_Qmult. rewrite (Qabs_pos (/ sc)) by (apply Qlt_le_weak, Qinv_lt_0_compat; exact Hsc).
      apply Qmult_le_compat_r; [exact Hz|]. apply Qlt_le_weak, Qinv_lt_0_compat. exact Hsc. }
    apply Hgen. apply Qabs_Qle_condition.
    destruct (Qcompare_spec (t - inject_Z d) (1 # 2)) as [He|Hl|Hg].
    + destruct (Z.even d); [|rewrite Hinj]; split; lra.
    + split; lra.
    + rewrite Hinj. split; lra.
Qed.

Lemma step_k_at_dp f dp : step_k f dp dp <> None.
Proof. unfold step_k. rewrite Z.eqb_refl, !orb_true_r. discriminate. Qed.

Lemma gen_spec fuel : forall f dp k r, (k <= dp)%Z -> gen fuel f dp k = Some r ->
  (k <= d_k r <= dp)%Z /\ faithful f dp r.
Proof.
  induction fuel as [|fuel IH]; intros f dp k r Hk; cbn [gen]; [discriminate|].
  destruct (step_k f dp k) as [r'|] eqn:E.
  - intros H. injection H as <-. destruct (step_k_spec f dp k r' E) as [Hk' Hf]. split; [lia|exact Hf].
  - intros H. assert (k <> dp) by (intros ->; now apply (step_k_at_dp f dp)).
    destruct (IH f dp (k + 1)%Z r ltac:(lia) H) as [Hr Hf]. split; [lia|exact Hf].
Qed.

Lemma gen_total fuel : forall f dp k, (k <= dp)%Z -> (Z.to_nat (dp - k) < fuel)%nat -> gen fuel f dp k <> None.
Proof.
  induction fuel as [|fuel IH]; intros f dp k Hk Hf; [lia|]. cbn [gen].
  destruct (step_k f dp k) as [r'|] eqn:E; [discriminate|].
  assert (k <> dp) by (intros ->; now apply (step_k_at_dp f dp)).
  apply IH; lia.
Qed.

(* the number printed for every finite non-zero float: at most dp fractional digits, faithful *)
Theorem fmt_digits_spec f dp : exists r, fmt_digits f dp = Some r /\
  (d_k r <= Z.of_nat dp)%Z /\ faithful f (Z.of_nat dp) r.
Proof.
  unfold fmt_digits. set (k0 := Z.min (first_place 800 (fval f) 0) (Z.of_nat dp)).
  assert (Hk0 : (k0 <= Z.of_nat dp)%Z) by (unfold k0; lia).
  destruct (gen (S (Z.to_nat (Z.of_nat dp - k0))) f (Z.of_nat dp) k0) as [r|] eqn:E.
  - exists r. split; [reflexivity|]. destruct (gen_spec _ _ _ _ _ Hk0 E) as [Hr Hf]. split; [lia|exact Hf].
  - exfalso. revert E. apply gen_total; [exact Hk0|lia].
Qed.

(* non-finite values are rejected; zero prints as "0" *)
Lemma decode_special eb mb bits : ((bits / 2 ^ mb) mod 2 ^ eb =? 2 ^ eb - 1)%Z = true ->
  number eb mb bits = fun _ => None.
Proof. intros H. unfold number, decode. rewrite H. reflexivity. Qed.

(* ---------------------------------------------------------------- the printer *)
Open Scope Z_scope.

Definition is_digit (d : N) : Prop := (d < 10)%N.

Lemma digits_aux_digits fuel : forall n acc, 0 <= n -> Forall is_digit acc -> Forall is_digit (digits_aux fuel n acc).
Proof.
  induction fuel as [|fuel IH]; intros n acc Hn Hacc; cbn [digits_aux]; [exact Hacc|].
  destruct (Z.ltb_spec n 10).
  - constructor; [|exact Hacc]. unfold is_digit. lia.
  - apply IH; [apply Z.div_pos; lia|]. constructor; [|exact Hacc]. unfold is_digit.
    pose proof (Z.mod_pos_bound n 10 ltac:(lia)). lia.
Qed.

Lemma digits_aux_nonempty fuel n acc : digits_aux (S fuel) n acc <> [].
Proof.
  revert n acc. induction fuel as [|fuel IH]; intros n acc; cbn [digits_aux].
  - destruct (n <? 10); discriminate.
  - destruct (n <? 10); [discriminate|]. apply IH.
Qed.

Lemma digits_of_digits n : 0 <= n -> Forall is_digit (digits_of n) /\ digits_of n <> [].
Proof.
  intros Hn. unfold digits_of. split; [apply digits_aux_digits; [exact Hn|constructor]|apply digits_aux_nonempty].
Qed.

Fixpoint dvalue (acc : Z) (ds : list N) : Z :=
  match ds with [] => acc | d :: ds' => dvalue (acc * 10 + Z.of_N d) ds' end.

Lemma dvalue_app acc a b : dvalue acc (a ++ b) = dvalue (dvalue acc a) b.
Proof. revert acc. induction a as [|d a IH]; intros acc; cbn; [reflexivity|apply IH]. Qed.

Definition digit_char (c : N) : Prop := (48 <= c <= 57)%N.
Definition plain_char (c : N) : Prop := c = 45%N \/ c = 46%N \/ digit_char c.

Lemma chr_digit d : is_digit d -> digit_char (chr d).
Proof. unfold is_digit, digit_char, chr. lia. Qed.

Lemma Forall_firstn {A} (P : A -> Prop) n : forall l, Forall P l -> Forall P (firstn n l).
Proof.
  induction n as [|n IH]; intros l H; cbn; [constructor|]. destruct l; [constructor|].
  inversion H; subst. constructor; auto.
Qed.
Lemma Forall_skipn {A} (P : A -> Prop) n : forall l, Forall P l -> Forall P (skipn n l).
Proof.
  induction n as [|n IH]; intros l H; cbn; [exact H|]. destruct l; [constructor|].
  inversion H; subst. auto.
Qed.
Lemma Forall_rev' {A} (P : A -> Prop) l : Forall P l -> Forall P (rev l).
Proof. intros H. rewrite Forall_forall in *. intros x Hx. apply H. now apply in_rev. Qed.
Lemma Forall_strip0 l : Forall is_digit l -> Forall is_digit (strip0 l).
Proof.
  induction l as [|d l IH]; cbn; [auto|]. intros H. inversion H as [|? ? H1 H2]; subst.
  destruct d; [now apply IH|exact H].
Qed.
Lemma strip0_length l : (length (strip0 l) <= length l)%nat.
Proof. induction l as [|d l IH]; cbn; [lia|]. destruct d; cbn; lia. Qed.

(* shape of the printed number: optional '-', at least one digit, then optionally '.' and between
   1 and max(k,0) digits -- nothing else (no exponent, no letters) *)
Theorem render_shape neg r : 0 <= d_q r ->
  exists ip fp, render neg r = (if neg then [45%N] else []) ++ ip ++ (match fp with [] => [] | _ => 46%N :: fp end) /\
    ip <> [] /\ Forall digit_char ip /\ Forall digit_char fp /\ (Z.of_nat (length fp) <= Z.max (d_k r) 0).
Proof.
  intros Hq. unfold render. destruct (Z.leb_spec (d_k r) 0) as [Hk|Hk].
  - destruct (digits_of_digits (d_q r * 10 ^ (- d_k r))) as [Hd Hne]; [apply Z.mul_nonneg_nonneg; [exact Hq|apply Z.pow_nonneg; lia]|].
    exists (map chr (digits_of (d_q r * 10 ^ (- d_k r)))), []. rewrite app_nil_r. split; [reflexivity|]. split.
    + intros E. apply map_eq_nil in E. contradiction.
    + split; [|split; [constructor|cbn; lia]]. apply Forall_map. eapply Forall_impl; [|exact Hd]. apply chr_digit.
  - destruct (digits_of_digits (d_q r) Hq) as [Hd Hne].
    set (k := Z.to_nat (d_k r)). set (ds := digits_of (d_q r)).
    set (padded := repeat 0%N (S k - length ds) ++ ds).
    assert (Hpd : Forall is_digit padded).
    { unfold padded. apply Forall_app. split; [|exact Hd]. apply Forall_forall. intros x Hx.
      apply repeat_spec in Hx. subst x. unfold is_digit. lia. }
    assert (Hlen : (S k <= length padded)%nat).
    { unfold padded. rewrite app_length, repeat_length. lia. }
    set (ip := firstn (length padded - k) padded).
    set (fp := rev (strip0 (rev (skipn (length padded - k) padded)))).
    exists (map chr ip), (map chr fp). split.
    + destruct fp; reflexivity.
    + split.
      * intros E. apply map_eq_nil in E. unfold ip in E.
        assert (Hl : length (firstn (length padded - k) padded) = (length padded - k)%nat) by (apply firstn_length_le; lia).
        rewrite E in Hl. change (length (@nil N)) with 0%nat in Hl. lia.
      * split; [apply Forall_map; eapply Forall_impl; [apply chr_digit|]; unfold ip; now apply Forall_firstn|].
        split.
        -- apply Forall_map. eapply Forall_impl; [apply chr_digit|]. unfold fp.
           apply Forall_rev', Forall_strip0, Forall_rev'. now apply Forall_skipn.
        -- rewrite map_length. unfold fp. rewrite rev_length.
           pose proof (strip0_length (rev (skipn (length padded - k) padded))) as Hs.
           rewrite rev_length, skipn_length in Hs. unfold k in *. lia.
Qed.
