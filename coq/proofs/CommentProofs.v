(* C09: whatever the free text, the executable part of the emitted statement is the same. *)
From Coq Require Import List NArith Bool Lia PeanoNat.
From Coq Require String Ascii.
From GS Require Import gen.GenTables model.Formatter.
Import ListNotations.
Open Scope N_scope.

Definition first (p : pat) : N := match p with P1 a => a | P2 a _ => a end.
Definition sp_free (p : pat) : Prop := match p with P1 a => a <> SP | P2 a b => a <> SP /\ b <> SP end.

(* no occurrence of the pattern at any position *)
Fixpoint Free (p : pat) (l : bytes) : Prop :=
  starts p l = false /\ match l with [] => True | _ :: l' => Free p l' end.

Lemma Free_nil p : Free p []. Proof. destruct p; cbn; auto. Qed.

Lemma starts_sp p r : sp_free p -> starts p (SP :: r) = false.
Proof.
  destruct p as [a|a b]; cbn [starts sp_free]; intros H.
  - apply N.eqb_neq. auto.
  - destruct r; [reflexivity|]. destruct H as [Ha _]. apply andb_false_iff. left. apply N.eqb_neq. auto.
Qed.

Lemma repl_skip1 p y l : repl p 1 (y :: l) = repl p 0 l. Proof. reflexivity. Qed.

(* the head of a replaced text is a blank or the old head *)
Lemma repl_head p l : match repl p 0 l with
                      | [] => l = []
                      | h :: _ => h = SP \/ (exists t, l = h :: t /\ starts p l = false)
                      end.
Proof.
  destruct l as [|x l]; [reflexivity|]. cbn [repl]. destruct (starts p (x :: l)) eqn:E; [now left|].
  right. exists l. auto.
Qed.

Lemma repl_free_len p : sp_free p -> forall n l, (length l <= n)%nat -> Free p (repl p 0 l).
Proof.
  intros Hsp. induction n as [|n IH]; intros l Hl.
  - destruct l; [apply Free_nil|cbn in Hl; lia].
  - destruct l as [|x l]; [apply Free_nil|]. cbn [repl]. destruct (starts p (x :: l)) eqn:E.
    + (* a match: blank, then continue after the occurrence *)
      assert (Hrest : Free p (repl p (plen p - 1) l)).
      { destruct p as [a|a b]; cbn [plen Nat.sub].
        - apply IH. cbn in Hl. lia.
        - destruct l as [|y l]; [apply Free_nil|]. rewrite repl_skip1. apply IH. cbn in Hl. lia. }
      split; [now apply starts_sp|exact Hrest].
    + assert (Hrest : Free p (repl p 0 l)) by (apply IH; cbn in Hl; lia).
      split; [|exact Hrest].
      destruct p as [a|a b]; cbn [starts] in *; [exact E|].
      pose proof (repl_head (P2 a b) l) as Hh.
      destruct (repl (P2 a b) 0 l) as [|h r] eqn:Er; [reflexivity|].
      destruct (N.eqb_spec x a) as [->|Hne]; [|reflexivity]. cbn [andb].
      destruct Hh as [->|(t & -> & Hs)].
      * apply N.eqb_neq. destruct Hsp as [_ Hb]. auto.
      * cbn [starts andb] in E. exact E.
Qed.

Lemma repl_free p l : sp_free p -> Free p (replace_sp p l).
Proof. intros H. unfold replace_sp. now apply (repl_free_len p H (length l)). Qed.

Lemma repl_in x p : forall k l, In x (repl p k l) -> x = SP \/ In x l.
Proof.
  intros k l. revert k. induction l as [|y l IH]; intros k; cbn [repl]; [contradiction|].
  destruct k as [|k].
  - destruct (starts p (y :: l)); cbn; intros [H|H]; auto; destruct (IH _ H); auto.
  - intros H. destruct (IH _ H); cbn; auto.
Qed.

Lemma repl1_no z l : z <> SP -> ~ In z (replace_sp (P1 z) l).
Proof.
  intros Hz. unfold replace_sp. induction l as [|y l IH]; cbn [repl starts]; [auto|].
  destruct (N.eqb_spec y z) as [->|Hne]; cbn [plen Nat.sub]; intros [H|H]; auto.
Qed.

(* ---------------------------------------------------------------- searching *)
Lemma starts_first p x l : x <> first p -> starts p (x :: l) = false.
Proof.
  destruct p as [a|a b]; cbn [starts first]; intros H.
  - now apply N.eqb_neq.
  - destruct l; [reflexivity|]. apply andb_false_iff. left. now apply N.eqb_neq.
Qed.

Lemma find_skip_pre p pre r : Forall (fun x => x <> first p) pre ->
  find_occ p (pre ++ r) = match find_occ p r with Some j => Some (length pre + j)%nat | None => None end.
Proof.
  induction 1 as [|x pre Hx _ IH]; cbn [app length find_occ]; [destruct (find_occ p r); reflexivity|].
  rewrite (starts_first p x _ Hx), IH. destruct (find_occ p r); reflexivity.
Qed.

Lemma starts_here p r : starts p (pbytes p ++ r) = true.
Proof. destruct p as [a|a b]; cbn; rewrite ?N.eqb_refl; reflexivity. Qed.

Lemma find_here p r : find_occ p (pbytes p ++ r) = Some O.
Proof.
  destruct p as [a|a b]; cbn [pbytes app find_occ]; rewrite (starts_here _ r) || idtac.
  - cbn. rewrite N.eqb_refl. reflexivity.
  - cbn. rewrite !N.eqb_refl. reflexivity.
Qed.

Lemma find_free_sp p t r : sp_free p -> Free p t ->
  find_occ p (t ++ SP :: r) = match find_occ p r with Some j => Some (length t + 1 + j)%nat | None => None end.
Proof.
  intros Hsp. induction t as [|x t IH]; intros Hf.
  - cbn [app length find_occ]. rewrite (starts_sp p r Hsp). destruct (find_occ p r); reflexivity.
  - destruct Hf as [Hs Hf]. cbn [app length find_occ].
    assert (Hs' : starts p (x :: t ++ SP :: r) = false).
    { destruct p as [a|a b]; cbn [starts] in *; [exact Hs|].
      destruct t as [|y t]; cbn [app].
      - destruct (N.eqb x a); [|reflexivity]. cbn [andb]. apply N.eqb_neq. destruct Hsp. auto.
      - exact Hs. }
    rewrite Hs', (IH Hf). destruct (find_occ p r); reflexivity.
Qed.

Lemma skipn_app_len {A} (a b : list A) : skipn (length a) (a ++ b) = b.
Proof. induction a; cbn; auto. Qed.
Lemma firstn_app_len {A} (a b : list A) : firstn (length a) (a ++ b) = a.
Proof. induction a; cbn; [reflexivity|now f_equal]. Qed.
Lemma plen_len p : length (pbytes p) = plen p. Proof. destruct p; reflexivity. Qed.

(* ---------------------------------------------------------------- the statement *)
Definition style_ok (st : cstyle) : Prop :=
  match st with
  | Prefix s => first s <> SP
  | Bracket o c => first o <> SP /\ sp_free o /\ sp_free c
  end.
Definition opener (st : cstyle) : pat := match st with Prefix s => s | Bracket o _ => o end.
(* the formatted words never contain the first byte of the comment opener *)
Definition words_ok (st : cstyle) (w : bytes) : Prop := Forall (fun x => x <> first (opener st)) w.

Lemma strip_nil f st : strip_comments f st [] = [].
Proof. destruct f; [reflexivity|]. destruct st as [s|o c]; cbn; destruct s || destruct o; reflexivity. Qed.

(* what executes is the words and a blank: the text has no say *)
Theorem strip_statement f st w t : style_ok st -> words_ok st w ->
  strip_comments (S f) st (statement st w t) =
  match st with Prefix _ => w ++ [SP] | Bracket _ _ => (w ++ [SP]) ++ [SP] end.
Proof.
  intros Hst Hw. unfold statement, fmt_comment. destruct st as [s|o c].
  - (* prefix comment: cut at the first occurrence, which is the comment itself *)
    cbn [strip_comments].
    assert (Hpre : Forall (fun x => x <> first s) (w ++ [SP])).
    { apply Forall_app. split; [exact Hw|]. constructor; [|constructor]. cbn in Hst. auto. }
    replace (w ++ SP :: pbytes s ++ SP :: sanitize (Prefix s) t) with ((w ++ [SP]) ++ pbytes s ++ SP :: sanitize (Prefix s) t)
      by (rewrite <- app_assoc; reflexivity).
    rewrite (find_skip_pre s _ _ Hpre), find_here, Nat.add_0_r. apply firstn_app_len.
  - destruct Hst as (Ho & Hso & Hsc).
    set (t' := sanitize (Bracket o c) t).
    assert (Hfree : Free c t') by (unfold t', sanitize; now apply repl_free).
    assert (Hpre : Forall (fun x => x <> first o) (w ++ [SP])).
    { apply Forall_app. split; [exact Hw|]. constructor; [|constructor]. auto. }
    replace (w ++ SP :: pbytes o ++ SP :: t' ++ SP :: pbytes c)
      with ((w ++ [SP]) ++ pbytes o ++ SP :: t' ++ SP :: pbytes c) by (rewrite <- app_assoc; reflexivity).
    cbn [strip_comments]. rewrite (find_skip_pre o _ _ Hpre), find_here, Nat.add_0_r.
    assert (Hskip : skipn (length (w ++ [SP]) + plen o) ((w ++ [SP]) ++ pbytes o ++ SP :: t' ++ SP :: pbytes c)
                    = SP :: t' ++ SP :: pbytes c).
    { rewrite <- plen_len, <- app_length, app_assoc. apply skipn_app_len. }
    rewrite Hskip.
    assert (Hfind : find_occ c (SP :: t' ++ SP :: pbytes c) = Some (S (length t' + 1 + 0))).
    { cbn [find_occ]. rewrite (starts_sp c _ Hsc).
      replace (SP :: pbytes c) with (SP :: pbytes c ++ []) by now rewrite app_nil_r.
      rewrite (find_free_sp c t' _ Hsc Hfree), find_here. reflexivity. }
    rewrite Hfind, firstn_app_len.
    assert (Hend : skipn (S (length t' + 1 + 0) + plen c) (SP :: t' ++ SP :: pbytes c) = []).
    { replace (SP :: t' ++ SP :: pbytes c) with ((SP :: t' ++ [SP]) ++ pbytes c)
        by (cbn; rewrite <- app_assoc; reflexivity).
      replace (S (length t' + 1 + 0) + plen c)%nat with (length ((SP :: t' ++ [SP]) ++ pbytes c)).
      - apply skipn_all.
      - rewrite app_length, plen_len. cbn [length]. rewrite app_length. cbn. lia. }
    rewrite Hend, strip_nil. reflexivity.
Qed.

(* no line break can come out of the comment *)
Lemma sanitize_no_breaks st t : style_ok st -> ~ In LF (sanitize st t) /\ ~ In CR (sanitize st t).
Proof.
  intros Hst.
  assert (H1 : ~ In LF (replace_sp (P1 LF) (replace_sp (P1 CR) t))) by (apply repl1_no; discriminate).
  assert (H2 : ~ In CR (replace_sp (P1 LF) (replace_sp (P1 CR) t))).
  { intros H. apply repl_in in H as [H|H]; [discriminate|]. revert H. apply repl1_no. discriminate. }
  unfold sanitize. destruct st as [s|o c]; [auto|]. split; intros H.
  - apply repl_in in H as [H|H]; [discriminate|]. apply repl_in in H as [H|H]; [discriminate|]. auto.
  - apply repl_in in H as [H|H]; [discriminate|]. apply repl_in in H as [H|H]; [discriminate|]. auto.
Qed.

Lemma count_breaks_app a b : count_breaks (a ++ b) = (count_breaks a + count_breaks b)%nat.
Proof. unfold count_breaks. now rewrite filter_app, app_length. Qed.

Lemma count_breaks_none l : ~ In LF l -> ~ In CR l -> count_breaks l = 0%nat.
Proof.
  unfold count_breaks. induction l as [|x l IH]; cbn; [auto|]. intros H1 H2.
  destruct (N.eqb_spec x LF) as [->|]; [exfalso; apply H1; now left|].
  destruct (N.eqb_spec x CR) as [->|]; [exfalso; apply H2; now left|]. cbn. apply IH; intuition.
Qed.

Definition no_breaks (l : bytes) : Prop := ~ In LF l /\ ~ In CR l.
Definition pat_no_breaks (p : pat) : Prop := no_breaks (pbytes p).

Theorem line_breaks st eol w t : style_ok st -> pat_no_breaks (opener st) ->
  (match st with Bracket _ c => pat_no_breaks c | _ => True end) ->
  count_breaks (emit_line st eol w t) = (count_breaks w + count_breaks eol)%nat.
Proof.
  intros Hst Ho Hc. unfold emit_line, statement. rewrite !count_breaks_app.
  assert (Hz : count_breaks (SP :: fmt_comment st t) = 0%nat); [|lia].
  destruct (sanitize_no_breaks st t Hst) as [H1 H2].
  apply count_breaks_none; unfold fmt_comment; destruct st as [s|o c]; cbn [opener] in *;
    destruct Ho as [Ho1 Ho2]; try destruct Hc as [Hc1 Hc2];
    intros [E|H]; try discriminate E; apply in_app_or in H as [H|H]; auto;
    destruct H as [E|H]; try discriminate E; auto;
    apply in_app_or in H as [H|H]; auto; destruct H as [E|H]; try discriminate E; auto.
Qed.

(* ---------------------------------------------------------------- the styles of the live table *)
Definition byte_of (c : Ascii.ascii) : N := Ascii.N_of_ascii c.
Definition pat_of (s : String.string) : option pat :=
  match s with
  | String.String a String.EmptyString => Some (P1 (byte_of a))
  | String.String a (String.String b String.EmptyString) => Some (P2 (byte_of a) (byte_of b))
  | _ => None
  end.
Definition style_of (o c : String.string) : option cstyle :=
  match pat_of o, pat_of c with Some po, Some pc => Some (Bracket po pc) | _, _ => None end.

Fixpoint zip {A B} (a : list A) (b : list B) : list (A * B) :=
  match a, b with x :: a', y :: b' => (x, y) :: zip a' b' | _, _ => [] end.

Definition pat_okb (p : pat) : bool :=
  match p with
  | P1 a => negb (N.eqb a SP) && negb (N.eqb a LF) && negb (N.eqb a CR)
  | P2 a b => negb (N.eqb a SP) && negb (N.eqb a LF) && negb (N.eqb a CR) &&
              negb (N.eqb b SP) && negb (N.eqb b LF) && negb (N.eqb b CR)
  end.

(* every bracketed style of DefaultFormatter (COMMENT_OPENINGS / COMMENT_ENDINGS as regenerated
   from /repo) has delimiters of one or two bytes, free of blanks and line breaks *)
Lemma table_styles_ok :
  forallb (fun oc => match style_of (fst oc) (snd oc) with
                     | Some (Bracket o c) => pat_okb o && pat_okb c
                     | _ => false end) (zip comment_openings comment_endings) = true
  /\ length comment_openings = length comment_endings.
Proof. vm_compute. split; reflexivity. Qed.

Lemma pat_okb_spec p : pat_okb p = true -> first p <> SP /\ sp_free p /\ pat_no_breaks p.
Proof.
  destruct p as [a|a b]; cbn; intros H; repeat (apply andb_prop in H as [H ?]);
    repeat match goal with H : negb (N.eqb _ _) = true |- _ => apply negb_true_iff, N.eqb_neq in H end;
    unfold pat_no_breaks, no_breaks; cbn; intuition.
Qed.
