(* Facts about the number layer (model/Num.v): rounding error of round_dp, canonical forms. *)
From Coq Require Import ZArith QArith Qround Qabs Lia Lqa.
From GS Require Import model.Num.
Open Scope Q_scope.

Lemma pow10_pos n : (0 < pow10 n)%Z.
Proof. induction n as [|n IH]; cbn [pow10]; lia. Qed.

Definition scale (dp : nat) : Q := inject_Z (pow10 dp).

Lemma scale_pos dp : 0 < scale dp.
Proof. unfold scale, Qlt, inject_Z. cbn. pose proof (pow10_pos dp). lia. Qed.

Lemma half_unit_scale dp : half_unit dp * scale dp == 1 # 2.
Proof.
  unfold half_unit, scale, inject_Z, Qeq, Qmult. cbn [Qnum Qden].
  pose proof (pow10_pos dp) as H. destruct (pow10 dp) as [|p|p] eqn:E; [lia| |lia].
  cbn [Z.to_pos]. rewrite ?Pos.mul_1_r. lia.
Qed.

Lemma half_unit_pos dp : 0 < half_unit dp.
Proof. unfold half_unit, Qlt. cbn. lia. Qed.

(* the rounded value is within half a unit of the last place *)
Theorem round_dp_bounds dp q : q - half_unit dp <= round_dp dp q /\ round_dp dp q <= q + half_unit dp.
Proof.
  unfold round_dp. fold (scale dp).
  set (S := scale dp). set (n := q * S). set (fl := Qfloor n).
  assert (HS : 0 < S) by apply scale_pos.
  assert (Hlo : inject_Z fl <= n) by apply Qfloor_le.
  assert (Hhi : n < inject_Z (fl + 1)) by apply Qlt_floor.
  assert (Hinj : inject_Z (fl + 1) == inject_Z fl + 1) by (rewrite inject_Z_plus; reflexivity).
  assert (Hh : half_unit dp * S == 1 # 2) by apply half_unit_scale.
  set (r := match n - (fl # 1) ?= 1 # 2 with
            | Eq => if Z.even fl then fl else (fl + 1)%Z
            | Lt => fl
            | Gt => (fl + 1)%Z
            end).
  assert (Hr : n - (1 # 2) <= inject_Z r /\ inject_Z r <= n + (1 # 2)).
  { unfold r. change (fl # 1) with (inject_Z fl).
    destruct (Qcompare_spec (n - inject_Z fl) (1 # 2)) as [He|Hl|Hg].
    - destruct (Z.even fl); [|rewrite Hinj]; split; lra.
    - split; lra.
    - rewrite Hinj. split; lra. }
  rewrite Qred_correct. change (r # 1) with (inject_Z r). change (pow10 dp # 1) with S.
  destruct Hr as [Hr1 Hr2]. split.
  - apply Qle_shift_div_l; [exact HS|].
    setoid_replace ((q - half_unit dp) * S) with (n - half_unit dp * S) by (unfold n; ring).
    rewrite Hh. exact Hr1.
  - apply Qle_shift_div_r; [exact HS|].
    setoid_replace ((q + half_unit dp) * S) with (n + half_unit dp * S) by (unfold n; ring).
    rewrite Hh. exact Hr2.
Qed.

Corollary round_dp_err dp q : Qabs (round_dp dp q - q) <= half_unit dp.
Proof.
  destruct (round_dp_bounds dp q) as [H1 H2]. apply Qabs_Qle_condition. split; lra.
Qed.

(* the operations return canonical rationals, numerically equal to the plain operation *)
Lemma qadd_eq a b : qadd a b == a + b. Proof. apply Qred_correct. Qed.
Lemma qsub_eq a b : qsub a b == a - b. Proof. apply Qred_correct. Qed.
Lemma qmul_eq a b : qmul a b == a * b. Proof. apply Qred_correct. Qed.
Lemma qleb_le a b : qleb a b = true <-> a <= b. Proof. apply Qle_bool_iff. Qed.
Lemma qeqb_eq a b : qeqb a b = true <-> a == b. Proof. apply Qeq_bool_iff. Qed.

(* a value inside [lo, hi] is emitted inside [lo - eps, hi + eps] *)
Corollary round_in_range dp lo hi x : lo <= x -> x <= hi ->
  lo - half_unit dp <= round_dp dp x /\ round_dp dp x <= hi + half_unit dp.
Proof. intros H1 H2. destruct (round_dp_bounds dp x). split; lra. Qed.
