(* C18: readings after a device report. *)
From Coq Require Import List NArith ZArith QArith Bool Lia.
From GS Require Import model.Report.
Import ListNotations.
Open Scope N_scope.

(* ---------------------------------------------------------------- byte-string equality *)
Lemma beq_refl a : beq a a = true.
Proof. induction a as [|x a IH]; cbn; [reflexivity|]. now rewrite N.eqb_refl, IH. Qed.
Lemma beq_eq a : forall b, beq a b = true -> a = b.
Proof.
  induction a as [|x a IH]; intros [|y b]; cbn; try discriminate; [reflexivity|].
  intros H. apply andb_prop in H as [H1 H2]. apply N.eqb_eq in H1. subst. f_equal. now apply IH.
Qed.
Lemma beq_neq a b : a <> b -> beq a b = false.
Proof. intros H. destruct (beq a b) eqn:E; [|reflexivity]. exfalso. apply H. now apply beq_eq. Qed.
Lemma beq_sym a b : beq a b = beq b a.
Proof.
  destruct (beq a b) eqn:E.
  - apply beq_eq in E. subst. symmetry. apply beq_refl.
  - destruct (beq b a) eqn:E'; [|reflexivity]. apply beq_eq in E'. subst. now rewrite beq_refl in E.
Qed.

Lemma rget_rset k v l k' : rget k' (rset k v l) = if beq k' k then Some v else rget k' l.
Proof.
  induction l as [|[k0 v0] l IH]; cbn [rset rget].
  - destruct (beq k' k); reflexivity.
  - destruct (beq k k0) eqn:E; cbn [rget].
    + apply beq_eq in E. subst k0. destruct (beq k' k); reflexivity.
    + destruct (beq k' k0) eqn:E'.
      * apply beq_eq in E'. subst k0. rewrite beq_sym in E. now rewrite E.
      * exact IH.
Qed.

(* ---------------------------------------------------------------- the first-occurrence rule *)
(* the elementary updates of one report, in order *)
Definition updates := list (key * Q).

Definition run_updates (s : rstate) (us : updates) : rstate :=
  fold_left (fun s kv => update_param s (fst kv) (snd kv)) us s.

Fixpoint first_of (k : key) (us : updates) : option Q :=
  match us with [] => None | (k', v) :: us' => if beq k k' then Some v else first_of k us' end.

Definition is_upper_key (k : key) : Prop := map upper k = k.

(* invariant while a report is processed: a letter already reported in this report keeps the value
   it got then *)
Lemma run_updates_spec us : forall s k, Forall (fun kv => is_upper_key (fst kv)) us -> is_upper_key k ->
  rget k (readings (run_updates s us)) =
  if kmem k (reported s) then rget k (readings s)
  else match first_of k us with Some v => Some v | None => rget k (readings s) end.
Proof.
  induction us as [|[k0 v0] us IH]; intros s k Hu Hk; cbn [run_updates fold_left first_of].
  - destruct (kmem k (reported s)); reflexivity.
  - inversion Hu as [|? ? H0 Hu']; subst. cbn [fst snd] in *.
    fold (run_updates (update_param s k0 v0) us). rewrite (IH _ k Hu' Hk).
    unfold update_param. destruct (kmem k0 (reported s)) eqn:E0.
    + (* already reported: this update is ignored *)
      destruct (kmem k (reported s)) eqn:Ek; [reflexivity|].
      destruct (beq k k0) eqn:Ekk; [apply beq_eq in Ekk; subst; congruence|reflexivity].
    + cbn [reported readings kmem existsb]. rewrite H0, rget_rset.
      destruct (beq k k0) eqn:Ekk; cbn [orb].
      * apply beq_eq in Ekk. subst k0. rewrite E0. reflexivity.
      * unfold kmem. destruct (existsb (beq k) (reported s)); reflexivity.
Qed.

(* a fresh report: nothing reported yet *)
Corollary report_readings us old k : Forall (fun kv => is_upper_key (fst kv)) us -> is_upper_key k ->
  rget k (readings (run_updates (mkr old []) us)) =
  match first_of k us with Some v => Some v | None => rget k old end.
Proof. intros Hu Hk. now rewrite (run_updates_spec us (mkr old []) k Hu Hk). Qed.

(* ---------------------------------------------------------------- from key/value fields to updates *)
Fixpoint fan_updates (axes : list key) (parts : list bytes) : updates :=
  match axes, parts with
  | a :: axes', p :: parts' =>
    match parse_float p with Some v => (a, v) :: fan_updates axes' parts' | None => [] end
  | _, _ => []
  end.

Definition expand (starts_lt : bool) (kv : key * list bytes) : updates :=
  let '(k, vs) := kv in
  match k, vs with
  | [c], [v] => match parse_float v with Some q => [(k, q)] | None => [] end
  | [c], _ => []
  | _, _ =>
    if beq k K_FS && starts_lt then
      match vs with
      | [f; sp] => match parse_float f with
                   | Some qf => match parse_float sp with Some qs => [([70], qf); ([83], qs)] | None => [([70], qf)] end
                   | None => [] end
      | _ => []
      end
    else if beq k K_MPOS || beq k K_WPOS || beq k K_PRB then fan_updates AXES vs
    else []
  end.

Lemma fan_out_updates axes : forall parts s, fan_out s axes parts = run_updates s (fan_updates axes parts).
Proof.
  induction axes as [|a axes IH]; intros parts s; cbn [fan_out fan_updates]; [reflexivity|].
  destruct parts as [|p parts]; [reflexivity|]. destruct (parse_float p); [|reflexivity].
  cbn [run_updates fold_left fst snd]. apply IH.
Qed.

Lemma handle_kv_updates lt s kv : handle_kv lt s kv = run_updates s (expand lt kv).
Proof.
  destruct kv as [k vs]. unfold handle_kv, expand.
  destruct k as [|c [|c2 k]].
  - destruct vs; cbn; rewrite ?andb_false_l; reflexivity.
  - destruct vs as [|v [|v2 vs]]; [reflexivity| |reflexivity]. destruct (parse_float v); reflexivity.
  - destruct (beq (c :: c2 :: k) K_FS && lt).
    + destruct vs as [|f [|sp [|x vs]]]; try reflexivity.
      destruct (parse_float f); [|reflexivity]. destruct (parse_float sp); reflexivity.
    + destruct (beq (c :: c2 :: k) K_MPOS || beq (c :: c2 :: k) K_WPOS || beq (c :: c2 :: k) K_PRB);
        [apply fan_out_updates|reflexivity].
Qed.

Lemma run_updates_app s a b : run_updates s (a ++ b) = run_updates (run_updates s a) b.
Proof. unfold run_updates. apply fold_left_app. Qed.

Lemma fold_handle lt kvs : forall s, fold_left (handle_kv lt) kvs s = run_updates s (flat_map (expand lt) kvs).
Proof.
  induction kvs as [|kv kvs IH]; intros s; cbn [fold_left flat_map]; [reflexivity|].
  rewrite IH, handle_kv_updates, run_updates_app. reflexivity.
Qed.

(* all update keys produced by upper-case single-letter fields and the fan-out keys are upper case *)
Definition field_upper (kv : key * list bytes) : Prop :=
  match fst kv with [c] => upper c = c | _ => True end.

Lemma fan_updates_upper : forall axes parts, Forall is_upper_key axes ->
  Forall (fun kv => is_upper_key (fst kv)) (fan_updates axes parts).
Proof.
  induction axes as [|a axes IH]; intros parts Ha; cbn [fan_updates]; [constructor|].
  destruct parts as [|p parts]; [constructor|]. destruct (parse_float p); [|constructor].
  inversion Ha; subst. constructor; [assumption|now apply IH].
Qed.

Lemma axes_upper : Forall is_upper_key AXES.
Proof. repeat constructor. Qed.

Lemma expand_upper lt kv : field_upper kv -> Forall (fun u => is_upper_key (fst u)) (expand lt kv).
Proof.
  destruct kv as [k vs]. unfold field_upper, expand. cbn [fst].
  destruct k as [|c [|c2 k]]; intros Hc.
  - destruct vs; cbn; rewrite ?andb_false_l; constructor.
  - destruct vs as [|v [|v2 vs]]; try constructor. destruct (parse_float v); [|constructor].
    constructor; [|constructor]. unfold is_upper_key. cbn. now rewrite Hc.
  - destruct (beq (c :: c2 :: k) K_FS && lt).
    + destruct vs as [|f [|sp [|x vs]]]; try constructor.
      destruct (parse_float f); [|constructor]. destruct (parse_float sp); repeat constructor.
    + destruct (_ || _); [apply fan_updates_upper, axes_upper|constructor].
Qed.

(* C18: after a report whose scanned fields are kvs (single-letter keys in upper case), the reading of
   every upper-case letter k is the first value reported for k in that report -- directly, through
   FS (F, S) or through MPos / WPos / PRB (X Y Z A B C) -- and is unchanged if the report does not
   mention k *)
Theorem readings_after_fields lt kvs old k : Forall field_upper kvs -> is_upper_key k ->
  rget k (readings (fold_left (handle_kv lt) kvs (mkr old []))) =
  match first_of k (flat_map (expand lt) kvs) with Some v => Some v | None => rget k old end.
Proof.
  intros Hf Hk. rewrite fold_handle. apply report_readings; [|exact Hk].
  induction Hf as [|kv kvs H1 _ IH]; cbn [flat_map]; [constructor|].
  apply Forall_app. split; [now apply expand_upper|exact IH].
Qed.

(* ---------------------------------------------------------------- the scanner on the report grammar *)
(* a report is a sequence of fields: KEY:v1,v2,... or inert text *)
Inductive field := KV (k : bytes) (vs : list bytes) | Junk (j : bytes).

Fixpoint join_vals (vs : list bytes) : bytes :=
  match vs with [] => [] | [v] => v | v :: vs' => v ++ COMMA :: join_vals vs' end.
Definition render_field (f : field) : bytes :=
  match f with KV k vs => k ++ COLON :: join_vals vs | Junk j => j end.
Fixpoint render (fs : list field) : bytes :=
  match fs with [] => [] | f :: fs' => render_field f ++ render fs' end.

Definition allb (f : N -> bool) (l : bytes) : Prop := forallb f l = true.
(* what follows a value ends it: not a value byte, and not a comma followed by a value byte *)
Definition ends_value (rest : bytes) : Prop :=
  match rest with
  | [] => True
  | c :: r => is_val c = false /\ (c = COMMA -> match r with [] => True | d :: _ => is_val d = false end)
  end.
(* inert text: no alphanumeric byte directly before a colon, and it does not end alphanumerically *)
Fixpoint junk_ok (j : bytes) : bool :=
  match j with
  | [] => true
  | x :: j' => match j' with
               | [] => negb (is_alnum x)
               | y :: _ => (negb (is_alnum x) || (is_alnum y)) || negb (y =? COLON)
               end && junk_ok j'
  end.
Definition junk_ok' (j : bytes) : bool :=
  junk_ok j && forallb (fun i => true) j.

Fixpoint wf (fs : list field) : Prop :=
  match fs with
  | [] => True
  | KV k vs :: fs' => k <> [] /\ allb is_alnum k /\ vs <> [] /\ Forall (fun v => v <> [] /\ allb is_val v) vs /\
                      ends_value (render fs') /\ wf fs'
  | Junk j :: fs' => junk_ok j = true /\ wf fs'
  end.

Fixpoint kvs_of (fs : list field) : list (bytes * list bytes) :=
  match fs with [] => [] | KV k vs :: fs' => (k, vs) :: kvs_of fs' | Junk _ :: fs' => kvs_of fs' end.

Lemma span_all f a x r : allb f a -> f x = false -> span f (a ++ x :: r) = (a, x :: r).
Proof.
  unfold allb. induction a as [|y a IH]; cbn [app span forallb]; intros Ha Hx; [now rewrite Hx|].
  apply andb_prop in Ha as [Hy Ha]. rewrite Hy, (IH Ha Hx). reflexivity.
Qed.
Lemma span_all_nil f a : allb f a -> span f a = (a, []).
Proof.
  unfold allb. induction a as [|y a IH]; cbn [span forallb]; intros Ha; [reflexivity|].
  apply andb_prop in Ha as [Hy Ha]. now rewrite Hy, (IH Ha).
Qed.
Lemma span_val_end v rest : allb is_val v -> ends_value rest -> span is_val (v ++ rest) = (v, rest).
Proof.
  intros Hv He. destruct rest as [|c r]; [rewrite app_nil_r; now apply span_all_nil|].
  destruct He as [Hc _]. now apply span_all.
Qed.

Lemma colon_not_alnum : is_alnum COLON = false. Proof. reflexivity. Qed.
Lemma comma_not_val : is_val COMMA = false. Proof. reflexivity. Qed.

(* the comma-separated tail *)
Lemma more_values_spec vs : forall fuel rest, Forall (fun v => v <> [] /\ allb is_val v) vs -> ends_value rest ->
  (length (flat_map (fun v => COMMA :: v) vs ++ rest) <= fuel)%nat ->
  more_values fuel (flat_map (fun v => COMMA :: v) vs ++ rest) = (vs, rest).
Proof.
  induction vs as [|v vs IH]; intros fuel rest Hvs He Hf; cbn [flat_map app].
  - destruct fuel as [|fuel]; [reflexivity|]. cbn [more_values]. destruct rest as [|c r]; [reflexivity|].
    destruct He as [Hc Hcomma]. destruct (N.eqb_spec c COMMA) as [->|Hne]; [|reflexivity].
    specialize (Hcomma eq_refl). destruct r as [|d r]; [reflexivity|]. cbn [span]. now rewrite Hcomma.
  - inversion Hvs as [|? ? [Hne Hv] Hvs']; subst.
    destruct fuel as [|fuel]; [cbn in Hf; lia|]. cbn [more_values app]. change (COMMA =? COMMA) with true. cbn iota.
    rewrite <- app_assoc.
    assert (Hsp : span is_val (v ++ flat_map (fun v0 => COMMA :: v0) vs ++ rest) = (v, flat_map (fun v0 => COMMA :: v0) vs ++ rest)).
    { destruct vs as [|v2 vs]; cbn [flat_map app].
      - now apply span_val_end.
      - apply span_all; [exact Hv|reflexivity]. }
    rewrite Hsp. destruct v as [|x v]; [congruence|].
    rewrite (IH fuel rest Hvs' He); [reflexivity|]. cbn [flat_map app length] in Hf. rewrite !app_length in Hf. rewrite app_length. cbn [length] in Hf. lia.
Qed.

Lemma join_vals_flat v vs : join_vals (v :: vs) = v ++ flat_map (fun v0 => COMMA :: v0) vs.
Proof.
  revert v. induction vs as [|v2 vs IH]; intros v; [cbn; now rewrite app_nil_r|].
  change (join_vals (v :: v2 :: vs)) with (v ++ COMMA :: join_vals (v2 :: vs)). rewrite IH. reflexivity.
Qed.

Lemma match_here_kv k v vs rest : k <> [] -> allb is_alnum k ->
  Forall (fun v => v <> [] /\ allb is_val v) (v :: vs) -> ends_value rest ->
  match_here (k ++ COLON :: join_vals (v :: vs) ++ rest) = Some (k, v :: vs, rest).
Proof.
  intros Hk Hka Hvs He. unfold match_here. rewrite (span_all is_alnum k COLON _ Hka colon_not_alnum).
  destruct k as [|x k]; [congruence|]. change (COLON =? COLON) with true. cbn iota.
  inversion Hvs as [|? ? [Hne Hv] Hvs']; subst. rewrite join_vals_flat, <- app_assoc.
  assert (Hsp : span is_val (v ++ flat_map (fun v0 => COMMA :: v0) vs ++ rest) = (v, flat_map (fun v0 => COMMA :: v0) vs ++ rest)).
  { destruct vs as [|v2 vs]; cbn [flat_map app].
    - now apply span_val_end.
    - apply span_all; [exact Hv|reflexivity]. }
  rewrite Hsp. destruct v as [|y v]; [congruence|].
  rewrite (more_values_spec vs _ rest Hvs' He (le_n _)). reflexivity.
Qed.

(* inside inert text no match can start *)
Lemma span_junk j rest : forall x, junk_ok (x :: j) = true -> is_alnum x = true ->
  match snd (span is_alnum (x :: j ++ rest)) with [] => True | c :: _ => (c =? COLON) = false end.
Proof.
  induction j as [|y j IH]; intros x Hj Ex.
  - cbn in Hj. rewrite Ex in Hj. discriminate.
  - change (junk_ok (x :: y :: j)) with ((negb (is_alnum x) || is_alnum y || negb (y =? COLON)) && junk_ok (y :: j)) in Hj.
    apply andb_prop in Hj as [H1 H2]. rewrite Ex in H1. cbn [negb orb] in H1.
    cbn [app span]. rewrite Ex. destruct (is_alnum y) eqn:Ey.
    + specialize (IH y H2 Ey). cbn [app span] in IH. rewrite Ey in IH.
      destruct (span is_alnum (j ++ rest)) as [a' b']. exact IH.
    + cbn [snd]. destruct (y =? COLON); [discriminate|reflexivity].
Qed.

Lemma match_here_junk x j rest : junk_ok (x :: j) = true -> match_here (x :: j ++ rest) = None.
Proof.
  intros Hj. unfold match_here. destruct (is_alnum x) eqn:Ex; [|cbn [span]; now rewrite Ex].
  pose proof (span_junk j rest x Hj Ex) as H. destruct (span is_alnum (x :: j ++ rest)) as [key l0].
  cbn [snd] in H. destruct key; [reflexivity|]. destruct l0 as [|c r]; [reflexivity|]. now rewrite H.
Qed.

Lemma findall_junk j : forall fuel rest, junk_ok j = true -> (length (j ++ rest) < fuel)%nat ->
  findall fuel (j ++ rest) = findall (fuel - length j) rest.
Proof.
  induction j as [|x j IH]; intros fuel rest Hj Hf; [cbn; now rewrite Nat.sub_0_r|].
  destruct fuel as [|fuel]; [lia|]. cbn [app findall].
  rewrite (match_here_junk x j rest Hj).
  assert (Hj' : junk_ok j = true).
  { destruct j as [|y j]; [reflexivity|].
    change (junk_ok (x :: y :: j)) with ((negb (is_alnum x) || is_alnum y || negb (y =? COLON)) && junk_ok (y :: j)) in Hj.
    now apply andb_prop in Hj as [_ H]. }
  rewrite (IH fuel rest Hj'); [reflexivity|]. cbn [app length] in Hf. lia.
Qed.

(* C18, scanning: for every well-formed report the scanner returns exactly its KEY:values fields, in order *)
Theorem scan_render fs : wf fs -> forall fuel, (length (render fs) < fuel)%nat -> findall fuel (render fs) = kvs_of fs.
Proof.
  induction fs as [|f fs IH]; intros Hwf fuel Hf; [destruct fuel; reflexivity|].
  destruct f as [k vs|j]; cbn [render render_field kvs_of wf] in *.
  - destruct Hwf as (Hk & Hka & Hvs0 & Hvs & He & Hwf). destruct vs as [|v vs]; [congruence|].
    assert (Hlen : (length (render fs) + 1 < fuel)%nat) by (rewrite !app_length in Hf; cbn [length] in Hf; lia).
    destruct fuel as [|fuel]; [lia|]. rewrite <- app_assoc. cbn [app].
    destruct k as [|x k]; [congruence|]. cbn [app findall].
    change (x :: k ++ COLON :: join_vals (v :: vs) ++ render fs) with ((x :: k) ++ COLON :: join_vals (v :: vs) ++ render fs).
    rewrite (match_here_kv (x :: k) v vs (render fs) Hk Hka Hvs He). f_equal. apply IH; [exact Hwf|].
    lia.
  - destruct Hwf as [Hj Hwf]. rewrite (findall_junk j fuel (render fs) Hj Hf). apply IH; [exact Hwf|].
    rewrite app_length in Hf. lia.
Qed.

Corollary scan_report fs : wf fs -> scan (render fs) = kvs_of fs.
Proof. intros H. unfold scan. apply scan_render; [exact H|lia]. Qed.
