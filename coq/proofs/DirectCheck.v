(* C16: soundness of the trace checker.  Every trace that check_trace accepts is an execution of the host side of the
   model (caller, sender thread, reader thread of model/Direct.v) in which the reader handles exactly the lines that were
   observed on their way to it, in order, each at some moment after it was observed. *)
From Coq Require Import ZArith Bool List Lia PeanoNat.
From GS Require Import model.Direct.
Import ListNotations.

(* host executions against an observed stream of lines: a configuration is the model state and the number of observed
   lines the reader has handled so far *)
Inductive hrun : list event -> (st nat * nat) -> list line -> (st nat * nat) -> list line -> Prop :=
| h_done x seen : hrun [] x seen x seen
| h_handle evs s c seen l x' seen' :                       (* the reader handles the next observed line *)
    nth_error seen c = Some l -> hrun evs (handle s l, Datatypes.S c) seen x' seen' -> hrun evs (s, c) seen x' seen'
| h_rx evs x seen l x' seen' :                             (* one more line is observed on its way to the reader *)
    hrun evs x (seen ++ [l]) x' seen' -> hrun (ERx l :: evs) x seen x' seen'
| h_call evs s c seen s1 x' seen' :
    step nat CallWrite s = Some s1 -> hrun evs (s1, c) seen x' seen' -> hrun (ECall :: evs) (s, c) seen x' seen'
| h_return evs s c seen s1 o x' seen' :
    step nat Return s = Some s1 -> last_outcome_is s1 o = true -> hrun evs (s1, c) seen x' seen' ->
    hrun (EReturn o :: evs) (s, c) seen x' seen'
| h_recv evs s c seen s1 x q rest x' seen' :
    queue nat s = q :: rest -> q = x -> step nat Send s = Some s1 -> hrun evs (s1, c) seen x' seen' ->
    hrun (ERecv x :: evs) (s, c) seen x' seen'.

(* configurations reachable from x by handling further observed lines only *)
Inductive handled (seen : list line) : (st nat * nat) -> (st nat * nat) -> Prop :=
| hd_refl x : handled seen x x
| hd_step s c l y : nth_error seen c = Some l -> handled seen (handle s l, Datatypes.S c) y -> handled seen (s, c) y.

Lemma hrun_after_handled evs seen x y x' seen' : handled seen x y -> hrun evs y seen x' seen' -> hrun evs x seen x' seen'.
Proof. induction 1 as [|s c l y Hn _ IH]; intros H; [exact H|]. eapply h_handle; [exact Hn|]. now apply IH. Qed.

Lemma handled_trans seen x y z : handled seen x y -> handled seen y z -> handled seen x z.
Proof. induction 1 as [|s c l y Hn _ IH]; intros H; [exact H|]. eapply hd_step; [exact Hn|]. now apply IH. Qed.

Lemma insert_in x acc y : In y (insert x acc) -> y = x \/ In y acc.
Proof. unfold insert. destruct (existsb _ _); cbn; intuition. Qed.

(* what expand adds: configurations obtained from (s, c) by handling k lines of rest = skipn c seen and then taking the step *)
Lemma expand_sound l want seen : forall rest s c acc y, rest = skipn c seen ->
  In y (expand l want rest s c acc) ->
  In y acc \/ exists s0 c0 s1, handled seen (s, c) (s0, c0) /\ step nat l s0 = Some s1 /\ y = (s1, c0) /\
                              match want with Some o => last_outcome_is s1 o = true | None => True end.
Proof.
  induction rest as [|x rest IH]; intros s c acc y Hr; cbn [expand].
  - intros Hin. destruct (step nat l s) as [s1|] eqn:Es; [|now left].
    assert (Hgen : In y (match want with Some o => if last_outcome_is s1 o then insert (s1, c) acc else acc | None => insert (s1, c) acc end) ->
      In y acc \/ (y = (s1, c) /\ match want with Some o => last_outcome_is s1 o = true | None => True end)).
    { destruct want as [o|].
      - destruct (last_outcome_is s1 o) eqn:Eo; [|now left]. intros H. apply insert_in in H as [->|H]; [right; auto|now left].
      - intros H. apply insert_in in H as [->|H]; [right; auto|now left]. }
    destruct (Hgen Hin) as [H|[-> Hw]]; [now left|]. right. exists s, c, s1. repeat split; auto. constructor.
  - intros Hin.
    assert (Hnth : nth_error seen c = Some x).
    { clear -Hr. revert seen Hr. induction c as [|c IHc]; intros seen Hr; destruct seen as [|z seen]; cbn in *; try discriminate.
      - now injection Hr as -> _.
      - now apply IHc. }
    assert (Hr' : rest = skipn (Datatypes.S c) seen).
    { clear -Hr. revert seen Hr. induction c as [|c IHc]; intros seen Hr; destruct seen as [|z seen]; cbn in *; try discriminate.
      - now injection Hr as _ ->.
      - now apply IHc. }
    apply (IH (handle s x) (Datatypes.S c) _ y Hr') in Hin. destruct Hin as [Hin|(s0 & c0 & s1 & Hh & Hs & Hy & Hw)].
    + (* in acc' : either acc or the immediate step *)
      destruct (step nat l s) as [s1|] eqn:Es; [|now left].
      assert (Hgen : In y (match want with Some o => if last_outcome_is s1 o then insert (s1, c) acc else acc | None => insert (s1, c) acc end) ->
        In y acc \/ (y = (s1, c) /\ match want with Some o => last_outcome_is s1 o = true | None => True end)).
      { destruct want as [o|].
        - destruct (last_outcome_is s1 o) eqn:Eo; [|now left]. intros H. apply insert_in in H as [->|H]; [right; auto|now left].
        - intros H. apply insert_in in H as [->|H]; [right; auto|now left]. }
      destruct (Hgen Hin) as [H|[-> Hw]]; [now left|]. right. exists s, c, s1. repeat split; auto. constructor.
    + right. exists s0, c0, s1. repeat split; auto. eapply hd_step; [exact Hnth|exact Hh].
Qed.

Lemma fold_expand_sound l want seen : forall states acc0 y,
  In y (fold_left (fun acc x => expand l want (skipn (snd x) seen) (fst x) (snd x) acc) states acc0) ->
  In y acc0 \/ exists x, In x states /\ exists s0 c0 s1, handled seen x (s0, c0) /\ step nat l s0 = Some s1 /\ y = (s1, c0) /\
                                     match want with Some o => last_outcome_is s1 o = true | None => True end.
Proof.
  induction states as [|x states IH]; intros acc0 y; cbn [fold_left]; [now left|].
  intros Hin. apply IH in Hin. destruct Hin as [Hin|(x1 & Hx1 & H)].
  - apply (expand_sound l want seen _ (fst x) (snd x) acc0 y eq_refl) in Hin.
    destruct Hin as [Hin|(s0 & c0 & s1 & Hh & Hs & Hy & Hw)]; [now left|].
    right. exists x. split; [now left|]. exists s0, c0, s1. destruct x as [xs xc]. auto.
  - right. exists x1. split; [now right|exact H].
Qed.

Lemma fold_recv_sound v : forall states acc0 y,
  In y (fold_left (fun acc y0 => match queue nat (fst y0) with
                                 | q :: _ => if Nat.eqb q v then (match step nat Send (fst y0) with Some s' => insert (s', snd y0) acc | None => acc end) else acc
                                 | [] => acc end) states acc0) ->
  In y acc0 \/ exists s c q rest s1, In (s, c) states /\ queue nat s = q :: rest /\ q = v /\ step nat Send s = Some s1 /\ y = (s1, c).
Proof.
  induction states as [|x states IH]; intros acc0 y; cbn [fold_left]; [now left|].
  intros Hin. apply IH in Hin. destruct Hin as [Hin|(s & c & q & rest & s1 & Hs & H)].
  - destruct x as [xs xc]. cbn [fst snd] in Hin. destruct (queue nat xs) as [|q rest] eqn:Eq; [now left|].
    destruct (Nat.eqb_spec q v) as [->|Hne]; [|now left].
    destruct (step nat Send xs) as [s1|] eqn:Es; [|now left].
    apply insert_in in Hin as [->|Hin]; [|now left].
    right. exists xs, xc, v, rest, s1. repeat split; auto. now left.
  - right. exists s, c, q, rest, s1. split; [now right|exact H].
Qed.

Theorem check_sound : forall evs states seen, check evs states seen = true ->
  exists x, In x states /\ exists x' seen', hrun evs x seen x' seen'.
Proof.
  induction evs as [|e evs IH]; intros states seen H; cbn [check] in H.
  - destruct states as [|x states]; [discriminate|]. exists x. split; [now left|]. exists x, seen. constructor.
  - destruct e as [|v|l|o].
    + (* ECall *)
      match type of H with context [fold_left ?f states []] => set (st' := fold_left f states []) in * end.
      destruct st' as [|z zs] eqn:E; [discriminate|]. destruct (IH _ _ H) as (y & Hy & x' & seen' & Hrun).
      rewrite <- E in Hy. unfold st' in Hy. apply fold_expand_sound in Hy. destruct Hy as [[]|(x & Hx & s0 & c0 & s1 & Hh & Hs & -> & _)].
      exists x. split; [exact Hx|]. exists x', seen'. eapply hrun_after_handled; [exact Hh|]. eapply h_call; eauto.
    + (* ERecv *)
      match type of H with context [fold_left ?f states []] => set (st' := fold_left f states []) in * end.
      destruct st' as [|z zs] eqn:E; [discriminate|]. destruct (IH _ _ H) as (y & Hy & x' & seen' & Hrun).
      rewrite <- E in Hy. unfold st' in Hy. apply fold_recv_sound in Hy. destruct Hy as [[]|(s & c & q & rest & s1 & Hin & Hq & Hv & Hs & ->)].
      exists (s, c). split; [exact Hin|]. exists x', seen'. eapply h_recv; eauto.
    + (* ERx *)
      destruct (IH _ _ H) as (x & Hx & x' & seen' & Hrun). exists x. split; [exact Hx|]. exists x', seen'. now constructor.
    + (* EReturn *)
      match type of H with context [fold_left ?f states []] => set (st' := fold_left f states []) in * end.
      destruct st' as [|z zs] eqn:E; [discriminate|]. destruct (IH _ _ H) as (y & Hy & x' & seen' & Hrun).
      rewrite <- E in Hy. unfold st' in Hy. apply fold_expand_sound in Hy. destruct Hy as [[]|(x & Hx & s0 & c0 & s1 & Hh & Hs & -> & Hw)].
      exists x. split; [exact Hx|]. exists x', seen'. eapply hrun_after_handled; [exact Hh|]. eapply h_return; eauto.
Qed.

Corollary check_trace_sound stmts evs : check_trace stmts evs = true ->
  exists x' seen', hrun evs (init nat stmts 0, 0%nat) [] x' seen'.
Proof.
  unfold check_trace. intros H. destruct (check_sound _ _ _ H) as (x & [<-|[]] & x' & seen' & Hr). eauto.
Qed.

(* ---------------------------------------------------------------- from host executions to runs of the closed system *)
Definition nterm_seen (seen : list line) : nat := length (filter is_term seen).

Definition host_eq (s t : st nat) : Prop :=
  todo nat s = todo nat t /\ ph nat s = ph nat t /\ ack nat s = ack nat t /\ stored nat s = stored nat t /\
  queue nat s = queue nat t /\ received nat s = received nat t /\ outcomes nat s = outcomes nat t /\
  termd nat s = termd nat t /\ calls nat s = calls nat t.

Definition sim (s : st nat) (c : nat) (seen : list line) (t : st nat) : Prop :=
  host_eq s t /\ from_dev nat t = skipn c seen /\ dev_pending nat t = skipn (nterm_seen seen) (received nat s) /\
  (c <= length seen)%nat /\ (nterm_seen seen <= length (received nat s))%nat.

Lemma skipn_app_le {A} n (l r : list A) : (n <= length l)%nat -> skipn n (l ++ r) = skipn n l ++ r.
Proof. revert l. induction n as [|n IH]; intros l H; [reflexivity|]. destruct l as [|a l]; cbn in *; [lia|]. apply IH. lia. Qed.

Lemma skipn_nth {A} (l : list A) c x : nth_error l c = Some x -> skipn c l = x :: skipn (Datatypes.S c) l.
Proof.
  revert l. induction c as [|c IH]; intros l H; destruct l as [|a l]; cbn in *; try discriminate; [now injection H as ->|now apply IH].
Qed.

Lemma nterm_app seen l : nterm_seen (seen ++ [l]) = (nterm_seen seen + (if is_term l then 1 else 0))%nat.
Proof. unfold nterm_seen. rewrite filter_app, app_length. cbn. destruct (is_term l); reflexivity. Qed.

Lemma skipn_tl {A} n (l : list A) : tl (skipn n l) = skipn (Datatypes.S n) l.
Proof.
  revert l. induction n as [|n IH]; intros l; destruct l as [|a l]; try reflexivity.
  change (skipn (Datatypes.S n) (a :: l)) with (skipn n l). change (skipn (Datatypes.S (Datatypes.S n)) (a :: l)) with (skipn (Datatypes.S n) l).
  apply IH.
Qed.

Theorem hrun_is_run : forall evs x seen x' seen', hrun evs x seen x' seen' ->
  forall t, sim (fst x) (snd x) seen t -> answerable evs (length (received nat (fst x))) (nterm_seen seen) = true ->
  exists ls t', run nat ls t = Some t' /\ observe ls t = evs /\ host_eq (fst x') t'.
Proof.
  induction 1 as [x seen|evs s c seen l x' seen' Hn _ IH|evs x seen l x' seen' _ IH|evs s c seen s1 x' seen' Hs _ IH
                  |evs s c seen s1 o x' seen' Hs Ho _ IH|evs s c seen s1 v q rest x' seen' Hq Hv Hs _ IH];
    intros t Hsim Hans.
  - exists [], t. destruct Hsim as (Hh & _). repeat split; auto; apply Hh.
  - (* the reader handles an observed line *)
    cbn [fst snd] in *. destruct Hsim as (Hh & Hfd & Hdp & Hc & Hn2).
    rewrite (skipn_nth _ _ _ Hn) in Hfd.
    destruct Hh as (H1 & H2 & H3 & H4 & H5 & H6 & H7 & H8 & H9).
    assert (Hstep : exists t1, step nat Read t = Some t1 /\ sim (handle s l) (Datatypes.S c) seen t1).
    { unfold handle, with_line. cbn [step from_dev]. rewrite Hfd.
      destruct l; eexists; (split; [reflexivity|]); unfold sim, host_eq; cbn;
        (repeat split; try assumption; try congruence; try (apply nth_error_Some; congruence) || idtac).
      all: try (apply Nat.lt_le_incl || idtac); try (apply nth_error_Some; congruence). }
    destruct Hstep as (t1 & Ht1 & Hsim1).
    assert (Hrec : received nat (handle s l) = received nat s) by (unfold handle, with_line; destruct l; reflexivity).
    destruct (IH t1 Hsim1) as (ls & t' & Hrun & Hobs & Hhost); [cbn [fst]; rewrite Hrec; exact Hans|].
    exists (Read :: ls), t'. cbn [run observe]. rewrite Ht1. split; [exact Hrun|split; [exact Hobs|exact Hhost]].
  - (* a line is observed: the device emits it *)
    destruct x as [s c]. cbn [fst snd] in *. destruct Hsim as (Hh & Hfd & Hdp & Hc & Hn2).
    cbn [answerable] in Hans.
    assert (Hstep : exists t1, step nat (dev_label l) t = Some t1 /\ sim s c (seen ++ [l]) t1 /\
                               (forall ls, observe (dev_label l :: ls) t = ERx l :: observe ls t1)).
    { destruct (is_term l) eqn:El.
      - apply andb_prop in Hans as [Hlt _]. apply Nat.ltb_lt in Hlt.
        assert (Hne : exists p rest, dev_pending nat t = p :: rest /\ rest = skipn (Datatypes.S (nterm_seen seen)) (received nat s)).
        { rewrite Hdp. destruct (skipn (nterm_seen seen) (received nat s)) as [|p rest] eqn:E.
          - exfalso. assert (length (skipn (nterm_seen seen) (received nat s)) = 0%nat) by now rewrite E. rewrite skipn_length in H. lia.
          - exists p, rest. split; [reflexivity|]. rewrite <- skipn_tl, E. reflexivity. }
        destruct Hne as (p & rest & Hp & Hrest).
        destruct l; try discriminate El; cbn [dev_label step]; rewrite Hp; eexists; (split; [reflexivity|]); (split; [|intros ls; cbn [observe step]; rewrite Hp; reflexivity]);
          unfold sim, host_eq in *; cbn; rewrite nterm_app; cbn; rewrite Nat.add_1_r, app_length; cbn;
          (repeat split; try apply Hh; try (rewrite Hfd; symmetry; apply skipn_app_le; exact Hc); try exact Hrest; try lia).
      - destruct l; try discriminate El; cbn [dev_label step]; eexists; (split; [reflexivity|]); (split; [|intros ls; reflexivity]);
          unfold sim, host_eq in *; cbn; rewrite nterm_app; cbn; rewrite Nat.add_0_r, app_length; cbn;
          (repeat split; try apply Hh; try (rewrite Hfd; symmetry; apply skipn_app_le; exact Hc); try exact Hdp; try lia). }
    destruct Hstep as (t1 & Ht1 & Hsim1 & Hobs1).
    destruct (IH t1 Hsim1) as (ls & t' & Hrun & Hobs & Hhost).
    { cbn [fst]. rewrite nterm_app. destruct (is_term l); [apply andb_prop in Hans as [_ Hans]; rewrite Nat.add_1_r|rewrite Nat.add_0_r]; exact Hans. }
    exists (dev_label l :: ls), t'. cbn [run]. rewrite Ht1. split; [exact Hrun|]. split; [rewrite Hobs1, Hobs; reflexivity|exact Hhost].
  - (* write() is called *)
    cbn [fst snd] in *. destruct Hsim as (Hh & Hfd & Hdp & Hc & Hn2). destruct Hh as (H1 & H2 & H3 & H4 & H5 & H6 & H7 & H8 & H9).
    assert (Hstep : exists t1, step nat CallWrite t = Some t1 /\ sim s1 c seen t1).
    { cbn [step] in *. rewrite <- H1, <- H2. destruct (ph nat s); [|discriminate]. destruct (todo nat s) as [|y ys]; [discriminate|].
      injection Hs as <-. eexists. split; [reflexivity|]. unfold sim, host_eq. cbn. repeat split; try assumption; congruence. }
    destruct Hstep as (t1 & Ht1 & Hsim1).
    assert (Hrec : received nat s1 = received nat s).
    { cbn [step] in Hs. destruct (ph nat s); [|discriminate]. destruct (todo nat s); [discriminate|]. now injection Hs as <-. }
    destruct (IH t1 Hsim1) as (ls & t' & Hrun & Hobs & Hhost); [cbn [fst]; rewrite Hrec; exact Hans|].
    exists (CallWrite :: ls), t'. cbn [run observe]. rewrite Ht1. split; [exact Hrun|split; [now rewrite Hobs|exact Hhost]].
  - (* write() returns *)
    cbn [fst snd] in *. destruct Hsim as (Hh & Hfd & Hdp & Hc & Hn2). destruct Hh as (H1 & H2 & H3 & H4 & H5 & H6 & H7 & H8 & H9).
    assert (Hstep : exists t1, step nat Return t = Some t1 /\ sim s1 c seen t1 /\ outcomes nat t1 = outcomes nat s1).
    { cbn [step] in *. rewrite <- H1, <- H2, <- H3. destruct (ph nat s); [discriminate|]. destruct (ack nat s); [|discriminate].
      destruct (todo nat s) as [|y ys]; [discriminate|]. injection Hs as <-. eexists. split; [reflexivity|].
      unfold sim, host_eq. cbn. repeat split; try assumption; try congruence; rewrite H4, H7; reflexivity. }
    destruct Hstep as (t1 & Ht1 & Hsim1 & Hout).
    assert (Hrec : received nat s1 = received nat s).
    { cbn [step] in Hs. destruct (ph nat s); [discriminate|]. destruct (ack nat s); [|discriminate]. destruct (todo nat s); [discriminate|]. now injection Hs as <-. }
    destruct (IH t1 Hsim1) as (ls & t' & Hrun & Hobs & Hhost); [cbn [fst]; rewrite Hrec; exact Hans|].
    exists (Return :: ls), t'. cbn [run observe]. rewrite Ht1. split; [exact Hrun|]. split; [|exact Hhost].
    rewrite Hout. unfold last_outcome_is in Ho. destruct (rev (outcomes nat s1)) as [|o1 r]; [discriminate|].
    rewrite Hobs. f_equal. f_equal. destruct o1, o; try reflexivity; discriminate.
  - (* the sender thread transmits, the device receives *)
    cbn [fst snd] in *. destruct Hsim as (Hh & Hfd & Hdp & Hc & Hn2). destruct Hh as (H1 & H2 & H3 & H4 & H5 & H6 & H7 & H8 & H9).
    cbn [answerable] in Hans.
    assert (Hstep : exists t1, step nat Send t = Some t1 /\ sim s1 c seen t1).
    { cbn [step] in *. rewrite <- H5. rewrite Hq in *. injection Hs as <-. eexists. split; [reflexivity|].
      unfold sim, host_eq. cbn. rewrite app_length. cbn. repeat split; try assumption; try congruence; try lia.
      rewrite Hdp. symmetry. apply skipn_app_le. exact Hn2. }
    destruct Hstep as (t1 & Ht1 & Hsim1).
    assert (Hrec : received nat s1 = received nat s ++ [q]).
    { cbn [step] in Hs. rewrite Hq in Hs. now injection Hs as <-. }
    destruct (IH t1 Hsim1) as (ls & t' & Hrun & Hobs & Hhost).
    { cbn [fst]. rewrite Hrec, app_length. cbn. rewrite Nat.add_1_r. exact Hans. }
    exists (Send :: ls), t'. cbn [run observe]. rewrite Ht1. split; [exact Hrun|]. split; [|exact Hhost].
    rewrite <- H5, Hq, Hobs, Hv. reflexivity.
Qed.

(* accepted traces are runs: the checker's verdict applies the theorems about runs to the observed trace *)
Theorem accepted_trace_is_run stmts evs : check_trace stmts evs = true -> answerable evs 0 0 = true ->
  exists ls t, run nat ls (init nat stmts 0) = Some t /\ observe ls (init nat stmts 0) = evs.
Proof.
  intros Hc Ha. destruct (check_trace_sound _ _ Hc) as (x' & seen' & Hr).
  destruct (hrun_is_run _ _ _ _ _ Hr (init nat stmts 0)) as (ls & t' & Hrun & Hobs & _).
  - unfold sim, host_eq. cbn. repeat split; auto.
  - exact Ha.
  - eauto.
Qed.
